(* DenormFacts.v — the normal form is a fixed point of the parser (property C14, third sentence), for ALL normalised
   equations that satisfy the decidable conditions Denorm.dq_ok:

     normal_form_fixed_point   parse_equation_M (denorm_text q)
                               = of_outcome (equation_symbols (neq_text q) (neq_code q) (neq_terms q))

   i.e. feeding NAME[0] / NAME[+k] / NAME[-k] for NAME[t] / NAME[t+k] / NAME[t-k] back to parse_equation makes it compute the
   very same normalised equation text, the very same code text and the terms of the token list, and hand them to the
   symbol-table loop; equation_symbols_texts then says that no symbol of the result carries any other equation or code. *)
From Coq Require Import String Ascii List Bool Arith Lia ZArith.
Import ListNotations.
Require Import Generated PyBase PyStr Lex Format Symbols SymbolsFacts Split SplitFacts Merge ParseEq ParseContribFacts GLex GLexFacts GNorm GNormFacts.
Require Import Layout LayoutNorm LayoutLex LayoutSplit ContSplit GraphEvalWf Denorm DenormInt DenormLex.
Open Scope string_scope.
Open Scope nat_scope.

(* ================================================================== template *)
Lemma template_items lay l : forall pos, template_of (items_of pos (dpieces lay l)) = ttemplate l.
Proof.
  unfold dpieces. induction l as [|x l IH]; intros pos; [reflexivity|].
  destruct x; cbn [map dpiece items_of template_of ttemplate]; rewrite IH; reflexivity.
Qed.

(* ================================================================== str.format on a template of "{}" fields *)
Definition ftoks (l : list ntok) : list ftok := map (fun x => match x with NChr c => FLit c | _ => FAuto end) l.

Lemma ftokens_ttemplate l : nobrace l = true -> ftokens MText (ttemplate l) = ftoks l.
Proof.
  unfold nobrace, ftoks. induction l as [|x l IH]; intros H; [reflexivity|]. cbn [forallb] in H. apply andb_true_iff in H as [Hx Hl].
  destruct x as [name i|name|k|body|c]; cbn [ttemplate map].
  1-4: cbn [append ftokens]; replace (Ascii.eqb "{" "{") with true by reflexivity; cbn [ftokens];
       replace (Ascii.eqb "}" "{") with false by reflexivity; replace (Ascii.eqb "}" "}") with true by reflexivity; rewrite (IH Hl); reflexivity.
  apply andb_true_iff in Hx as [H1 H2]. apply negb_true_iff in H1, H2. cbn [ftokens]. rewrite H1, H2, (IH Hl). reflexivity.
Qed.

Fixpoint weave (f : ntok -> string) (l : list ntok) : string :=
  match l with
  | [] => ""
  | NChr c :: r => String c (weave f r)
  | x :: r => f x ++ weave f r
  end.
Fixpoint term_toks (l : list ntok) : list ntok :=
  match l with [] => [] | NChr _ :: r => term_toks r | x :: r => x :: term_toks r end.

Lemma ffill_weave f l : forall pre num, num <> NManual ->
  ffill (pre ++ map f (term_toks l)) (length pre) num (ftoks l) = FOk (weave f l).
Proof.
  unfold ftoks. induction l as [|x l IH]; intros pre num Hn; [reflexivity|].
  assert (STEP : forall y, x = y -> is_term_tok y = true ->
            ffill (pre ++ map f (y :: term_toks l)) (length pre) num (FAuto :: map (fun x => match x with NChr c => FLit c | _ => FAuto end) l)
            = FOk (f y ++ weave f l)).
  { intros y _ _. cbn [ffill map]. destruct num; [| |congruence].
    - rewrite nth_error_app2 by lia. rewrite Nat.sub_diag. cbn [nth_error].
      replace (pre ++ f y :: map f (term_toks l))%list with ((pre ++ [f y]) ++ map f (term_toks l))%list by (rewrite <- app_assoc; reflexivity).
      replace (S (length pre)) with (length (pre ++ [f y])) by (rewrite app_length; cbn; lia).
      rewrite (IH (pre ++ [f y])%list NAuto) by discriminate. reflexivity.
    - rewrite nth_error_app2 by lia. rewrite Nat.sub_diag. cbn [nth_error].
      replace (pre ++ f y :: map f (term_toks l))%list with ((pre ++ [f y]) ++ map f (term_toks l))%list by (rewrite <- app_assoc; reflexivity).
      replace (S (length pre)) with (length (pre ++ [f y])) by (rewrite app_length; cbn; lia).
      rewrite (IH (pre ++ [f y])%list NAuto) by discriminate. reflexivity. }
  destruct x as [name i|name|k|body|c]; cbn [map term_toks weave].
  1-4: apply STEP; reflexivity.
  cbn [ffill]. rewrite (IH pre num Hn). reflexivity.
Qed.

Theorem format_weave f l : nobrace l = true -> py_format (ttemplate l) (map f (term_toks l)) = FOk (weave f l).
Proof. intros H. unfold py_format. rewrite (ftokens_ttemplate l H). apply (ffill_weave f l [] NNone). discriminate. Qed.

Lemma weave_text l : weave ntok_text l = nflat l.
Proof. induction l as [|x l IH]; [reflexivity|]. destruct x; cbn [weave nflat ntok_text]; rewrite IH; reflexivity. Qed.
Lemma weave_code l : weave tok_code l = cflat l.
Proof. induction l as [|x l IH]; [reflexivity|]. destruct x; cbn [weave cflat]; rewrite IH; reflexivity. Qed.

(* ================================================================== the normaliser on token lists *)
(* the three substitutions of normalise_template, acting on a token list: a term stands for "{}" (no blank, no bracket) *)
Fixpoint tws (f : bool) (l : list ntok) : list ntok :=
  match l with
  | [] => []
  | NChr c :: r => if is_space c then (if f then tws true r else NChr " " :: tws true r) else NChr c :: tws false r
  | x :: r => x :: tws false r
  end.
Fixpoint topen (f : bool) (l : list ntok) : list ntok :=
  match l with
  | [] => []
  | NChr c :: r => if f && is_space c then topen true r else NChr c :: topen (Ascii.eqb c "(") r
  | x :: r => x :: topen false r
  end.
Definition starts_close (l : list ntok) : bool := match l with NChr c :: _ => Ascii.eqb c ")" | _ => false end.
Fixpoint tclose (l : list ntok) : list ntok :=
  match l with
  | [] => []
  | NChr c :: r => let r' := tclose r in if is_space c && starts_close r' then r' else NChr c :: r'
  | x :: r => x :: tclose r
  end.
Definition nrm (l : list ntok) : list ntok := tclose (topen false (tws false l)).

Lemma brace_facts : is_space "{" = false /\ is_space "}" = false /\ Ascii.eqb "{" "(" = false /\ Ascii.eqb "}" "(" = false.
Proof. vm_compute. repeat split; reflexivity. Qed.

Lemma sub_ws_tokens l : forall f, sub_ws f (ttemplate l) = ttemplate (tws f l).
Proof.
  destruct brace_facts as (B1 & B2 & _ & _).
  induction l as [|x l IH]; intros f; [reflexivity|].
  destruct x as [name i|name|k|body|c]; cbn [ttemplate tws].
  1-4: cbn [append sub_ws]; rewrite B1, B2, IH; reflexivity.
  cbn [sub_ws]. destruct (is_space c); [destruct f|]; cbn [ttemplate]; rewrite IH; reflexivity.
Qed.
Lemma sub_open_tokens l : forall f, sub_open f (ttemplate l) = ttemplate (topen f l).
Proof.
  destruct brace_facts as (B1 & B2 & B3 & B4).
  induction l as [|x l IH]; intros f; [reflexivity|].
  destruct x as [name i|name|k|body|c]; cbn [ttemplate topen].
  1-4: cbn [append sub_open]; rewrite B1, B2, B3, B4, !andb_false_r, IH; reflexivity.
  cbn [sub_open]. destruct (f && is_space c); cbn [ttemplate]; rewrite IH; reflexivity.
Qed.
Lemma head_close_template l : head_is ")" (ttemplate l) = starts_close l.
Proof. destruct l as [|x l]; [reflexivity|]. destruct x; reflexivity. Qed.
Lemma sub_close_tokens l : sub_close (ttemplate l) = ttemplate (tclose l).
Proof.
  destruct brace_facts as (B1 & B2 & _ & _).
  induction l as [|x l IH]; [reflexivity|].
  destruct x as [name i|name|k|body|c]; cbn [ttemplate tclose].
  1-4: cbn [append sub_close]; rewrite B1, B2, IH; cbn [andb]; reflexivity.
  cbn [sub_close]. rewrite IH, head_close_template. destruct (is_space c && starts_close (tclose l)); reflexivity.
Qed.
Theorem normalise_tokens l : normalise_template (ttemplate l) = ttemplate (nrm l).
Proof. unfold normalise_template, nrm. rewrite sub_ws_tokens, sub_open_tokens, sub_close_tokens. reflexivity. Qed.

(* the passes drop or replace blanks only: the terms stay, no brace appears *)
Lemma tws_terms l : forall f, term_toks (tws f l) = term_toks l.
Proof. induction l as [|x l IH]; intros f; [reflexivity|]. destruct x as [| | | |c]; cbn [tws term_toks]; rewrite ?IH; try reflexivity.
  destruct (is_space c); [destruct f|]; cbn [term_toks]; apply IH. Qed.
Lemma topen_terms l : forall f, term_toks (topen f l) = term_toks l.
Proof. induction l as [|x l IH]; intros f; [reflexivity|]. destruct x as [| | | |c]; cbn [topen term_toks]; rewrite ?IH; try reflexivity.
  destruct (f && is_space c); cbn [term_toks]; apply IH. Qed.
Lemma tclose_terms l : term_toks (tclose l) = term_toks l.
Proof. induction l as [|x l IH]; [reflexivity|]. destruct x as [| | | |c]; cbn [tclose term_toks]; rewrite ?IH; try reflexivity.
  destruct (is_space c && starts_close (tclose l)); cbn [term_toks]; exact IH. Qed.
Lemma nrm_terms l : term_toks (nrm l) = term_toks l.
Proof. unfold nrm. rewrite tclose_terms, topen_terms, tws_terms. reflexivity. Qed.

Lemma tws_nobrace l : forall f, nobrace l = true -> nobrace (tws f l) = true.
Proof.
  unfold nobrace. induction l as [|x l IH]; intros f H; [reflexivity|]. cbn [forallb] in H. apply andb_true_iff in H as [Hx Hl].
  destruct x as [| | | |c]; cbn [tws forallb]; rewrite ?(IH _ Hl); try reflexivity.
  destruct (is_space c); [destruct f|]; cbn [forallb]; rewrite ?(IH _ Hl), ?Hx; reflexivity.
Qed.
Lemma topen_nobrace l : forall f, nobrace l = true -> nobrace (topen f l) = true.
Proof.
  unfold nobrace. induction l as [|x l IH]; intros f H; [reflexivity|]. cbn [forallb] in H. apply andb_true_iff in H as [Hx Hl].
  destruct x as [| | | |c]; cbn [topen forallb]; rewrite ?(IH _ Hl); try reflexivity.
  destruct (f && is_space c); cbn [forallb]; rewrite ?(IH _ Hl), ?Hx; reflexivity.
Qed.
Lemma tclose_nobrace l : nobrace l = true -> nobrace (tclose l) = true.
Proof.
  unfold nobrace. induction l as [|x l IH]; intros H; [reflexivity|]. cbn [forallb] in H. apply andb_true_iff in H as [Hx Hl].
  destruct x as [| | | |c]; cbn [tclose forallb]; rewrite ?(IH Hl); try reflexivity.
  destruct (is_space c && starts_close (tclose l)); cbn [forallb]; rewrite ?(IH Hl), ?Hx; reflexivity.
Qed.
Lemma nrm_nobrace l : nobrace l = true -> nobrace (nrm l) = true.
Proof. intros H. unfold nrm. apply tclose_nobrace, topen_nobrace, tws_nobrace, H. Qed.

(* ================================================================== str(term) and term.code of the tokens *)
Definition indexed_ty (ty : ptype) : bool := match ty with TFunction | TKeyword | TVerbatim => false | _ => true end.
Lemma term_str_indexed name ty i : indexed_ty ty = true -> term_str (mkTerm name ty (Some i)) = Some (term_text name i).
Proof.
  intros H. unfold term_str. cbn [ttype tindex tname]. unfold term_text, idx_body.
  destruct ty; try discriminate; (destruct i as [z|s]; [destruct (0 <? z)%Z; [|destruct (z =? 0)%Z]|]; cbn [append]; rewrite ?sapp_assoc; reflexivity).
Qed.
Lemma term_code_indexed name ty i : indexed_ty ty = true ->
  term_code (mkTerm name ty (Some i)) = Some (tok_code (NTerm name i)).
Proof.
  intros H. unfold tok_code. cbn [tok_term]. unfold term_code.
  rewrite (term_str_indexed name ty i H), (term_str_indexed name TExogenous i eq_refl). cbn [ttype tindex tname].
  destruct ty; try discriminate; destruct i; reflexivity.
Qed.
Lemma style_type_indexed side s : side = TEndogenous \/ side = TExogenous -> indexed_ty (style_type side s) = true.
Proof. intros [-> | ->]; destruct s; reflexivity. Qed.

Lemma all_some_app {A} (a b : list (option A)) x y : all_some a = Some x -> all_some b = Some y -> all_some (a ++ b) = Some (x ++ y)%list.
Proof.
  revert x. induction a as [|[v|] a IH]; intros x Ha Hb; cbn [all_some app] in *.
  - inversion Ha; subst. exact Hb.
  - destruct (all_some a) as [xs|]; [|discriminate]. inversion Ha; subst. rewrite (IH xs eq_refl Hb). reflexivity.
  - discriminate.
Qed.
Lemma strs_of_terms lay ty l : ty = TEndogenous \/ ty = TExogenous ->
  all_some (map term_str (lay_terms lay ty l)) = Some (map ntok_text (term_toks l)) /\
  all_some (map term_code (lay_terms lay ty l)) = Some (map tok_code (term_toks l)).
Proof.
  intros Hty. induction l as [|x l [IH1 IH2]]; [split; reflexivity|].
  destruct x as [name i|name|k|body|c]; cbn [lay_terms lay_term tok_term term_toks map all_some]; [| | | |split; assumption].
  - rewrite (term_str_indexed _ _ _ (style_type_indexed ty _ Hty)), (term_code_indexed _ _ _ (style_type_indexed ty _ Hty)), IH1, IH2. split; reflexivity.
  - rewrite IH1, IH2. split; reflexivity.
  - rewrite IH1, IH2. split; reflexivity.
  - rewrite IH1, IH2. split; reflexivity.
Qed.

(* ================================================================== the prelude of parse_equation *)
Lemma splitlines_nosep s : forall cur,
  all_chars (fun c => negb (is_linesep c)) s = true -> (cur <> "" \/ s <> "") -> splitlines_aux cur s = [srev cur ++ s].
Proof.
  induction s as [|c s IH]; intros cur H Hne.
  - destruct Hne as [Hc|Hc]; [|congruence]. cbn [splitlines_aux]. destruct cur; [congruence|]. rewrite sapp_nil_r. reflexivity.
  - cbn [all_chars] in H. apply andb_true_iff in H as [Hc Hs]. apply negb_true_iff in Hc. cbn [splitlines_aux]. rewrite Hc.
    rewrite (IH (String c cur) Hs) by (left; discriminate).
    change (srev (String c cur)) with (rev_str cur (String c "")). rewrite rev_str_acc, sapp_assoc. reflexivity.
Qed.

Lemma count_char_absent ch s : has_char ch s = false -> count_char ch s = 0.
Proof.
  induction s as [|c s IH]; [reflexivity|]. cbn [has_char count_char]. intros H. apply orb_false_iff in H as [H1 H2].
  rewrite H1, (IH H2). reflexivity.
Qed.

Lemma span_while_prefix p a x : all_chars p a = true ->
  span_while p (a ++ x) = (a ++ fst (span_while p x), snd (span_while p x)).
Proof.
  induction a as [|c a IH]; intros H; cbn [append]; [destruct (span_while p x); reflexivity|].
  cbn [all_chars] in H. apply andb_true_iff in H as [Hc Ha]. cbn [span_while]. rewrite Hc, (IH Ha). reflexivity.
Qed.

(* a text  A blanks = B  with A non-empty and free of whitespace passes equation_re (alternative A4) *)
Lemma alt_single_assign A W B :
  A <> "" -> all_chars (fun c => negb (is_space c)) A = true -> blanks W = true -> alt_single (A ++ W ++ String "=" B) = true.
Proof.
  intros Hne HA HW. destruct A as [|c A']; [congruence|]. cbn [append]. unfold alt_single.
  pose proof HA as HA0. cbn [all_chars] in HA0. apply andb_true_iff in HA0 as [Hc _]. apply negb_true_iff in Hc. rewrite Hc.
  change (String c (A' ++ W ++ String "=" B)) with (String c A' ++ W ++ String "=" B).
  rewrite (span_while_prefix (fun c => negb (is_space c)) (String c A') _ HA).
  destruct W as [|w W'].
  - cbn [append]. cbn [span_while]. replace (is_space "=") with false by (vm_compute; reflexivity). cbn [negb].
    destruct (span_while (fun c => negb (is_space c)) B) as [b1 b2]. cbn [fst snd append].
    rewrite has_char_app. cbn [has_char]. rewrite Ascii.eqb_refl, orb_true_r. reflexivity.
  - unfold blanks in HW. pose proof HW as HW0. cbn [all_chars] in HW0. apply andb_true_iff in HW0 as [Hw _].
    cbn [append span_while]. rewrite Hw. cbn [negb fst snd]. rewrite sapp_nil_r. cbn [append].
    unfold skip_ws. change (String w (W' ++ String "=" B)) with (String w W' ++ String "=" B).
    rewrite (span_while_all is_space (String w W') (String "=" B) HW) by reflexivity. cbn [snd head_is]. rewrite Ascii.eqb_refl. apply orb_true_r.
Qed.

Lemma alpha_not_pyspace : forall c, is_alpha_ c = true -> negb (is_pyspace c) && negb (is_space c) = true.
Proof. sweep. Qed.
Lemma idc_not_space : forall c, is_idc c = true -> negb (is_space c) && negb (Ascii.eqb c "=") = true.
Proof. sweep. Qed.
Lemma idxc_not_space_eq : forall c, idxc c = true -> negb (is_space c) && negb (Ascii.eqb c "=") = true.
Proof. sweep. Qed.
Lemma space_inert : forall c, is_space c = true -> inert c && negb (Ascii.eqb c "=") = true.
Proof. sweep. Qed.

Lemma bare_follow_nil : bare_follow "" = true. Proof. reflexivity. Qed.
Lemma bare_follow_eq r : bare_follow (String "=" r) = true.
Proof. unfold bare_follow, skip_ws. cbn [head_not span_while]. replace (is_space "=") with false by (vm_compute; reflexivity).
  replace (is_fnc "=") with false by (vm_compute; reflexivity). reflexivity. Qed.
Lemma bare_follow_blanks W k : blanks W = true -> bare_follow k = true -> bare_follow (W ++ k) = true.
Proof.
  intros HW Hk. destruct W as [|w W']; [exact Hk|]. unfold blanks in HW. pose proof HW as HW0. cbn [all_chars] in HW0.
  apply andb_true_iff in HW0 as [Hw _]. unfold bare_follow in *. apply andb_true_iff in Hk as [Hk Hp].
  cbn [append head_not]. pose proof (space_not_fnc w Hw) as F. pose proof (space_not_special w Hw) as S.
  repeat (apply andb_true_iff in S as [S ?]). rewrite F. cbn [andb].
  match goal with H : negb (Ascii.eqb w "[") = true |- _ => rewrite H end. cbn [andb].
  unfold skip_ws in *. change (String w (W' ++ k)) with (String w W' ++ k). rewrite (span_while_prefix is_space (String w W') k HW). exact Hp.
Qed.

Section Fixed.
  Variable lay : layout.
  Variable y : string.
  Variable ky : Z.
  Variable ws rhs : list ntok.
  Let lhs : list ntok := NTerm y (IInt ky) :: ws.
  Let q : neq := mkNeq lhs rhs.
  Let whole : list ntok := whole_toks q.
  Hypothesis Hid : is_ident y = true.
  Hypothesis Hkw : kw_free y = true.
  Hypothesis Hshort : short_int ky = true.
  Hypothesis Hlhs : lhs_lay_ok (lay y (IInt ky)) ky = true.     (* plain NAME[k], no blanks inside: findings #14, #22 *)
  Hypothesis Hws : forallb (fun x => match x with NChr c => is_space c | _ => false end) ws = true.
  Hypothesis Hrhs : dwf_k lay false rhs "" = true.
  Hypothesis Hscan : cont_scan 0 (denorm_text lay q) = true.
  Hypothesis Hhash : has_char "#" (denorm_text lay q) = false.
  Hypothesis Hnb : nobrace whole = true.
  Hypothesis Hcnt : Nat.eqb (count_char "{" (denorm_text lay q)) (count_char "}" (denorm_text lay q)) = true.

  (* the blanks after the assigned term *)
  Definition wtext : string := dflat lay ws.
  Lemma ws_chars : blanks wtext = true /\ nflat ws = wtext /\ cflat ws = wtext /\ term_toks ws = [] /\ lay_terms lay TEndogenous ws = []
                   /\ ttemplate ws = wtext /\ (forall pw k, dwf_k lay pw ws k = true).
  Proof.
    unfold wtext, blanks. clear Hrhs Hscan Hhash Hnb Hcnt. induction ws as [|x l IH]; [repeat split; reflexivity|].
    cbn [forallb] in Hws. apply andb_true_iff in Hws as [Hx Hl]. destruct x as [| | | |c]; try discriminate.
    destruct (IH Hl) as (B & N & C & T & K & P & D).
    cbn [Denorm.dflat Denorm.dtext ntok_text all_chars nflat cflat tok_code term_toks lay_terms lay_term tok_term ttemplate append].
    rewrite Hx, B, N, C, T, K, P. repeat split; try reflexivity.
    intros pw k. cbn [Denorm.dwf_k Denorm.dtok_ok ntok_ok]. pose proof (space_inert c Hx) as I. apply andb_true_iff in I as [I _]. rewrite I. cbn [orb andb]. apply D.
  Qed.

  (* the assigned term as written *)
  Definition atext : string := dtext lay (NTerm y (IInt ky)).
  Lemma atext_cases :
    lstyle (lay y (IInt ky)) = SVar /\
    ((exists plus, lindex (lay y (IInt ky)) = Some ("", "", plus) /\ atext = y ++ "[" ++ ibody plus (IInt ky) ++ "]") \/
     (lindex (lay y (IInt ky)) = None /\ atext = y /\ ky = 0%Z)).
  Proof.
    unfold atext. cbn [Denorm.dtext]. unfold lhs_lay_ok in Hlhs. destruct (lay y (IInt ky)) as [s ix]. cbn [lstyle lindex] in *.
    destruct s; try discriminate. split; [reflexivity|]. destruct ix as [[[w1 w2] plus]|].
    - destruct w1; [|discriminate]. destruct w2; [|discriminate]. left. exists plus. split; [reflexivity|].
      cbn [style_text index_text]. unfold idx_text. cbn [append]. reflexivity.
    - right. apply Z.eqb_eq in Hlhs. cbn [style_text index_text]. rewrite sapp_nil_r. auto.
  Qed.

  Lemma atext_nospace : all_chars (fun c => negb (is_space c)) atext = true /\ has_char "=" atext = false /\ atext <> "" /\
                        exists c r, atext = String c r /\ is_alpha_ c = true.
  Proof.
    destruct (ident_nonempty _ Hid) as (c & r & En & Hc & Hall).
    assert (A1 : all_chars (fun c => negb (is_space c) && negb (Ascii.eqb c "=")) y = true)
      by (apply (all_chars_impl is_idc _ y idc_not_space Hall)).
    assert (A : all_chars (fun c => negb (is_space c) && negb (Ascii.eqb c "=")) atext = true).
    { destruct atext_cases as (_ & [(plus & _ & ->)|(_ & -> & _)]); [|exact A1].
      rewrite !all_chars_app, A1, (all_chars_impl idxc _ _ idxc_not_space_eq (ibody_chars plus ky)). reflexivity. }
    split; [|split; [|split]].
    - apply (all_chars_impl _ _ _ (fun c H => proj1 (proj1 (andb_true_iff _ _) H)) A).
    - apply (all_chars_no_char (fun c => negb (is_space c) && negb (Ascii.eqb c "=")) "=" _ eq_refl A).
    - destruct atext_cases as (_ & [(plus & _ & ->)|(_ & -> & _)]); rewrite En; discriminate.
    - destruct atext_cases as (_ & [(plus & _ & ->)|(_ & -> & _)]); rewrite En; cbn [append]; eexists; eexists; (split; [reflexivity|exact Hc]).
  Qed.

  Let E : string := denorm_text lay q.

  Lemma E_shape : E = atext ++ wtext ++ String "=" (dflat lay rhs).
  Proof. unfold E, denorm_text, q, lhs. cbn [nlhs nrhs Denorm.dflat]. fold wtext. fold atext. rewrite sapp_assoc. reflexivity. Qed.

  Lemma E_head : exists c r, E = String c r /\ is_alpha_ c = true.
  Proof.
    destruct atext_nospace as (_ & _ & _ & c & r & Ea & Hc). rewrite E_shape, Ea. cbn [append].
    eexists. eexists. split; [reflexivity|exact Hc].
  Qed.

  Lemma E_not_blank : is_blank E = false.
  Proof.
    destruct E_head as (c & r & -> & Hc). pose proof (alpha_not_pyspace c Hc) as P. apply andb_true_iff in P as [P _].
    apply negb_true_iff in P. unfold is_blank, lstrip_by. cbn [span_while]. rewrite P. reflexivity.
  Qed.

  Lemma E_stmt_ok : stmt_ok E = true.
  Proof.
    destruct atext_nospace as (HA & _ & HAne & _). destruct ws_chars as (HW & _).
    pose proof (alt_single_assign atext wtext (dflat lay rhs) HAne HA HW) as S. rewrite <- E_shape in S.
    destruct E_head as (c & r & Ee & Hc). unfold stmt_ok. rewrite Ee in *. cbn [stmt_ok_from]. unfold alt_here. rewrite S.
    rewrite !orb_true_r. reflexivity.
  Qed.

  Lemma E_split : split_M E = ([E], None).
  Proof.
    assert (F : startswith "```" E = false).
    { destruct E_head as (c & r & -> & Hc). unfold startswith. cbn [prefix_rest].
      pose proof (alpha_not_tick c Hc) as T. apply andb_true_iff in T as [T _]. apply andb_true_iff in T as [T _]. apply negb_true_iff in T.
      rewrite Ascii.eqb_sym, T. reflexivity. }
    apply (split_one_statement E E_not_blank E_stmt_ok F Hscan Hhash).
  Qed.

  Lemma lhs_dwf k : bare_follow k = true -> dwf_k lay false lhs k = true.
  Proof.
    intros Hk. unfold lhs. cbn [Denorm.dwf_k Denorm.dtok_ok]. destruct ws_chars as (HW & _ & _ & _ & _ & _ & D). rewrite (D _ k), andb_true_r.
    unfold short_int in Hshort. rewrite Hid, Hshort, andb_true_r. cbn [andb].
    destruct atext_cases as (Es & [(plus & Ei & _)|(Ei & _ & Ez)]); rewrite Es, Ei; cbn [style_ok index_ok]; rewrite Hkw; cbn [andb].
    - rewrite (idx_ok_ibody plus ky). reflexivity.
    - subst ky. cbn [Z.eqb andb]. fold wtext. apply (bare_follow_blanks wtext k HW Hk).
  Qed.

  Lemma whole_dwf : dwf_k lay false whole "" = true.
  Proof.
    unfold whole, whole_toks, q. cbn [nlhs nrhs]. rewrite dwf_k_app.
    rewrite lhs_dwf by (cbn [Denorm.dflat Denorm.dtext ntok_text append]; apply bare_follow_eq).
    cbn [andb Denorm.dwf_k Denorm.dtok_ok ntok_ok].
    replace (inert "=") with true by (vm_compute; reflexivity). cbn [orb andb Denorm.dtext ntok_text last_word].
    replace (is_word "=") with false by (vm_compute; reflexivity). exact Hrhs.
  Qed.

  Lemma whole_text : dflat lay whole = E.
  Proof. unfold whole, whole_toks, E, denorm_text, q. cbn [nlhs nrhs]. rewrite dflat_app. reflexivity. Qed.

  Lemma E_terms : parse_equation_terms E = Ret (lneq_terms lay q).
  Proof.
    destruct atext_nospace as (_ & HAeq & _). destruct ws_chars as (HW & _ & _ & _ & HK & _).
    assert (Hno : has_char "=" (atext ++ wtext) = false).
    { rewrite has_char_app, HAeq. unfold blanks in HW.
      apply (all_chars_no_char is_space "=" wtext); [vm_compute; reflexivity|exact HW]. }
    unfold parse_equation_terms. rewrite E_shape, <- sapp_assoc, (find_any_app "=" (atext ++ wtext) (dflat lay rhs) Hno).
    assert (EL : atext ++ wtext = dflat lay lhs) by reflexivity.
    rewrite EL, (dparse_terms lay lhs (lhs_dwf "" bare_follow_nil)), (dparse_terms lay rhs Hrhs).
    rewrite (replace_type_terms lay TEndogenous lhs) by discriminate. rewrite (replace_type_terms lay TExogenous rhs) by discriminate.
    rewrite (lay_terms_no_invalid lay TExogenous rhs) by discriminate.
    unfold lneq_terms, q, lhs. cbn [nlhs nrhs lay_terms lay_term]. rewrite HK. destruct atext_cases as (Es & _). rewrite Es.
    cbn [style_type has_type existsb ttype type_eqb orb negb]. reflexivity.
  Qed.

  Lemma term_toks_app a b : term_toks (a ++ b) = (term_toks a ++ term_toks b)%list.
  Proof. induction a as [|x a IH]; [reflexivity|]. destruct x; cbn [term_toks app]; rewrite IH; reflexivity. Qed.

  Lemma E_strs : all_some (map term_str (lneq_terms lay q)) = Some (map ntok_text (term_toks whole)) /\
                 all_some (map term_code (lneq_terms lay q)) = Some (map tok_code (term_toks whole)).
  Proof.
    unfold lneq_terms, q, whole, whole_toks. cbn [nlhs nrhs]. rewrite !map_app, term_toks_app. cbn [term_toks]. rewrite !map_app.
    destruct (strs_of_terms lay TEndogenous lhs (or_introl eq_refl)) as [S1 C1].
    destruct (strs_of_terms lay TExogenous rhs (or_intror eq_refl)) as [S2 C2].
    split; apply all_some_app; assumption.
  Qed.

  (* the template is normalised as a token list *)
  Lemma E_template_general : template E = ttemplate (nrm whole).
  Proof. unfold template. rewrite <- whole_text, (dscan_items lay whole whole_dwf), template_items. apply normalise_tokens. Qed.

  Theorem parse_section_general :
    parse_equation_M E = of_outcome (equation_symbols (nflat (nrm whole)) (cflat (nrm whole)) (lneq_terms lay q)).
  Proof.
    unfold parse_equation_M. rewrite E_not_blank, E_split. cbn [length Nat.eqb negb].
    assert (Hv : head_is "`" E = false).
    { destruct E_head as (c & r & -> & Hc). cbn [head_is].
      pose proof (alpha_not_tick c Hc) as T. apply andb_true_iff in T as [T _]. apply andb_true_iff in T as [T _]. apply negb_true_iff in T. exact T. }
    rewrite Hv. cbn [andb]. fold E in Hcnt. rewrite Hcnt. cbn [negb].
    rewrite E_terms, E_template_general. destruct E_strs as [S C]. rewrite S, C. rewrite <- (nrm_terms whole).
    rewrite (format_weave ntok_text (nrm whole) (nrm_nobrace whole Hnb)), (format_weave tok_code (nrm whole) (nrm_nobrace whole Hnb)).
    rewrite weave_text, weave_code. reflexivity.
  Qed.

  Lemma whole_nflat : nflat whole = neq_text q.
  Proof. unfold whole, whole_toks, neq_text, q. cbn [nlhs nrhs]. rewrite nflat_app. reflexivity. Qed.
  Lemma cflat_app a b : cflat (a ++ b) = cflat a ++ cflat b.
  Proof. induction a as [|x a IH]; [reflexivity|]. cbn [cflat app]. rewrite IH, sapp_assoc. reflexivity. Qed.
  Lemma whole_cflat : cflat whole = neq_code q.
  Proof. unfold whole, whole_toks, neq_code, q. cbn [nlhs nrhs]. rewrite cflat_app. reflexivity. Qed.

  (* … and when the character skeleton is already in normal form, the texts are those of q itself *)
  Hypothesis Hnorm : normal (ttemplate whole) = true.
  Lemma E_template : template E = ttemplate whole.
  Proof. unfold template. rewrite <- whole_text, (dscan_items lay whole whole_dwf), template_items. apply normal_fixed, Hnorm. Qed.

  Theorem fixed_point_section :
    parse_equation_M E = of_outcome (equation_symbols (neq_text q) (neq_code q) (lneq_terms lay q)).
  Proof.
    unfold parse_equation_M. rewrite E_not_blank, E_split. cbn [length Nat.eqb negb].
    assert (Hv : head_is "`" E = false).
    { destruct E_head as (c & r & -> & Hc). cbn [head_is].
      pose proof (alpha_not_tick c Hc) as T. apply andb_true_iff in T as [T _]. apply andb_true_iff in T as [T _]. apply negb_true_iff in T. exact T. }
    rewrite Hv. cbn [andb]. fold E in Hcnt. rewrite Hcnt. cbn [negb].
    rewrite E_terms, E_template. destruct E_strs as [S C]. rewrite S, C.
    rewrite (format_weave ntok_text whole Hnb), (format_weave tok_code whole Hnb).
    rewrite weave_text, weave_code, whole_nflat, whole_cflat. reflexivity.
  Qed.
End Fixed.

(* ================================================================== the theorems, from the decidable conditions *)
Lemma dq_ok_ws_parts lay y ky ws r :
  dq_ok_ws lay (mkNeq (NTerm y (IInt ky) :: ws) r) = true ->
  is_ident y = true /\ kw_free y = true /\ short_int ky = true /\ lhs_lay_ok (lay y (IInt ky)) ky = true /\
  forallb (fun x => match x with NChr c => is_space c | _ => false end) ws = true /\ dwf_k lay false r "" = true /\
  cont_scan 0 (denorm_text lay (mkNeq (NTerm y (IInt ky) :: ws) r)) = true /\
  has_char "#" (denorm_text lay (mkNeq (NTerm y (IInt ky) :: ws) r)) = false /\
  nobrace (whole_toks (mkNeq (NTerm y (IInt ky) :: ws) r)) = true /\
  Nat.eqb (count_char "{" (denorm_text lay (mkNeq (NTerm y (IInt ky) :: ws) r))) (count_char "}" (denorm_text lay (mkNeq (NTerm y (IInt ky) :: ws) r))) = true.
Proof.
  unfold dq_ok_ws. cbn [nlhs nrhs]. intros H.
  apply andb_true_iff in H as [H Hcnt]. apply andb_true_iff in H as [H Hnb].
  apply andb_true_iff in H as [H Hhash]. apply andb_true_iff in H as [H Hscan]. apply andb_true_iff in H as [H Hrhs]. apply andb_true_iff in H as [H Hws].
  apply andb_true_iff in H as [H Hl]. apply andb_true_iff in H as [H Hshort]. apply andb_true_iff in H as [Hid Hkw].
  apply negb_true_iff in Hhash. repeat split; assumption.
Qed.

(* any runs of blanks: the parse depends on the normalised token list only *)
Theorem parse_denorm_general lay q :
  dq_ok_ws lay q = true ->
  parse_equation_M (denorm_text lay q)
  = of_outcome (equation_symbols (nflat (nrm (whole_toks q))) (cflat (nrm (whole_toks q))) (lneq_terms lay q)).
Proof.
  destruct q as [l r]. destruct l as [|[y [ky|s]| | | |] ws]; try discriminate.
  intros H. destruct (dq_ok_ws_parts lay y ky ws r H) as (Hid & Hkw & Hshort & Hl & Hws & Hrhs & Hscan & Hhash & Hnb & Hcnt).
  apply (parse_section_general lay y ky ws r Hid Hkw Hshort Hl Hws Hrhs Hscan Hhash Hnb Hcnt).
Qed.

Theorem normal_form_fixed_point lay q :
  dq_ok lay q = true ->
  parse_equation_M (denorm_text lay q) = of_outcome (equation_symbols (neq_text q) (neq_code q) (lneq_terms lay q)).
Proof.
  unfold dq_ok. intros H. apply andb_true_iff in H as [H Hnorm].
  destruct q as [l r]. destruct l as [|[y [ky|s]| | | |] ws]; try discriminate.
  destruct (dq_ok_ws_parts lay y ky ws r H) as (Hid & Hkw & Hshort & Hl & Hws & Hrhs & Hscan & Hhash & Hnb & Hcnt).
  apply (fixed_point_section lay y ky ws r Hid Hkw Hshort Hl Hws Hrhs Hscan Hhash Hnb Hcnt Hnorm).
Qed.

(* layout does not matter: two admissible ways of writing the terms of q (blanks inside { } < > [ ], "+" of a lead, [0] written
   or not) that agree on which terms are parameters / errors give the same parse *)
Corollary index_layout_irrelevant lay1 lay2 q :
  dq_ok lay1 q = true -> dq_ok lay2 q = true -> lneq_terms lay1 q = lneq_terms lay2 q ->
  parse_equation_M (denorm_text lay1 q) = parse_equation_M (denorm_text lay2 q).
Proof. intros H1 H2 Ht. rewrite (normal_form_fixed_point lay1 q H1), (normal_form_fixed_point lay2 q H2), Ht. reflexivity. Qed.

(* horizontal whitespace does not matter: two statements whose token lists normalise to the same list (blank runs collapsed,
   blanks after "(" and before ")" dropped) and have the same terms parse to the same result, whatever the layouts of the terms *)
Corollary whitespace_layout_irrelevant lay1 lay2 q1 q2 :
  dq_ok_ws lay1 q1 = true -> dq_ok_ws lay2 q2 = true ->
  nrm (whole_toks q1) = nrm (whole_toks q2) -> lneq_terms lay1 q1 = lneq_terms lay2 q2 ->
  parse_equation_M (denorm_text lay1 q1) = parse_equation_M (denorm_text lay2 q2).
Proof. intros H1 H2 Hn Ht. rewrite (parse_denorm_general lay1 q1 H1), (parse_denorm_general lay2 q2 H2), Hn, Ht. reflexivity. Qed.

(* in the canonical layout every term is a plain variable *)
Lemma canon_terms side l : lay_terms canon side l = tok_terms side l.
Proof. induction l as [|x l IH]; [reflexivity|]. destruct x; cbn [lay_terms lay_term tok_terms tok_term canon lstyle style_type]; rewrite IH; reflexivity. Qed.
Lemma canon_neq_terms q : lneq_terms canon q = neq_terms q.
Proof. unfold lneq_terms, neq_terms. rewrite !canon_terms. reflexivity. Qed.

(* ================================================================== what the symbol-table loop can attach to a symbol *)
Definition tame (eqn code : string) (s : symbol) : Prop :=
  (sequation s = None \/ sequation s = Some eqn) /\ (scode s = None \/ scode s = Some code).

Lemma resolve_strings_tame (x : string) a b c :
  (a = None \/ a = Some x) -> (b = None \/ b = Some x) -> resolve_strings a b = Ret c -> c = None \/ c = Some x.
Proof.
  intros [->| ->] [->| ->]; cbn [resolve_strings]; try (intros E; inversion E; auto; fail).
  rewrite String.eqb_refl. intros E; inversion E; auto.
Qed.
Lemma combine_tame eqn code a b c : tame eqn code a -> tame eqn code b -> combine a b = Ret c -> tame eqn code c.
Proof.
  intros [Ha1 Ha2] [Hb1 Hb2] Hc. destruct (combine_ret a b c Hc) as (_ & _ & He & Hd). split.
  - apply (resolve_strings_tame eqn _ _ _ Ha1 Hb1 He).
  - apply (resolve_strings_tame code _ _ _ Ha2 Hb2 Hd).
Qed.

Lemma go_tame eqn code terms : forall symbols functions d,
  (forall v, In v (dict_values symbols) -> tame eqn code v) ->
  equation_symbols_go eqn code terms symbols functions = Ret d -> forall v, In v (dict_values d) -> tame eqn code v.
Proof.
  induction terms as [|t rest IH]; intros symbols functions d Hs Hgo; cbn [equation_symbols_go] in Hgo.
  - inversion Hgo; subst. exact Hs.
  - assert (COMB : forall sym, tame eqn code sym ->
              match dict_combine (tname t) sym symbols with
              | Ret d0 => equation_symbols_go eqn code rest d0 functions
              | Raise e => Raise e
              end = Ret d -> forall v, In v (dict_values d) -> tame eqn code v).
    { intros sym Hsym Hg. unfold dict_combine in Hg.
      destruct (combine match dict_get (tname t) symbols with Some old => old | None => sym end sym) as [c|] eqn:Ec; [|discriminate].
      assert (Hs' : forall v, In v (dict_values (dict_set (tname t) c symbols)) -> tame eqn code v).
      { intros v Hv. destruct (dict_values_set_in _ _ _ _ Hv) as [->|Hin]; [|apply Hs, Hin].
        refine (combine_tame eqn code _ sym c _ Hsym Ec).
        destruct (dict_get (tname t) symbols) as [old|] eqn:Eg; [apply Hs, (dict_get_in _ _ _ Eg)|exact Hsym]. }
      apply (IH _ _ _ Hs' Hg). }
    destruct (ttype t) eqn:Ety.
    all: try (match type of Hgo with
              | match dict_combine _ ?sym _ with _ => _ end = _ =>
                  apply (COMB sym); [first [split; left; reflexivity | split; right; reflexivity]|exact Hgo]
              end).
    apply (IH _ _ _ Hs Hgo).
Qed.

(* every symbol of the result carries either nothing or exactly the given equation and code *)
Theorem equation_symbols_texts eqn code terms syms :
  equation_symbols eqn code terms = Ret syms -> forall s, In s syms -> tame eqn code s.
Proof.
  unfold equation_symbols. destruct (equation_symbols_go eqn code terms [] []) as [d|] eqn:E; [|discriminate].
  intros H; inversion H; subst. apply (go_tame eqn code terms [] [] d); [intros v []|exact E].
Qed.

Corollary fixed_point_symbols lay q syms :
  dq_ok lay q = true -> parse_equation_M (denorm_text lay q) = POk syms ->
  forall s, In s syms -> tame (neq_text q) (neq_code q) s.
Proof.
  intros Hq Hp. rewrite (normal_form_fixed_point lay q Hq) in Hp.
  destruct (equation_symbols (neq_text q) (neq_code q) (lneq_terms lay q)) as [l|] eqn:E; [|discriminate].
  inversion Hp; subst. apply (equation_symbols_texts _ _ _ _ E).
Qed.

(* the property's own reading: the canonical de-normalisation NAME[0] / NAME[+k] / NAME[-k], every term a plain variable *)
Theorem normal_form_fixed_point_canon q :
  dq_ok canon q = true ->
  parse_equation_M (denorm_text canon q) = of_outcome (equation_symbols (neq_text q) (neq_code q) (neq_terms q)).
Proof. intros H. rewrite (normal_form_fixed_point canon q H), canon_neq_terms. reflexivity. Qed.
