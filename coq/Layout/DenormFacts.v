(* DenormFacts.v — the normal form is a fixed point of the parser (property C14, third sentence), for ALL normalised
   equations that satisfy the decidable conditions Denorm.dq_ok:

     normal_form_fixed_point   parse_equation_M (denorm_text q)
                               = of_outcome (equation_symbols (neq_text q) (neq_code q) (neq_terms q))

   i.e. feeding NAME[0] / NAME[+k] / NAME[-k] for NAME[t] / NAME[t+k] / NAME[t-k] back to parse_equation makes it compute the
   very same normalised equation text, the very same code text and the terms of the token list, and hand them to the
   symbol-table loop; equation_symbols_texts then says that no symbol of the result carries any other equation or code. *)
From Coq Require Import String Ascii List Bool Arith Lia ZArith.
Import ListNotations.
Require Import Generated PyBase PyStr Lex Format Symbols SymbolsFacts Split SplitFacts Merge ParseEq ParseContribFacts GLex GLexFacts GNorm GNormFacts.
Require Import Layout LayoutNorm LayoutLex LayoutSplit GraphEvalWf Denorm DenormInt DenormLex.
Open Scope string_scope.
Open Scope nat_scope.

(* ================================================================== template *)
Lemma template_items lay l : forall pos, template_of (items_of pos (dpieces lay l)) = ttemplate l.
Proof.
  unfold dpieces. induction l as [|x l IH]; intros pos; [reflexivity|].
  destruct x; cbn [map dpiece items_of template_of ttemplate]; rewrite IH; reflexivity.
Qed.

(* ================================================================== str.format on a template of "{}" fields *)
Definition ftoks (l : list ntok) : list ftok := map (fun x => match x with NChr c => FLit c | _ => FAuto end) l.
Definition nobrace (l : list ntok) : bool :=
  forallb (fun x => match x with NChr c => negb (Ascii.eqb c "{") && negb (Ascii.eqb c "}") | _ => true end) l.

Lemma ftokens_ttemplate l : nobrace l = true -> ftokens MText (ttemplate l) = ftoks l.
Proof.
  unfold nobrace, ftoks. induction l as [|x l IH]; intros H; [reflexivity|]. cbn [forallb] in H. apply andb_true_iff in H as [Hx Hl].
  destruct x as [name i|name|k|body|c]; cbn [ttemplate map].
  1-4: cbn [append ftokens]; replace (Ascii.eqb "{" "{") with true by reflexivity; cbn [ftokens];
       replace (Ascii.eqb "}" "{") with false by reflexivity; replace (Ascii.eqb "}" "}") with true by reflexivity; rewrite (IH Hl); reflexivity.
  apply andb_true_iff in Hx as [H1 H2]. apply negb_true_iff in H1, H2. cbn [ftokens]. rewrite H1, H2, (IH Hl). reflexivity.
Qed.

Fixpoint weave (f : ntok -> string) (l : list ntok) : string :=
  match l with
  | [] => ""
  | NChr c :: r => String c (weave f r)
  | x :: r => f x ++ weave f r
  end.
Fixpoint term_toks (l : list ntok) : list ntok :=
  match l with [] => [] | NChr _ :: r => term_toks r | x :: r => x :: term_toks r end.

Lemma ffill_weave f l : forall pre num, num <> NManual ->
  ffill (pre ++ map f (term_toks l)) (length pre) num (ftoks l) = FOk (weave f l).
Proof.
  unfold ftoks. induction l as [|x l IH]; intros pre num Hn; [reflexivity|].
  assert (STEP : forall y, x = y -> is_term_tok y = true ->
            ffill (pre ++ map f (y :: term_toks l)) (length pre) num (FAuto :: map (fun x => match x with NChr c => FLit c | _ => FAuto end) l)
            = FOk (f y ++ weave f l)).
  { intros y _ _. cbn [ffill map]. destruct num; [| |congruence].
    - rewrite nth_error_app2 by lia. rewrite Nat.sub_diag. cbn [nth_error].
      replace (pre ++ f y :: map f (term_toks l))%list with ((pre ++ [f y]) ++ map f (term_toks l))%list by (rewrite <- app_assoc; reflexivity).
      replace (S (length pre)) with (length (pre ++ [f y])) by (rewrite app_length; cbn; lia).
      rewrite (IH (pre ++ [f y])%list NAuto) by discriminate. reflexivity.
    - rewrite nth_error_app2 by lia. rewrite Nat.sub_diag. cbn [nth_error].
      replace (pre ++ f y :: map f (term_toks l))%list with ((pre ++ [f y]) ++ map f (term_toks l))%list by (rewrite <- app_assoc; reflexivity).
      replace (S (length pre)) with (length (pre ++ [f y])) by (rewrite app_length; cbn; lia).
      rewrite (IH (pre ++ [f y])%list NAuto) by discriminate. reflexivity. }
  destruct x as [name i|name|k|body|c]; cbn [map term_toks weave].
  1-4: apply STEP; reflexivity.
  cbn [ffill]. rewrite (IH pre num Hn). reflexivity.
Qed.

Theorem format_weave f l : nobrace l = true -> py_format (ttemplate l) (map f (term_toks l)) = FOk (weave f l).
Proof. intros H. unfold py_format. rewrite (ftokens_ttemplate l H). apply (ffill_weave f l [] NNone). discriminate. Qed.

Lemma weave_text l : weave ntok_text l = nflat l.
Proof. induction l as [|x l IH]; [reflexivity|]. destruct x; cbn [weave nflat ntok_text]; rewrite IH; reflexivity. Qed.
Lemma weave_code l : weave tok_code l = cflat l.
Proof. induction l as [|x l IH]; [reflexivity|]. destruct x; cbn [weave cflat]; rewrite IH; reflexivity. Qed.

(* ================================================================== str(term) and term.code of the tokens *)
Lemma term_str_tok ty x t : ty = TEndogenous \/ ty = TExogenous -> tok_term ty x = Some t -> term_str t = Some (ntok_text x).
Proof.
  intros Hty. destruct x as [name i|name|k|body|c]; cbn [tok_term]; intros E; inversion E; subst; clear E; try reflexivity.
  unfold term_str. cbn [ttype tindex tname ntok_text]. unfold term_text, idx_body.
  destruct Hty as [-> | ->]; (destruct i as [z|s]; [destruct (0 <? z)%Z; [|destruct (z =? 0)%Z]|]; cbn [append]; rewrite ?sapp_assoc; reflexivity).
Qed.
Lemma term_code_tok ty x t : ty = TEndogenous \/ ty = TExogenous -> tok_term ty x = Some t -> term_code t = Some (tok_code x).
Proof.
  intros Hty E. destruct x as [name i|name|k|body|c]; cbn [tok_term] in E; inversion E; subst; clear E; unfold tok_code; cbn [tok_term].
  - destruct Hty as [Ht|Ht]; rewrite Ht; destruct i as [z|s]; reflexivity.
  - reflexivity.
  - reflexivity.
  - reflexivity.
Qed.

Lemma all_some_app {A} (a b : list (option A)) x y : all_some a = Some x -> all_some b = Some y -> all_some (a ++ b) = Some (x ++ y)%list.
Proof.
  revert x. induction a as [|[v|] a IH]; intros x Ha Hb; cbn [all_some app] in *.
  - inversion Ha; subst. exact Hb.
  - destruct (all_some a) as [xs|]; [|discriminate]. inversion Ha; subst. rewrite (IH xs eq_refl Hb). reflexivity.
  - discriminate.
Qed.
Lemma strs_of_terms ty l : ty = TEndogenous \/ ty = TExogenous ->
  all_some (map term_str (tok_terms ty l)) = Some (map ntok_text (term_toks l)) /\
  all_some (map term_code (tok_terms ty l)) = Some (map tok_code (term_toks l)).
Proof.
  intros Hty. induction l as [|x l [IH1 IH2]]; [split; reflexivity|].
  destruct x as [name i|name|k|body|c]; cbn [tok_terms tok_term term_toks map all_some]; [| | | |split; assumption].
  - rewrite (term_str_tok ty (NTerm name i) _ Hty eq_refl), (term_code_tok ty (NTerm name i) _ Hty eq_refl), IH1, IH2. split; reflexivity.
  - rewrite (term_str_tok ty (NFunc name) _ Hty eq_refl), (term_code_tok ty (NFunc name) _ Hty eq_refl), IH1, IH2. split; reflexivity.
  - rewrite (term_str_tok ty (NKw k) _ Hty eq_refl), (term_code_tok ty (NKw k) _ Hty eq_refl), IH1, IH2. split; reflexivity.
  - rewrite (term_str_tok ty (NVerb body) _ Hty eq_refl), (term_code_tok ty (NVerb body) _ Hty eq_refl), IH1, IH2. split; reflexivity.
Qed.

(* ================================================================== the prelude of parse_equation *)
Lemma splitlines_nosep s : forall cur,
  all_chars (fun c => negb (is_linesep c)) s = true -> (cur <> "" \/ s <> "") -> splitlines_aux cur s = [srev cur ++ s].
Proof.
  induction s as [|c s IH]; intros cur H Hne.
  - destruct Hne as [Hc|Hc]; [|congruence]. cbn [splitlines_aux]. destruct cur; [congruence|]. rewrite sapp_nil_r. reflexivity.
  - cbn [all_chars] in H. apply andb_true_iff in H as [Hc Hs]. apply negb_true_iff in Hc. cbn [splitlines_aux]. rewrite Hc.
    rewrite (IH (String c cur) Hs) by (left; discriminate).
    change (srev (String c cur)) with (rev_str cur (String c "")). rewrite rev_str_acc, sapp_assoc. reflexivity.
Qed.

Lemma count_char_absent ch s : has_char ch s = false -> count_char ch s = 0.
Proof.
  induction s as [|c s IH]; [reflexivity|]. cbn [has_char count_char]. intros H. apply orb_false_iff in H as [H1 H2].
  rewrite H1, (IH H2). reflexivity.
Qed.

Lemma span_while_prefix p a x : all_chars p a = true ->
  span_while p (a ++ x) = (a ++ fst (span_while p x), snd (span_while p x)).
Proof.
  induction a as [|c a IH]; intros H; cbn [append]; [destruct (span_while p x); reflexivity|].
  cbn [all_chars] in H. apply andb_true_iff in H as [Hc Ha]. cbn [span_while]. rewrite Hc, (IH Ha). reflexivity.
Qed.

(* a text  A blanks = B  with A non-empty and free of whitespace passes equation_re (alternative A4) *)
Lemma alt_single_assign A W B :
  A <> "" -> all_chars (fun c => negb (is_space c)) A = true -> blanks W = true -> alt_single (A ++ W ++ String "=" B) = true.
Proof.
  intros Hne HA HW. destruct A as [|c A']; [congruence|]. cbn [append]. unfold alt_single.
  pose proof HA as HA0. cbn [all_chars] in HA0. apply andb_true_iff in HA0 as [Hc _]. apply negb_true_iff in Hc. rewrite Hc.
  change (String c (A' ++ W ++ String "=" B)) with (String c A' ++ W ++ String "=" B).
  rewrite (span_while_prefix (fun c => negb (is_space c)) (String c A') _ HA).
  destruct W as [|w W'].
  - cbn [append]. cbn [span_while]. replace (is_space "=") with false by (vm_compute; reflexivity). cbn [negb].
    destruct (span_while (fun c => negb (is_space c)) B) as [b1 b2]. cbn [fst snd append].
    rewrite has_char_app. cbn [has_char]. rewrite Ascii.eqb_refl, orb_true_r. reflexivity.
  - unfold blanks in HW. pose proof HW as HW0. cbn [all_chars] in HW0. apply andb_true_iff in HW0 as [Hw _].
    cbn [append span_while]. rewrite Hw. cbn [negb fst snd]. rewrite sapp_nil_r. cbn [append].
    unfold skip_ws. change (String w (W' ++ String "=" B)) with (String w W' ++ String "=" B).
    rewrite (span_while_all is_space (String w W') (String "=" B) HW) by reflexivity. cbn [snd head_is]. rewrite Ascii.eqb_refl. apply orb_true_r.
Qed.

Lemma alpha_not_pyspace : forall c, is_alpha_ c = true -> negb (is_pyspace c) && negb (is_space c) = true.
Proof. sweep. Qed.
Lemma idc_not_space : forall c, is_idc c = true -> negb (is_space c) && negb (Ascii.eqb c "=") = true.
Proof. sweep. Qed.
Lemma idxc_not_space_eq : forall c, idxc c = true -> negb (is_space c) && negb (Ascii.eqb c "=") = true.
Proof. sweep. Qed.
Lemma space_inert : forall c, is_space c = true -> inert c && negb (Ascii.eqb c "=") = true.
Proof. sweep. Qed.

Section Fixed.
  Variable lay : layout.
  Variable y : string.
  Variable ky : Z.
  Variable plus : bool.
  Hypothesis Hlhs : lay y (IInt ky) = ("", "", plus).         (* no blanks inside the left-hand bracket: finding #22 *)
  Variable ws rhs : list ntok.
  Let lhs : list ntok := NTerm y (IInt ky) :: ws.
  Let q : neq := mkNeq lhs rhs.
  Let whole : list ntok := (lhs ++ NChr "=" :: rhs)%list.
  Hypothesis Hid : is_ident y = true.
  Hypothesis Hkw : kw_free y = true.
  Hypothesis Hshort : short_int ky = true.
  Hypothesis Hws : forallb (fun x => match x with NChr c => is_space c | _ => false end) ws = true.
  Hypothesis Hrhs : dwf_k lay false rhs "" = true.
  Hypothesis Htext : all_chars text_char_ok (denorm_text lay q) = true.
  Hypothesis Hpar : count_parens 0 (denorm_text lay q) = Some 0.
  Hypothesis Hnorm : normal (ttemplate whole) = true.

  (* the blanks after the assigned term *)
  Definition wtext : string := dflat lay ws.
  Lemma ws_chars : blanks wtext = true /\ nflat ws = wtext /\ cflat ws = wtext /\ term_toks ws = [] /\ tok_terms TEndogenous ws = []
                   /\ ttemplate ws = wtext /\ (forall pw k, dwf_k lay pw ws k = true).
  Proof.
    unfold wtext, blanks. clear Hrhs Htext Hpar Hnorm. induction ws as [|x l IH]; [repeat split; reflexivity|].
    cbn [forallb] in Hws. apply andb_true_iff in Hws as [Hx Hl]. destruct x as [| | | |c]; try discriminate.
    destruct (IH Hl) as (B & N & C & T & K & P & D).
    cbn [Denorm.dflat Denorm.dtext ntok_text all_chars nflat cflat tok_code term_toks tok_terms tok_term ttemplate append].
    rewrite Hx, B, N, C, T, K, P. repeat split; try reflexivity.
    intros pw k. cbn [Denorm.dwf_k Denorm.dtok_ok ntok_ok]. pose proof (space_inert c Hx) as I. apply andb_true_iff in I as [I _]. rewrite I. cbn [orb andb]. apply D.
  Qed.

  Definition atext : string := y ++ "[" ++ ibody plus (IInt ky) ++ "]".
  Lemma atext_nospace : all_chars (fun c => negb (is_space c)) atext = true /\ has_char "=" atext = false /\ atext <> "".
  Proof.
    destruct (ident_nonempty _ Hid) as (c & r & En & Hc & Hall). unfold atext.
    assert (A1 : all_chars (fun c => negb (is_space c) && negb (Ascii.eqb c "=")) y = true)
      by (apply (all_chars_impl is_idc _ y idc_not_space Hall)).
    assert (A2 : all_chars (fun c => negb (is_space c) && negb (Ascii.eqb c "=")) (ibody plus (IInt ky)) = true)
      by (apply (all_chars_impl idxc _ _ idxc_not_space_eq (ibody_chars plus ky))).
    assert (A : all_chars (fun c => negb (is_space c) && negb (Ascii.eqb c "=")) (y ++ "[" ++ ibody plus (IInt ky) ++ "]") = true).
    { rewrite !all_chars_app, A1, A2. reflexivity. }
    split; [|split].
    - apply (all_chars_impl _ _ _ (fun c H => proj1 (proj1 (andb_true_iff _ _) H)) A).
    - apply (all_chars_no_char (fun c => negb (is_space c) && negb (Ascii.eqb c "=")) "=" _ eq_refl A).
    - rewrite En. discriminate.
  Qed.

  Let E : string := denorm_text lay q.

  Lemma E_shape : E = atext ++ wtext ++ String "=" (dflat lay rhs).
  Proof. unfold E, denorm_text, q, lhs. cbn [nlhs nrhs Denorm.dflat Denorm.dtext]. rewrite Hlhs. cbn [append]. fold wtext. fold atext. rewrite sapp_assoc. reflexivity. Qed.

  Lemma E_head : exists c r, E = String c r /\ is_alpha_ c = true.
  Proof.
    destruct (ident_nonempty _ Hid) as (c & r & En & Hc & _). rewrite E_shape. unfold atext. rewrite En. cbn [append].
    eexists. eexists. split; [reflexivity|exact Hc].
  Qed.

  Lemma E_not_blank : is_blank E = false.
  Proof.
    destruct E_head as (c & r & -> & Hc). pose proof (alpha_not_pyspace c Hc) as P. apply andb_true_iff in P as [P _].
    apply negb_true_iff in P. unfold is_blank, lstrip_by. cbn [span_while]. rewrite P. reflexivity.
  Qed.

  Lemma text_ok_parts : all_chars (fun c => negb (is_linesep c)) E = true /\ has_char "#" E = false /\
                        has_char "{" E = false /\ has_char "}" E = false.
  Proof.
    fold E in Htext. split; [|split; [|split]].
    - apply (all_chars_impl text_char_ok _ E); [|exact Htext]. intros c H. unfold text_char_ok in H.
      repeat (apply andb_true_iff in H as [H ?]). exact H.
    - apply (all_chars_no_char text_char_ok "#" E eq_refl Htext).
    - apply (all_chars_no_char text_char_ok "{" E eq_refl Htext).
    - apply (all_chars_no_char text_char_ok "}" E eq_refl Htext).
  Qed.

  Lemma E_lines : model_lines E = [E].
  Proof.
    destruct text_ok_parts as (Hl & Hh & _ & _). unfold model_lines.
    rewrite (splitlines_nosep E "" Hl); [|right; destruct E_head as (c & r & -> & _); discriminate].
    cbn [map srev rev_str append]. rewrite (strip_comments_plain E Hh). reflexivity.
  Qed.

  Lemma E_stmt_ok : stmt_ok E = true.
  Proof.
    destruct atext_nospace as (HA & _ & HAne). destruct ws_chars as (HW & _).
    pose proof (alt_single_assign atext wtext (dflat lay rhs) HAne HA HW) as S. rewrite <- E_shape in S.
    destruct E_head as (c & r & Ee & Hc). unfold stmt_ok. rewrite Ee in *. cbn [stmt_ok_from]. unfold alt_here. rewrite S.
    rewrite !orb_true_r. reflexivity.
  Qed.

  Lemma E_split : split_M E = ([E], None).
  Proof.
    unfold split_M. rewrite E_lines. cbn [split_lines]. unfold split_step. cbn [buffer s0 unmatched complete].
    assert (F : startswith "```" E = false).
    { destruct E_head as (c & r & -> & Hc). unfold startswith. cbn [prefix_rest].
      pose proof (alpha_not_tick c Hc) as T. apply andb_true_iff in T as [T _]. apply andb_true_iff in T as [T _]. apply negb_true_iff in T.
      rewrite Ascii.eqb_sym, T. reflexivity. }
    rewrite F. cbn [andb]. fold E in Hpar. rewrite Hpar. cbn [Nat.eqb andb rev app join_nl].
    rewrite E_not_blank, E_stmt_ok. cbn [split_lines unmatched Nat.eqb]. reflexivity.
  Qed.

  Lemma lhs_dwf k : dwf_k lay false lhs k = true.
  Proof.
    unfold lhs. cbn [Denorm.dwf_k Denorm.dtok_ok]. rewrite Hlhs, Hid, Hkw, (idx_ok_ibody plus ky). unfold short_int in Hshort. rewrite Hshort. cbn [andb all_chars].
    destruct ws_chars as (_ & _ & _ & _ & _ & _ & D). apply D.
  Qed.

  Lemma whole_dwf : dwf_k lay false whole "" = true.
  Proof.
    unfold whole. rewrite dwf_k_app, lhs_dwf. cbn [andb Denorm.dwf_k Denorm.dtok_ok ntok_ok].
    replace (inert "=") with true by (vm_compute; reflexivity). cbn [orb andb Denorm.dtext ntok_text last_word].
    replace (is_word "=") with false by (vm_compute; reflexivity). exact Hrhs.
  Qed.

  Lemma whole_text : dflat lay whole = E.
  Proof. unfold whole, E, denorm_text, q. rewrite dflat_app. reflexivity. Qed.

  Lemma E_terms : parse_equation_terms E = Ret (neq_terms q).
  Proof.
    destruct atext_nospace as (_ & HAeq & _). destruct ws_chars as (HW & _ & _ & _ & HK & _).
    assert (Hno : has_char "=" (atext ++ wtext) = false).
    { rewrite has_char_app, HAeq. unfold blanks in HW.
      apply (all_chars_no_char is_space "=" wtext); [vm_compute; reflexivity|exact HW]. }
    unfold parse_equation_terms. rewrite E_shape, <- sapp_assoc, (find_any_app "=" (atext ++ wtext) (dflat lay rhs) Hno).
    assert (EL : atext ++ wtext = dflat lay lhs).
    { unfold lhs. cbn [Denorm.dflat Denorm.dtext]. rewrite Hlhs. cbn [append]. reflexivity. }
    rewrite EL, (dparse_terms lay lhs (lhs_dwf "")), (dparse_terms lay rhs Hrhs).
    rewrite (replace_type_terms TEndogenous lhs) by discriminate. rewrite (replace_type_terms TExogenous rhs) by discriminate.
    rewrite (tok_terms_no_invalid TExogenous rhs) by discriminate.
    unfold neq_terms, q, lhs. cbn [nlhs nrhs tok_terms tok_term]. rewrite HK. cbn [has_type existsb ttype type_eqb orb negb]. reflexivity.
  Qed.

  Lemma E_template : template E = ttemplate whole.
  Proof.
    unfold template. rewrite <- whole_text, (dscan_items lay whole whole_dwf), template_items. apply normal_fixed, Hnorm.
  Qed.

  Lemma term_toks_app a b : term_toks (a ++ b) = (term_toks a ++ term_toks b)%list.
  Proof. induction a as [|x a IH]; [reflexivity|]. destruct x; cbn [term_toks app]; rewrite IH; reflexivity. Qed.

  Lemma E_strs : all_some (map term_str (neq_terms q)) = Some (map ntok_text (term_toks whole)) /\
                 all_some (map term_code (neq_terms q)) = Some (map tok_code (term_toks whole)).
  Proof.
    unfold neq_terms, q, whole. cbn [nlhs nrhs]. rewrite !map_app, term_toks_app. cbn [term_toks]. rewrite !map_app.
    destruct (strs_of_terms TEndogenous lhs (or_introl eq_refl)) as [S1 C1].
    destruct (strs_of_terms TExogenous rhs (or_intror eq_refl)) as [S2 C2].
    split; apply all_some_app; assumption.
  Qed.

  Lemma dflat_chars P l : all_chars P (dflat lay l) = true -> forallb (fun x => match x with NChr c => P c | _ => true end) l = true.
  Proof.
    induction l as [|x l IH]; [reflexivity|]. cbn [Denorm.dflat forallb]. rewrite all_chars_app. intros H. apply andb_true_iff in H as [Hx Hl].
    rewrite (IH Hl), andb_true_r. destruct x; try reflexivity. cbn [Denorm.dtext ntok_text all_chars] in Hx. rewrite andb_true_r in Hx. exact Hx.
  Qed.

  Lemma whole_nobrace : nobrace whole = true.
  Proof.
    pose proof Htext as H. fold E in H. rewrite <- whole_text in H. apply dflat_chars in H. unfold nobrace.
    rewrite forallb_forall in *. intros x Hx. specialize (H x Hx). destruct x; try reflexivity.
    unfold text_char_ok in H. apply andb_true_iff in H as [H H4]. apply andb_true_iff in H as [_ H3]. rewrite H3, H4. reflexivity.
  Qed.

  Lemma whole_nflat : nflat whole = neq_text q.
  Proof. unfold whole, neq_text, q. rewrite nflat_app. reflexivity. Qed.
  Lemma cflat_app a b : cflat (a ++ b) = cflat a ++ cflat b.
  Proof. induction a as [|x a IH]; [reflexivity|]. cbn [cflat app]. rewrite IH, sapp_assoc. reflexivity. Qed.
  Lemma whole_cflat : cflat whole = neq_code q.
  Proof. unfold whole, neq_code, q. rewrite cflat_app. reflexivity. Qed.

  Theorem fixed_point_section :
    parse_equation_M E = of_outcome (equation_symbols (neq_text q) (neq_code q) (neq_terms q)).
  Proof.
    destruct text_ok_parts as (_ & _ & Hb1 & Hb2).
    unfold parse_equation_M. rewrite E_not_blank, E_split. cbn [length Nat.eqb negb].
    assert (Hv : head_is "`" E = false).
    { destruct E_head as (c & r & -> & Hc). cbn [head_is].
      pose proof (alpha_not_tick c Hc) as T. apply andb_true_iff in T as [T _]. apply andb_true_iff in T as [T _]. apply negb_true_iff in T. exact T. }
    rewrite Hv. cbn [andb]. rewrite (count_char_absent "{" E Hb1), (count_char_absent "}" E Hb2). cbn [Nat.eqb negb].
    rewrite E_terms, E_template. destruct E_strs as [S C]. rewrite S, C.
    rewrite (format_weave ntok_text whole whole_nobrace), (format_weave tok_code whole whole_nobrace).
    rewrite weave_text, weave_code, whole_nflat, whole_cflat. reflexivity.
  Qed.
End Fixed.

(* ================================================================== the theorem, from the decidable condition *)
Theorem normal_form_fixed_point lay q :
  dq_ok lay q = true -> parse_equation_M (denorm_text lay q) = of_outcome (equation_symbols (neq_text q) (neq_code q) (neq_terms q)).
Proof.
  destruct q as [l r]. unfold dq_ok. cbn [nlhs nrhs]. destruct l as [|[y [ky|s]| | | |] ws]; try discriminate.
  intros H. apply andb_true_iff in H as [H Hnorm]. apply andb_true_iff in H as [H Hpar]. apply andb_true_iff in H as [H Htext].
  apply andb_true_iff in H as [H Hrhs]. apply andb_true_iff in H as [H Hws]. apply andb_true_iff in H as [H Hl].
  apply andb_true_iff in H as [H Hshort]. apply andb_true_iff in H as [Hid Hkw].
  destruct (lay y (IInt ky)) as [[w1 w2] plus] eqn:El. destruct w1; [|discriminate]. destruct w2; [|discriminate].
  destruct (count_parens 0 (denorm_text lay (mkNeq (NTerm y (IInt ky) :: ws) r))) as [[|n]|] eqn:Ep; try discriminate.
  apply (fixed_point_section lay y ky plus El ws r Hid Hkw Hshort Hws Hrhs Htext Ep Hnorm).
Qed.

(* layout does not matter: any two admissible ways of writing the index brackets give the same parse *)
Corollary index_layout_irrelevant lay1 lay2 q :
  dq_ok lay1 q = true -> dq_ok lay2 q = true -> parse_equation_M (denorm_text lay1 q) = parse_equation_M (denorm_text lay2 q).
Proof. intros H1 H2. rewrite (normal_form_fixed_point lay1 q H1), (normal_form_fixed_point lay2 q H2). reflexivity. Qed.

(* ================================================================== what the symbol-table loop can attach to a symbol *)
Definition tame (eqn code : string) (s : symbol) : Prop :=
  (sequation s = None \/ sequation s = Some eqn) /\ (scode s = None \/ scode s = Some code).

Lemma resolve_strings_tame (x : string) a b c :
  (a = None \/ a = Some x) -> (b = None \/ b = Some x) -> resolve_strings a b = Ret c -> c = None \/ c = Some x.
Proof.
  intros [->| ->] [->| ->]; cbn [resolve_strings]; try (intros E; inversion E; auto; fail).
  rewrite String.eqb_refl. intros E; inversion E; auto.
Qed.
Lemma combine_tame eqn code a b c : tame eqn code a -> tame eqn code b -> combine a b = Ret c -> tame eqn code c.
Proof.
  intros [Ha1 Ha2] [Hb1 Hb2] Hc. destruct (combine_ret a b c Hc) as (_ & _ & He & Hd). split.
  - apply (resolve_strings_tame eqn _ _ _ Ha1 Hb1 He).
  - apply (resolve_strings_tame code _ _ _ Ha2 Hb2 Hd).
Qed.

Lemma go_tame eqn code terms : forall symbols functions d,
  (forall v, In v (dict_values symbols) -> tame eqn code v) ->
  equation_symbols_go eqn code terms symbols functions = Ret d -> forall v, In v (dict_values d) -> tame eqn code v.
Proof.
  induction terms as [|t rest IH]; intros symbols functions d Hs Hgo; cbn [equation_symbols_go] in Hgo.
  - inversion Hgo; subst. exact Hs.
  - assert (COMB : forall sym, tame eqn code sym ->
              match dict_combine (tname t) sym symbols with
              | Ret d0 => equation_symbols_go eqn code rest d0 functions
              | Raise e => Raise e
              end = Ret d -> forall v, In v (dict_values d) -> tame eqn code v).
    { intros sym Hsym Hg. unfold dict_combine in Hg.
      destruct (combine match dict_get (tname t) symbols with Some old => old | None => sym end sym) as [c|] eqn:Ec; [|discriminate].
      assert (Hs' : forall v, In v (dict_values (dict_set (tname t) c symbols)) -> tame eqn code v).
      { intros v Hv. destruct (dict_values_set_in _ _ _ _ Hv) as [->|Hin]; [|apply Hs, Hin].
        refine (combine_tame eqn code _ sym c _ Hsym Ec).
        destruct (dict_get (tname t) symbols) as [old|] eqn:Eg; [apply Hs, (dict_get_in _ _ _ Eg)|exact Hsym]. }
      apply (IH _ _ _ Hs' Hg). }
    destruct (ttype t) eqn:Ety.
    all: try (match type of Hgo with
              | match dict_combine _ ?sym _ with _ => _ end = _ =>
                  apply (COMB sym); [first [split; left; reflexivity | split; right; reflexivity]|exact Hgo]
              end).
    + destruct (mem_string (tname t) functions).
      * apply (IH _ _ _ Hs Hgo).
      * refine (IH _ _ _ _ Hgo). intros v Hv. destruct (dict_values_set_in _ _ _ _ Hv) as [->|Hin]; [split; left; reflexivity|apply Hs, Hin].
    + apply (IH _ _ _ Hs Hgo).
Qed.

(* every symbol of the result carries either nothing or exactly the given equation and code *)
Theorem equation_symbols_texts eqn code terms syms :
  equation_symbols eqn code terms = Ret syms -> forall s, In s syms -> tame eqn code s.
Proof.
  unfold equation_symbols. destruct (equation_symbols_go eqn code terms [] []) as [d|] eqn:E; [|discriminate].
  intros H; inversion H; subst. apply (go_tame eqn code terms [] [] d); [intros v []|exact E].
Qed.

Corollary fixed_point_symbols lay q syms :
  dq_ok lay q = true -> parse_equation_M (denorm_text lay q) = POk syms ->
  forall s, In s syms -> tame (neq_text q) (neq_code q) s.
Proof.
  intros Hq Hp. rewrite (normal_form_fixed_point lay q Hq) in Hp.
  destruct (equation_symbols (neq_text q) (neq_code q) (neq_terms q)) as [l|] eqn:E; [|discriminate].
  inversion Hp; subst. apply (equation_symbols_texts _ _ _ _ E).
Qed.
