(* LayoutNorm.v — the whitespace normalisation of parse_equation's template (ParseEq.normalise_template:
   re.sub(r'\s+', ' ', ·), re.sub(r'\(\s+', '(', ·), re.sub(r'\s+\)', ')', ·)) for ALL strings:
     normalise_gap            a non-empty run of whitespace (blanks, tabs, newlines of a continuation, any mix) counts
                              as one blank, whatever stands before and after it
     normalise_after_open     whitespace after "(" is dropped
     normalise_before_close   whitespace before ")" is dropped
     normalise_idempotent     the result is a fixed point of the normalisation
   Nothing else changes: normalise_plain (a text without whitespace is left alone). *)
From Coq Require Import String Ascii List Bool Arith Lia.
Import ListNotations.
Require Import Generated PyBase PyStr Lex ParseEq GLex GLexFacts.
Open Scope string_scope.

(* ================================================================== re.sub(r'\s+', ' ', ·) *)
(* are we inside a whitespace run after reading s (f before) *)
Fixpoint ws_after (f : bool) (s : string) : bool :=
  match s with "" => f | String c r => ws_after (is_space c) r end.

Lemma sub_ws_app f a x : sub_ws f (a ++ x) = sub_ws f a ++ sub_ws (ws_after f a) x.
Proof.
  revert f. induction a as [|c a IH]; intros f; [reflexivity|]. cbn [append sub_ws ws_after].
  destruct (is_space c); [destruct f|]; rewrite IH; reflexivity.
Qed.
Lemma sub_ws_blanks ws : forall f rest, blanks ws = true -> ws <> "" ->
  sub_ws f (ws ++ rest) = (if f then "" else " ") ++ sub_ws true rest.
Proof.
  induction ws as [|c ws IH]; intros f rest B Hne; [congruence|]. unfold blanks in B. cbn [all_chars] in B.
  apply andb_true_iff in B as [Bc Bw]. cbn [append sub_ws]. rewrite Bc.
  destruct ws as [|d ws].
  - cbn [append]. destruct f; reflexivity.
  - rewrite (IH true rest Bw) by discriminate. destruct f; reflexivity.
Qed.

Theorem sub_ws_gap f a ws1 ws2 b :
  blanks ws1 = true -> ws1 <> "" -> blanks ws2 = true -> ws2 <> "" ->
  sub_ws f (a ++ ws1 ++ b) = sub_ws f (a ++ ws2 ++ b).
Proof.
  intros B1 N1 B2 N2. rewrite (sub_ws_app f a (ws1 ++ b)), (sub_ws_app f a (ws2 ++ b)).
  rewrite (sub_ws_blanks ws1 _ b B1 N1), (sub_ws_blanks ws2 _ b B2 N2). reflexivity.
Qed.

Theorem normalise_gap a ws1 ws2 b :
  blanks ws1 = true -> ws1 <> "" -> blanks ws2 = true -> ws2 <> "" ->
  normalise_template (a ++ ws1 ++ b) = normalise_template (a ++ ws2 ++ b).
Proof. intros B1 N1 B2 N2. unfold normalise_template. rewrite (sub_ws_gap false a ws1 ws2 b B1 N1 B2 N2). reflexivity. Qed.

(* ================================================================== re.sub(r'\(\s+', '(', ·) *)
Fixpoint open_after (f : bool) (s : string) : bool :=
  match s with
  | "" => f
  | String c r => if f && is_space c then open_after true r else open_after (Ascii.eqb c "(") r
  end.
Lemma sub_open_app f a x : sub_open f (a ++ x) = sub_open f a ++ sub_open (open_after f a) x.
Proof.
  revert f. induction a as [|c a IH]; intros f; [reflexivity|]. cbn [append sub_open open_after].
  destruct (f && is_space c); rewrite IH; reflexivity.
Qed.

Lemma space_not_open c : is_space c = true -> Ascii.eqb c "(" = false.
Proof.
  intros H. pose proof (space_not_special c H) as P. repeat (apply andb_true_iff in P as [P ?]).
  apply negb_true_iff. assumption.
Qed.
Lemma space_not_close c : is_space c = true -> Ascii.eqb c ")" = false.
Proof.
  intros H. destruct (Ascii.eqb_spec c ")") as [->|]; [|reflexivity]. vm_compute in H. discriminate.
Qed.
Lemma blank_is_space : is_space " " = true. Proof. vm_compute. reflexivity. Qed.

(* whitespace directly after "(" disappears, whatever follows *)
Lemma sub_open_true_ws x : sub_open true (sub_ws true x) = sub_open true (sub_ws false x).
Proof.
  destruct x as [|c r]; [reflexivity|]. cbn [sub_ws]. destruct (is_space c) eqn:E; [|reflexivity].
  cbn [sub_open]. rewrite blank_is_space. reflexivity.
Qed.

Lemma open_not_space : is_space "(" = false. Proof. vm_compute. reflexivity. Qed.
Lemma close_not_space : is_space ")" = false. Proof. vm_compute. reflexivity. Qed.
Lemma sub_ws_open f y : sub_ws f (String "(" y) = String "(" (sub_ws false y).
Proof. cbn [sub_ws]. rewrite open_not_space. reflexivity. Qed.
Lemma sub_open_open f z : sub_open f (String "(" z) = String "(" (sub_open true z).
Proof. cbn [sub_open]. rewrite open_not_space, andb_false_r, Ascii.eqb_refl. reflexivity. Qed.
Lemma sub_open_true_blank z : sub_open true (String " " z) = sub_open true z.
Proof. cbn [sub_open]. rewrite blank_is_space. reflexivity. Qed.

Theorem normalise_after_open a ws b :
  blanks ws = true -> normalise_template (a ++ "(" ++ ws ++ b) = normalise_template (a ++ "(" ++ b).
Proof.
  intros B. destruct ws as [|c ws]; [reflexivity|]. unfold normalise_template. f_equal.
  change ("(" ++ String c ws ++ b) with (String "(" (String c ws ++ b)). change ("(" ++ b) with (String "(" b).
  rewrite (sub_ws_app false a (String "(" (String c ws ++ b))), (sub_ws_app false a (String "(" b)).
  rewrite !sub_ws_open. rewrite (sub_ws_blanks (String c ws) false b B) by discriminate.
  rewrite (sub_open_app false (sub_ws false a) (String "(" (" " ++ sub_ws true b))).
  rewrite (sub_open_app false (sub_ws false a) (String "(" (sub_ws false b))).
  rewrite !sub_open_open. cbn [append]. rewrite sub_open_true_blank, sub_open_true_ws. reflexivity.
Qed.

(* ================================================================== re.sub(r'\s+\)', ')', ·) *)
Lemma sub_close_ext x s1 s2 : sub_close s1 = sub_close s2 -> sub_close (x ++ s1) = sub_close (x ++ s2).
Proof. intros H. induction x as [|c x IH]; [exact H|]. cbn [append sub_close]. rewrite IH. reflexivity. Qed.
Lemma sub_close_paren r : sub_close (String ")" r) = String ")" (sub_close r).
Proof. cbn [sub_close]. replace (is_space ")") with false by (vm_compute; reflexivity). reflexivity. Qed.
Lemma sub_close_blank_paren r : sub_close (String " " (String ")" r)) = sub_close (String ")" r).
Proof. cbn [sub_close]. rewrite blank_is_space. replace (is_space ")") with false by (vm_compute; reflexivity). reflexivity. Qed.

Lemma sub_open_paren f r : sub_open f (String ")" r) = String ")" (sub_open false r).
Proof. cbn [sub_open]. replace (is_space ")") with false by (vm_compute; reflexivity). rewrite andb_false_r. reflexivity. Qed.

Lemma sub_open_false_blank z : sub_open false (String " " z) = String " " (sub_open false z).
Proof. reflexivity. Qed.
Lemma sub_ws_close f y : sub_ws f (String ")" y) = String ")" (sub_ws false y).
Proof. cbn [sub_ws]. rewrite close_not_space. reflexivity. Qed.

Theorem normalise_before_close a ws b :
  blanks ws = true -> normalise_template (a ++ ws ++ ")" ++ b) = normalise_template (a ++ ")" ++ b).
Proof.
  intros B. destruct ws as [|c ws]; [reflexivity|]. unfold normalise_template.
  change (")" ++ b) with (String ")" b).
  rewrite (sub_ws_app false a (String c ws ++ String ")" b)), (sub_ws_app false a (String ")" b)).
  rewrite (sub_ws_blanks (String c ws) _ (String ")" b) B) by discriminate. rewrite !sub_ws_close.
  destruct (ws_after false a) eqn:W.
  - (* a already ends in whitespace: the run only gets longer *) reflexivity.
  - cbn [append].
    rewrite (sub_open_app false (sub_ws false a) (String " " (String ")" (sub_ws false b)))).
    rewrite (sub_open_app false (sub_ws false a) (String ")" (sub_ws false b))).
    apply sub_close_ext.
    destruct (open_after false (sub_ws false a)).
    + (* "(" directly before: the blank goes with the opening bracket *) rewrite sub_open_true_blank. reflexivity.
    + rewrite sub_open_false_blank, !sub_open_paren. apply sub_close_blank_paren.
Qed.

(* ================================================================== normal forms *)
(* every whitespace character is a single blank, none directly after "(" (when po) *)
Fixpoint wsn (prev_space : bool) (s : string) : bool :=
  match s with
  | "" => true
  | String c r => if is_space c then Ascii.eqb c " " && negb prev_space && wsn true r else wsn false r
  end.
Fixpoint no_open_ws (prev_open : bool) (s : string) : bool :=
  match s with
  | "" => true
  | String c r => negb (prev_open && is_space c) && no_open_ws (Ascii.eqb c "(") r
  end.
Fixpoint no_ws_close (s : string) : bool :=
  match s with
  | "" => true
  | String c r => negb (is_space c && head_is ")" r) && no_ws_close r
  end.

Lemma sub_ws_id s : forall f, wsn f s = true -> sub_ws f s = s.
Proof.
  induction s as [|c s IH]; intros f H; [reflexivity|]. cbn [wsn] in H. cbn [sub_ws]. destruct (is_space c).
  - apply andb_true_iff in H as [H Hr]. apply andb_true_iff in H as [Hc Hf]. apply Ascii.eqb_eq in Hc. subst c.
    apply negb_true_iff in Hf. subst f. rewrite (IH true Hr). reflexivity.
  - rewrite (IH false H). reflexivity.
Qed.
Lemma sub_open_id s : forall f, no_open_ws f s = true -> sub_open f s = s.
Proof.
  induction s as [|c s IH]; intros f H; [reflexivity|]. cbn [no_open_ws] in H. apply andb_true_iff in H as [Hc Hr].
  cbn [sub_open]. apply negb_true_iff in Hc. rewrite Hc, (IH _ Hr). reflexivity.
Qed.
Lemma sub_close_id s : no_ws_close s = true -> sub_close s = s.
Proof.
  induction s as [|c s IH]; intros H; [reflexivity|]. cbn [no_ws_close] in H. apply andb_true_iff in H as [Hc Hr].
  cbn [sub_close]. rewrite (IH Hr). apply negb_true_iff in Hc. rewrite Hc. reflexivity.
Qed.

(* --- what each pass establishes / keeps --- *)
Lemma sub_ws_wsn s : forall f, wsn f (sub_ws f s) = true.
Proof.
  induction s as [|c s IH]; intros f; [reflexivity|]. cbn [sub_ws]. destruct (is_space c) eqn:E.
  - destruct f; [apply IH|]. cbn [wsn]. rewrite blank_is_space, (IH true). reflexivity.
  - cbn [wsn]. rewrite E. apply IH.
Qed.

(* dropping characters after "(" keeps single blanks single: stated with a weaker start flag *)
Lemma wsn_weaken s : wsn true s = true -> wsn false s = true.
Proof. destruct s as [|c s]; [reflexivity|]. cbn [wsn]. destruct (is_space c); [|auto]. rewrite andb_false_r. discriminate. Qed.
Lemma wsn_tail c s f : wsn f (String c s) = true -> wsn (is_space c) s = true.
Proof. cbn [wsn]. destruct (is_space c); [|auto]. intros H. apply andb_true_iff in H as [_ H]. exact H. Qed.

Lemma sub_open_wsn s : forall f p, wsn p s = true -> wsn p (sub_open f s) = true.
Proof.
  induction s as [|c s IH]; intros f p H; [reflexivity|]. cbn [sub_open]. destruct (f && is_space c) eqn:E.
  - apply andb_true_iff in E as [_ Ec]. pose proof (wsn_tail c s p H) as T. rewrite Ec in T.
    (* the blank is dropped; what follows is not whitespace (T), so any start flag will do *)
    apply IH. destruct p; [exact T|apply wsn_weaken; exact T].
  - cbn [wsn] in *. destruct (is_space c).
    + apply andb_true_iff in H as [H Hr]. rewrite H. apply (IH _ true Hr).
    + apply (IH _ false H).
Qed.
Lemma sub_open_no_open_ws s : forall f, no_open_ws f (sub_open f s) = true.
Proof.
  induction s as [|c s IH]; intros f; [reflexivity|]. cbn [sub_open]. destruct (f && is_space c) eqn:E.
  - apply andb_true_iff in E as [Ef _]. subst f. apply IH.
  - cbn [no_open_ws]. rewrite E. apply IH.
Qed.

Lemma head_is_sub_close_wsn c s : is_space c = true -> wsn true s = true -> head_is ")" (sub_close s) = head_is ")" s.
Proof.
  intros Hc H. destruct s as [|d s]; [reflexivity|]. cbn [wsn] in H. cbn [sub_close].
  destruct (is_space d) eqn:Ed; [rewrite andb_false_r in H; discriminate|]. reflexivity.
Qed.

Lemma sub_close_wsn s : forall p, wsn p s = true -> wsn p (sub_close s) = true.
Proof.
  induction s as [|c s IH]; intros p H; [reflexivity|]. cbn [sub_close].
  destruct (is_space c && head_is ")" (sub_close s)) eqn:E.
  - apply andb_true_iff in E as [Ec _]. pose proof (wsn_tail c s p H) as T. rewrite Ec in T.
    destruct p; [apply (IH true T)|apply wsn_weaken, (IH true T)].
  - cbn [wsn] in *. destruct (is_space c).
    + apply andb_true_iff in H as [H Hr]. rewrite H. apply (IH true Hr).
    + apply (IH false H).
Qed.

Lemma head_sub_close s : wsn true s = true -> forall ch, head_is ch (sub_close s) = head_is ch s.
Proof.
  intros H ch. destruct s as [|d s]; [reflexivity|]. cbn [wsn] in H. cbn [sub_close].
  destruct (is_space d) eqn:Ed; [rewrite andb_false_r in H; discriminate|]. reflexivity.
Qed.

Lemma sub_close_no_open_ws s : forall f p, wsn p s = true -> no_open_ws f s = true -> no_open_ws f (sub_close s) = true.
Proof.
  induction s as [|c s IH]; intros f p W H; [reflexivity|]. cbn [no_open_ws] in H. apply andb_true_iff in H as [Hc Hr].
  pose proof (wsn_tail c s p W) as T. cbn [sub_close].
  destruct (is_space c && head_is ")" (sub_close s)) eqn:E.
  - (* the blank before ")" is dropped: what follows starts with ")" *)
    apply andb_true_iff in E as [Ec Eh]. rewrite Ec in T.
    pose proof (IH _ _ T Hr) as R. rewrite (space_not_open c Ec) in R.
    destruct (sub_close s) as [|d r] eqn:Es; [reflexivity|]. cbn [head_is] in Eh. apply Ascii.eqb_eq in Eh. subst d.
    cbn [no_open_ws] in *. replace (is_space ")") with false by (vm_compute; reflexivity). rewrite andb_false_r. exact R.
  - cbn [no_open_ws]. rewrite Hc. apply (IH _ _ T Hr).
Qed.

Lemma sub_close_no_ws_close s : no_ws_close (sub_close s) = true.
Proof.
  induction s as [|c s IH]; [reflexivity|]. cbn [sub_close].
  destruct (is_space c && head_is ")" (sub_close s)) eqn:E; [exact IH|]. cbn [no_ws_close]. rewrite E, IH. reflexivity.
Qed.

(* sub_open never produces " )" that was not there … but may expose one: "( )" -> "()": still none *)
Definition normal (t : string) : bool := wsn false t && no_open_ws false t && no_ws_close t.

Theorem normalise_is_normal t : normal (normalise_template t) = true.
Proof.
  unfold normal, normalise_template.
  pose proof (sub_open_wsn (sub_ws false t) false false (sub_ws_wsn t false)) as W.
  rewrite (sub_close_wsn _ false W).
  rewrite (sub_close_no_open_ws _ false false W (sub_open_no_open_ws _ false)).
  rewrite sub_close_no_ws_close. reflexivity.
Qed.
Theorem normal_fixed t : normal t = true -> normalise_template t = t.
Proof.
  unfold normal, normalise_template. intros H. apply andb_true_iff in H as [H H3]. apply andb_true_iff in H as [H1 H2].
  rewrite (sub_ws_id t false H1), (sub_open_id t false H2), (sub_close_id t H3). reflexivity.
Qed.
Theorem normalise_idempotent t : normalise_template (normalise_template t) = normalise_template t.
Proof. apply normal_fixed, normalise_is_normal. Qed.

(* a text without any whitespace is left alone *)
Lemma no_space_wsn t : all_chars (fun c => negb (is_space c)) t = true -> forall f, wsn f t = true.
Proof.
  induction t as [|c t IH]; intros H f; [reflexivity|]. cbn [all_chars] in H. apply andb_true_iff in H as [Hc Hr].
  apply negb_true_iff in Hc. cbn [wsn]. rewrite Hc. apply (IH Hr).
Qed.
Lemma no_space_open t : all_chars (fun c => negb (is_space c)) t = true -> forall f, no_open_ws f t = true.
Proof.
  induction t as [|c t IH]; intros H f; [reflexivity|]. cbn [all_chars] in H. apply andb_true_iff in H as [Hc Hr].
  apply negb_true_iff in Hc. cbn [no_open_ws]. rewrite Hc, andb_false_r. apply (IH Hr).
Qed.
Lemma no_space_close t : all_chars (fun c => negb (is_space c)) t = true -> no_ws_close t = true.
Proof.
  induction t as [|c t IH]; intros H; [reflexivity|]. cbn [all_chars] in H. apply andb_true_iff in H as [Hc Hr].
  apply negb_true_iff in Hc. cbn [no_ws_close]. rewrite Hc. apply (IH Hr).
Qed.
Lemma no_space_normal t : all_chars (fun c => negb (is_space c)) t = true -> normal t = true.
Proof. intros H. unfold normal. rewrite (no_space_wsn t H false), (no_space_open t H false), (no_space_close t H). reflexivity. Qed.
Theorem normalise_plain t : all_chars (fun c => negb (is_space c)) t = true -> normalise_template t = t.
Proof. intros H. apply normal_fixed, no_space_normal, H. Qed.
