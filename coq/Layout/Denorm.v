(* Denorm.v — feeding a normalised equation back to the parser: vocabulary.  Definitions only.

   A normalised equation is a token list (GNorm.neq).  Its de-normalised text writes every NAME[t], NAME[t+k], NAME[t-k] as
   NAME[0], NAME[+k], NAME[-k] (property C14; layout `canon`) — or, more generally, with blanks inside the index bracket and
   with or without the "+" of a lead, as a `layout` says — and leaves everything else as it is.  `dq_ok` collects the
   decidable conditions under which DenormFacts.normal_form_fixed_point holds. *)
From Coq Require Import String Ascii List Bool Arith ZArith.
Import ListNotations.
Require Import Generated PyBase PyStr Lex Format Symbols Split Merge ParseEq GLex GNorm LayoutNorm.
Open Scope string_scope.

Definition dz (k : Z) : string := if (0 <? k)%Z then "+" ++ string_of_Z k else string_of_Z k.

(* how one term is written: blanks after "[", blanks before "]", and whether a lead carries its "+".  The layout is a
   function of the term (name, index): every theorem holds for EVERY such function. *)
Definition layout : Type := string -> pidx -> string * string * bool.
Definition canon : layout := fun _ _ => ("", "", true).        (* NAME[0], NAME[+k], NAME[-k] *)

Definition ibody (plus : bool) (i : pidx) : string :=
  match i with IInt k => if plus then dz k else string_of_Z k | IStr s => s end.
Definition didx (lay : layout) (name : string) (i : pidx) : string := let '(_, _, plus) := lay name i in ibody plus i.
Definition dtext (lay : layout) (x : ntok) : string :=
  match x with
  | NTerm name i => let '(w1, w2, plus) := lay name i in name ++ "[" ++ w1 ++ ibody plus i ++ w2 ++ "]"
  | _ => ntok_text x
  end.
Fixpoint dflat (lay : layout) (l : list ntok) : string := match l with [] => "" | x :: r => dtext lay x ++ dflat lay r end.
Definition denorm_text (lay : layout) (q : neq) : string := dflat lay (nlhs q) ++ "=" ++ dflat lay (nrhs q).

(* the Term that parse_terms builds for a token (ty = what a VARIABLE becomes on this side of the equation) *)
Definition tok_term (ty : ptype) (x : ntok) : option term :=
  match x with
  | NTerm name i => Some (mkTerm name ty (Some i))
  | NFunc name => Some (mkTerm name TFunction None)
  | NKw k => Some (mkTerm k TKeyword None)
  | NVerb body => Some (mkTerm (String "`" (body ++ "`")) TVerbatim (Some (IInt 0%Z)))
  | NChr _ => None
  end.
Fixpoint tok_terms (ty : ptype) (l : list ntok) : list term :=
  match l with
  | [] => []
  | x :: r => match tok_term ty x with Some t => t :: tok_terms ty r | None => tok_terms ty r end
  end.
Definition neq_terms (q : neq) : list term := (tok_terms TEndogenous (nlhs q) ++ tok_terms TExogenous (nrhs q))%list.

(* Term.code of a token *)
Definition tok_code (x : ntok) : string :=
  match x with
  | NChr c => String c ""
  | _ => match tok_term TExogenous x with
         | Some t => match term_code t with Some s => s | None => "" end
         | None => ""
         end
  end.
Fixpoint cflat (l : list ntok) : string := match l with [] => "" | x :: r => tok_code x ++ cflat r end.
Definition neq_code (q : neq) : string := cflat (nlhs q) ++ "=" ++ cflat (nrhs q).

(* the template: "{}" for every term, the other characters as they are *)
Fixpoint ttemplate (l : list ntok) : string :=
  match l with
  | [] => ""
  | NChr c :: r => String c (ttemplate r)
  | _ :: r => "{}" ++ ttemplate r
  end.

(* one token re-lexes as itself in the de-normalised text *)
Definition dtok_ok (lay : layout) (pw : bool) (x : ntok) (rest : string) : bool :=
  match x with
  | NTerm name i =>
      let '(w1, w2, plus) := lay name i in
      is_ident name && kw_free name && idx_ok (ibody plus i) && all_chars is_space w1 && all_chars is_space w2 &&
      match i with
      | IInt k => negb (Nat.ltb int_max_str_digits (count_digits (dz k)))       (* int() digit limit *)
      | IStr s => quoted_by "'" s || quoted_by """" s
      end
  | _ => ntok_ok pw x rest
  end.
Fixpoint dwf_k (lay : layout) (pw : bool) (l : list ntok) (k : string) : bool :=
  match l with
  | [] => true
  | x :: r => dtok_ok lay pw x (dflat lay r ++ k) && dwf_k lay (last_word pw (dtext lay x)) r k
  end.

Definition text_char_ok (c : ascii) : bool :=
  negb (is_linesep c) && negb (Ascii.eqb c "#") && negb (Ascii.eqb c "{") && negb (Ascii.eqb c "}").

(* the conditions of the fixed-point / layout theorem: a single assigned term (written without blanks inside its bracket:
   finding #22) and blanks on the left; the right-hand side re-lexes token by token; no line separator, "#" or brace
   anywhere; round brackets balanced; the character skeleton is in normal form *)
Definition dq_ok (lay : layout) (q : neq) : bool :=
  match nlhs q with
  | NTerm y (IInt ky) :: ws =>
      is_ident y && kw_free y && negb (Nat.ltb int_max_str_digits (count_digits (dz ky))) &&
      (let '(w1, w2, _) := lay y (IInt ky) in match w1, w2 with "", "" => true | _, _ => false end) &&
      forallb (fun x => match x with NChr c => is_space c | _ => false end) ws &&
      dwf_k lay false (nrhs q) "" &&
      all_chars text_char_ok (denorm_text lay q) &&
      match count_parens 0 (denorm_text lay q) with Some 0 => true | _ => false end &&
      normal (ttemplate (nlhs q ++ NChr "=" :: nrhs q))
  | _ => false
  end.

(* the canonical de-normalisation of the property text, for the extracted driver *)
Definition dq_ok_canon (q : neq) : bool := dq_ok canon q.
Definition denorm_canon (q : neq) : string := denorm_text canon q.
