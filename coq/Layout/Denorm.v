(* Denorm.v — feeding a normalised equation back to the parser: vocabulary.  Definitions only.

   A normalised equation is a token list (GNorm.neq).  Its de-normalised text writes every NAME[t], NAME[t+k], NAME[t-k] as
   NAME[0], NAME[+k], NAME[-k] (property C14) and leaves everything else as it is.  `dq_ok` collects the decidable
   conditions under which DenormFacts.normal_form_fixed_point holds. *)
From Coq Require Import String Ascii List Bool Arith ZArith.
Import ListNotations.
Require Import Generated PyBase PyStr Lex Format Symbols Split Merge ParseEq GLex GNorm LayoutNorm.
Open Scope string_scope.

Definition dz (k : Z) : string := if (0 <? k)%Z then "+" ++ string_of_Z k else string_of_Z k.
Definition didx (i : pidx) : string := match i with IInt k => dz k | IStr s => s end.
Definition dtext (x : ntok) : string :=
  match x with
  | NTerm name i => name ++ "[" ++ didx i ++ "]"
  | _ => ntok_text x
  end.
Fixpoint dflat (l : list ntok) : string := match l with [] => "" | x :: r => dtext x ++ dflat r end.
Definition denorm_text (q : neq) : string := dflat (nlhs q) ++ "=" ++ dflat (nrhs q).

(* the Term that parse_terms builds for a token (ty = what a VARIABLE becomes on this side of the equation) *)
Definition tok_term (ty : ptype) (x : ntok) : option term :=
  match x with
  | NTerm name i => Some (mkTerm name ty (Some i))
  | NFunc name => Some (mkTerm name TFunction None)
  | NKw k => Some (mkTerm k TKeyword None)
  | NVerb body => Some (mkTerm (String "`" (body ++ "`")) TVerbatim (Some (IInt 0%Z)))
  | NChr _ => None
  end.
Fixpoint tok_terms (ty : ptype) (l : list ntok) : list term :=
  match l with
  | [] => []
  | x :: r => match tok_term ty x with Some t => t :: tok_terms ty r | None => tok_terms ty r end
  end.
Definition neq_terms (q : neq) : list term := (tok_terms TEndogenous (nlhs q) ++ tok_terms TExogenous (nrhs q))%list.

(* Term.code of a token *)
Definition tok_code (x : ntok) : string :=
  match x with
  | NChr c => String c ""
  | _ => match tok_term TExogenous x with
         | Some t => match term_code t with Some s => s | None => "" end
         | None => ""
         end
  end.
Fixpoint cflat (l : list ntok) : string := match l with [] => "" | x :: r => tok_code x ++ cflat r end.
Definition neq_code (q : neq) : string := cflat (nlhs q) ++ "=" ++ cflat (nrhs q).

(* the template: "{}" for every term, the other characters as they are *)
Fixpoint ttemplate (l : list ntok) : string :=
  match l with
  | [] => ""
  | NChr c :: r => String c (ttemplate r)
  | _ :: r => "{}" ++ ttemplate r
  end.

(* one token re-lexes as itself in the de-normalised text *)
Definition dtok_ok (pw : bool) (x : ntok) (rest : string) : bool :=
  match x with
  | NTerm name i => is_ident name && kw_free name && idx_ok (didx i) &&
                    match i with
                    | IInt k => negb (Nat.ltb int_max_str_digits (count_digits (dz k)))       (* int() digit limit *)
                    | IStr s => quoted_by "'" s || quoted_by """" s
                    end
  | _ => ntok_ok pw x rest
  end.
Fixpoint dwf_k (pw : bool) (l : list ntok) (k : string) : bool :=
  match l with
  | [] => true
  | x :: r => dtok_ok pw x (dflat r ++ k) && dwf_k (last_word pw (dtext x)) r k
  end.

Definition text_char_ok (c : ascii) : bool :=
  negb (is_linesep c) && negb (Ascii.eqb c "#") && negb (Ascii.eqb c "{") && negb (Ascii.eqb c "}").
Definition no_kw (l : list ntok) : bool := forallb (fun x => match x with NKw _ => false | _ => true end) l.

(* the conditions of the fixed-point theorem: a single assigned term and blanks on the left; the right-hand side re-lexes
   token by token; no line separator, "#" or brace anywhere; round brackets balanced; the character skeleton is in normal form *)
Definition dq_ok (q : neq) : bool :=
  match nlhs q with
  | NTerm y (IInt ky) :: ws =>
      is_ident y && kw_free y && negb (Nat.ltb int_max_str_digits (count_digits (dz ky))) &&
      forallb (fun x => match x with NChr c => is_space c | _ => false end) ws &&
      dwf_k false (nrhs q) "" &&
      all_chars text_char_ok (denorm_text q) &&
      match count_parens 0 (denorm_text q) with Some 0 => true | _ => false end &&
      normal (ttemplate (nlhs q ++ NChr "=" :: nrhs q))
  | _ => false
  end.
