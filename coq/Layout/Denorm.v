(* Denorm.v — feeding a normalised equation back to the parser: vocabulary.  Definitions only.

   A normalised equation is a token list (GNorm.neq).  Its de-normalised text writes every NAME[t], NAME[t+k], NAME[t-k] as
   NAME[0], NAME[+k], NAME[-k] (property C14; layout `canon`) — or, more generally, as a `layout` says: as a parameter { NAME }
   or an error < NAME > with blanks inside, with blanks inside the index bracket, with or without the "+" of a lead, with
   [0] left out — and leaves everything else as it is.  `dq_ok` collects the
   decidable conditions under which DenormFacts.normal_form_fixed_point holds. *)
From Coq Require Import String Ascii List Bool Arith ZArith.
Import ListNotations.
Require Import Generated PyBase PyStr Lex Format Symbols Split Merge ParseEq GLex GLexFacts GNorm LayoutNorm ContSplit.
Open Scope string_scope.

Definition dz (k : Z) : string := if (0 <? k)%Z then "+" ++ string_of_Z k else string_of_Z k.

(* how one term is written.  Style: plain NAME, a parameter { NAME } or an error < NAME > (with any blanks inside the braces /
   angle brackets).  Index: not written at all (only for offset 0), or [ blanks body blanks ] where a lead may carry its "+".
   A layout is a function of the term (name, index): every theorem holds for EVERY such function. *)
Inductive tstyle : Type := SVar | SPar (w1 w2 : string) | SErr (w1 w2 : string).
Record tlay : Type := mkLay { lstyle : tstyle; lindex : option (string * string * bool) }.
Definition layout : Type := string -> pidx -> tlay.
Definition canon : layout := fun _ _ => mkLay SVar (Some ("", "", true)).        (* NAME[0], NAME[+k], NAME[-k] *)

Definition ibody (plus : bool) (i : pidx) : string :=
  match i with IInt k => if plus then dz k else string_of_Z k | IStr s => s end.
Definition style_text (s : tstyle) (name : string) : string :=
  match s with
  | SVar => name
  | SPar w1 w2 => brk_text "{" "}" w1 name w2
  | SErr w1 w2 => brk_text "<" ">" w1 name w2
  end.
Definition index_text (ix : option (string * string * bool)) (i : pidx) : string :=
  match ix with None => "" | Some (w1, w2, plus) => idx_text w1 (ibody plus i) w2 end.
Definition dtext (lay : layout) (x : ntok) : string :=
  match x with
  | NTerm name i => style_text (lstyle (lay name i)) name ++ index_text (lindex (lay name i)) i
  | _ => ntok_text x
  end.
Fixpoint dflat (lay : layout) (l : list ntok) : string := match l with [] => "" | x :: r => dtext lay x ++ dflat lay r end.
Definition denorm_text (lay : layout) (q : neq) : string := dflat lay (nlhs q) ++ "=" ++ dflat lay (nrhs q).

(* what a term written in a style is for the parser *)
Definition style_kind (s : tstyle) : kind := match s with SVar => KVariable | SPar _ _ => KParameter | SErr _ _ => KError end.
Definition style_type (side : ptype) (s : tstyle) : ptype := match s with SVar => side | SPar _ _ => TParameter | SErr _ _ => TError end.

(* the Term that parse_terms builds for a token (ty = what a VARIABLE becomes on this side of the equation) *)
Definition tok_term (ty : ptype) (x : ntok) : option term :=
  match x with
  | NTerm name i => Some (mkTerm name ty (Some i))
  | NFunc name => Some (mkTerm name TFunction None)
  | NKw k => Some (mkTerm k TKeyword None)
  | NVerb body => Some (mkTerm (String "`" (body ++ "`")) TVerbatim (Some (IInt 0%Z)))
  | NChr _ => None
  end.
Fixpoint tok_terms (ty : ptype) (l : list ntok) : list term :=
  match l with
  | [] => []
  | x :: r => match tok_term ty x with Some t => t :: tok_terms ty r | None => tok_terms ty r end
  end.
Definition neq_terms (q : neq) : list term := (tok_terms TEndogenous (nlhs q) ++ tok_terms TExogenous (nrhs q))%list.
(* … when the terms are written in the styles of a layout *)
Definition lay_term (lay : layout) (side : ptype) (x : ntok) : option term :=
  match x with
  | NTerm name i => Some (mkTerm name (style_type side (lstyle (lay name i))) (Some i))
  | _ => tok_term side x
  end.
Fixpoint lay_terms (lay : layout) (side : ptype) (l : list ntok) : list term :=
  match l with
  | [] => []
  | x :: r => match lay_term lay side x with Some t => t :: lay_terms lay side r | None => lay_terms lay side r end
  end.
Definition lneq_terms (lay : layout) (q : neq) : list term :=
  (lay_terms lay TEndogenous (nlhs q) ++ lay_terms lay TExogenous (nrhs q))%list.

(* Term.code of a token *)
Definition tok_code (x : ntok) : string :=
  match x with
  | NChr c => String c ""
  | _ => match tok_term TExogenous x with
         | Some t => match term_code t with Some s => s | None => "" end
         | None => ""
         end
  end.
Fixpoint cflat (l : list ntok) : string := match l with [] => "" | x :: r => tok_code x ++ cflat r end.
Definition neq_code (q : neq) : string := cflat (nlhs q) ++ "=" ++ cflat (nrhs q).

(* the template: "{}" for every term, the other characters as they are *)
Fixpoint ttemplate (l : list ntok) : string :=
  match l with
  | [] => ""
  | NChr c :: r => String c (ttemplate r)
  | _ :: r => "{}" ++ ttemplate r
  end.

(* one token re-lexes as itself in the de-normalised text *)
Definition style_ok (s : tstyle) (name : string) : bool :=
  match s with
  | SVar => kw_free name
  | SPar w1 w2 | SErr w1 w2 => all_chars is_space w1 && all_chars is_space w2
  end.
Definition index_ok (s : tstyle) (ix : option (string * string * bool)) (i : pidx) (rest : string) : bool :=
  match ix with
  | Some (w1, w2, plus) => idx_ok (ibody plus i) && all_chars is_space w1 && all_chars is_space w2
  | None => match i with IInt z => (z =? 0)%Z | IStr _ => false end &&                 (* only [0] may be left out *)
            match s with SVar => bare_follow rest | _ => head_not (fun c => Ascii.eqb c "[") rest end
  end.
Definition dtok_ok (lay : layout) (pw : bool) (x : ntok) (rest : string) : bool :=
  match x with
  | NTerm name i =>
      is_ident name && style_ok (lstyle (lay name i)) name && index_ok (lstyle (lay name i)) (lindex (lay name i)) i rest &&
      match i with
      | IInt k => negb (Nat.ltb int_max_str_digits (count_digits (dz k)))       (* int() digit limit *)
      | IStr s => quoted_by "'" s || quoted_by """" s
      end
  | _ => ntok_ok pw x rest
  end.
Fixpoint dwf_k (lay : layout) (pw : bool) (l : list ntok) (k : string) : bool :=
  match l with
  | [] => true
  | x :: r => dtok_ok lay pw x (dflat lay r ++ k) && dwf_k lay (last_word pw (dtext lay x)) r k
  end.

Definition nobrace (l : list ntok) : bool :=
  forallb (fun x => match x with NChr c => negb (Ascii.eqb c "{") && negb (Ascii.eqb c "}") | _ => true end) l.
Definition whole_toks (q : neq) : list ntok := (nlhs q ++ NChr "=" :: nrhs q)%list.

(* the left-hand side is a plain NAME[k] (no braces: finding #14; no blanks inside its bracket: finding #22); [0] may be left out *)
Definition lhs_lay_ok (l : tlay) (ky : Z) : bool :=
  match lstyle l, lindex l with
  | SVar, Some ("", "", _) => true
  | SVar, None => (ky =? 0)%Z
  | _, _ => false
  end.

(* the conditions of the layout theorem: a single assigned term and blanks on the left; the right-hand side re-lexes token by
   token; round brackets balanced, a newline only inside an open round bracket (continuation line) and no other line separator
   (ContSplit.cont_scan); no "#"; no brace outside a parameter token, as many "{" as "}" (the parser's own test) *)
Definition dq_ok_ws (lay : layout) (q : neq) : bool :=
  match nlhs q with
  | NTerm y (IInt ky) :: ws =>
      is_ident y && kw_free y && negb (Nat.ltb int_max_str_digits (count_digits (dz ky))) &&
      lhs_lay_ok (lay y (IInt ky)) ky &&
      forallb (fun x => match x with NChr c => is_space c | _ => false end) ws &&
      dwf_k lay false (nrhs q) "" &&
      cont_scan 0 (denorm_text lay q) && negb (has_char "#" (denorm_text lay q)) &&
      nobrace (whole_toks q) && Nat.eqb (count_char "{" (denorm_text lay q)) (count_char "}" (denorm_text lay q))
  | _ => false
  end.
(* … and the character skeleton is in normal form: then the texts produced are exactly neq_text q / neq_code q *)
Definition dq_ok (lay : layout) (q : neq) : bool := dq_ok_ws lay q && normal (ttemplate (whole_toks q)).

(* the canonical de-normalisation of the property text, for the extracted driver *)
Definition dq_ok_canon (q : neq) : bool := dq_ok canon q.
Definition denorm_canon (q : neq) : string := denorm_text canon q.
