(* MergeComm.v — Symbol.combine commutes across the occurrences of a name: combining x with a and then b gives the same
   symbol as combining it with b and then a, and fails in the one order iff it fails in the other (the exception class may
   differ: only success / failure is compared).  Stated on the five fields separately and for whole symbols; x is an entry
   of the symbol table (its lags / leads are never a period string: `norm_sym`, an invariant of the table). *)
From Coq Require Import String Ascii List Bool ZArith Lia.
Import ListNotations.
Require Import PyBase Generated Symbols SymbolsFacts.
Open Scope string_scope.

Definition ok_of {A} (o : outcome A) : option A := match o with Ret a => Some a | Raise _ => None end.
Definition obnd {A B} (a : option A) (f : A -> option B) : option B := match a with Some x => f x | None => None end.

(* ---- the five field operations, as partial functions ---- *)
Definition tcomb (a b : ptype) : option ptype :=
  if type_eqb a b then Some a
  else if is_variable_type a && is_variable_type b then Some (type_max a b) else None.
Definition pcomb (f : Z -> Z -> Z) (a b : option pidx) : option (option pidx) := ok_of (resolve_by_type_pair f a b).
Definition scomb (a b : option string) : option (option string) := ok_of (resolve_strings a b).

Definition norm_opt (o : option pidx) : bool := match o with Some (IStr _) => false | _ => true end.

Lemma tcomb_comm x a b : obnd (tcomb x a) (fun t => tcomb t b) = obnd (tcomb x b) (fun t => tcomb t a).
Proof. destruct x, a, b; reflexivity. Qed.
Lemma tcomb_first a b : obnd (tcomb a a) (fun t => tcomb t b) = obnd (tcomb b b) (fun t => tcomb t a).
Proof. destruct a, b; reflexivity. Qed.

Lemma pcomb_comm_min x a b : norm_opt x = true ->
  obnd (pcomb Z.min x a) (fun r => pcomb Z.min r b) = obnd (pcomb Z.min x b) (fun r => pcomb Z.min r a).
Proof.
  unfold pcomb. destruct x as [[c|s]|], a as [[p|s1]|], b as [[q|s2]|]; cbn; intros H; try discriminate; try reflexivity;
    f_equal; f_equal; f_equal; lia.
Qed.
Lemma pcomb_comm_max x a b : norm_opt x = true ->
  obnd (pcomb Z.max x a) (fun r => pcomb Z.max r b) = obnd (pcomb Z.max x b) (fun r => pcomb Z.max r a).
Proof.
  unfold pcomb. destruct x as [[c|s]|], a as [[p|s1]|], b as [[q|s2]|]; cbn; intros H; try discriminate; try reflexivity;
    f_equal; f_equal; f_equal; lia.
Qed.
Lemma pcomb_first_min a b :
  obnd (pcomb Z.min a a) (fun r => pcomb Z.min r b) = obnd (pcomb Z.min b b) (fun r => pcomb Z.min r a).
Proof.
  unfold pcomb. destruct a as [[p|s1]|], b as [[q|s2]|]; cbn; try reflexivity; f_equal; f_equal; f_equal; lia.
Qed.
Lemma pcomb_first_max a b :
  obnd (pcomb Z.max a a) (fun r => pcomb Z.max r b) = obnd (pcomb Z.max b b) (fun r => pcomb Z.max r a).
Proof.
  unfold pcomb. destruct a as [[p|s1]|], b as [[q|s2]|]; cbn; try reflexivity; f_equal; f_equal; f_equal; lia.
Qed.

Lemma scomb_comm x a b : obnd (scomb x a) (fun r => scomb r b) = obnd (scomb x b) (fun r => scomb r a).
Proof.
  unfold scomb. destruct x as [x|], a as [a|], b as [b|]; cbn; try reflexivity.
  - destruct (String.eqb_spec x a), (String.eqb_spec x b); subst; cbn; rewrite ?String.eqb_refl; try reflexivity.
    + destruct (String.eqb_spec a b); [congruence|reflexivity].
    + destruct (String.eqb_spec b a); [congruence|reflexivity].
  - destruct (String.eqb x a); reflexivity.
  - destruct (String.eqb x b); reflexivity.
  - destruct (String.eqb_spec a b), (String.eqb_spec b a); subst; try congruence; reflexivity.
Qed.
Lemma scomb_first a b : obnd (scomb a a) (fun r => scomb r b) = obnd (scomb b b) (fun r => scomb r a).
Proof.
  unfold scomb. destruct a as [a|], b as [b|]; cbn; rewrite ?String.eqb_refl; cbn; try reflexivity.
  destruct (String.eqb_spec a b), (String.eqb_spec b a); subst; try congruence; reflexivity.
Qed.

(* ---- whole symbols ---- *)
Definition comb (a b : symbol) : option symbol :=
  obnd (tcomb (stype a) (stype b)) (fun ty =>
  obnd (pcomb Z.min (slags a) (slags b)) (fun lg =>
  obnd (pcomb Z.max (sleads a) (sleads b)) (fun ld =>
  obnd (scomb (sequation a) (sequation b)) (fun eq =>
  obnd (scomb (scode a) (scode b)) (fun cd =>
  Some (mkSymbol (sname a) ty lg ld eq cd)))))).

Lemma comb_combine a b : ok_of (combine a b) = comb a b.
Proof.
  unfold combine, comb, tcomb, pcomb, scomb, obind.
  destruct (type_eqb (stype a) (stype b)); [|destruct (is_variable_type (stype a) && is_variable_type (stype b)); [|reflexivity]];
    cbn [obnd]; destruct (resolve_by_type_pair Z.min (slags a) (slags b)); cbn [ok_of obnd]; try reflexivity;
    destruct (resolve_by_type_pair Z.max (sleads a) (sleads b)); cbn [ok_of obnd]; try reflexivity;
    destruct (resolve_strings (sequation a) (sequation b)); cbn [ok_of obnd]; try reflexivity;
    destruct (resolve_strings (scode a) (scode b)); cbn [ok_of obnd]; reflexivity.
Qed.

Definition norm_sym (s : symbol) : bool := norm_opt (slags s) && norm_opt (sleads s).

Lemma pcomb_norm f a b r : pcomb f a b = Some r -> norm_opt r = true.
Proof. unfold pcomb. destruct a as [[p|s1]|], b as [[q|s2]|]; cbn; intros H; inversion H; reflexivity. Qed.
Lemma comb_norm a b c : comb a b = Some c -> norm_sym c = true.
Proof.
  unfold comb. destruct (tcomb (stype a) (stype b)); [|discriminate]. cbn [obnd].
  destruct (pcomb Z.min (slags a) (slags b)) as [lg|] eqn:E1; [|discriminate]. cbn [obnd].
  destruct (pcomb Z.max (sleads a) (sleads b)) as [ld|] eqn:E2; [|discriminate]. cbn [obnd].
  destruct (scomb (sequation a) (sequation b)); [|discriminate]. cbn [obnd].
  destruct (scomb (scode a) (scode b)); [|discriminate]. cbn [obnd]. intros H. inversion H; subst.
  unfold norm_sym. cbn [slags sleads]. rewrite (pcomb_norm _ _ _ _ E1), (pcomb_norm _ _ _ _ E2). reflexivity.
Qed.
Lemma comb_name a b c : comb a b = Some c -> sname c = sname a.
Proof.
  unfold comb. destruct (tcomb (stype a) (stype b)); [|discriminate]. cbn [obnd].
  destruct (pcomb Z.min (slags a) (slags b)); [|discriminate]. cbn [obnd].
  destruct (pcomb Z.max (sleads a) (sleads b)); [|discriminate]. cbn [obnd].
  destruct (scomb (sequation a) (sequation b)); [|discriminate]. cbn [obnd].
  destruct (scomb (scode a) (scode b)); [|discriminate]. cbn [obnd]. intros H. inversion H; subst. reflexivity.
Qed.

(* two combines in a row, field by field *)
Definition chain5 (nm : option string)
    (t : option ptype) (l d : option (option pidx)) (e c : option (option string)) : option symbol :=
  match t, l, d, e, c with
  | Some ty, Some lg, Some ld, Some eq, Some cd => Some (mkSymbol nm ty lg ld eq cd)
  | _, _, _, _, _ => None
  end.

Lemma comb_twice x a b :
  obnd (comb x a) (fun c => comb c b)
  = chain5 (sname x)
      (obnd (tcomb (stype x) (stype a)) (fun t => tcomb t (stype b)))
      (obnd (pcomb Z.min (slags x) (slags a)) (fun r => pcomb Z.min r (slags b)))
      (obnd (pcomb Z.max (sleads x) (sleads a)) (fun r => pcomb Z.max r (sleads b)))
      (obnd (scomb (sequation x) (sequation a)) (fun r => scomb r (sequation b)))
      (obnd (scomb (scode x) (scode a)) (fun r => scomb r (scode b))).
Proof.
  unfold comb at 1.
  destruct (tcomb (stype x) (stype a)) as [t1|]; cbn [obnd]; [|reflexivity].
  destruct (pcomb Z.min (slags x) (slags a)) as [l1|]; cbn [obnd]; [|destruct (tcomb t1 (stype b)); reflexivity].
  destruct (pcomb Z.max (sleads x) (sleads a)) as [d1|]; cbn [obnd];
    [|destruct (tcomb t1 (stype b)), (pcomb Z.min l1 (slags b)); reflexivity].
  destruct (scomb (sequation x) (sequation a)) as [e1|]; cbn [obnd];
    [|destruct (tcomb t1 (stype b)), (pcomb Z.min l1 (slags b)), (pcomb Z.max d1 (sleads b)); reflexivity].
  destruct (scomb (scode x) (scode a)) as [c1|]; cbn [obnd];
    [|destruct (tcomb t1 (stype b)), (pcomb Z.min l1 (slags b)), (pcomb Z.max d1 (sleads b)), (scomb e1 (sequation b)); reflexivity].
  unfold comb. cbn [stype slags sleads sequation scode sname].
  destruct (tcomb t1 (stype b)); cbn [obnd]; [|reflexivity].
  destruct (pcomb Z.min l1 (slags b)); cbn [obnd]; [|reflexivity].
  destruct (pcomb Z.max d1 (sleads b)); cbn [obnd]; [|reflexivity].
  destruct (scomb e1 (sequation b)); cbn [obnd]; [|reflexivity].
  destruct (scomb c1 (scode b)); reflexivity.
Qed.

Theorem comb_comm x a b : norm_sym x = true ->
  obnd (comb x a) (fun c => comb c b) = obnd (comb x b) (fun c => comb c a).
Proof.
  unfold norm_sym. intros H. apply andb_true_iff in H as [H1 H2].
  rewrite !comb_twice, (tcomb_comm (stype x)), (pcomb_comm_min (slags x) _ _ H1), (pcomb_comm_max (sleads x) _ _ H2),
          (scomb_comm (sequation x)), (scomb_comm (scode x)). reflexivity.
Qed.

(* first appearance: the table entry is made from the symbol combined with itself *)
Theorem comb_first a b : sname a = sname b ->
  obnd (comb a a) (fun c => comb c b) = obnd (comb b b) (fun c => comb c a).
Proof.
  intros Hn. rewrite !comb_twice, (tcomb_first (stype a)), (pcomb_first_min (slags a)), (pcomb_first_max (sleads a)),
                     (scomb_first (sequation a)), (scomb_first (scode a)), Hn. reflexivity.
Qed.
