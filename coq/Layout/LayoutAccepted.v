(* LayoutAccepted.v — the script-level layout theorems with the natural hypothesis "the block is accepted by the splitter"
   (snd (split_M s) = None).  Since fix 85765d5 an accepted script ends between statements (LayoutSplit.accepted_script_clean),
   so no separate condition on the splitter's final state is needed any more. *)
From Coq Require Import String Ascii List Bool Arith Lia Permutation.
Import ListNotations.
Require Import PyBase PyStr Symbols Split Merge ParseEq ParseModel Layout LayoutSplit LayoutScript MergeComm MergePerm.
Open Scope string_scope.

Theorem split_app_accepted s1 s2 :
  s1 <> "" -> ends_sep s1 = false -> snd (split_M s1) = None ->
  split_M (s1 ++ nl_s ++ s2) = ((fst (split_M s1) ++ fst (split_M s2))%list, snd (split_M s2)).
Proof. intros Hne He Hs. destruct (accepted_script_clean s1 Hs) as (st & Hf & Hc). apply (split_app s1 s2 st Hne He Hf Hc). Qed.

Theorem blank_line_between_accepted chk cs s1 b s2 :
  s1 <> "" -> ends_sep s1 = false -> snd (split_M s1) = None ->
  nosep b = true -> is_blank (strip_comments b) = true ->
  parse_model_M chk cs (s1 ++ nl_s ++ b ++ nl_s ++ s2) = parse_model_M chk cs (s1 ++ nl_s ++ s2).
Proof.
  intros Hne He Hs Hn Hb. destruct (accepted_script_clean s1 Hs) as (st & Hf & Hc).
  apply (blank_line_between chk cs s1 b s2 st Hne He Hf Hc Hn Hb).
Qed.

Theorem statements_permute_accepted s1 s2 b1 b2 :
  s1 <> "" -> ends_sep s1 = false -> snd (split_M s1) = None ->
  s2 <> "" -> ends_sep s2 = false -> snd (split_M s2) = None ->
  map_p parse_equation_M (fst (split_M s1)) = POk b1 -> map_p parse_equation_M (fst (split_M s2)) = POk b2 ->
  same_parse (parse_model_nocheck (s1 ++ nl_s ++ s2)) (parse_model_nocheck (s2 ++ nl_s ++ s1)).
Proof.
  intros N1 E1 S1 N2 E2 S2 H1 H2.
  destruct (accepted_script_clean s1 S1) as (st1 & F1 & C1). destruct (accepted_script_clean s2 S2) as (st2 & F2 & C2).
  apply (statements_permute s1 s2 st1 st2 b1 b2 N1 E1 F1 C1 N2 E2 F2 C2 H1 H2).
Qed.
