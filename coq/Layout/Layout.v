(* Layout.v — vocabulary for the layout theorems of property C14.  Definitions only. *)
From Coq Require Import String Ascii List Bool Arith.
Import ListNotations.
Require Import PyBase PyStr Symbols Split Merge ParseEq ParseModel.
Open Scope string_scope.
Open Scope nat_scope.

(* the text ends with a line separator of str.splitlines() *)
Fixpoint ends_sep (s : string) : bool :=
  match s with
  | "" => false
  | String c "" => is_linesep c
  | String _ r => ends_sep r
  end.

(* the splitter is between statements: no open bracket, no open fence, nothing buffered *)
Definition clean (st : sstate) : bool :=
  (unmatched st =? 0) && complete st && match buffer st with [] => true | _ => false end.

(* parse the statements one at a time, left to right; the first failure wins *)
Fixpoint map_p {A B} (f : A -> pres B) (l : list A) : pres (list B) :=
  match l with
  | [] => POk []
  | a :: r => pbind (f a) (fun b => pbind (map_p f r) (fun bs => POk (b :: bs)))
  end.

(* what parse_model does once every statement is parsed: the splitter's own closing error, else the merge *)
Definition finish_parse (by_equation : list (list symbol)) (split_err : option exn) : pres (list symbol) :=
  match split_err with
  | Some e => PErr e
  | None => of_outcome (merge_symbols by_equation)
  end.
