(* DenormLex.v — lexing the de-normalised text of a token list and the Terms it yields:
     dscan_items     dwf_k false l "" = true  ->  scan_items (dflat l) = items_of 0 (dpieces l)
     dparse_terms    …  ->  parse_terms (dflat l) = Ret (tok_terms TVariable l)
   for ALL token lists. *)
From Coq Require Import String Ascii List Bool Arith Lia ZArith.
Import ListNotations.
Require Import Generated PyBase PyStr Lex Symbols Merge ParseEq GLex GLexFacts GNorm GNormFacts GraphEvalWf Denorm DenormInt.
Open Scope string_scope.
Open Scope nat_scope.

Section Lay.
Variable lay : layout.
Notation dtext := (dtext lay).
Notation dflat := (dflat lay).
Notation dtok_ok := (dtok_ok lay).
Notation dwf_k := (dwf_k lay).

Definition dmatch (x : ntok) : tmatch :=
  match x with
  | NTerm name i =>
      mkMatch (style_kind (lstyle (lay name i))) name
              (match lindex (lay name i) with None => None | Some (_, _, plus) => Some (ibody plus i) end)
              (String.length (dtext x))
  | _ => ntok_match x
  end.
Definition dpiece (x : ntok) : piece := match x with NChr c => PChr c | _ => PTok (dtext x) (dmatch x) end.
Definition dpieces (l : list ntok) : list piece := map dpiece l.

Lemma dflat_pieces l : flat (dpieces l) = dflat l.
Proof. unfold dpieces. induction l as [|x l IH]; [reflexivity|]. destruct x; cbn [map dpiece flat Denorm.dflat Denorm.dtext ntok_text]; rewrite IH; reflexivity. Qed.
Lemma dflat_app a b : dflat (a ++ b) = dflat a ++ dflat b.
Proof. induction a as [|x a IH]; [reflexivity|]. cbn [Denorm.dflat app]. rewrite IH, sapp_assoc. reflexivity. Qed.
Lemma dwf_k_app pw a b k : dwf_k pw (a ++ b) k = dwf_k pw a (dflat b ++ k) && dwf_k (last_word pw (dflat a)) b k.
Proof.
  revert pw. induction a as [|x a IH]; intros pw; [reflexivity|].
  cbn [app Denorm.dwf_k Denorm.dflat]. rewrite IH, dflat_app, sapp_assoc, last_word_app, andb_assoc. reflexivity.
Qed.

Lemma dtok_lex pw x rest :
  dtok_ok pw x rest = true ->
  match x with
  | NChr c => match_here pw (String c rest) = None
  | _ => dtext x <> "" /\ mlen (dmatch x) = String.length (dtext x) /\ match_here pw (dtext x ++ rest) = Some (dmatch x)
  end.
Proof.
  destruct x as [name i|name|k|body|c]; try (exact (ntok_lex pw _ rest)).
  cbn [Denorm.dtok_ok Denorm.dtext dmatch mlen]. destruct (lay name i) as [s ix]. cbn [lstyle lindex].
  intros H. apply andb_true_iff in H as [H _]. apply andb_true_iff in H as [H Hix]. apply andb_true_iff in H as [Hid Hst].
  assert (Hne : style_text s name ++ index_text ix i <> "").
  { apply app_ne. destruct s; cbn [style_text]; [apply (ident_ne _ Hid)|discriminate|discriminate]. }
  split; [exact Hne|]. split; [reflexivity|]. rewrite sapp_assoc.
  destruct ix as [[[v1 v2] plus]|]; cbn [index_ok index_text] in *.
  - apply andb_true_iff in Hix as [Hix B2]. apply andb_true_iff in Hix as [Hi B1].
    destruct s as [|w1 w2|w1 w2]; cbn [style_ok style_text style_kind] in *.
    + rewrite (match_here_var_idx pw name v1 (ibody plus i) v2 rest Hid Hst B1 B2 Hi). rewrite slen_app. reflexivity.
    + apply andb_true_iff in Hst as [W1 W2].
      rewrite (match_here_par pw w1 name w2 _ Hid W1 W2), (with_index_idx _ _ _ v1 (ibody plus i) v2 rest B1 B2 Hi). rewrite slen_app. reflexivity.
    + apply andb_true_iff in Hst as [W1 W2].
      rewrite (match_here_err pw w1 name w2 _ Hid W1 W2), (with_index_idx _ _ _ v1 (ibody plus i) v2 rest B1 B2 Hi). rewrite slen_app. reflexivity.
  - apply andb_true_iff in Hix as [_ Hf]. cbn [append]. rewrite sapp_nil_r.
    destruct s as [|w1 w2|w1 w2]; cbn [style_ok style_text style_kind] in *.
    + apply (match_here_var_bare pw name rest Hid Hst Hf).
    + apply andb_true_iff in Hst as [W1 W2].
      rewrite (match_here_par pw w1 name w2 rest Hid W1 W2), (with_index_bare _ _ _ rest Hf). reflexivity.
    + apply andb_true_iff in Hst as [W1 W2].
      rewrite (match_here_err pw w1 name w2 rest Hid W1 W2), (with_index_bare _ _ _ rest Hf). reflexivity.
Qed.

Theorem dwf_lex_ok l : forall pw, dwf_k pw l "" = true -> lex_ok pw (dpieces l).
Proof.
  induction l as [|x l IH]; intros pw H; [exact I|].
  cbn [Denorm.dwf_k] in H. apply andb_true_iff in H as [Hx Hr]. rewrite sapp_nil_r in Hx.
  pose proof (dtok_lex pw x (dflat l) Hx) as L.
  destruct x as [name i|name|kw|body|c]; cbn [dpieces map dpiece lex_ok]; fold (dpieces l); rewrite dflat_pieces.
  1-4: destruct L as (Hne & Hlen & Hm); repeat split; try assumption; apply (IH _ Hr).
  split; [exact L|]. apply (IH _ Hr).
Qed.

Theorem dscan_items l : dwf_k false l "" = true -> scan_items (dflat l) = items_of 0 (dpieces l).
Proof. intros H. rewrite <- dflat_pieces. apply scan_items_pieces, dwf_lex_ok, H. Qed.

(* ---- the Terms ---- *)
Lemma mk_term_dmatch pw x rest t :
  dtok_ok pw x rest = true -> lay_term lay TVariable x = Some t -> mk_term (dmatch x) = Ret t.
Proof.
  destruct x as [name i|name|k|body|c]; cbn [lay_term tok_term dmatch ntok_match]; intros H E; inversion E; subst; clear E.
  - cbn [Denorm.dtok_ok] in H. destruct (lay name i) as [s ix]. cbn [lstyle lindex] in *.
    apply andb_true_iff in H as [H Hq]. apply andb_true_iff in H as [_ Hix].
    assert (Hidx : mk_index (match ix with None => None | Some (_, _, plus) => Some (ibody plus i) end) = Ret i).
    { destruct ix as [[[v1 v2] plus]|]; cbn [index_ok] in Hix.
      - destruct i as [z|s0]; [apply (mk_index_ibody plus z Hq)|]. cbn [ibody]. unfold mk_index. rewrite Hq. reflexivity.
      - apply andb_true_iff in Hix as [Hz _]. destruct i as [z|s0]; [|discriminate]. apply Z.eqb_eq in Hz. subst z. reflexivity. }
    unfold mk_term. cbn [mkind mindex mname]. destruct s; cbn [style_kind style_type kind_type]; rewrite Hidx; reflexivity.
  - reflexivity.
  - reflexivity.
  - reflexivity.
Qed.

Lemma dterms_pieces l : forall pw, dwf_k pw l "" = true -> map_o mk_term (piece_matches (dpieces l)) = Ret (lay_terms lay TVariable l).
Proof.
  induction l as [|x l IH]; intros pw H; [reflexivity|].
  cbn [Denorm.dwf_k] in H. apply andb_true_iff in H as [Hx Hr]. specialize (IH _ Hr).
  destruct x as [name i|name|kw|body|c]; cbn [dpieces map dpiece piece_matches lay_terms]; fold (dpieces l).
  5: exact IH.
  all: cbn [map_o lay_term tok_term]; erewrite (mk_term_dmatch pw _ _ _ Hx) by reflexivity; rewrite IH; reflexivity.
Qed.

Theorem dparse_terms l : dwf_k false l "" = true -> parse_terms (dflat l) = Ret (lay_terms lay TVariable l).
Proof.
  intros H. unfold parse_terms. rewrite <- dflat_pieces. rewrite (matches_pieces _ (dwf_lex_ok l false H)).
  apply (dterms_pieces l false H).
Qed.
End Lay.

Lemma replace_type_terms lay ty l : ty <> TVariable -> map (replace_type ty) (lay_terms lay TVariable l) = lay_terms lay ty l.
Proof.
  intros Hty. induction l as [|x l IH]; [reflexivity|]. destruct x as [name i|name|k|body|c]; cbn [lay_terms lay_term tok_term map]; rewrite ?IH; try reflexivity.
  destruct (lstyle (lay name i)); reflexivity.
Qed.

(* tokens never yield an INVALID term *)
Lemma lay_terms_no_invalid lay ty l : ty <> TInvalid -> has_type TInvalid (lay_terms lay ty l) = false.
Proof.
  intros Hty. unfold has_type. induction l as [|x l IH]; [reflexivity|].
  destruct x as [name i|name|k|body|c]; cbn [lay_terms lay_term tok_term existsb ttype type_eqb]; rewrite ?IH; try reflexivity.
  destruct (lstyle (lay name i)); cbn [style_type type_eqb]; try reflexivity. destruct ty; try reflexivity. congruence.
Qed.
