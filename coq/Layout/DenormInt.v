(* DenormInt.v — int(str(k)) = k for the model of int() (ParseEq.py_int) and every integer k, with the "+" that the
   de-normalised index of a lead carries:  py_int (dz k) = Some k. *)
From Coq Require Import String Ascii List Bool Arith Lia ZArith DecimalString Decimal DecimalZ DecimalPos.
Import ListNotations.
Require Import Generated PyBase PyStr Lex Symbols ParseEq GLex GLexFacts GNorm LayoutLex GraphEvalWf Denorm.
Open Scope string_scope.

(* Horner value of a decimal digit list *)
Fixpoint uval (acc : Z) (d : uint) : Z :=
  match d with
  | Nil => acc
  | D0 d => uval (acc * 10 + 0) d | D1 d => uval (acc * 10 + 1) d | D2 d => uval (acc * 10 + 2) d
  | D3 d => uval (acc * 10 + 3) d | D4 d => uval (acc * 10 + 4) d | D5 d => uval (acc * 10 + 5) d
  | D6 d => uval (acc * 10 + 6) d | D7 d => uval (acc * 10 + 7) d | D8 d => uval (acc * 10 + 8) d
  | D9 d => uval (acc * 10 + 9) d
  end%Z.

Lemma parse_digits_uint d : forall acc b, (d <> Nil \/ b = true) ->
  parse_digits acc b (NilEmpty.string_of_uint d) = Some (uval acc d).
Proof.
  induction d; intros acc b H; cbn [NilEmpty.string_of_uint uval];
    [destruct H as [H|H]; [congruence|subst; reflexivity]|..];
    (cbn [parse_digits]; match goal with |- context [is_digit ?c] => replace (is_digit c) with true by (vm_compute; reflexivity) end;
     match goal with |- context [digit_z ?c] => replace (digit_z c) with (digit_z c) by reflexivity end;
     rewrite IHd by (right; reflexivity); f_equal).
Qed.

Lemma uval_acc d : forall p, uval (Zpos p) d = Zpos (Pos.of_uint_acc d p).
Proof.
  induction d; intros p; cbn [uval Pos.of_uint_acc]; [reflexivity|..];
    match goal with |- uval ?a _ = Zpos (Pos.of_uint_acc _ ?q) => replace a with (Zpos q) by lia end; apply IHd.
Qed.
Lemma uval_of_uint d : uval 0 d = Z.of_N (Pos.of_uint d).
Proof.
  induction d; cbn [uval Pos.of_uint]; [reflexivity|exact IHd|..];
    match goal with |- uval ?a _ = Z.of_N (Npos (Pos.of_uint_acc _ ?q)) => replace a with (Zpos q) by lia end; apply uval_acc.
Qed.

Lemma parse_digits_pos p : parse_digits 0 false (NilEmpty.string_of_uint (Pos.to_uint p)) = Some (Zpos p).
Proof.
  rewrite parse_digits_uint by (left; apply Unsigned.to_uint_nonnil).
  rewrite uval_of_uint, Unsigned.of_to. reflexivity.
Qed.

Lemma nz_string_pos p : NilZero.string_of_uint (Pos.to_uint p) = NilEmpty.string_of_uint (Pos.to_uint p).
Proof. pose proof (Unsigned.to_uint_nonnil p) as H. destruct (Pos.to_uint p); [congruence|..]; reflexivity. Qed.

Lemma digits_no_pyspace s : all_chars is_digit s = true -> all_chars (fun c => negb (is_pyspace c)) s = true.
Proof.
  apply all_chars_impl. intros c H. pose proof (digit_facts c H) as F. apply andb_true_iff in F as [F _]. apply andb_true_iff in F as [F _]. exact F.
Qed.
Lemma strip_id_nospace s : all_chars (fun c => negb (is_pyspace c)) s = true -> py_strip s = s.
Proof.
  intros H. unfold py_strip. apply strip_by_id.
  - apply (all_chars_head_not (fun c => negb (is_pyspace c)) is_pyspace s); [|exact H]. intros c E. apply negb_true_iff. exact E.
  - unfold last_not. apply (all_chars_head_not (fun c => negb (is_pyspace c)) is_pyspace (srev s)).
    + intros c E. apply negb_true_iff. exact E.
    + rewrite all_chars_srev. exact H.
Qed.

(* int() refuses texts with more than int_max_str_digits (4300) digits: the offsets must be shorter *)
Definition short_int (k : Z) : bool := negb (Nat.ltb int_max_str_digits (count_digits (dz k))).

Theorem py_int_dz k : short_int k = true -> py_int (dz k) = Some k.
Proof.
  unfold short_int. intros Hlim. apply negb_true_iff in Hlim. revert Hlim.
  unfold dz. destruct k as [|p|p]; cbn [Z.ltb Z.compare].
  - reflexivity.
  - unfold string_of_Z. cbn [Z.to_int NilZero.string_of_int]. rewrite nz_string_pos.
    set (ds := NilEmpty.string_of_uint (Pos.to_uint p)). intros Hlim.
    assert (Hd : all_chars is_digit ds = true) by apply uint_chars.
    unfold py_int. rewrite strip_id_nospace.
    + rewrite Hlim. cbn [append]. replace (Ascii.eqb "+" "-") with false by reflexivity. rewrite Ascii.eqb_refl. apply parse_digits_pos.
    + cbn [append all_chars]. rewrite (digits_no_pyspace ds Hd). reflexivity.
  - unfold string_of_Z. cbn [Z.to_int NilZero.string_of_int]. rewrite nz_string_pos.
    set (ds := NilEmpty.string_of_uint (Pos.to_uint p)). intros Hlim.
    assert (Hd : all_chars is_digit ds = true) by apply uint_chars.
    unfold py_int. rewrite strip_id_nospace.
    + rewrite Hlim. rewrite Ascii.eqb_refl. unfold ds. rewrite parse_digits_pos. reflexivity.
    + cbn [all_chars]. rewrite (digits_no_pyspace ds Hd). reflexivity.
Qed.

(* the index text of a de-normalised integer offset: characters, no quotes *)
Lemma dz_chars k : all_chars idxc (dz k) = true.
Proof. unfold dz. destruct (0 <? k)%Z; [cbn [append all_chars]; rewrite string_of_Z_chars; reflexivity|apply string_of_Z_chars]. Qed.
Lemma idxc_not_quote : forall c, idxc c = true -> negb (Ascii.eqb c "'") && negb (Ascii.eqb c """") && negb (Ascii.eqb c "`") = true.
Proof. sweep. Qed.
Lemma dz_nonempty k : dz k <> "".
Proof.
  unfold dz. destruct (0 <? k)%Z; [discriminate|]. unfold string_of_Z. destruct (Z.to_int k) as [d|d]; cbn [NilZero.string_of_int]; [|discriminate].
  destruct d; discriminate.
Qed.
Lemma dz_not_quoted k q : In q ["'"; """"; "`"]%char -> quoted_by q (dz k) = false.
Proof.
  intros Hq. pose proof (dz_chars k) as H. pose proof (dz_nonempty k) as N. destruct (dz k) as [|c r]; [congruence|].
  cbn [all_chars] in H. apply andb_true_iff in H as [Hc _]. pose proof (idxc_not_quote c Hc) as P.
  apply andb_true_iff in P as [P P3]. apply andb_true_iff in P as [P1 P2]. apply negb_true_iff in P1, P2, P3.
  unfold quoted_by. cbn [head_is]. cbn [In] in Hq. destruct Hq as [<-|[<-|[<-|[]]]]; rewrite ?P1, ?P2, ?P3; reflexivity.
Qed.

Theorem mk_index_dz k : short_int k = true -> mk_index (Some (dz k)) = Ret (IInt k).
Proof.
  intros Hs. unfold mk_index. rewrite (dz_not_quoted k "'"), (dz_not_quoted k """"), (dz_not_quoted k "`"), (py_int_dz k Hs); cbn [In]; auto.
Qed.

Lemma idx_ok_dz k : idx_ok (dz k) = true.
Proof.
  pose proof (dz_chars k) as H. unfold idx_ok.
  rewrite (idxc_no "]" _ eq_refl H). unfold has_nl. rewrite (idxc_no nl _ eq_refl H).
  rewrite (all_chars_head_not idxc is_space _ idxc_not_space H).
  change (rev_str (dz k) "") with (srev (dz k)).
  rewrite (all_chars_head_not idxc is_space (srev (dz k)) idxc_not_space); [reflexivity|].
  rewrite all_chars_srev. exact H.
Qed.

(* ---- a lead written without its "+" ---- *)
Theorem py_int_unsigned p : short_int (Zpos p) = true -> py_int (string_of_Z (Zpos p)) = Some (Zpos p).
Proof.
  unfold short_int, dz. cbn [Z.ltb Z.compare]. intros Hlim. apply negb_true_iff in Hlim. revert Hlim.
  unfold string_of_Z. cbn [Z.to_int NilZero.string_of_int]. rewrite nz_string_pos.
  pose proof (parse_digits_pos p) as P. pose proof (uint_chars (Pos.to_uint p)) as Hd.
  destruct (NilEmpty.string_of_uint (Pos.to_uint p)) as [|c r] eqn:Es.
  - cbn [parse_digits] in P. discriminate.
  - intros Hlim. change (count_digits ("+" ++ String c r)) with (count_digits (String c r)) in Hlim.
    unfold py_int. rewrite strip_id_nospace by (apply digits_no_pyspace, Hd). rewrite Hlim.
    cbn [all_chars] in Hd. apply andb_true_iff in Hd as [Hc _]. pose proof (digit_facts c Hc) as F.
    apply andb_true_iff in F as [F Hp]. apply andb_true_iff in F as [_ Hm]. apply negb_true_iff in Hm, Hp. rewrite Hm, Hp. exact P.
Qed.

Lemma ibody_chars plus k : all_chars idxc (ibody plus (IInt k)) = true.
Proof. destruct plus; cbn [ibody]; [apply dz_chars|apply string_of_Z_chars]. Qed.
Lemma ibody_nonempty plus k : ibody plus (IInt k) <> "".
Proof.
  destruct plus; cbn [ibody]; [apply dz_nonempty|]. unfold string_of_Z. destruct (Z.to_int k) as [d|d]; cbn [NilZero.string_of_int]; [|discriminate].
  destruct d; discriminate.
Qed.
Lemma ibody_not_quoted plus k q : In q ["'"; """"; "`"]%char -> quoted_by q (ibody plus (IInt k)) = false.
Proof.
  intros Hq. pose proof (ibody_chars plus k) as H. pose proof (ibody_nonempty plus k) as N. destruct (ibody plus (IInt k)) as [|c r]; [congruence|].
  cbn [all_chars] in H. apply andb_true_iff in H as [Hc _]. pose proof (idxc_not_quote c Hc) as P.
  apply andb_true_iff in P as [P P3]. apply andb_true_iff in P as [P1 P2]. apply negb_true_iff in P1, P2, P3.
  unfold quoted_by. cbn [head_is]. cbn [In] in Hq. destruct Hq as [<-|[<-|[<-|[]]]]; rewrite ?P1, ?P2, ?P3; reflexivity.
Qed.
Lemma py_int_ibody plus k : short_int k = true -> py_int (ibody plus (IInt k)) = Some k.
Proof.
  intros Hs. destruct plus; cbn [ibody]; [apply (py_int_dz k Hs)|].
  destruct k as [|p|p]; [reflexivity|apply (py_int_unsigned p Hs)|].
  pose proof (py_int_dz (Zneg p) Hs) as H. unfold dz in H. cbn [Z.ltb Z.compare] in H. exact H.
Qed.
Theorem mk_index_ibody plus k : short_int k = true -> mk_index (Some (ibody plus (IInt k))) = Ret (IInt k).
Proof.
  intros Hs. unfold mk_index.
  rewrite (ibody_not_quoted plus k "'"), (ibody_not_quoted plus k """"), (ibody_not_quoted plus k "`"), (py_int_ibody plus k Hs); cbn [In]; auto.
Qed.
Lemma idx_ok_ibody plus k : idx_ok (ibody plus (IInt k)) = true.
Proof.
  pose proof (ibody_chars plus k) as H. unfold idx_ok.
  rewrite (idxc_no "]" _ eq_refl H). unfold has_nl. rewrite (idxc_no nl _ eq_refl H).
  rewrite (all_chars_head_not idxc is_space _ idxc_not_space H).
  change (rev_str (ibody plus (IInt k)) "") with (srev (ibody plus (IInt k))).
  rewrite (all_chars_head_not idxc is_space (srev (ibody plus (IInt k))) idxc_not_space); [reflexivity|].
  rewrite all_chars_srev. exact H.
Qed.
