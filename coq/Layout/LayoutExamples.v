(* LayoutExamples.v — instances of the C14 theorems' hypotheses and witnesses for what does NOT hold of the code as it is. *)
From Coq Require Import String Ascii List Bool Arith ZArith.
Import ListNotations.
Require Import Generated PyBase PyStr Lex Symbols Split Merge ParseEq ParseModel GLex GLexFacts GNorm Layout LayoutNorm LayoutLex LayoutSplit Denorm DenormInt DenormFacts LayoutScript.
Open Scope string_scope.

Definition names_of (r : pres (list symbol)) : option (list (option string * ptype * option pidx * option pidx)) :=
  match r with POk l => Some (map (fun s => (sname s, stype s, slags s, sleads s)) l) | _ => None end.
Definition codes_of_res (r : pres (list symbol)) : list string := match r with POk l => codes_of l | _ => [] end.

(* a consumption function written compactly and spread over lines with every harmless transformation at once *)
Definition ex_base : string := "C = ({alpha_1} * YD + {alpha_2} * H[-1])".
Definition ex_var : string :=
  "# consumption" ++ nl_s ++ nl_s ++ "C[0]  =  (  { alpha_1 }[0]	*  YD[ +0 ] +" ++ nl_s ++ "      {alpha_2 }  *  H[ -1 ] )   # households".
Example ex_layout_same : parse_model_nocheck ex_var = parse_model_nocheck ex_base /\ names_of (parse_model_nocheck ex_base) <> None.
Proof. vm_compute. split; [reflexivity|discriminate]. Qed.

(* hypotheses of statements_independent: a two-line statement with a comment, then another statement *)
Definition ex_s1 : string := "Y = (X +" ++ nl_s ++ "  Z)  # c".
Definition ex_s2 : string := "W = Y[-1]" ++ nl_s ++ "V = {a} * W".
Example ex_independent_hyps :
  ex_s1 <> "" /\ ends_sep ex_s1 = false /\ final_state s0 (model_lines ex_s1) = Some s0 /\ clean s0 = true /\
  (exists b1, map_p parse_equation_M (fst (split_M ex_s1)) = POk b1 /\ length b1 = 1) /\
  (exists b2, map_p parse_equation_M (fst (split_M ex_s2)) = POk b2 /\ length b2 = 2) /\ snd (split_M ex_s2) = None.
Proof.
  split; [discriminate|]. split; [reflexivity|]. split; [vm_compute; reflexivity|]. split; [reflexivity|].
  split; [eexists; split; [vm_compute; reflexivity|reflexivity]|]. split; [eexists; split; [vm_compute; reflexivity|reflexivity]|].
  vm_compute. reflexivity.
Qed.

(* fix 85765d5 (was finding #24): a script that leaves a fence open is rejected whole — alone and with statements appended;
   its final splitter state is not clean (complete = false), which is exactly the hypothesis of unclosed_fence_rejected *)
Definition fence_s1 : string := "Y = X" ++ nl_s ++ "```" ++ nl_s ++ "foo = 1".
Example unclosed_fence_is_rejected :
  parse_model_nocheck fence_s1 = PErr ParserError /\
  parse_model_nocheck (fence_s1 ++ nl_s ++ "Z = W") = PErr ParserError /\
  names_of (parse_model_nocheck "Z = W") = Some [(Some "Z", TEndogenous, Some (IInt 0%Z), Some (IInt 0%Z)); (Some "W", TExogenous, Some (IInt 0%Z), Some (IInt 0%Z))] /\
  final_state s0 (model_lines fence_s1) = Some (mkS 0 false ["foo = 1"; "```"]) /\
  (exists b, map_p parse_equation_M (fst (split_M fence_s1)) = POk b /\ length b = 1).
Proof. vm_compute. repeat split; try reflexivity. eexists. split; reflexivity. Qed.
(* closing the fence makes the same text an accepted block, and independence applies again *)
Example closed_fence_accepted :
  snd (split_M (fence_s1 ++ nl_s ++ "```")) = None /\ ends_sep (fence_s1 ++ nl_s ++ "```") = false /\
  names_of (parse_model_nocheck ((fence_s1 ++ nl_s ++ "```") ++ nl_s ++ "Z = W"))
  = Some [(Some "Y", TEndogenous, Some (IInt 0%Z), Some (IInt 0%Z)); (Some "X", TExogenous, Some (IInt 0%Z), Some (IInt 0%Z));
          (Some "Z", TEndogenous, Some (IInt 0%Z), Some (IInt 0%Z)); (Some "W", TExogenous, Some (IInt 0%Z), Some (IInt 0%Z));
          (None, TVerbatim, None, None)].
Proof. vm_compute. repeat split; reflexivity. Qed.

(* finding #22: blanks inside the LEFT-hand index bracket are rejected *)
Example lhs_index_inner_space_refuted :
  parse_model_nocheck "Y[ 1 ] = X" = PErr ParserError /\ codes_of_res (parse_model_nocheck "Y[1] = X") = ["self._Y[t+1] = self._X[t]"] /\
  codes_of_res (parse_model_nocheck "Y = X[ 1 ]") = ["self._Y[t] = self._X[t+1]"].
Proof. vm_compute. repeat split; reflexivity. Qed.

(* finding #20: a blank before the index bracket is accepted and the lag is lost *)
Example space_before_index_refuted :
  codes_of_res (parse_model_nocheck "Y = X [-1]") = ["self._Y[t] = self._X[t] [-1]"] /\
  codes_of_res (parse_model_nocheck "Y = X[-1]") = ["self._Y[t] = self._X[t-1]"] /\
  names_of (parse_model_nocheck "Y = X [-1]") = Some [(Some "Y", TEndogenous, Some (IInt 0%Z), Some (IInt 0%Z)); (Some "X", TExogenous, Some (IInt 0%Z), Some (IInt 0%Z))] /\
  names_of (parse_model_nocheck "Y = X[-1]") = Some [(Some "Y", TEndogenous, Some (IInt 0%Z), Some (IInt 0%Z)); (Some "X", TExogenous, Some (IInt (-1)%Z), Some (IInt 0%Z))].
Proof. vm_compute. repeat split; reflexivity. Qed.

(* the normaliser on a continuation line *)
Example ex_normalise : normalise_template ("{} = (  {} *" ++ nl_s ++ "	 {}  )") = "{} = ({} * {})" /\ normal "{} = ({} * {})" = true.
Proof. vm_compute. split; reflexivity. Qed.

(* ---- the fixed point: a lead on the left, a parameter-turned-series, a function, a conditional, a named period, a verbatim
   fragment with a double blank ---- *)
Definition ex_fix_q : neq :=
  mkNeq [NTerm "C" (IInt 1%Z); NChr " "]
        [NChr " "; NChr "("; NTerm "alpha_1" (IInt 0%Z); NChr " "; NChr "*"; NChr " "; NFunc "max"; NChr "("; NTerm "YD" (IInt 2%Z); NChr ","; NChr " ";
         NTerm "H" (IInt (-1)%Z); NChr ")"; NChr " "; NKw "if"; NChr " "; NTerm "X" (IStr "'2000'"); NChr " "; NChr "<"; NChr "="; NChr " "; NChr "0"; NChr " ";
         NKw "else"; NChr " "; NVerb "np.pi *  2"; NChr ")"].
Example ex_fix_ok : dq_ok canon ex_fix_q = true.
Proof. vm_compute. reflexivity. Qed.
Example ex_fix_texts :
  denorm_text canon ex_fix_q = "C[+1] = (alpha_1[0] * max(YD[+2], H[-1]) if X['2000'] <= 0 else `np.pi *  2`)" /\
  neq_text ex_fix_q = "C[t+1] = (alpha_1[t] * max(YD[t+2], H[t-1]) if X['2000'] <= 0 else `np.pi *  2`)" /\
  neq_code ex_fix_q = "self._C[t+1] = (self._alpha_1[t] * max(self._YD[t+2], self._H[t-1]) if self['X', '2000'] <= 0 else np.pi *  2)".
Proof. vm_compute. repeat split; reflexivity. Qed.
(* the theorem at work *)
Example ex_fix_instance :
  exists syms, parse_equation_M (denorm_text canon ex_fix_q) = POk syms /\
    exists s, In s syms /\ sname s = Some "C" /\ sequation s = Some (neq_text ex_fix_q) /\ scode s = Some (neq_code ex_fix_q).
Proof. eexists. split; [vm_compute; reflexivity|]. eexists. split; [left; reflexivity|]. vm_compute. repeat split; reflexivity. Qed.

(* the property's exclusion is needed: a backticked period index X[`2001`] normalises to X[2001]; fed back, 2001 is read as a lead *)
Example backticked_period_not_a_fixed_point :
  codes_of_res (parse_model_nocheck "Y = X[`2001`]") = ["self._Y[t] = self['X', 2001]"] /\
  codes_of_res (parse_model_nocheck "Y[0] = X[2001]") = ["self._Y[t] = self._X[t+2001]"].
Proof. vm_compute. split; reflexivity. Qed.

(* another admissible layout of the same equation: blanks inside the right-hand index brackets, leads without "+", [0] left out *)
Definition ex_lay : layout := fun name i =>
  if String.eqb name "C" then mkLay SVar (Some ("", "", false))
  else if String.eqb name "alpha_1" then mkLay SVar None
  else mkLay SVar (Some (" ", "  ", false)).
Example ex_lay_ok : dq_ok ex_lay ex_fix_q = true /\
  denorm_text ex_lay ex_fix_q = "C[1] = (alpha_1 * max(YD[ 2  ], H[ -1  ]) if X[ '2000'  ] <= 0 else `np.pi *  2`)" /\
  lneq_terms ex_lay ex_fix_q = lneq_terms canon ex_fix_q.
Proof. vm_compute. repeat split; reflexivity. Qed.

(* parameters and errors: alpha_1 written { alpha_1 } (blanks inside the braces, [0] left out), H written < H >[ -1] *)
Definition ex_lay_src : layout := fun name i =>
  if String.eqb name "alpha_1" then mkLay (SPar " " "  ") None
  else if String.eqb name "H" then mkLay (SErr " " " ") (Some (" ", "", true))
  else mkLay SVar (Some ("", "", true)).
Definition ex_lay_src_compact : layout := fun name i =>
  if String.eqb name "alpha_1" then mkLay (SPar "" "") (Some ("", "", true))
  else if String.eqb name "H" then mkLay (SErr "" "") (Some ("", "", true))
  else mkLay SVar (Some ("", "", true)).
Example ex_lay_src_ok :
  dq_ok ex_lay_src ex_fix_q = true /\ dq_ok ex_lay_src_compact ex_fix_q = true /\
  denorm_text ex_lay_src ex_fix_q = "C[+1] = ({ alpha_1  } * max(YD[+2], < H >[ -1]) if X['2000'] <= 0 else `np.pi *  2`)" /\
  denorm_text ex_lay_src_compact ex_fix_q = "C[+1] = ({alpha_1}[0] * max(YD[+2], <H>[-1]) if X['2000'] <= 0 else `np.pi *  2`)" /\
  lneq_terms ex_lay_src ex_fix_q = lneq_terms ex_lay_src_compact ex_fix_q /\
  lneq_terms ex_lay_src ex_fix_q <> lneq_terms canon ex_fix_q.
Proof. vm_compute. repeat split; try reflexivity. discriminate. Qed.

(* hypotheses of the script-level comment / blank-line theorems *)
Example ex_comment_ok : comment_ok "Y = X" "  " " trailing # twice" = true /\ comment_ok "Y = X " "" "c" = false /\ comment_ok "Y = '#'" " " "c" = false.
Proof. vm_compute. repeat split; reflexivity. Qed.
Example ex_blank_between :
  ex_s1 <> "" /\ ends_sep ex_s1 = false /\ final_state s0 (model_lines ex_s1) = Some s0 /\ clean s0 = true /\
  nosep "   # only a comment" = true /\ is_blank (strip_comments "   # only a comment") = true /\ nosep "" = true /\ is_blank (strip_comments "") = true.
Proof. split; [discriminate|]. vm_compute. repeat split; reflexivity. Qed.

(* reordering statements: both hypotheses sets hold for ex_s1 / ex_s2, and the two orders really list the symbols differently *)
Definition name_types (r : pres (list symbol)) : list (option string * ptype) :=
  match r with POk l => map (fun s => (sname s, stype s)) l | _ => [] end.
Example ex_permute :
  final_state s0 (model_lines ex_s2) = Some s0 /\ ends_sep ex_s2 = false /\ ex_s2 <> "" /\
  name_types (parse_model_nocheck (ex_s1 ++ nl_s ++ ex_s2))
    = [(Some "Y", TEndogenous); (Some "X", TExogenous); (Some "Z", TExogenous); (Some "W", TEndogenous); (Some "V", TEndogenous); (Some "a", TParameter)] /\
  name_types (parse_model_nocheck (ex_s2 ++ nl_s ++ ex_s1))
    = [(Some "W", TEndogenous); (Some "Y", TEndogenous); (Some "V", TEndogenous); (Some "a", TParameter); (Some "X", TExogenous); (Some "Z", TExogenous)].
Proof. split; [vm_compute; reflexivity|]. split; [reflexivity|]. split; [discriminate|]. vm_compute. split; reflexivity. Qed.

(* the same equation written with runs of blanks and tabs, blanks after "(" and before ")" *)
Definition tab : ascii := ascii_of_nat 9.
Definition ex_ws_q : neq :=
  mkNeq [NTerm "C" (IInt 1%Z); NChr " "; NChr tab; NChr " "]
        [NChr tab; NChr "("; NChr " "; NChr " "; NTerm "alpha_1" (IInt 0%Z); NChr " "; NChr "*"; NChr tab; NChr " "; NFunc "max"; NChr "("; NChr " ";
         NTerm "YD" (IInt 2%Z); NChr ","; NChr " "; NChr " "; NChr " ";
         NTerm "H" (IInt (-1)%Z); NChr tab; NChr ")"; NChr " "; NKw "if"; NChr " "; NChr " "; NTerm "X" (IStr "'2000'"); NChr " "; NChr "<"; NChr "="; NChr " "; NChr "0"; NChr tab;
         NKw "else"; NChr " "; NVerb "np.pi *  2"; NChr " "; NChr ")"].
Example ex_ws_layout :
  dq_ok_ws ex_lay ex_ws_q = true /\ dq_ok_ws canon ex_fix_q = true /\
  nrm (whole_toks ex_ws_q) = nrm (whole_toks ex_fix_q) /\ lneq_terms ex_lay ex_ws_q = lneq_terms canon ex_fix_q /\
  nrm (whole_toks ex_fix_q) = whole_toks ex_fix_q /\ denorm_text ex_lay ex_ws_q <> denorm_text canon ex_fix_q.
Proof. vm_compute. repeat split; try reflexivity. discriminate. Qed.

(* the same equation spread over three lines inside its round brackets (continuation lines), with indentation *)
Definition ex_cont_q : neq :=
  mkNeq [NTerm "C" (IInt 1%Z); NChr " "]
        [NChr " "; NChr "("; NTerm "alpha_1" (IInt 0%Z); NChr " "; NChr "*"; NChr nl; NChr " "; NChr " "; NChr " "; NFunc "max"; NChr "("; NTerm "YD" (IInt 2%Z); NChr ",";
         NChr nl; NChr tab; NTerm "H" (IInt (-1)%Z); NChr ")"; NChr " "; NKw "if"; NChr " "; NTerm "X" (IStr "'2000'"); NChr " "; NChr "<"; NChr "="; NChr " "; NChr "0"; NChr nl;
         NKw "else"; NChr " "; NVerb "np.pi *  2"; NChr nl; NChr ")"].
Example ex_cont_layout :
  dq_ok_ws canon ex_cont_q = true /\
  nrm (whole_toks ex_cont_q) = whole_toks ex_fix_q /\ lneq_terms canon ex_cont_q = lneq_terms canon ex_fix_q /\
  has_nl (denorm_text canon ex_cont_q) = true.
Proof. vm_compute. repeat split; reflexivity. Qed.

Example ex_accepted : snd (split_M ex_s1) = None /\ snd (split_M ex_s2) = None /\ ex_s1 <> "" /\ ex_s2 <> "" /\ ends_sep ex_s1 = false /\ ends_sep ex_s2 = false.
Proof. vm_compute. repeat split; try reflexivity; discriminate. Qed.

(* a parameter (or error term) whose NAME is a reserved word of Python: in braces it is accepted, and the fixed-point theorem
   holds for the statement as written (dq_ok for the layout with the braces); but the normal form it produces, `as[t]`, written
   back in the statement syntax `as[0]`, is no term any more (the regex reads it as _INVALID) — dq_ok canon fails on kw_free *)
Definition ex_kwpar_lay : layout := fun name i => if String.eqb name "as" then mkLay (SPar "" "") None else mkLay SVar None.
Definition ex_kwpar_q : neq :=
  mkNeq [NTerm "b" (IInt 0%Z); NChr " "] [NChr " "; NTerm "as" (IInt 0%Z); NChr " "; NChr "*"; NChr " "; NTerm "X" (IInt 0%Z)].
Example reserved_word_parameter_refuted :
  denorm_text ex_kwpar_lay ex_kwpar_q = "b = {as} * X" /\ dq_ok ex_kwpar_lay ex_kwpar_q = true /\
  (exists syms, parse_equation_M "b = {as} * X" = POk syms /\
     map (fun s => (sname s, stype s, sequation s)) syms
     = [(Some "b", TEndogenous, Some "b[t] = as[t] * X[t]"); (Some "as", TParameter, None); (Some "X", TExogenous, None)]) /\
  neq_text ex_kwpar_q = "b[t] = as[t] * X[t]" /\
  denorm_text canon ex_kwpar_q = "b[0] = as[0] * X[0]" /\ dq_ok canon ex_kwpar_q = false /\
  parse_equation_M "b[0] = as[0] * X[0]" = PErr ParserError.
Proof.
  split; [vm_compute; reflexivity|]. split; [vm_compute; reflexivity|]. split.
  - eexists. split; vm_compute; reflexivity.
  - repeat split; vm_compute; reflexivity.
Qed.

(* ---- four more accepted-script behaviours that contradict the property text (independent review, 2026-10-02) ---- *)
Definition view_of (r : pres (list symbol)) : option (list (option string * ptype * option string * option string)) :=
  match r with POk l => Some (map (fun s => (sname s, stype s, sequation s, scode s)) l) | _ => None end.

(* the SAME statement written twice is accepted when both copies have blanks around "=" (in any number), rejected as "defined
   twice" when one copy has none: the duplicate test compares normalised texts, and the normaliser never inserts or removes a blank *)
Example duplicate_statement_respaced_refuted :
  view_of (parse_model_nocheck ("Y = X" ++ nl_s ++ "Y = X")) = Some [(Some "Y", TEndogenous, Some "Y[t] = X[t]", Some "self._Y[t] = self._X[t]"); (Some "X", TExogenous, None, None)] /\
  view_of (parse_model_nocheck ("Y = X" ++ nl_s ++ "Y  =  X")) = view_of (parse_model_nocheck ("Y = X" ++ nl_s ++ "Y = X")) /\
  parse_model_nocheck ("Y = X" ++ nl_s ++ "Y=X") = PErr ParserError /\
  view_of (parse_model_nocheck "Y=X") = Some [(Some "Y", TEndogenous, Some "Y[t]=X[t]", Some "self._Y[t]=self._X[t]"); (Some "X", TExogenous, None, None)].
Proof. vm_compute. repeat split; reflexivity. Qed.

(* doubled braces are str.format's escape for a literal brace: accepted, but the normal form then holds single braces and cannot
   be read back *)
Example literal_braces_refuted :
  view_of (parse_model_nocheck "Y = X + max({{1, 2}})")
  = Some [(Some "Y", TEndogenous, Some "Y[t] = X[t] + max({1, 2})", Some "self._Y[t] = self._X[t] + max({1, 2})"); (Some "X", TExogenous, None, None); (Some "max", TFunction, None, None)] /\
  parse_equation_M "Y[0] = X[0] + max({1, 2})" = PErr ParserError.
Proof. vm_compute. split; reflexivity. Qed.

(* a blank before the index bracket of the LEFT-hand side is rejected (equation_re wants \S+ before the "="), on the right-hand
   side it is accepted and changes the meaning (finding #20) *)
Example space_before_lhs_index_refuted :
  parse_model_nocheck "Y [1] = X" = PErr ParserError /\
  view_of (parse_model_nocheck "Y[1] = X") = Some [(Some "Y", TEndogenous, Some "Y[t+1] = X[t]", Some "self._Y[t+1] = self._X[t]"); (Some "X", TExogenous, None, None)].
Proof. vm_compute. split; reflexivity. Qed.

(* a "#" inside a quoted period label is cut as a comment: the statement loses its tail (with the syntax check on, ParserError) *)
Example hash_in_quotes_refuted :
  view_of (parse_model_nocheck "Y = X['a#b']")
  = Some [(Some "Y", TEndogenous, Some "Y[t] = X[t]['a[t]", Some "self._Y[t] = self._X[t]['self._a[t]"); (Some "X", TExogenous, None, None); (Some "a", TExogenous, None, None)] /\
  view_of (parse_model_nocheck "Y = X['a_b']") = Some [(Some "Y", TEndogenous, Some "Y[t] = X['a_b']", Some "self._Y[t] = self['X', 'a_b']"); (Some "X", TExogenous, None, None)].
Proof. vm_compute. split; reflexivity. Qed.

(* ---- five more layout defects (second independent review, 2026-10-02) ---- *)
Definition ff_s : string := String (Ascii.ascii_of_nat 12) "".

(* (a) a blank between the sign and the digits of an index: int('- 1') fails, blanks AROUND the offset are fine *)
Example index_sign_blank_refuted :
  parse_model_nocheck "Y = X[- 1]" = PErr ParserError /\ parse_model_nocheck "Y = X[+ 1]" = PErr ParserError /\
  view_of (parse_model_nocheck "Y = X[ -1 ]") = Some [(Some "Y", TEndogenous, Some "Y[t] = X[t-1]", Some "self._Y[t] = self._X[t-1]"); (Some "X", TExogenous, None, None)].
Proof. vm_compute. repeat split; reflexivity. Qed.

(* (b) a blank next to the dot of a dotted function name: accepted, but np becomes a variable of the model and sqrt the function *)
Example dotted_name_blank_refuted :
  view_of (parse_model_nocheck "Y = np .sqrt(X)")
  = Some [(Some "Y", TEndogenous, Some "Y[t] = np[t] .sqrt(X[t])", Some "self._Y[t] = self._np[t] .sqrt(self._X[t])");
          (Some "np", TExogenous, None, None); (Some "sqrt", TFunction, None, None); (Some "X", TExogenous, None, None)] /\
  view_of (parse_model_nocheck "Y = np.sqrt(X)")
  = Some [(Some "Y", TEndogenous, Some "Y[t] = np.sqrt(X[t])", Some "self._Y[t] = np.sqrt(self._X[t])"); (Some "np.sqrt", TFunction, None, None); (Some "X", TExogenous, None, None)].
Proof. vm_compute. split; reflexivity. Qed.

(* (c) the same statement twice: adding a comment to one copy (the trailing blank is stripped only when a "#" is found), or
   re-spacing a call, makes the script a "defined twice" ParserError *)
Example duplicate_statement_comment_refuted :
  view_of (parse_model_nocheck ("Y = X " ++ nl_s ++ "Y = X ")) = Some [(Some "Y", TEndogenous, Some "Y[t] = X[t] ", Some "self._Y[t] = self._X[t] "); (Some "X", TExogenous, None, None)] /\
  parse_model_nocheck ("Y = X " ++ nl_s ++ "Y = X # c") = PErr ParserError /\
  parse_model_nocheck ("Y = max(X, Z)" ++ nl_s ++ "Y = max (X,Z)") = PErr ParserError.
Proof. vm_compute. repeat split; reflexivity. Qed.

(* (d) a form feed is whitespace for the regexes but a line boundary for str.splitlines: outside round brackets it cuts the statement *)
Example form_feed_outside_brackets_refuted :
  parse_model_nocheck ("Y = X *" ++ ff_s ++ " Z") = PErr ParserError /\
  view_of (parse_model_nocheck ("Y = (X *" ++ ff_s ++ " Z)"))
  = Some [(Some "Y", TEndogenous, Some "Y[t] = (X[t] * Z[t])", Some "self._Y[t] = (self._X[t] * self._Z[t])"); (Some "X", TExogenous, None, None); (Some "Z", TExogenous, None, None)].
Proof. vm_compute. split; reflexivity. Qed.

(* (e) the layout "brackets beginning on the left-hand side" documented with equation_re: the brackets stay in the code, which is
   an assignment inside round brackets — no Python statement (with the syntax check on: ParserError) *)
Example bracketed_statement_refuted :
  view_of (parse_model_nocheck ("(Y =" ++ nl_s ++ " X)")) = Some [(Some "Y", TEndogenous, Some "(Y[t] = X[t])", Some "(self._Y[t] = self._X[t])"); (Some "X", TExogenous, None, None)].
Proof. vm_compute. reflexivity. Qed.
