(* LayoutScript.v — comments and blank lines at the level of whole scripts: parse_model gives the SAME result (every symbol,
   every field, or the same exception), for ALL scripts:
     comment_on_a_line        a trailing comment on any line of a script (first, middle, last or only line)
     blank_line_between       a blank line or a comment-only line between two statements
   Both go through `model_lines` (the comment-stripped lines, the only thing parse_model reads of the script). *)
From Coq Require Import String Ascii List Bool Arith Lia.
Import ListNotations.
Require Import Generated PyBase PyStr Lex Symbols Split SplitFacts Merge ParseEq ParseModel GLex GLexFacts Layout LayoutSplit DenormFacts.
Open Scope string_scope.
Open Scope nat_scope.

(* parse_model reads the script only through its comment-stripped lines *)
Lemma parse_model_of_lines chk cs s s' : model_lines s = model_lines s' -> parse_model_M chk cs s = parse_model_M chk cs s'.
Proof. intros H. unfold parse_model_M, split_M. rewrite H. reflexivity. Qed.

Definition nosep (s : string) : bool := all_chars (fun c => negb (is_linesep c)) s.

Lemma ends_sep_nosep s : nosep s = true -> ends_sep s = false.
Proof.
  unfold nosep. induction s as [|c s IH]; [reflexivity|]. cbn [all_chars]. intros H. apply andb_true_iff in H as [Hc Hs].
  apply negb_true_iff in Hc. destruct s as [|d r]; [cbn [ends_sep]; exact Hc|]. rewrite (ends_sep_tail c (String d r)) by discriminate. apply IH, Hs.
Qed.
Lemma ends_sep_app a b : b <> "" -> ends_sep (a ++ b) = ends_sep b.
Proof.
  intros Hb. induction a as [|c a IH]; [reflexivity|]. cbn [append]. rewrite ends_sep_tail; [exact IH|].
  destruct a; cbn [append]; [exact Hb|discriminate].
Qed.

Lemma model_lines_single line : nosep line = true -> line <> "" -> model_lines line = [strip_comments line].
Proof. intros H Hne. unfold model_lines. rewrite (splitlines_nosep line "" H (or_intror Hne)). reflexivity. Qed.

(* a comment: blanks, "#", any text up to the end of the line *)
Definition comment_ok (line ws text : string) : bool :=
  nosep line && negb (has_char "#" line) && last_not is_pyspace line && match line with "" => false | _ => true end &&
  all_chars is_pyspace ws && nosep ws && nosep text.

Lemma nosep_app a b : nosep (a ++ b) = nosep a && nosep b.
Proof. apply all_chars_app. Qed.
Lemma hash_nosep : is_linesep "#" = false. Proof. vm_compute. reflexivity. Qed.

Lemma commented_line line ws text :
  comment_ok line ws text = true ->
  let cl := line ++ ws ++ String "#" text in
  nosep cl = true /\ cl <> "" /\ strip_comments cl = strip_comments line /\ nosep line = true /\ line <> "".
Proof.
  unfold comment_ok. intros H. apply andb_true_iff in H as [H Ht]. apply andb_true_iff in H as [H Hwn]. apply andb_true_iff in H as [H Hw].
  apply andb_true_iff in H as [H Hne]. apply andb_true_iff in H as [H Hl]. apply andb_true_iff in H as [Hn Hh]. apply negb_true_iff in Hh.
  cbn zeta. repeat split.
  - rewrite !nosep_app, Hn, Hwn. unfold nosep. cbn [all_chars]. rewrite hash_nosep. exact Ht.
  - destruct line; discriminate.
  - apply trailing_comment_ignored; assumption.
  - exact Hn.
  - destruct line; [discriminate|discriminate].
Qed.

(* ---- a trailing comment on any line ---- *)
Theorem comment_only_line_script line ws text :
  comment_ok line ws text = true -> model_lines (line ++ ws ++ String "#" text) = model_lines line.
Proof.
  intros H. destruct (commented_line line ws text H) as (N & Ne & S & Nl & Nel).
  rewrite (model_lines_single _ N Ne), (model_lines_single _ Nl Nel), S. reflexivity.
Qed.

Theorem comment_last_line s1 line ws text :
  s1 <> "" -> ends_sep s1 = false -> comment_ok line ws text = true ->
  model_lines (s1 ++ nl_s ++ line ++ ws ++ String "#" text) = model_lines (s1 ++ nl_s ++ line).
Proof.
  intros Hne He H. rewrite !(model_lines_app s1 _ Hne He), (comment_only_line_script line ws text H). reflexivity.
Qed.

Theorem comment_first_line line ws text s2 :
  comment_ok line ws text = true ->
  model_lines ((line ++ ws ++ String "#" text) ++ nl_s ++ s2) = model_lines (line ++ nl_s ++ s2).
Proof.
  intros H. destruct (commented_line line ws text H) as (N & Ne & S & Nl & Nel).
  rewrite (model_lines_app _ s2 Ne (ends_sep_nosep _ N)), (model_lines_app line s2 Nel (ends_sep_nosep _ Nl)).
  rewrite (comment_only_line_script line ws text H). reflexivity.
Qed.

Theorem comment_middle_line s1 line ws text s2 :
  s1 <> "" -> ends_sep s1 = false -> comment_ok line ws text = true ->
  model_lines (s1 ++ nl_s ++ (line ++ ws ++ String "#" text) ++ nl_s ++ s2) = model_lines (s1 ++ nl_s ++ line ++ nl_s ++ s2).
Proof.
  intros Hne He H. rewrite !(model_lines_app s1 _ Hne He), (comment_first_line line ws text s2 H). reflexivity.
Qed.

(* the same, as statements about parse_model (any oracle, either setting of check_syntax) *)
Theorem comment_on_a_line chk cs line ws text :
  comment_ok line ws text = true ->
  parse_model_M chk cs (line ++ ws ++ String "#" text) = parse_model_M chk cs line /\
  (forall s2, parse_model_M chk cs ((line ++ ws ++ String "#" text) ++ nl_s ++ s2) = parse_model_M chk cs (line ++ nl_s ++ s2)) /\
  (forall s1, s1 <> "" -> ends_sep s1 = false ->
     parse_model_M chk cs (s1 ++ nl_s ++ line ++ ws ++ String "#" text) = parse_model_M chk cs (s1 ++ nl_s ++ line) /\
     forall s2, parse_model_M chk cs (s1 ++ nl_s ++ (line ++ ws ++ String "#" text) ++ nl_s ++ s2)
                = parse_model_M chk cs (s1 ++ nl_s ++ line ++ nl_s ++ s2)).
Proof.
  intros H. split; [apply parse_model_of_lines, comment_only_line_script, H|].
  split; [intros s2; apply parse_model_of_lines, comment_first_line, H|].
  intros s1 Hne He. split; [apply parse_model_of_lines, comment_last_line; assumption|].
  intros s2. apply parse_model_of_lines, comment_middle_line; assumption.
Qed.

(* ---- a blank line or a comment-only line between two statements ---- *)
Lemma model_lines_nl s2 : model_lines (nl_s ++ s2) = "" :: model_lines s2.
Proof.
  unfold model_lines, nl_s. cbn [append splitlines_aux]. rewrite nl_is_linesep, nl_not_cr. cbn [rev_str map]. reflexivity.
Qed.

Lemma split_skip_blank l1 b l2 st :
  final_state s0 l1 = Some st -> clean st = true -> is_blank b = true ->
  split_lines s0 (l1 ++ b :: l2) = split_lines s0 (l1 ++ l2).
Proof.
  intros Hf Hc Hb. rewrite (split_lines_app l1 s0 (b :: l2) st Hf), (split_lines_app l1 s0 l2 st Hf).
  rewrite (blank_line_ignored st b l2 Hc Hb). reflexivity.
Qed.

Theorem blank_line_between chk cs s1 b s2 st :
  s1 <> "" -> ends_sep s1 = false -> final_state s0 (model_lines s1) = Some st -> clean st = true ->
  nosep b = true -> is_blank (strip_comments b) = true ->
  parse_model_M chk cs (s1 ++ nl_s ++ b ++ nl_s ++ s2) = parse_model_M chk cs (s1 ++ nl_s ++ s2).
Proof.
  intros Hne He Hf Hc Hn Hb. unfold parse_model_M, split_M.
  rewrite (model_lines_app s1 (b ++ nl_s ++ s2) Hne He), (model_lines_app s1 s2 Hne He).
  destruct b as [|c r].
  - cbn [append]. rewrite model_lines_nl. rewrite (split_skip_blank _ "" _ st Hf Hc eq_refl). reflexivity.
  - rewrite (model_lines_app (String c r) s2) by (try discriminate; apply ends_sep_nosep, Hn).
    rewrite (model_lines_single (String c r) Hn) by discriminate. cbn [app].
    rewrite (split_skip_blank _ _ _ st Hf Hc Hb). reflexivity.
Qed.

(* ---- swapping two complete blocks of statements ---- *)
(* both orders parse the same statements alone and hand the per-statement symbol lists to the merge in the respective
   order.  (That the merge then yields the same symbols in another order — commutativity of Symbol.combine across names —
   is checked by the correspondence and the oracle of harness/props/C14.py, not proved: hence `_partial` in Props.) *)
Theorem swap_blocks s1 s2 st1 st2 b1 b2 :
  s1 <> "" -> ends_sep s1 = false -> final_state s0 (model_lines s1) = Some st1 -> clean st1 = true ->
  s2 <> "" -> ends_sep s2 = false -> final_state s0 (model_lines s2) = Some st2 -> clean st2 = true ->
  map_p parse_equation_M (fst (split_M s1)) = POk b1 -> map_p parse_equation_M (fst (split_M s2)) = POk b2 ->
  parse_model_nocheck (s1 ++ nl_s ++ s2) = of_outcome (merge_symbols (b1 ++ b2)) /\
  parse_model_nocheck (s2 ++ nl_s ++ s1) = of_outcome (merge_symbols (b2 ++ b1)).
Proof.
  intros N1 E1 F1 C1 N2 E2 F2 C2 H1 H2.
  assert (S1 : snd (split_M s1) = None) by (unfold split_M; apply (final_clean_no_error _ s0 st1 F1 C1)).
  assert (S2 : snd (split_M s2) = None) by (unfold split_M; apply (final_clean_no_error _ s0 st2 F2 C2)).
  destruct (statements_independent s1 s2 st1 b1 b2 N1 E1 F1 C1 H1 H2) as (A & _ & _).
  destruct (statements_independent s2 s1 st2 b2 b1 N2 E2 F2 C2 H2 H1) as (B & _ & _).
  rewrite A, B, S1, S2. split; reflexivity.
Qed.
