(* LayoutLex.v — layout inside one token does not change what term_re.finditer (Lex.match_here / Lex.scan) reports, for
   ALL names, blanks, index texts and continuations:
     braces_inner_blanks / angles_inner_blanks    { NAME } / < NAME > with blanks inside = without
     index_inner_blanks_var / _bracketed          NAME[ idx ] = NAME[idx]  (also after a { } / < > term)
     explicit_zero_term                           an explicit index 0 / +0 / -0 / 00 gives the term of the bare name
     plus_sign_index                              [+k] = [k]
     token_layout_scan                            two spellings of a token with the same match data give the same terms and
                                                  the same template for the rest of the text, at any position
   What does NOT hold (finding #20): a blank BEFORE the index bracket — space_before_index_changes_term. *)
From Coq Require Import String Ascii List Bool Arith Lia ZArith.
Import ListNotations.
Require Import Generated PyBase PyStr Lex Symbols ParseEq GLex GLexFacts.
Open Scope string_scope.
Open Scope nat_scope.

(* same kind, name and INDEX text (the length of group(0) may differ) *)
Definition same_match (m1 m2 : tmatch) : Prop := mkind m1 = mkind m2 /\ mname m1 = mname m2 /\ mindex m1 = mindex m2.

Lemma same_match_term m1 m2 : same_match m1 m2 -> mk_term m1 = mk_term m2.
Proof. intros (Hk & Hn & Hi). unfold mk_term. rewrite Hk, Hn, Hi. reflexivity. Qed.

Lemma with_index_same k name b1 b2 after : same_match (with_index k name b1 after) (with_index k name b2 after).
Proof. unfold with_index. destruct (index_group after) as [[inner n]|]; repeat split. Qed.

(* ---- blanks inside { } and < > ---- *)
Theorem braces_inner_blanks pw w1 name w2 after :
  is_ident name = true -> blanks w1 = true -> blanks w2 = true ->
  exists m1 m2, match_here pw (brk_text "{" "}" w1 name w2 ++ after) = Some m1 /\
                match_here pw (brk_text "{" "}" "" name "" ++ after) = Some m2 /\ same_match m1 m2 /\
                mlen m1 = mlen m2 + String.length w1 + String.length w2.
Proof.
  intros Hid B1 B2. eexists. eexists.
  split; [apply (match_here_par pw w1 name w2 after Hid B1 B2)|].
  split; [apply (match_here_par pw "" name "" after Hid eq_refl eq_refl)|].
  split; [apply with_index_same|].
  rewrite !brk_text_len. unfold with_index. destruct (index_group after) as [[inner n]|]; cbn [mlen String.length]; lia.
Qed.
Theorem angles_inner_blanks pw w1 name w2 after :
  is_ident name = true -> blanks w1 = true -> blanks w2 = true ->
  exists m1 m2, match_here pw (brk_text "<" ">" w1 name w2 ++ after) = Some m1 /\
                match_here pw (brk_text "<" ">" "" name "" ++ after) = Some m2 /\ same_match m1 m2 /\
                mlen m1 = mlen m2 + String.length w1 + String.length w2.
Proof.
  intros Hid B1 B2. eexists. eexists.
  split; [apply (match_here_err pw w1 name w2 after Hid B1 B2)|].
  split; [apply (match_here_err pw "" name "" after Hid eq_refl eq_refl)|].
  split; [apply with_index_same|].
  rewrite !brk_text_len. unfold with_index. destruct (index_group after) as [[inner n]|]; cbn [mlen String.length]; lia.
Qed.

(* ---- blanks inside the index bracket ---- *)
Theorem index_inner_blanks_var pw name w1 inner w2 after :
  is_ident name = true -> kw_free name = true -> blanks w1 = true -> blanks w2 = true -> idx_inner_ok inner = true ->
  exists m1 m2, match_here pw (name ++ idx_text w1 inner w2 ++ after) = Some m1 /\
                match_here pw (name ++ idx_text "" inner "" ++ after) = Some m2 /\ same_match m1 m2 /\
                mname m1 = name /\ mindex m1 = Some inner.
Proof.
  intros Hid Hkw B1 B2 Hi. eexists. eexists.
  split; [apply (match_here_var_idx pw name w1 inner w2 after Hid Hkw B1 B2 Hi)|].
  split; [apply (match_here_var_idx pw name "" inner "" after Hid Hkw eq_refl eq_refl Hi)|].
  repeat split.
Qed.
Theorem index_inner_blanks_bracketed k name base w1 inner w2 after :
  blanks w1 = true -> blanks w2 = true -> idx_inner_ok inner = true ->
  same_match (with_index k name base (idx_text w1 inner w2 ++ after)) (with_index k name base (idx_text "" inner "" ++ after))
  /\ mindex (with_index k name base (idx_text w1 inner w2 ++ after)) = Some inner.
Proof.
  intros B1 B2 Hi. rewrite (with_index_idx k name base w1 inner w2 after B1 B2 Hi).
  rewrite (with_index_idx k name base "" inner "" after eq_refl eq_refl Hi). repeat split.
Qed.

(* ---- explicit [0] ---- *)
Definition indexed_kind (k : kind) : bool := match k with KVariable | KParameter | KError => true | _ => false end.

Theorem explicit_zero_term k name inner n1 n2 :
  indexed_kind k = true -> In inner ["0"; "+0"; "-0"; "00"; "0_0"] ->
  mk_term (mkMatch k name (Some inner) n1) = mk_term (mkMatch k name None n2).
Proof.
  intros Hk Hin. cbn [In] in Hin.
  destruct k; try discriminate; destruct Hin as [<-|[<-|[<-|[<-|[<-|[]]]]]]; vm_compute; reflexivity.
Qed.
(* in general: whenever int() of the index text is 0 *)
Theorem zero_index_term k name inner n1 n2 :
  indexed_kind k = true -> quoted_by "'" inner = false -> quoted_by """" inner = false -> quoted_by "`" inner = false ->
  py_int inner = Some 0%Z ->
  mk_term (mkMatch k name (Some inner) n1) = mk_term (mkMatch k name None n2).
Proof.
  intros Hk Q1 Q2 Q3 Hz. unfold mk_term. cbn [mkind mindex mname]. unfold mk_index. rewrite Q1, Q2, Q3, Hz. cbn [orb].
  destruct k; try discriminate; reflexivity.
Qed.

(* ---- [+k] = [k] ---- *)
Lemma strip_by_id p s : head_not p s = true -> last_not p s = true -> strip_by p s = s.
Proof.
  intros Hh Hl. pose proof (strip_app p "" s "" eq_refl eq_refl Hh Hl) as E. cbn [append] in E. rewrite sapp_nil_r in E. exact E.
Qed.
Lemma last_not_cons p c s : s <> "" -> last_not p (String c s) = last_not p s.
Proof.
  intros Hne. unfold last_not.
  change (srev (String c s)) with (rev_str s (String c "")). rewrite rev_str_acc.
  destruct (srev s) as [|d r] eqn:E.
  - exfalso. apply Hne. rewrite <- (srev_invol s), E. reflexivity.
  - reflexivity.
Qed.

Lemma digit_facts : forall c, is_digit c = true -> negb (is_pyspace c) && negb (Ascii.eqb c "-") && negb (Ascii.eqb c "+") = true.
Proof. sweep. Qed.

Theorem plus_sign_index d :
  head_sat is_digit d = true -> last_not is_pyspace d = true -> py_int (String "+" d) = py_int d.
Proof.
  intros Hd Hl. destruct d as [|c r]; [discriminate|]. cbn [head_sat] in Hd.
  pose proof (digit_facts c Hd) as F. apply andb_true_iff in F as [F Hp]. apply andb_true_iff in F as [Hc Hm].
  apply negb_true_iff in Hc, Hm, Hp.
  unfold py_int, py_strip.
  rewrite (strip_by_id is_pyspace (String "+" (String c r))); [|reflexivity|rewrite last_not_cons by discriminate; exact Hl].
  rewrite (strip_by_id is_pyspace (String c r)); [|cbn [head_not]; rewrite Hc; reflexivity|exact Hl].
  rewrite Hm, Hp. reflexivity.
Qed.

(* ---- two spellings of one token: same terms, same template, for any continuation ---- *)
Lemma template_of_pos s : forall p p' k pw, template_of (scan p k pw s) = template_of (scan p' k pw s).
Proof.
  induction s as [|c s IH]; intros p p' k pw; [reflexivity|]. cbn [scan]. destruct k as [|k].
  - destruct (match_here pw (String c s)) as [m|]; cbn [template_of]; rewrite (IH (S p) (S p')); reflexivity.
  - apply IH.
Qed.
Lemma terms_of_pos s : forall p p' k pw, map mk_term (matches_of (scan p k pw s)) = map mk_term (matches_of (scan p' k pw s)).
Proof.
  induction s as [|c s IH]; intros p p' k pw; [reflexivity|]. cbn [scan]. destruct k as [|k].
  - destruct (match_here pw (String c s)) as [m|]; cbn [matches_of map]; rewrite (IH (S p) (S p')); reflexivity.
  - apply IH.
Qed.

Theorem token_layout_scan p1 p2 pw t1 t2 m1 m2 rest :
  t1 <> "" -> t2 <> "" -> mlen m1 = String.length t1 -> mlen m2 = String.length t2 ->
  match_here pw (t1 ++ rest) = Some m1 -> match_here pw (t2 ++ rest) = Some m2 -> same_match m1 m2 ->
  last_word pw t1 = last_word pw t2 ->
  template_of (scan p1 0 pw (t1 ++ rest)) = template_of (scan p2 0 pw (t2 ++ rest)) /\
  map mk_term (matches_of (scan p1 0 pw (t1 ++ rest))) = map mk_term (matches_of (scan p2 0 pw (t2 ++ rest))).
Proof.
  intros N1 N2 L1 L2 M1 M2 S W.
  rewrite (scan_tok p1 pw t1 m1 rest N1 L1 M1), (scan_tok p2 pw t2 m2 rest N2 L2 M2). rewrite W.
  cbn [template_of matches_of map]. rewrite (same_match_term _ _ S).
  rewrite (template_of_pos rest (p1 + String.length t1) (p2 + String.length t2)).
  rewrite (terms_of_pos rest (p1 + String.length t1) (p2 + String.length t2)). split; reflexivity.
Qed.

(* ---- finding #20: a blank before the index bracket is NOT a layout change ---- *)
Example space_before_index_changes_term :
  map mk_term (matches_of (scan_items "X [-1]")) = [Ret (mkTerm "X" TVariable (Some (IInt 0%Z)))] /\
  map mk_term (matches_of (scan_items "X[-1]")) = [Ret (mkTerm "X" TVariable (Some (IInt (-1)%Z)))] /\
  template_of (scan_items "X [-1]") = "{} [-1]" /\ template_of (scan_items "X[-1]") = "{}".
Proof. vm_compute. repeat split; reflexivity. Qed.
