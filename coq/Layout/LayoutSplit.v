(* LayoutSplit.v — comments, blank lines and the independence of statements, on the model of split_equations_iter
   (Split.split_lines) and parse_model (ParseModel.parse_model_M), for ALL scripts:
     trailing_comment_ignored      a comment after a statement line (with any blanks before "#") leaves the line as it was
     comment_line_is_blank         a line that holds only a comment is a blank line for the splitter
     blank_line_ignored            a blank line between statements changes nothing
     split_lines_app / split_app   the statements of  s1 newline s2  are those of s1 followed by those of s2  (s1 complete)
     parse_model_by_statements     parse_model = parse every statement alone, left to right, then merge
     statements_independent        hence parse(s1 newline s2) = merge (statement parses of s1 ++ statement parses of s2)
   What does NOT hold (finding #24): an unclosed fence swallows the statements after it — unclosed_fence_refuted. *)
From Coq Require Import String Ascii List Bool Arith Lia.
Import ListNotations.
Require Import Generated PyBase PyStr Lex Symbols Split SplitFacts Merge ParseEq ParseModel GLex GLexFacts Layout.
Open Scope string_scope.
Open Scope nat_scope.

(* ================================================================== comments *)
Lemma find_any_absent ch s : has_char ch s = false -> find_any ch s = None.
Proof.
  induction s as [|c s IH]; [reflexivity|]. cbn [has_char find_any]. intros H. apply orb_false_iff in H as [H1 H2].
  rewrite H1, (IH H2). reflexivity.
Qed.

Theorem strip_comments_comment line text :
  has_char "#" line = false -> strip_comments (line ++ String "#" text) = py_rstrip line.
Proof. intros H. unfold strip_comments. rewrite (find_any_app "#" line text H). reflexivity. Qed.
Theorem strip_comments_plain line : has_char "#" line = false -> strip_comments line = line.
Proof. intros H. unfold strip_comments. rewrite (find_any_absent _ _ H). reflexivity. Qed.

Theorem trailing_comment_ignored line ws text :
  has_char "#" line = false -> all_chars is_pyspace ws = true -> last_not is_pyspace line = true ->
  strip_comments (line ++ ws ++ String "#" text) = strip_comments line.
Proof.
  intros Hl Hw Hlast. rewrite (strip_comments_plain line Hl), <- sapp_assoc.
  rewrite strip_comments_comment.
  - unfold py_rstrip. apply (rstrip_app is_pyspace line ws Hw Hlast).
  - rewrite has_char_app, Hl. apply (all_chars_no_char is_pyspace "#" ws eq_refl Hw).
Qed.

Lemma blank_of_pyspace ws : all_chars is_pyspace ws = true -> is_blank ws = true.
Proof.
  intros H. unfold is_blank, lstrip_by. rewrite <- (sapp_nil_r ws). rewrite (span_while_all is_pyspace ws "" H eq_refl). reflexivity.
Qed.
Lemma pyspace_of_blank s : is_blank s = true -> all_chars is_pyspace s = true.
Proof.
  unfold is_blank, lstrip_by. induction s as [|c s IH]; [reflexivity|]. cbn [span_while all_chars].
  destruct (is_pyspace c); [|discriminate]. destruct (span_while is_pyspace s) as [a b]. cbn [snd] in *. exact IH.
Qed.
Lemma rstrip_blank ws : all_chars is_pyspace ws = true -> py_rstrip ws = "".
Proof. intros H. unfold py_rstrip. apply (rstrip_app is_pyspace "" ws H eq_refl). Qed.

Theorem comment_line_is_blank ws text :
  all_chars is_pyspace ws = true -> strip_comments (ws ++ String "#" text) = "".
Proof.
  intros H. rewrite strip_comments_comment; [apply rstrip_blank, H|]. apply (all_chars_no_char is_pyspace "#" ws eq_refl H).
Qed.

(* ================================================================== blank lines *)
Lemma pyspace_no_paren : forall c, is_pyspace c = true -> negb (Ascii.eqb c "(") && negb (Ascii.eqb c ")") && negb (Ascii.eqb c "`") = true.
Proof. sweep. Qed.
Lemma count_parens_pyspace s : forall n, all_chars is_pyspace s = true -> count_parens n s = Some n.
Proof.
  induction s as [|c s IH]; intros n H; [reflexivity|]. cbn [all_chars] in H. apply andb_true_iff in H as [Hc Hs].
  pose proof (pyspace_no_paren c Hc) as P. apply andb_true_iff in P as [P _]. apply andb_true_iff in P as [P1 P2].
  apply negb_true_iff in P1, P2. cbn [count_parens]. rewrite P1, P2. apply (IH _ Hs).
Qed.
Lemma pyspace_no_fence s : all_chars is_pyspace s = true -> startswith "```" s = false.
Proof.
  destruct s as [|c s]; [reflexivity|]. cbn [all_chars]. intros H. apply andb_true_iff in H as [Hc _].
  pose proof (pyspace_no_paren c Hc) as P. apply andb_true_iff in P as [_ P]. apply negb_true_iff in P.
  unfold startswith. cbn [prefix_rest]. destruct (Ascii.eqb_spec "`" c) as [<-|]; [discriminate|reflexivity].
Qed.

Lemma clean_is_s0 st : clean st = true -> st = s0.
Proof.
  destruct st as [u c b]. unfold clean. cbn [unmatched complete buffer]. intros H.
  apply andb_true_iff in H as [H Hb]. apply andb_true_iff in H as [Hu Hc]. apply Nat.eqb_eq in Hu.
  destruct b; [|discriminate]. subst. reflexivity.
Qed.

Theorem blank_line_ignored st l rest :
  clean st = true -> is_blank l = true -> split_lines st (l :: rest) = split_lines st rest.
Proof.
  intros Hc Hb. rewrite (clean_is_s0 st Hc). pose proof (pyspace_of_blank l Hb) as P.
  cbn [split_lines]. unfold split_step. cbn [buffer s0 unmatched complete].
  rewrite (pyspace_no_fence l P). cbn [andb]. rewrite (count_parens_pyspace l 0 P). cbn [Nat.eqb andb rev app join_nl].
  rewrite Hb. reflexivity.
Qed.

(* ================================================================== statements of  s1 newline s2 *)
Lemma split_lines_app l1 : forall st l2 st',
  final_state st l1 = Some st' ->
  split_lines st (l1 ++ l2) = (fst (split_lines st l1) ++ fst (split_lines st' l2), snd (split_lines st' l2))%list.
Proof.
  induction l1 as [|l l1 IH]; intros st l2 st' H.
  - cbn [final_state] in H. inversion H; subst. cbn [app split_lines fst]. destruct (split_lines st' l2); reflexivity.
  - cbn [app final_state split_lines] in *. destruct (split_step st l) as [st1|eq st1|e]; [| |discriminate].
    + apply (IH st1 l2 st' H).
    + rewrite (IH st1 l2 st' H). destruct (split_lines st1 l1) as [ys e1]. cbn [fst snd app]. reflexivity.
Qed.

Lemma nl_is_linesep : is_linesep nl = true. Proof. vm_compute. reflexivity. Qed.
Lemma nl_not_cr : Ascii.eqb nl cr = false. Proof. reflexivity. Qed.

Lemma ends_sep_tail c r : r <> "" -> ends_sep (String c r) = ends_sep r.
Proof. destruct r; [congruence|reflexivity]. Qed.

Lemma splitlines_app_n n : forall s1 cur s2,
  String.length s1 <= n -> (cur <> "" \/ s1 <> "") -> ends_sep s1 = false ->
  splitlines_aux cur (s1 ++ String nl s2) = (splitlines_aux cur s1 ++ splitlines_aux "" s2)%list.
Proof.
  induction n as [|n IH]; intros s1 cur s2 Hlen Hne He.
  - destruct s1; [|cbn [String.length] in Hlen; lia].
    destruct Hne as [Hc|Hc]; [|congruence]. cbn [append splitlines_aux]. rewrite nl_is_linesep, nl_not_cr.
    destruct cur; [congruence|reflexivity].
  - destruct s1 as [|c r].
    + destruct Hne as [Hc|Hc]; [|congruence]. cbn [append splitlines_aux]. rewrite nl_is_linesep, nl_not_cr.
      destruct cur; [congruence|reflexivity].
    + cbn [String.length] in Hlen. cbn [append splitlines_aux]. destruct (is_linesep c) eqn:Ec.
      * assert (Hr : r <> "") by (intros ->; cbn [ends_sep] in He; congruence).
        rewrite (ends_sep_tail c r Hr) in He. cbn [app]. f_equal.
        destruct (Ascii.eqb c cr).
        { destruct r as [|c2 r2]; [congruence|]. cbn [append String.length] in *. destruct (Ascii.eqb c2 nl) eqn:E2.
          - assert (Hr2 : r2 <> "").
            { intros ->. cbn [ends_sep] in He. apply Ascii.eqb_eq in E2. subst c2. rewrite nl_is_linesep in He. discriminate. }
            rewrite (ends_sep_tail c2 r2 Hr2) in He. apply (IH r2 "" s2); [lia|right; exact Hr2|exact He].
          - apply (IH (String c2 r2) "" s2); [cbn [String.length]; lia|right; discriminate|exact He]. }
        { apply (IH r "" s2); [lia|right; exact Hr|exact He]. }
      * destruct r as [|c2 r2].
        { cbn [append]. apply (IH "" (String c cur) s2); [cbn [String.length]; lia|left; discriminate|reflexivity]. }
        { rewrite (ends_sep_tail c (String c2 r2)) in He by discriminate.
          apply (IH (String c2 r2) (String c cur) s2); [lia|left; discriminate|exact He]. }
Qed.
Lemma splitlines_app s1 cur s2 :
  (cur <> "" \/ s1 <> "") -> ends_sep s1 = false ->
  splitlines_aux cur (s1 ++ String nl s2) = (splitlines_aux cur s1 ++ splitlines_aux "" s2)%list.
Proof. apply (splitlines_app_n (String.length s1)). lia. Qed.

Theorem model_lines_app s1 s2 :
  s1 <> "" -> ends_sep s1 = false -> model_lines (s1 ++ nl_s ++ s2) = (model_lines s1 ++ model_lines s2)%list.
Proof.
  intros Hne He. unfold model_lines, nl_s. cbn [append]. rewrite (splitlines_app s1 "" s2 (or_intror Hne) He). apply map_app.
Qed.

Theorem split_app s1 s2 st :
  s1 <> "" -> ends_sep s1 = false -> final_state s0 (model_lines s1) = Some st -> clean st = true ->
  split_M (s1 ++ nl_s ++ s2) = ((fst (split_M s1) ++ fst (split_M s2))%list, snd (split_M s2)).
Proof.
  intros Hne He Hf Hc. unfold split_M. rewrite (model_lines_app s1 s2 Hne He).
  rewrite (split_lines_app _ s0 _ st Hf). rewrite (clean_is_s0 st Hc). reflexivity.
Qed.

(* ================================================================== parse_model, statement by statement *)
Lemma map_p_app {A B} (f : A -> pres B) l1 l2 :
  map_p f (l1 ++ l2) = pbind (map_p f l1) (fun b1 => pbind (map_p f l2) (fun b2 => POk (b1 ++ b2)%list)).
Proof.
  induction l1 as [|a l1 IH]; cbn [app map_p pbind].
  - destruct (map_p f l2); reflexivity.
  - destruct (f a) as [b| |]; cbn [pbind]; [|reflexivity|reflexivity]. rewrite IH.
    destruct (map_p f l1) as [b1| |]; cbn [pbind]; [|reflexivity|reflexivity].
    destruct (map_p f l2) as [b2| |]; reflexivity.
Qed.

Lemma parse_statements_nocheck_map chk stmts : forall acc pb,
  parse_statements chk false stmts acc pb = pbind (map_p parse_equation_M stmts) (fun l => POk ((rev acc ++ l)%list, pb)).
Proof.
  induction stmts as [|st rest IH]; intros acc pb; cbn [parse_statements map_p pbind].
  - rewrite app_nil_r. reflexivity.
  - destruct (parse_equation_M st) as [syms| |]; cbn [pbind]; [|reflexivity|reflexivity].
    rewrite IH. destruct (map_p parse_equation_M rest) as [l| |]; cbn [pbind]; [|reflexivity|reflexivity].
    cbn [rev]. rewrite <- app_assoc. reflexivity.
Qed.

(* parse_model(check_syntax=False) = split, parse each statement alone in order, then report the splitter's closing error
   or merge the per-statement symbol lists *)
Theorem parse_model_by_statements s :
  parse_model_nocheck s = pbind (map_p parse_equation_M (fst (split_M s))) (fun by_eq => finish_parse by_eq (snd (split_M s))).
Proof.
  unfold parse_model_nocheck, parse_model_M. destruct (split_M s) as [stmts serr]. cbn [fst snd].
  rewrite parse_statements_nocheck_map. destruct (map_p parse_equation_M stmts) as [l| |]; cbn [pbind rev app]; reflexivity.
Qed.

Theorem statements_independent s1 s2 st b1 b2 :
  s1 <> "" -> ends_sep s1 = false -> final_state s0 (model_lines s1) = Some st -> clean st = true ->
  map_p parse_equation_M (fst (split_M s1)) = POk b1 -> map_p parse_equation_M (fst (split_M s2)) = POk b2 ->
  parse_model_nocheck (s1 ++ nl_s ++ s2) = finish_parse (b1 ++ b2)%list (snd (split_M s2)) /\
  parse_model_nocheck s2 = finish_parse b2 (snd (split_M s2)) /\
  (snd (split_M s1) = None -> parse_model_nocheck s1 = finish_parse b1 None).
Proof.
  intros Hne He Hf Hc H1 H2. repeat split.
  - rewrite parse_model_by_statements, (split_app s1 s2 st Hne He Hf Hc). cbn [fst snd].
    rewrite map_p_app, H1, H2. reflexivity.
  - rewrite parse_model_by_statements, H2. reflexivity.
  - intros Hs. rewrite parse_model_by_statements, H1, Hs. reflexivity.
Qed.

(* a clean final state means the splitter raised no closing error *)
Lemma final_clean_no_error lines : forall st st', final_state st lines = Some st' -> clean st' = true -> snd (split_lines st lines) = None.
Proof.
  induction lines as [|l lines IH]; intros st st' H Hc.
  - cbn [final_state] in H. inversion H; subst. cbn [split_lines snd]. unfold clean in Hc.
    apply andb_true_iff in Hc as [Hc _]. apply andb_true_iff in Hc as [Hu Hc]. rewrite Hc, Hu. reflexivity.
  - cbn [final_state split_lines] in *. destruct (split_step st l) as [st1|eq st1|e]; [| |discriminate].
    + apply (IH st1 st' H Hc).
    + pose proof (IH st1 st' H Hc) as R. destruct (split_lines st1 lines) as [ys e1]. exact R.
Qed.

(* ================================================================== accepted by the splitter = ends between statements (fix 85765d5) *)
(* in every state the loop can reach, "no open bracket and no open fence" means the buffer is empty *)
Definition reach_inv (st : sstate) : Prop := unmatched st = 0 -> complete st = true -> buffer st = [].
Lemma reach_inv_s0 : reach_inv s0.
Proof. intros _ _. reflexivity. Qed.
Lemma split_step_inv st line :
  match split_step st line with StCont st' | StYield _ st' => reach_inv st' | StRaise _ => True end.
Proof.
  unfold split_step. destruct (startswith "```" line && match buffer st with [] => true | _ => false end).
  - intros _ Hc. cbn [complete] in Hc. discriminate.
  - destruct (count_parens (unmatched st) line) as [u|]; [|exact I].
    destruct ((u =? 0) && (if startswith "```" line then true else complete st)) eqn:E.
    + destruct (is_blank _); [intros _ _; reflexivity|]. destruct (stmt_ok _); [intros _ _; reflexivity|]. destruct (stmt_ok _); exact I.
    + intros Hu Hc. cbn [unmatched complete] in Hu, Hc. subst u. rewrite Hc in E. discriminate.
Qed.

Lemma accepted_final_clean lines : forall st, reach_inv st -> snd (split_lines st lines) = None ->
  exists st', final_state st lines = Some st' /\ clean st' = true.
Proof.
  induction lines as [|l lines IH]; intros st Hi H.
  - cbn [split_lines snd] in H. exists st. split; [reflexivity|]. unfold clean.
    destruct (complete st) eqn:Ec; [|discriminate]. cbn [negb] in H. destruct (unmatched st =? 0) eqn:Eu; [|discriminate].
    apply Nat.eqb_eq in Eu. rewrite (Hi Eu Ec). reflexivity.
  - cbn [split_lines final_state] in *. pose proof (split_step_inv st l) as S. destruct (split_step st l) as [st1|eq st1|e].
    + apply (IH st1 S H).
    + apply (IH st1 S). destruct (split_lines st1 lines) as [ys e1]. exact H.
    + discriminate.
Qed.

(* a script the splitter accepts ends between statements: nothing is left open, nothing is buffered *)
Theorem accepted_script_clean s : snd (split_M s) = None -> exists st, final_state s0 (model_lines s) = Some st /\ clean st = true.
Proof. apply (accepted_final_clean _ s0 reach_inv_s0). Qed.

(* … so "s1 is accepted by the splitter" is all that statement independence needs (before fix 85765d5 it was not enough:
   a script that leaves a fence open was accepted and swallowed whatever followed) *)
Theorem statements_independent_accepted s1 s2 b1 b2 :
  s1 <> "" -> ends_sep s1 = false -> snd (split_M s1) = None ->
  map_p parse_equation_M (fst (split_M s1)) = POk b1 -> map_p parse_equation_M (fst (split_M s2)) = POk b2 ->
  parse_model_nocheck (s1 ++ nl_s ++ s2) = finish_parse (b1 ++ b2)%list (snd (split_M s2)) /\
  parse_model_nocheck s2 = finish_parse b2 (snd (split_M s2)) /\
  parse_model_nocheck s1 = finish_parse b1 None.
Proof.
  intros Hne He Hs H1 H2. destruct (accepted_script_clean s1 Hs) as (st & Hf & Hc).
  destruct (statements_independent s1 s2 st b1 b2 Hne He Hf Hc H1 H2) as (A & B & C). auto.
Qed.

(* an unclosed fence: the splitter ends with ParserError, whatever was yielded before *)
Lemma open_fence_error lines : forall st st', final_state st lines = Some st' -> complete st' = false ->
  snd (split_lines st lines) = Some ParserError.
Proof.
  induction lines as [|l lines IH]; intros st st' H Hc.
  - cbn [final_state] in H. inversion H; subst. cbn [split_lines snd]. rewrite Hc. reflexivity.
  - cbn [final_state split_lines] in *. destruct (split_step st l) as [st1|eq st1|e]; [| |discriminate].
    + apply (IH st1 st' H Hc).
    + pose proof (IH st1 st' H Hc) as R. destruct (split_lines st1 lines) as [ys e1]. exact R.
Qed.

(* the script is rejected whole: parse_model never returns a symbol list; when every statement before parses, the error is
   the splitter's ParserError *)
Theorem unclosed_fence_rejected chk cs s st :
  final_state s0 (model_lines s) = Some st -> complete st = false ->
  (forall syms, parse_model_M chk cs s <> POk syms) /\
  (forall b, map_p parse_equation_M (fst (split_M s)) = POk b -> parse_model_nocheck s = PErr ParserError).
Proof.
  intros Hf Hc. pose proof (open_fence_error _ s0 st Hf Hc) as E. fold (split_M s) in E. split.
  - intros syms. unfold parse_model_M. destruct (split_M s) as [stmts serr]. cbn [snd] in E. subst serr.
    destruct (parse_statements chk cs stmts [] false) as [[by_eq pb]| |]; discriminate.
  - intros b Hb. rewrite parse_model_by_statements, Hb, E. reflexivity.
Qed.
