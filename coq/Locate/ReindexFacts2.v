(* ReindexFacts2.v — C12 for pandas PeriodIndex / DatetimeIndex old spans WITHOUT an oracle hypothesis: with the regular-index
   model of get_loc / __contains__ (LocateIndex.v) the hypothesis `old_span_ok` of the reindex theorems is proved. *)
From Coq Require Import ZArith List Bool String Lia.
Import ListNotations.
Require Import PyBase Generated Locate LocateFacts LocateIndex LocateIndexFacts Reindex ReindexFacts.
Open Scope Z_scope.
Open Scope list_scope.

Theorem regular_index_old_span_ok (k : ikind) (a s : Z) (n : nat) (labels : list label) :
  s <> 0 ->
  old_span_ok (fun _ => reg_get_loc k a s n) (fun _ => reg_contains k a s n) (SPandas (reg_labels k a s n)) labels.
Proof.
  intros Hs. apply old_span_ok_intro.
  - simpl. intros x. pose proof (reg_get_loc_spec k a s n Hs x) as H.
    destruct (pos x (reg_labels k a s n)); [destruct H as [fl H]; exists fl|]; rewrite H; reflexivity.
  - intros ls E p _. inversion E; subst. rewrite (reg_contains_spec k a s n p Hs).
    destruct (pos p (reg_labels k a s n)); reflexivity.
Qed.

(* hence, for a period_range / fixed-frequency date_range old span, reindex_values holds with no assumption about pandas *)
Corollary regular_index_reindex_values (k : ikind) (a s : Z) (n : nat) (cast : nat -> dtype -> pyval -> outcome cell)
          (st st' : cst) (new_span : span) (new_id : Z) (fv : pyval) (strict : option bool) (fills : list (string * pyval)) (fresh : Z) :
  s <> 0 -> c_span st = SPandas (reg_labels k a s n) -> wf st ->
  reindex_M (fun _ => reg_get_loc k a s n) (fun _ => reg_contains k a s n) cast st new_span new_id fv strict fills fresh = Ret st' ->
  c_span st' = new_span
  /\ Forall2 (fun x y : string * series cell =>
                fst y = fst x /\ s_dtype (snd y) = s_dtype (snd x)
                /\ exists c, fill_cell cast (List.length (span_labels new_span)) (s_dtype (snd x)) (fill_for fills fv (fst x)) = Ret c
                          /\ (s_dtype (snd x) <> DObj ->
                              s_data (snd y) = map (fun p => match pos p (reg_labels k a s n) with
                                                             | Some q => nth q (s_data (snd x)) c
                                                             | None => c
                                                             end) (span_labels new_span)))
             (c_vars st) (c_vars st').
Proof.
  intros Hs Hsp Hwf H.
  assert (Hok : old_span_ok (fun _ => reg_get_loc k a s n) (fun _ => reg_contains k a s n) (c_span st) (span_labels new_span))
    by (rewrite Hsp; apply regular_index_old_span_ok; exact Hs).
  destruct (reindex_values _ _ cast st st' new_span new_id fv strict fills fresh Hwf Hok H) as [H1 [_ [_ [_ H5]]]].
  split; [exact H1|]. rewrite Hsp in H5.
  clear - H5. induction H5 as [|x y l l' [Ha [Hb [c [Hc [_ Hex]]]]] HF IH]; constructor; [|exact IH].
  split; [exact Ha|]. split; [exact Hb|]. exists c. split; [exact Hc | exact Hex].
Qed.

(* BaseLinker.reindex: not implemented, whatever the arguments *)
Lemma linker_reindex_not_implemented (st : cst) new_span new_id fv strict fills fresh :
  linker_reindex_M st new_span new_id fv strict fills fresh = Raise NotImplementedError.
Proof. reflexivity. Qed.

(* the hypotheses are satisfiable: a quarterly PeriodIndex 1999Q3..2000Q1 reindexed to 1999Q4..2000Q2 with the model as get_loc *)
Definition rq_state : cst :=
  mkC (SPandas (reg_labels (IPer 2) 118 1 3)) 0 [("F"%string, mkSeries DFloat 1 [CF (FNum 3); CF (FNum (-4)); CF FNan])] [] false.
Example rq_wf : wf rq_state.
Proof. repeat constructor. Qed.
Example rq_reindex :
  option_map (fun s => map (fun kv => s_data (snd kv)) (c_vars s))
    (match reindex_M (fun _ => reg_get_loc (IPer 2) 118 1 3) (fun _ => reg_contains (IPer 2) 118 1 3) cast_tbl rq_state
             (SPandas (reg_labels (IPer 2) 119 1 3)) 9 PNone None [] 100 with Ret s => Some s | Raise _ => None end)
  = Some [[CF (FNum (-4)); CF FNan; CF FNan]].
Proof. vm_compute. reflexivity. Qed.

(* any other pandas index under the plain model (position of the label): old_span_ok for every list of labels *)
Theorem plain_index_old_span_ok (ls labels : list label) :
  old_span_ok (fun l => plain_get_loc l) (fun l => plain_contains l) (SPandas ls) labels.
Proof.
  apply old_span_ok_intro.
  - exact (plain_span_ok ls).
  - intros ls' E p _. inversion E; subst. rewrite plain_contains_spec. destruct (pos p ls'); reflexivity.
Qed.
