(* ReindexFacts2.v — C12 for pandas PeriodIndex / DatetimeIndex old spans WITHOUT an oracle hypothesis: with the regular-index
   model of get_loc / __contains__ (LocateIndex.v) the hypothesis `old_span_ok` of the reindex theorems is proved. *)
From Coq Require Import ZArith List Bool String Lia.
Import ListNotations.
Require Import PyBase Generated Locate LocateFacts LocateIndex LocateIndexFacts Reindex ReindexFacts ReindexPd.
Open Scope Z_scope.
Open Scope list_scope.

Theorem regular_index_old_span_ok (k : ikind) (a s : Z) (n : nat) (labels : list label) :
  s <> 0 ->
  old_span_ok (fun _ => reg_get_loc k a s n) (fun _ => reg_contains k a s n) (SPandas (reg_labels k a s n)) labels.
Proof.
  intros Hs. apply old_span_ok_intro.
  - simpl. intros x. pose proof (reg_get_loc_spec k a s n Hs x) as H.
    destruct (pos x (reg_labels k a s n)); [destruct H as [fl H]; exists fl|]; rewrite H; reflexivity.
  - intros p _. exact I.
  - intros ls E p _. inversion E; subst. rewrite (reg_contains_spec k a s n p Hs).
    destruct (pos p (reg_labels k a s n)); reflexivity.
Qed.

(* hence, for a period_range / fixed-frequency date_range old span, reindex_values holds with no assumption about pandas *)
Corollary regular_index_reindex_values (k : ikind) (a s : Z) (n : nat) (cast : nat -> dtype -> pyval -> outcome cell)
          (st st' : cst) (new_span : span) (new_id : Z) (fv : pyval) (strict : option bool) (fills : list (string * pyval)) (fresh : Z) :
  s <> 0 -> c_span st = SPandas (reg_labels k a s n) -> wf st ->
  reindex_M (fun _ => reg_get_loc k a s n) (fun _ => reg_contains k a s n) cast st new_span new_id fv strict fills fresh = Ret st' ->
  c_span st' = new_span
  /\ Forall2 (fun x y : string * series cell =>
                fst y = fst x /\ s_dtype (snd y) = s_dtype (snd x)
                /\ exists c, fill_cell cast (List.length (span_labels new_span)) (s_dtype (snd x)) (fill_for fills fv (fst x)) = Ret c
                          /\ (s_dtype (snd x) <> DObj ->
                              s_data (snd y) = map (fun p => match pos p (reg_labels k a s n) with
                                                             | Some q => nth q (s_data (snd x)) c
                                                             | None => c
                                                             end) (span_labels new_span)))
             (c_vars st) (c_vars st').
Proof.
  intros Hs Hsp Hwf H.
  assert (Hok : old_span_ok (fun _ => reg_get_loc k a s n) (fun _ => reg_contains k a s n) (c_span st) (span_labels new_span))
    by (rewrite Hsp; apply regular_index_old_span_ok; exact Hs).
  destruct (reindex_values _ _ cast st st' new_span new_id fv strict fills fresh Hwf Hok H) as [H1 [_ [_ [_ H5]]]].
  split; [exact H1|]. rewrite Hsp in H5.
  clear - H5. induction H5 as [|x y l l' [Ha [Hb [c [Hc [_ Hex]]]]] HF IH]; constructor; [|exact IH].
  split; [exact Ha|]. split; [exact Hb|]. exists c. split; [exact Hc | exact Hex].
Qed.

(* BaseLinker.reindex: not implemented, whatever the arguments *)
Lemma linker_reindex_not_implemented (st : cst) new_span new_id fv strict fills fresh :
  linker_reindex_M st new_span new_id fv strict fills fresh = Raise NotImplementedError.
Proof. reflexivity. Qed.

(* the hypotheses are satisfiable: a quarterly PeriodIndex 1999Q3..2000Q1 reindexed to 1999Q4..2000Q2 with the model as get_loc *)
Definition rq_state : cst :=
  mkC (SPandas (reg_labels (IPer 2) 118 1 3)) 0 [("F"%string, mkSeries DFloat 1 [CF (FNum 3); CF (FNum (-4)); CF FNan])] [] false.
Example rq_wf : wf rq_state.
Proof. repeat constructor. Qed.
Example rq_reindex :
  option_map (fun s => map (fun kv => s_data (snd kv)) (c_vars s))
    (match reindex_M (fun _ => reg_get_loc (IPer 2) 118 1 3) (fun _ => reg_contains (IPer 2) 118 1 3) cast_tbl rq_state
             (SPandas (reg_labels (IPer 2) 119 1 3)) 9 PNone None [] 100 with Ret s => Some s | Raise _ => None end)
  = Some [[CF (FNum (-4)); CF FNan; CF FNan]].
Proof. vm_compute. reflexivity. Qed.

(* ================= the pandas mixin relative to a MODEL of pandas for float64 series (ReindexPd.v) =================
   With default arguments the mixin leaves every float64 variable exactly as the core reindex made it (old values at
   overlapping periods, NaN at new ones): finding #11 concerns the other dtypes only.  (The model of Series.reindex is validated
   by the correspondence check on duplicate-free old indexes, which is what pandas accepts.) *)
Lemma all_cf_nth d q : forallb is_cf d = true -> is_cf (nth q d (CF FNan)) = true.
Proof.
  intros H. destruct (Nat.lt_ge_cases q (List.length d)) as [L|L].
  - rewrite forallb_forall in H. apply H. apply nth_In. exact L.
  - rewrite nth_overflow by exact L. reflexivity.
Qed.
Lemma reindexed_data_all_cf ols d labels : forallb is_cf d = true -> forallb is_cf (reindexed_data ols d (CF FNan) labels) = true.
Proof.
  intros H. unfold reindexed_data. rewrite forallb_forall. intros c Hc. apply in_map_iff in Hc as [p [Hp _]]. subst c.
  destruct (pos p ols); [apply all_cf_nth; exact H | reflexivity].
Qed.

Theorem pandas_float_unaffected (pd_get_loc : list label -> label -> outcome loc) (pd_contains : list label -> label -> bool)
        (cast : nat -> dtype -> pyval -> outcome cell) (st r : cst) (names : list string) (new_span : span) (new_id fresh : Z)
        (mf : string -> option string) :
  wf st ->
  old_span_ok pd_get_loc pd_contains (c_span st) (span_labels new_span) ->
  (forall n, cast n DFloat PNone = Ret (CF FNan)) ->
  (forall name, In name names ->
     mf name = None /\ name <> "status"%string /\ name <> "iterations"%string
     /\ exists sr, lookup name (c_vars st) = Some sr /\ s_dtype sr = DFloat /\ forallb is_cf (s_data sr) = true) ->
  model_reindex_M pd_get_loc pd_contains cast st new_span new_id PNone None [] fresh = Ret r ->
  pandas_loop float_series_reindex float_assign_cast st new_span mf [] PNone names r = Ret r.
Proof.
  intros Hwf Hok Hcast Hnames Hr.
  destruct (model_reindex_values pd_get_loc pd_contains cast st r new_span new_id PNone None [] fresh Hwf Hok Hr) as [_ [_ [_ [_ HF]]]].
  apply pandas_loop_noop. intros name Hin.
  destruct (Hnames name Hin) as [Hmf [Hs [Hi [so [Hso [Hdt Hcf]]]]]].
  destruct (Forall2_lookup (fun a b => s_dtype (snd b) = s_dtype (snd a)
              /\ exists c, fill_cell cast (List.length (span_labels new_span)) (s_dtype (snd a)) (model_fill [] PNone (fst a)) = Ret c
                        /\ map erase (s_data (snd b)) = map erase (reindexed_data (span_labels (c_span st)) (s_data (snd a)) c (span_labels new_span))
                        /\ (s_dtype (snd a) <> DObj -> s_data (snd b) = reindexed_data (span_labels (c_span st)) (s_data (snd a)) c (span_labels new_span)))
            (c_vars st) (c_vars r) name so) as [sn [Hsn [Hd [c [Hc [_ Hdata0]]]]]].
  - clear - HF. induction HF as [|a b l l' [Ha [Hb Hc]] HF IH]; constructor; [|exact IH]. split; [exact Ha|]. split; [exact Hb | exact Hc].
  - exact Hso.
  - simpl in *. exists so, sn. split; [exact Hso|]. split; [exact Hsn|].
    assert (Hdata : s_data sn = reindexed_data (span_labels (c_span st)) (s_data so) c (span_labels new_span)) by (apply Hdata0; rewrite Hdt; discriminate).
    assert (Ec : c = CF FNan).
    { unfold model_fill in Hc. apply String.eqb_neq in Hs. apply String.eqb_neq in Hi. rewrite Hs, Hi in Hc.
      rewrite Hdt in Hc. unfold fill_for in Hc. simpl in Hc. rewrite Hcast in Hc. inversion Hc. reflexivity. }
    subst c. exists (reindexed_data (span_labels (c_span st)) (s_data so) (CF FNan) (span_labels new_span)). split.
    + unfold float_series_reindex, fill_for. simpl. rewrite Hdt, Hmf. reflexivity.
    + unfold float_assign_cast. rewrite Hd, Hdt. rewrite (reindexed_data_all_cf _ _ _ Hcf). rewrite Hdata. reflexivity.
Qed.

(* any other pandas index under the plain model (position of the label): old_span_ok for every list of labels *)
Theorem plain_index_old_span_ok (ls labels : list label) :
  old_span_ok (fun l => plain_get_loc l) (fun l => plain_contains l) (SPandas ls) labels.
Proof.
  apply old_span_ok_intro.
  - exact (plain_span_ok ls).
  - intros p _. exact I.
  - intros ls' E p _. inversion E; subst. rewrite plain_contains_spec. destruct (pos p ls'); reflexivity.
Qed.
