(* LocateFacts2.v — further facts about the access model (property C10): what the whole-series write paths store. *)
From Coq Require Import ZArith List Bool String Lia.
Import ListNotations.
Require Import PyBase Generated Locate LocateFacts.
Open Scope Z_scope.
Open Scope list_scope.
Local Notation length := List.length.

Section Whole.
  Context {V : Type}.
  Variable st : cstate V.
  Variable name : string.
  Variable sr : series V.
  Hypothesis Hvar : lookup name (c_vars st) = Some sr.

  (* obj.X = scalar / obj['X'] = scalar : broadcast into the SAME array object (identity and dtype kept) *)
  Theorem write_whole_scalar v new_id :
    set_whole st name (OScalar v) new_id = (set_data st name sr (map (fun _ => v) (s_data sr)), Ret tt).
  Proof. unfold set_whole. rewrite Hvar. reflexivity. Qed.

  (* obj.X = sequence of the span's length : the series becomes a NEW array (identity new_id) holding exactly the sequence *)
  Theorem write_whole_seq vs new_id :
    length vs = length (span_labels (c_span st)) ->
    exists st', set_whole st name (OSeq vs) new_id = (st', Ret tt)
      /\ lookup name (c_vars st') = Some (mkSeries (s_dtype sr) new_id vs)
      /\ c_span st' = c_span st /\ c_attrs st' = c_attrs st /\ c_strict st' = c_strict st
      /\ map fst (c_vars st') = map fst (c_vars st)
      /\ (forall k, k <> name -> lookup k (c_vars st') = lookup k (c_vars st)).
  Proof.
    intros Hl. unfold set_whole. rewrite Hvar. rewrite <- Hl. rewrite Nat.eqb_refl.
    eexists. split; [reflexivity|]. simpl. split.
    - apply lookup_replace_same. congruence.
    - repeat split; try reflexivity; [apply replace_keys|]. intros k Hk. apply lookup_replace_other. exact Hk.
  Qed.

  (* a sequence of any other length is rejected with DimensionError and nothing changes *)
  Theorem write_whole_wrong_length vs new_id :
    length vs <> length (span_labels (c_span st)) ->
    set_whole st name (OSeq vs) new_id = (st, Raise DimensionError).
  Proof.
    intros Hl. unfold set_whole. rewrite Hvar. apply Nat.eqb_neq in Hl. rewrite Hl. reflexivity.
  Qed.
End Whole.

(* an unknown variable name: every tuple-key / name-key path raises and leaves the object unchanged *)
Theorem unknown_name_paths {V} (lc : label -> outcome loc) (st : cstate V) (name : string) :
  lookup name (c_vars st) = None ->
  (forall k, get_item_with lc st name k = Raise KeyError)
  /\ get_key st name = Raise KeyError /\ get_attr st name = Raise AttributeError
  /\ (forall k w, fst (set_item_with lc st name k w) = st /\ exists e, snd (set_item_with lc st name k w) = Raise e)
  /\ (forall i v, set_pos st name i v = (st, Raise KeyError))
  /\ (forall w id, set_whole st name w id = (st, Raise KeyError)).
Proof.
  intros H. split; [intros k; unfold get_item_with; rewrite H; reflexivity|].
  split; [unfold get_key; rewrite H; reflexivity|]. split; [unfold get_attr; rewrite H; reflexivity|].
  split.
  - intros k w. unfold set_item_with. destruct k as [x|a b s].
    + destruct (lc x) as [l|e]; [rewrite H|]; simpl; split; try reflexivity; eexists; reflexivity.
    + destruct (resolve_slice_with lc (c_span st) a b s) as [[[i j] s']|e]; [rewrite H|]; simpl; split; try reflexivity; eexists; reflexivity.
  - split; [intros i v; unfold set_pos; rewrite H; reflexivity | intros w id; unfold set_whole; rewrite H; reflexivity].
Qed.
