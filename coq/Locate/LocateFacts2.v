(* LocateFacts2.v — further facts about the access model (property C10): what the whole-series write paths store. *)
From Coq Require Import ZArith List Bool String Lia.
Import ListNotations.
Require Import PyBase Generated Locate LocateFacts.
Open Scope Z_scope.
Open Scope list_scope.
Local Notation length := List.length.

Section Whole.
  Context {V : Type}.
  Variable st : cstate V.
  Variable name : string.
  Variable sr : series V.
  Hypothesis Hvar : lookup name (c_vars st) = Some sr.

  (* obj.X = scalar / obj['X'] = scalar : broadcast into the SAME array object (identity and dtype kept) *)
  Theorem write_whole_scalar v new_id :
    set_whole st name (OScalar v) new_id = (set_data st name sr (map (fun _ => v) (s_data sr)), Ret tt).
  Proof. unfold set_whole. rewrite Hvar. reflexivity. Qed.

  (* obj.X = sequence of the span's length : the series becomes a NEW array (identity new_id) holding exactly the sequence *)
  Theorem write_whole_seq vs new_id :
    length vs = length (span_labels (c_span st)) ->
    exists st', set_whole st name (OSeq vs) new_id = (st', Ret tt)
      /\ lookup name (c_vars st') = Some (mkSeries (s_dtype sr) new_id vs)
      /\ c_span st' = c_span st /\ c_attrs st' = c_attrs st /\ c_strict st' = c_strict st
      /\ map fst (c_vars st') = map fst (c_vars st)
      /\ (forall k, k <> name -> lookup k (c_vars st') = lookup k (c_vars st)).
  Proof.
    intros Hl. unfold set_whole. rewrite Hvar. rewrite <- Hl. rewrite Nat.eqb_refl.
    eexists. split; [reflexivity|]. simpl. split.
    - apply lookup_replace_same. congruence.
    - repeat split; try reflexivity; [apply replace_keys|]. intros k Hk. apply lookup_replace_other. exact Hk.
  Qed.

  (* a sequence of any other length is rejected with DimensionError and nothing changes *)
  Theorem write_whole_wrong_length vs new_id :
    length vs <> length (span_labels (c_span st)) ->
    set_whole st name (OSeq vs) new_id = (st, Raise DimensionError).
  Proof.
    intros Hl. unfold set_whole. rewrite Hvar. apply Nat.eqb_neq in Hl. rewrite Hl. reflexivity.
  Qed.
End Whole.

(* an unknown variable name (since fix 216fc36 also on the tuple-key write path, where 'attributes' / 'strict' used to reach the
   container's own bookkeeping): every path raises KeyError (AttributeError for the attribute read) BEFORE anything is located
   or written — whatever the lookup would answer for the label, whatever the operand — and the object is unchanged *)
Theorem unknown_name_paths {V} (lc : label -> outcome loc) (st : cstate V) (name : string) :
  lookup name (c_vars st) = None ->
  (forall k, get_item_with lc st name k = Raise KeyError)
  /\ get_key st name = Raise KeyError /\ get_attr st name = Raise AttributeError
  /\ (forall k w, set_item_with lc st name k w = (st, Raise KeyError))
  /\ (forall i v, set_pos st name i v = (st, Raise KeyError))
  /\ (forall w id, set_whole st name w id = (st, Raise KeyError)).
Proof.
  intros H. split; [intros k; unfold get_item_with; rewrite H; reflexivity|].
  split; [unfold get_key; rewrite H; reflexivity|]. split; [unfold get_attr; rewrite H; reflexivity|].
  split; [intros k w; unfold set_item_with; rewrite H; reflexivity|].
  split; [intros i v; unfold set_pos; rewrite H; reflexivity | intros w id; unfold set_whole; rewrite H; reflexivity].
Qed.

(* the name test comes first: even a label whose lookup would fail otherwise (IndexError on an empty span's open slice, a
   non-KeyError from an oracle) is not looked up for an unknown name *)
Theorem unknown_name_before_lookup {V} (lc1 lc2 : label -> outcome loc) (st : cstate V) (name : string) k w :
  lookup name (c_vars st) = None -> set_item_with lc1 st name k w = set_item_with lc2 st name k w.
Proof. intros H. unfold set_item_with. rewrite H. reflexivity. Qed.

(* ================= negative steps and step 0 in label slices (OUTSIDE the property, which speaks of positive steps only;
   stated so that the behaviour of the code is on record) =================
   The inclusive-stop adjustment `stop_location += 1` is applied whatever the sign of the step.  With a negative step Python
   walks down from pos a and stops BEFORE reaching pos b + 1: neither the stop label nor the period after it is addressed. *)
Lemma range_down_In fuel : forall a s b, s < 0 -> 0 <= b -> a - b <= Z.of_nat fuel ->
  forall q, In q (range_down fuel a s b) <-> exists i : nat, Z.of_nat q = a + Z.of_nat i * s /\ b < a + Z.of_nat i * s.
Proof.
  induction fuel as [|f IH]; intros a s b Hs Hb Hf q; simpl.
  - split; [tauto|]. intros [i [_ H]]. nia.
  - destruct (b <? a) eqn:E.
    + apply Z.ltb_lt in E. simpl. rewrite (IH (a + s) s b) by lia. split.
      * intros [H|[i [H1 H2]]].
        -- exists O. subst q. rewrite Z2Nat.id by lia. lia.
        -- exists (S i). lia.
      * intros [[|i] [H1 H2]].
        -- left. lia.
        -- right. exists i. lia.
    + apply Z.ltb_ge in E. split; [simpl; tauto|]. intros [i [_ H]]. nia.
Qed.

Theorem negative_step_positions (n pa pb : nat) (s : Z) :
  (pa < n)%nat -> (pb < n)%nat -> s < 0 ->
  exists L, np_slice_positions n (Z.of_nat pa) (Z.of_nat pb + 1) s = Ret L
    /\ forall q, In q L <-> exists i : nat, Z.of_nat q = Z.of_nat pa + Z.of_nat i * s /\ Z.of_nat pb + 1 < Z.of_nat q.
Proof.
  intros Ha Hb Hs. unfold np_slice_positions. replace (s =? 0) with false by lia. replace (0 <? s) with false by lia.
  eexists. split; [reflexivity|]. intros q.
  assert (Ca : clip_neg (Z.of_nat n) (Z.of_nat pa) = Z.of_nat pa).
  { unfold clip_neg. replace (Z.of_nat pa <? 0) with false by lia. replace (Z.of_nat n <=? Z.of_nat pa) with false by lia. reflexivity. }
  rewrite Ca. unfold clip_neg. replace (Z.of_nat pb + 1 <? 0) with false by lia.
  destruct (Z.of_nat n <=? Z.of_nat pb + 1) eqn:E.
  - apply Z.leb_le in E. rewrite (range_down_In n (Z.of_nat pa) s (Z.of_nat n - 1)) by lia. split.
    + intros [i [H1 H2]]. nia.
    + intros [i [H1 H2]]. nia.
  - apply Z.leb_gt in E. rewrite (range_down_In n (Z.of_nat pa) s (Z.of_nat pb + 1)) by lia. split.
    + intros [i [H1 H2]]. exists i. lia.
    + intros [i [H1 H2]]. exists i. lia.
Qed.

Theorem negative_step_get {V} (lc : label -> outcome loc) (st : cstate V) (name : string) (sr : series V)
        (a b : option label) (s : Z) (pa pb : nat) :
  locate_spec (span_labels (c_span st)) lc ->
  lookup name (c_vars st) = Some sr ->
  length (s_data sr) = length (span_labels (c_span st)) ->
  NoDup (span_labels (c_span st)) ->
  start_pos (span_labels (c_span st)) a = Some pa -> stop_pos (span_labels (c_span st)) b = Some pb -> s < 0 ->
  exists L, get_item_with lc st name (KSlice a b (Some s)) = Ret (RArr (gather (s_data sr) L))
    /\ forall q, In q L <-> exists i : nat, Z.of_nat q = Z.of_nat pa + Z.of_nat i * s /\ Z.of_nat pb + 1 < Z.of_nat q.
Proof.
  intros Hspec Hv Hlen ND Ha Hb Hs.
  pose proof (start_pos_lt _ _ _ Ha) as La. pose proof (stop_pos_lt _ _ _ Hb) as Lb. rewrite <- Hlen in La, Lb.
  destruct (negative_step_positions (length (s_data sr)) pa pb s La Lb Hs) as [L [HL HI]].
  exists L. split; [|exact HI]. unfold get_item_with. rewrite Hv.
  rewrite (resolve_slice_ok lc st Hspec a b (Some s) pa pb ND Ha Hb). simpl. rewrite HL. reflexivity.
Qed.

(* step 0: ValueError from NumPy, for reads and writes alike; a write changes nothing *)
Theorem zero_step_rejected {V} (lc : label -> outcome loc) (st : cstate V) (name : string) (sr : series V)
        (a b : option label) (pa pb : nat) (w : operand V) :
  locate_spec (span_labels (c_span st)) lc ->
  lookup name (c_vars st) = Some sr ->
  NoDup (span_labels (c_span st)) ->
  start_pos (span_labels (c_span st)) a = Some pa -> stop_pos (span_labels (c_span st)) b = Some pb ->
  get_item_with lc st name (KSlice a b (Some 0)) = Raise ValueError
  /\ set_item_with lc st name (KSlice a b (Some 0)) w = (st, Raise ValueError).
Proof.
  intros Hspec Hv ND Ha Hb. unfold get_item_with, set_item_with. rewrite Hv.
  rewrite (resolve_slice_ok lc st Hspec a b (Some 0) pa pb ND Ha Hb). split; reflexivity.
Qed.

(* ================= a label-slice write, then reads by label: exactly the addressed periods changed =================
   obj[name, a:b:s] = v (s > 0) succeeds, and afterwards obj[name, x] is v for every period x whose position is
   pos a + i*s <= pos b, and its OLD value for every other period of the span. *)
Theorem slice_write_then_label_reads {V} (lc : label -> outcome loc) (st : cstate V) (name : string) (sr : series V)
        (a b : option label) (s : option Z) (pa pb : nat) (v : V) :
  locate_spec (span_labels (c_span st)) lc ->
  lookup name (c_vars st) = Some sr ->
  length (s_data sr) = length (span_labels (c_span st)) ->
  NoDup (span_labels (c_span st)) ->
  start_pos (span_labels (c_span st)) a = Some pa -> stop_pos (span_labels (c_span st)) b = Some pb -> 0 < step_of s ->
  exists st', set_item_with lc st name (KSlice a b s) (OScalar v) = (st', Ret tt)
    /\ c_span st' = c_span st
    /\ forall x p, pos x (span_labels (c_span st)) = Some p ->
         ((exists i : nat, Z.of_nat p = Z.of_nat pa + Z.of_nat i * step_of s /\ (p <= pb)%nat) ->
            get_item_with lc st' name (KLabel x) = Ret (RScalar v))
         /\ (~ (exists i : nat, Z.of_nat p = Z.of_nat pa + Z.of_nat i * step_of s /\ (p <= pb)%nat) ->
               forall old, nth_error (s_data sr) p = Some old -> get_item_with lc st' name (KLabel x) = Ret (RScalar old)).
Proof.
  intros Hspec Hv Hlen ND Ha Hb Hs.
  pose proof (start_pos_lt _ _ _ Ha) as La. pose proof (stop_pos_lt _ _ _ Hb) as Lb. rewrite <- Hlen in La, Lb.
  destruct (inclusive_slice_positions (length (s_data sr)) pa pb (step_of s) La Lb Hs) as [HI _].
  set (L := py_slice_positions (length (s_data sr)) (Some (Z.of_nat pa)) (Some (Z.of_nat pb + 1)) (step_of s)) in *.
  assert (HLlt : forall p, In p L -> (p < length (s_data sr))%nat).
  { intros p Hp. apply HI in Hp as [i [_ Hp]]. lia. }
  destruct (assign_scalar_effect sr L v HLlt) as [d' [Hass [Hd'len [Hin Hout]]]].
  exists (set_data st name sr d'). split.
  - exact (slice_set_exact lc st name sr Hspec Hv Hlen a b s pa pb (OScalar v) d' ND Ha Hb Hs Hass).
  - split; [reflexivity|]. intros x p Hp.
    assert (Hv' : lookup name (c_vars (set_data st name sr d')) = Some (mkSeries (s_dtype sr) (s_id sr) d')) by (apply set_data_lookup; exact Hv).
    assert (Hlen' : length (s_data (mkSeries (s_dtype sr) (s_id sr) d')) = length (span_labels (c_span (set_data st name sr d')))).
    { simpl. rewrite Hd'len. exact Hlen. }
    destruct (label_get_exact lc (set_data st name sr d') name (mkSeries (s_dtype sr) (s_id sr) d') Hspec Hv' Hlen' x p Hp) as [w [Hw Hg]].
    simpl in Hw. split.
    + intros Hex. apply HI in Hex. rewrite (Hin p Hex) in Hw. inversion Hw; subst. exact Hg.
    + intros Hnex old Hold. assert (Hn : ~ In p L) by (intros Hc; apply Hnex; apply HI; exact Hc).
      rewrite (Hout p Hn), Hold in Hw. inversion Hw; subst. exact Hg.
Qed.

(* ================= repeated labels: where the duplicate-free guard is NOT needed =================
   With a given stop label (closed stop) the slice theorems hold for spans with repeated labels too — list / tuple spans look a
   label up by its FIRST occurrence (pos), and so does the slice.  Only an OPEN stop needs NoDup: it is resolved by looking up
   the span's last label, whose first occurrence need not be the end of the span (dup_span_open_slice_refuted). *)
Lemma resolve_slice_closed_stop (lc : label -> outcome loc) (sp : span) (a : option label) (y : label) (s : option Z) (pa pb : nat) :
  locate_spec (span_labels sp) lc ->
  start_pos (span_labels sp) a = Some pa -> pos y (span_labels sp) = Some pb ->
  resolve_slice_with lc sp a (Some y) s = Ret (Z.of_nat pa, Z.of_nat pb + 1, step_of s).
Proof.
  intros Hspec Ha Hb. unfold resolve_slice_with.
  pose proof (Hspec y) as Sy. rewrite Hb in Sy. destruct Sy as [fy Ly].
  destruct a as [x|]; simpl in *.
  - pose proof (Hspec x) as Sx. rewrite Ha in Sx. destruct Sx as [fx Lx]. rewrite Lx, Ly. destruct s; reflexivity.
  - unfold span_first. destruct (span_labels sp) as [|x r] eqn:E; [discriminate|]. inversion Ha; subst pa.
    pose proof (Hspec x) as Sx. try rewrite E in Sx. rewrite pos_hd in Sx. destruct Sx as [fx Lx]. simpl. rewrite Lx, Ly. destruct s; reflexivity.
Qed.

Theorem slice_get_closed_stop_any_span {V} (lc : label -> outcome loc) (st : cstate V) (name : string) (sr : series V)
        (a : option label) (y : label) (s : option Z) (pa pb : nat) :
  locate_spec (span_labels (c_span st)) lc ->
  lookup name (c_vars st) = Some sr ->
  length (s_data sr) = length (span_labels (c_span st)) ->
  start_pos (span_labels (c_span st)) a = Some pa -> pos y (span_labels (c_span st)) = Some pb -> 0 < step_of s ->
  let L := py_slice_positions (length (s_data sr)) (Some (Z.of_nat pa)) (Some (Z.of_nat pb + 1)) (step_of s) in
  get_item_with lc st name (KSlice a (Some y) s) = Ret (RArr (gather (s_data sr) L))
  /\ (forall q, In q L <-> exists i : nat, Z.of_nat q = Z.of_nat pa + Z.of_nat i * step_of s /\ (q <= pb)%nat)
  /\ ((pb < pa)%nat -> L = []).
Proof.
  intros Hspec Hv Hlen Ha Hb Hs L.
  pose proof (start_pos_lt _ _ _ Ha) as La. apply pos_Some in Hb as Hb'. destruct Hb' as [_ Lb]. rewrite <- Hlen in La, Lb.
  destruct (inclusive_slice_positions (length (s_data sr)) pa pb (step_of s) La Lb Hs) as [H1 [_ H3]].
  split; [|split; [exact H1 | exact H3]].
  unfold get_item_with. rewrite Hv. rewrite (resolve_slice_closed_stop lc (c_span st) a y s pa pb Hspec Ha Hb). simpl.
  unfold np_slice_positions. replace (step_of s =? 0) with false by lia. replace (0 <? step_of s) with true by lia. reflexivity.
Qed.
