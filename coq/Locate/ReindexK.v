(* ReindexK.v — the in-Coq side of the correspondence check K_reindex: one reindex call on one
   container / model, run on the model (cells, fills and the conversion table of Reindex.v),
   compared with the observation of the real fsic.  Definitions only. *)
From Coq Require Import ZArith List Bool String.
Import ListNotations.
Require Import PyBase Locate LocateIndex LocateK Reindex.
Open Scope Z_scope.
Open Scope list_scope.

Definition fl_eqb (a b : fl) : bool :=
  match a, b with
  | FNum x, FNum y => x =? y
  | FNan, FNan => true
  | FInf x, FInf y => Bool.eqb x y
  | _, _ => false
  end.
Definition pyval_eqb (a b : pyval) : bool :=
  match a, b with
  | PNone, PNone => true
  | PBool x, PBool y => Bool.eqb x y
  | PInt x, PInt y => x =? y
  | PFlt x, PFlt y => fl_eqb x y
  | PStr x, PStr y => String.eqb x y
  | _, _ => false
  end.
Definition cell_eqb (a b : cell) : bool :=
  match a, b with
  | CF x, CF y => fl_eqb x y
  | CI x, CI y => x =? y
  | CB x, CB y => Bool.eqb x y
  | CS x, CS y => String.eqb x y
  | CV x, CV y => pyval_eqb x y
  | CO _, CO _ => true          (* the identity of a (deep-copied) object is not a value; sharing is compared separately: r_shared *)
  | _, _ => false
  end.
Fixpoint cells_eqb (a b : list cell) : bool :=
  match a, b with [], [] => true | x :: a', y :: b' => cell_eqb x y && cells_eqb a' b' | _, _ => false end.
Definition dtype_eqb (a b : dtype) : bool :=
  match a, b with
  | DFloat, DFloat | DInt, DInt | DBool, DBool | DObj, DObj => true
  | DStr x, DStr y => Nat.eqb x y
  | _, _ => false
  end.
Definition ostr_eqb (a b : option string) : bool :=
  match a, b with None, None => true | Some x, Some y => String.eqb x y | _, _ => false end.

(* what is compared: variable order, dtype and data of the result (or the exception class) *)
Definition rview := list (string * (dtype * list cell)).
Fixpoint rview_eqb (a b : rview) : bool :=
  match a, b with
  | [], [] => true
  | (n, (d, l)) :: a', (m, (e, k)) :: b' => String.eqb n m && dtype_eqb d e && cells_eqb l k && rview_eqb a' b'
  | _, _ => false
  end.
Definition view_of (st : cst) : rview := map (fun kv => (fst kv, (s_dtype (snd kv), s_data (snd kv)))) (c_vars st).
Definition rout_eqb (a : outcome cst) (b : outcome rview) : bool :=
  match a, b with
  | Ret st, Ret v => rview_eqb (view_of st) v
  | Raise e, Raise f => exn_eqb e f || (match e, f with OverflowError, OverflowError => true | _, _ => false end)
  | _, _ => false
  end.

(* recorded answers of Series.reindex and of the casting assignment (oracle tables for the mixin) *)
Definition sr_key := (dtype * list cell * option string * pyval)%type.
Fixpoint sr_lookup (dt : dtype) (d : list cell) (m : option string) (v : pyval) (t : list (sr_key * outcome (list cell))) : outcome (list cell) :=
  match t with
  | [] => Raise OtherError
  | ((dt', d', m', v'), r) :: rest =>
      if dtype_eqb dt dt' && cells_eqb d d' && ostr_eqb m m' && pyval_eqb v v' then r else sr_lookup dt d m v rest
  end.
Fixpoint ac_lookup (dt : dtype) (d : list cell) (t : list ((dtype * list cell) * outcome (list cell))) : outcome (list cell) :=
  match t with
  | [] => Raise OtherError
  | ((dt', d'), r) :: rest => if dtype_eqb dt dt' && cells_eqb d d' then r else ac_lookup dt d rest
  end.

Inductive rkind : Type :=
| RContainer                                                     (* VectorContainer.reindex *)
| RModel                                                         (* BaseModel.reindex *)
| RLinker                                                        (* BaseLinker.reindex *)
| RPandas (names : list string) (method : option string) (backfill_ bfill_ pad_ ffill_ nearest_ : list string)
          (srt : list (sr_key * outcome (list cell))) (act : list ((dtype * list cell) * outcome (list cell))).

Record rcase := mkRCase {
  r_old : span; r_tbl : list (label * loc); r_in : list (label * bool);
  r_vars : list (string * series cell); r_strict : bool;
  r_kind : rkind;
  r_new : span; r_fill : pyval; r_strictarg : option bool; r_fills : list (string * pyval);
  r_exp : outcome rview;
  r_shared : bool;               (* observed: some object held in an object-dtype cell of the original is also held by the result *)
  r_span_shared : bool           (* observed: result.span IS the original's span object *) }.

Definition run_rcase (c : rcase) : outcome cst :=
  let st := mkC (r_old c) 0 (r_vars c) [] (r_strict c) in
  let gl := tbl_get_loc (r_tbl c) in
  let ct := tbl_contains (r_in c) in
  match r_kind c with
  | RContainer => reindex_M gl ct cast_tbl st (r_new c) 1 (r_fill c) (r_strictarg c) (r_fills c) 1000
  | RModel => model_reindex_M gl ct cast_tbl st (r_new c) 1 (r_fill c) (r_strictarg c) (r_fills c) 1000
  | RLinker => linker_reindex_M st (r_new c) 1 (r_fill c) (r_strictarg c) (r_fills c) 1000
  | RPandas names method l1 l2 l3 l4 l5 srt act =>
      pandas_reindex_M gl ct cast_tbl (fun _ dt d _ m v => sr_lookup dt d m v srt) (fun dt d => ac_lookup dt d act)
                       st names (r_new c) 1 method (r_fill c) (r_strictarg c) (r_fills c) l1 l2 l3 l4 l5 1000
  end.
(* the regular-index model of pandas' get_loc / `in` against the recorded answers for the OLD span (as in LocateK.pd_model_ok) *)
Definition rpd_model_ok (c : rcase) : bool :=
  match r_old c with
  | SPandas ls =>
      match recognise ls with
      | Some (k, a, s) =>
          forallb (fun xb : label * bool =>
                     let x := fst xb in
                     negb (model_speaks k x)
                     || (oloc_eqb (to_KeyError (reg_get_loc k a s (List.length ls) x)) (to_KeyError (tbl_get_loc (r_tbl c) ls x))
                         && Bool.eqb (reg_contains k a s (List.length ls) x) (snd xb)))
                  (r_in c)
      | None =>
          (* any other pandas index: the plain model (position of the label), on duplicate-free indexes *)
          forallb (fun xb : label * bool =>
                     let x := fst xb in
                     negb (plain_speaks ls x)
                     || (oloc_eqb (to_KeyError (plain_get_loc ls x)) (to_KeyError (tbl_get_loc (r_tbl c) ls x))
                         && Bool.eqb (plain_contains ls x) (snd xb)))
                  (r_in c)
      end
  | _ => true
  end.
Definition obj_ids_of (vars : list (string * series cell)) : list Z :=
  flat_map (fun kv => flat_map (fun c => match c with CO id => [id] | _ => [] end) (s_data (snd kv))) vars.
Definition shares_objects (old new : list (string * series cell)) : bool :=
  existsb (fun id => existsb (Z.eqb id) (obj_ids_of old)) (obj_ids_of new).
Definition check_rcase (c : rcase) : bool :=
  rout_eqb (run_rcase c) (r_exp c) && rpd_model_ok c
  && Bool.eqb (match run_rcase c with Ret st' => shares_objects (r_vars c) (c_vars st') | Raise _ => false end) (r_shared c)
  && Bool.eqb (match run_rcase c with Ret st' => c_span_id st' =? 0 | Raise _ => false end) (r_span_shared c).   (* the original's span object is 0 *)
Fixpoint rbad_indices (i : nat) (l : list rcase) : list nat :=
  match l with [] => [] | x :: r => if check_rcase x then rbad_indices (S i) r else i :: rbad_indices (S i) r end.

(* cases grouped by the harness (old span, tables, old variables and new span bound once per group): indices of the groups
   containing a disagreement *)
Fixpoint rgbad_indices (i : nat) (l : list (list rcase)) : list nat :=
  match l with
  | [] => []
  | g :: r => match rbad_indices 0%nat g with [] => rgbad_indices (S i) r | _ :: _ => i :: rgbad_indices (S i) r end
  end.
