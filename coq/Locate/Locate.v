(* Locate.v — executable model of label-based access of fsic's VectorContainer
   (fsic/core/containers.py): _locate_period_in_span_fallback (81-99), _VALID_INDEX_METHODS
   (101-105, taken from Gen/Generated.v), _locate_period_in_span (307-351),
   _resolve_period_slice (353-383), __getitem__ / __setitem__ (385-461), the part of
   __getattr__/__setattr__ that the access paths of C10 use, and the label-slice branch of
   _resolve_expression_indexes (599-649, the `isinstance(stop, int)` adjustment).
   Definitions only.  Generic in the element type V: access only moves data around. *)
From Coq Require Import ZArith List Bool String Ascii.
Import ListNotations.
Require Import PyBase Generated.
Open Scope string_scope.
Open Scope Z_scope.
Local Notation length := List.length.

(* ---- labels: a canonical representation of the hashables used as period labels.
   Python equality is structural equality of the representation: int / bool / integral float
   -> LInt (1 == True == 1.0 in Python), k + 0.5 -> LHalf k, str -> LStr, a pair of ints -> LPair,
   pandas Period -> LPer freq ordinal, pandas Timestamp -> LTs nanoseconds, None -> LNone. ---- *)
Inductive label : Type :=
| LInt (z : Z) | LHalf (z : Z) | LStr (s : string) | LPair (a b : Z)
| LPer (freq ord : Z) | LTs (ns : Z) | LNone.

Definition label_eqb (x y : label) : bool :=
  match x, y with
  | LInt a, LInt b => a =? b
  | LHalf a, LHalf b => a =? b
  | LStr a, LStr b => String.eqb a b
  | LPair a b, LPair c d => (a =? c) && (b =? d)
  | LPer f o, LPer g p => (f =? g) && (o =? p)
  | LTs a, LTs b => a =? b
  | LNone, LNone => true
  | _, _ => false
  end.

(* what a span's lookup method returns: a position (flag: is it a built-in `int`?) or, for pandas
   partial-string lookups, slice(a, b, None) *)
Inductive loc : Type := LPos (i : Z) (isint : bool) | LSlice (a b : Z).

(* the span types: list/tuple (have .index), range (has .index), NumPy array (neither: fallback),
   pandas Index / PeriodIndex / DatetimeIndex (have .get_loc) *)
Inductive span : Type :=
| SList (ls : list label)
| SRange (start step : Z) (n : nat)
| SArr (ls : list label)
| SPandas (ls : list label).

Definition range_labels (start step : Z) (n : nat) : list label :=
  map (fun i => LInt (start + step * Z.of_nat i)) (seq 0 n).
Definition span_labels (sp : span) : list label :=
  match sp with
  | SList ls | SArr ls | SPandas ls => ls
  | SRange a s n => range_labels a s n
  end.

Definition bind {A B} (o : outcome A) (f : A -> outcome B) : outcome B :=
  match o with Ret a => f a | Raise e => Raise e end.
(* `except Exception as e: raise KeyError(period) from e` *)
Definition to_KeyError {A} (o : outcome A) : outcome A :=
  match o with Ret a => Ret a | Raise _ => Raise KeyError end.

(* list.index / tuple.index: position of the first element equal to x *)
Fixpoint index_from (i : Z) (x : label) (ls : list label) : option Z :=
  match ls with
  | [] => None
  | y :: r => if label_eqb y x then Some i else index_from (i + 1) x r
  end.

(* range.index: arithmetic, no search *)
Definition range_index (start step : Z) (n : nat) (x : label) : option Z :=
  match x with
  | LInt v =>
      let d := v - start in
      if (d mod step =? 0) && (0 <=? d / step) && (d / step <? Z.of_nat n) then Some (d / step) else None
  | _ => None
  end.

(* `np.asarray(span, dtype=object) == target`, target = the period wrapped in a 0-d object array (since fix 35fe7e2): element-wise
   comparison with the period as ONE object — a tuple label is no longer broadcast against the span *)
(* ... but the comparison runs on `np.asarray(span, dtype=object)`: the object cast turns the elements of a datetime64[ns] array into
   Python ints (nanoseconds), which never equal a Timestamp / datetime64 target — in an SArr the labels LTs ns stand for the elements
   of such an array.  (Kept finding: no period of a datetime64[ns] array span can be addressed by its own label.) *)
Definition obj_cast (y : label) : label := match y with LTs ns => LInt ns | _ => y end.
Definition arr_eq (ls : list label) (x : label) : list bool := map (fun y => label_eqb (obj_cast y) x) ls.
Fixpoint true_positions (i : Z) (bs : list bool) : list Z :=
  match bs with
  | [] => []
  | b :: r => if b then i :: true_positions (i + 1) r else true_positions (i + 1) r
  end.
(* _locate_period_in_span_fallback; since fix a094259 the single match is returned as a built-in int *)
Definition fallback (x : label) (ls : list label) : outcome loc :=
  match true_positions 0 (arr_eq ls x) with
  | [] => Raise KeyError
  | [i] => Ret (LPos i true)
  | _ => Raise NotImplementedError
  end.

Definition fallback_tag : string := "<callable:_locate_period_in_span_fallback>".
Definition is_callable_tag (m : string) : bool := String.prefix "<callable:" m.

Definition has_attr (sp : span) (m : string) : bool :=
  match sp with
  | SPandas _ => String.eqb m "get_loc"
  | SList _ | SRange _ _ _ => String.eqb m "index"
  | SArr _ => false
  end.

Section Locate.
  (* pandas' Index.get_loc and Index.__contains__ : external behaviour *)
  Variable pd_get_loc : list label -> label -> outcome loc.
  Variable pd_contains : list label -> label -> bool.

  Definition call_method (sp : span) (x : label) : outcome loc :=
    match sp with
    | SPandas ls => pd_get_loc ls x
    | SList ls => match index_from 0 x ls with Some i => Ret (LPos i true) | None => Raise ValueError end
    | SRange a s n => match range_index a s n x with Some i => Ret (LPos i true) | None => Raise ValueError end
    | SArr _ => Raise AttributeError
    end.

  (* the loop of _locate_period_in_span over _VALID_INDEX_METHODS *)
  Fixpoint locate_with (ms : list string) (sp : span) (x : label) : outcome loc :=
    match ms with
    | [] => Raise AttributeError
    | m :: r =>
        if is_callable_tag m then
          (if String.eqb m fallback_tag then to_KeyError (fallback x (span_labels sp)) else Raise OtherError)
        else if has_attr sp m then to_KeyError (call_method sp x)
        else locate_with r sp x
    end.
  Definition locate : span -> label -> outcome loc := locate_with valid_index_methods.

  (* `period in span` *)
  Definition span_contains (sp : span) (x : label) : outcome bool :=
    match sp with
    | SPandas ls => Ret (pd_contains ls x)
    | SArr ls => Ret (existsb (fun y => label_eqb y x) ls)       (* NumPy's own `in` (native comparison); a tuple label: the single-object
                                                                    comparison of _period_in_span — the same answer in this label model *)
    | _ => Ret (existsb (fun y => label_eqb y x) (span_labels sp))
    end.

  Definition span_first (sp : span) : outcome label :=
    match span_labels sp with [] => Raise IndexError | x :: _ => Ret x end.
  Definition span_last (sp : span) : outcome label :=
    match rev (span_labels sp) with [] => Raise IndexError | x :: _ => Ret x end.

  Definition loc_start (l : loc) : Z := match l with LSlice a _ => a | LPos i _ => i end.
  (* `stop_location += 1` unless the location is a slice *)
  Definition loc_stop (l : loc) : Z := match l with LSlice _ b => b | LPos i _ => i + 1 end.

  Section WithLocate.
    Variable lc : label -> outcome loc.          (* the lookup in force *)
    Variable sp : span.

    (* _resolve_period_slice *)
    Definition resolve_slice_with (a b : option label) (s : option Z) : outcome (Z * Z * Z) :=
      bind (match a with None => span_first sp | Some x => Ret x end) (fun a' =>
      bind (match b with None => span_last sp | Some x => Ret x end) (fun b' =>
      let s' := match s with None => 1 | Some z => z end in
      bind (lc a') (fun la =>
      bind (lc b') (fun lb => Ret (loc_start la, loc_stop lb, s'))))).
  End WithLocate.
End Locate.

(* ---- NumPy basic slicing of a length-n vector with concrete start / stop ---- *)
Definition clip_neg (n i : Z) : Z :=            (* PySlice_AdjustIndices, step < 0 *)
  if i <? 0 then (if i + n <? 0 then -1 else i + n) else (if n <=? i then n - 1 else i).
Fixpoint range_down (fuel : nat) (a step stop : Z) : list nat :=
  match fuel with
  | O => []
  | S f => if stop <? a then Z.to_nat a :: range_down f (a + step) step stop else []
  end.
Definition np_slice_positions (n : nat) (a b s : Z) : outcome (list nat) :=
  if s =? 0 then Raise ValueError
  else if 0 <? s then Ret (py_slice_positions n (Some a) (Some b) s)
  else Ret (range_down n (clip_neg (Z.of_nat n) a) s (clip_neg (Z.of_nat n) b)).

(* ---- the container ---- *)
Inductive dtype : Type := DFloat | DInt | DBool | DStr (width : nat) | DObj.

Section Container.
  Variable V : Type.

  (* one series: dtype tag, identity of the array object, data *)
  Record series := mkSeries { s_dtype : dtype; s_id : Z; s_data : list V }.
  (* attribute values: immutable scalar (tag) or a mutable list object with identity *)
  Inductive attr : Type := AVal (v : Z) | AList (id : Z) (items : list Z).
  Record cstate := mkC {
    c_span : span; c_span_id : Z;
    c_vars : list (string * series);         (* `index` order *)
    c_attrs : list (string * attr);
    c_strict : bool }.

  Fixpoint lookup {A} (k : string) (l : list (string * A)) : option A :=
    match l with [] => None | (k', a) :: r => if String.eqb k k' then Some a else lookup k r end.
  Fixpoint replace {A} (k : string) (a : A) (l : list (string * A)) : list (string * A) :=
    match l with
    | [] => []
    | (k', a') :: r => if String.eqb k k' then (k', a) :: r else (k', a') :: replace k a r
    end.
  Definition set_data (st : cstate) (name : string) (sr : series) (d : list V) : cstate :=
    mkC (c_span st) (c_span_id st) (replace name (mkSeries (s_dtype sr) (s_id sr) d) (c_vars st)) (c_attrs st) (c_strict st).

  Inductive key : Type := KLabel (x : label) | KSlice (a b : option label) (s : option Z).
  Inductive rd : Type := RScalar (v : V) | RArr (l : list V).
  Inductive operand : Type := OScalar (v : V) | OSeq (l : list V).

  Definition gather (data : list V) (ps : list nat) : list V :=
    flat_map (fun p => match nth_error data p with Some v => [v] | None => [] end) ps.
  Fixpoint scatter1 (data : list V) (ps : list nat) (v : V) : list V :=
    match ps with [] => data | p :: r => scatter1 (upd p v data) r v end.
  Fixpoint scatter (data : list V) (ps : list nat) (vs : list V) : list V :=
    match ps, vs with p :: r, v :: vs' => scatter (upd p v data) r vs' | _, _ => data end.
  (* arr[positions] = operand : scalar broadcast, one-element sequence broadcast, equal length, else ValueError *)
  Definition assign (data : list V) (ps : list nat) (w : operand) : outcome (list V) :=
    match w with
    | OScalar v => Ret (scatter1 data ps v)
    | OSeq [v] => Ret (scatter1 data ps v)
    | OSeq vs => if Nat.eqb (length vs) (length ps) then Ret (scatter data ps vs) else Raise ValueError
    end.

  Section Access.
    Variable lc : label -> outcome loc.

    (* values[location] for the location object returned by the lookup *)
    Definition read_loc (data : list V) (l : loc) : outcome rd :=
      match l with
      | LPos i _ => match py_get data i with Some v => Ret (RScalar v) | None => Raise IndexError end
      | LSlice i j => Ret (RArr (gather data (py_slice_positions (length data) (Some i) (Some j) 1)))
      end.

    (* __getitem__ with a (name, index) key: name check, then the lookup *)
    Definition get_item_with (st : cstate) (name : string) (k : key) : outcome rd :=
      match lookup name (c_vars st) with
      | None => Raise KeyError
      | Some sr =>
          let data := s_data sr in
          match k with
          | KSlice a b s =>
              bind (resolve_slice_with lc (c_span st) a b s) (fun '(i, j, s') =>
              bind (np_slice_positions (length data) i j s') (fun ps => Ret (RArr (gather data ps))))
          | KLabel x => bind (lc x) (read_loc data)
          end
      end.

    (* __setitem__ with a (name, index) key: since fix 216fc36 the name is checked against `index` first (KeyError before
       anything is located or written), then the lookup, then the write into self.__dict__['_' + name] *)
    Definition set_item_with (st : cstate) (name : string) (k : key) (w : operand) : cstate * outcome unit :=
      let finish (sr : series) (o : outcome (list V)) :=
        match o with Ret d => (set_data st name sr d, Ret tt) | Raise e => (st, Raise e) end in
      match lookup name (c_vars st) with
      | None => (st, Raise KeyError)
      | Some sr =>
          match k with
          | KSlice a b s =>
              match resolve_slice_with lc (c_span st) a b s with
              | Raise e => (st, Raise e)
              | Ret (i, j, s') => finish sr (bind (np_slice_positions (length (s_data sr)) i j s') (fun ps => assign (s_data sr) ps w))
              end
          | KLabel x =>
              match lc x with
              | Raise e => (st, Raise e)
              | Ret l =>
                  match l with
                  | LPos i _ =>
                      match w with
                      | OSeq _ => (st, Raise ValueError)       (* setting an array element with a sequence *)
                      | OScalar v => finish sr (match py_set (s_data sr) i v with Some d => Ret d | None => Raise IndexError end)
                      end
                  | LSlice i j => finish sr (assign (s_data sr) (py_slice_positions (length (s_data sr)) (Some i) (Some j) 1) w)
                  end
              end
          end
      end.

  End Access.

  (* the label-slice branch of _resolve_expression_indexes: X[`a`:`b`:s] inside eval().  K = what stands
     between the backticks, lk = resolve_index_in_span.  Open ends stay open (Python slice None); the
     stop is made inclusive only when it is a built-in int (`isinstance(stop, int)`). *)
  Section EvalPath.
    Variable K : Type.
    Variable lk : K -> outcome loc.
    Definition eval_slice_bounds (a b : option K) : outcome (option Z * option Z) :=
      bind (match a with None => Ret None | Some x => bind (lk x) (fun l => Ret (Some (loc_start l))) end) (fun a' =>
      bind (match b with
            | None => Ret None
            | Some x => bind (lk x) (fun l => Ret (Some (match l with
                                                         | LSlice _ j => j
                                                         | LPos i true => i + 1
                                                         | LPos i false => i end)))
            end) (fun b' => Ret (a', b'))).
    Definition eval_slice_with (st : cstate) (name : string) (a b : option K) (s : Z) : outcome (list V) :=
      match lookup name (c_vars st) with
      | None => Raise AttributeError
      | Some sr =>
          bind (eval_slice_bounds a b) (fun '(a', b') =>
          if s <=? 0 then Raise OtherError       (* not modelled: only positive steps are sent through eval *)
          else Ret (gather (s_data sr) (py_slice_positions (length (s_data sr)) a' b' s)))
      end.
  End EvalPath.

  (* the other access paths *)
  (* obj.X / obj['X'] : the array itself *)
  Definition get_attr (st : cstate) (name : string) : outcome (list V) :=
    match lookup name (c_vars st) with Some sr => Ret (s_data sr) | None => Raise AttributeError end.
  Definition get_key (st : cstate) (name : string) : outcome (list V) :=
    match lookup name (c_vars st) with Some sr => Ret (s_data sr) | None => Raise KeyError end.
  (* obj.X[i] / obj['X'][i] : NumPy integer indexing *)
  Definition get_pos (st : cstate) (name : string) (i : Z) : outcome V :=
    bind (get_key st name) (fun d => match py_get d i with Some v => Ret v | None => Raise IndexError end).
  (* obj.X[i] = v / obj['X'][i] = v : writes into the array object held by the container *)
  Definition set_pos (st : cstate) (name : string) (i : Z) (v : V) : cstate * outcome unit :=
    match lookup name (c_vars st) with
    | None => (st, Raise KeyError)
    | Some sr => match py_set (s_data sr) i v with
                 | Some d => (set_data st name sr d, Ret tt)
                 | None => (st, Raise IndexError)
                 end
    end.
  (* obj.X = operand / obj['X'] = operand for an existing variable (containers.py 288-305):
     a sequence must have the span's length (new array object, identity new_id), a scalar is broadcast in place *)
  Definition set_whole (st : cstate) (name : string) (w : operand) (new_id : Z) : cstate * outcome unit :=
    match lookup name (c_vars st) with
    | None => (st, Raise KeyError)
    | Some sr =>
        match w with
        | OScalar v => (set_data st name sr (map (fun _ => v) (s_data sr)), Ret tt)
        | OSeq vs =>
            if Nat.eqb (length vs) (length (span_labels (c_span st)))
            then (mkC (c_span st) (c_span_id st) (replace name (mkSeries (s_dtype sr) new_id vs) (c_vars st)) (c_attrs st) (c_strict st), Ret tt)
            else (st, Raise DimensionError)
        end
    end.
End Container.

Arguments mkSeries {V}. Arguments s_dtype {V}. Arguments s_id {V}. Arguments s_data {V}.
Arguments mkC {V}. Arguments c_span {V}. Arguments c_span_id {V}. Arguments c_vars {V}. Arguments c_attrs {V}. Arguments c_strict {V}.
Arguments RScalar {V}. Arguments RArr {V}. Arguments OScalar {V}. Arguments OSeq {V}.
Arguments lookup {A}. Arguments replace {A}.
Arguments gather {V}. Arguments scatter1 {V}. Arguments scatter {V}. Arguments assign {V}.
Arguments set_data {V}. Arguments read_loc {V}. Arguments get_item_with {V}. Arguments set_item_with {V}.
Arguments eval_slice_bounds {K}. Arguments eval_slice_with {V K}.
Arguments get_attr {V}. Arguments get_key {V}. Arguments get_pos {V}. Arguments set_pos {V}. Arguments set_whole {V}.

(* the accessors with the container's own lookup *)
Section Bound.
  Variable pd_get_loc : list label -> label -> outcome loc.
  Variable pd_contains : list label -> label -> bool.
  Context {V : Type}.
  Definition get_item (st : cstate V) := get_item_with (locate pd_get_loc (c_span st)) st.
  Definition set_item (st : cstate V) := set_item_with (locate pd_get_loc (c_span st)) st.
  Definition eval_slice (st : cstate V) := eval_slice_with (locate pd_get_loc (c_span st)) st.

  (* resolve_index_in_span: the text between backticks is looked up as a str label if `text in span`,
     else as int(text) (py_int = CPython's int() on that text, None = ValueError) if that is in the span *)
  Definition resolve_bt (sp : span) (bt : string * option Z) : outcome loc :=
    bind (span_contains pd_contains sp (LStr (fst bt))) (fun c =>
    if c then locate pd_get_loc sp (LStr (fst bt))
    else match snd bt with
         | None => Raise KeyError
         | Some z => bind (span_contains pd_contains sp (LInt z)) (fun c2 =>
                     if c2 then locate pd_get_loc sp (LInt z) else Raise KeyError)
         end).
  Definition eval_bt_slice (st : cstate V) := eval_slice_with (resolve_bt (c_span st)) st.
End Bound.

(* ---- recorded pandas answers as an oracle instance (used by the correspondence check) ---- *)
Fixpoint tbl_lookup {A} (x : label) (t : list (label * A)) : option A :=
  match t with [] => None | (y, a) :: r => if label_eqb y x then Some a else tbl_lookup x r end.
Definition tbl_get_loc (t : list (label * loc)) : list label -> label -> outcome loc :=
  fun _ x => match tbl_lookup x t with Some l => Ret l | None => Raise KeyError end.
Definition tbl_contains (t : list (label * bool)) : list label -> label -> bool :=
  fun _ x => match tbl_lookup x t with Some b => b | None => false end.
