(* ReindexPd.v — a (partial) executable MODEL of the two pandas / NumPy steps of PandasIndexFeaturesMixin.reindex for the case the
   property's statement is about — a float64 series, no fill method, no fill value:
     Series(data, index=old).reindex(index=new).values   = old value by label where the label is in the old index, NaN elsewhere
     arr[:] = values  (float64 array, float64 values)     = the values
   Outside that case the model does not speak (OtherError).  The correspondence check compares it with every recorded answer of
   that kind.  Definitions only. *)
From Coq Require Import ZArith List Bool String.
Import ListNotations.
Require Import PyBase Locate LocateFacts Reindex.
Open Scope Z_scope.

Definition is_cf (c : cell) : bool := match c with CF _ => true | _ => false end.

Definition float_series_reindex (old : span) (dt : dtype) (data : list cell) (new : span) (method : option string) (fv : pyval)
  : outcome (list cell) :=
  match dt, method, fv with
  | DFloat, None, PNone =>
      Ret (map (fun p => match pos p (span_labels old) with Some q => nth q data (CF FNan) | None => CF FNan end) (span_labels new))
  | _, _, _ => Raise OtherError
  end.
Definition float_assign_cast (dt : dtype) (d : list cell) : outcome (list cell) :=
  match dt with
  | DFloat => if forallb is_cf d then Ret d else Raise OtherError
  | _ => Raise OtherError
  end.
