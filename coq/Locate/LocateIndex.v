(* LocateIndex.v — an executable MODEL of pandas' Index.get_loc / __contains__ for the regular indexes the checks use:
   period_range (PeriodIndex: integer ordinals, consecutive) and date_range with a fixed-length frequency (DatetimeIndex:
   nanoseconds since the epoch, constant step).  pandas' engine for a monotonic unique index finds a label by its integer
   code; here the code is found arithmetically.  With this model the pandas hypothesis of the C10 theorems (`locate_spec` of
   the get_loc oracle) is DISCHARGED for these indexes; the model itself is tied to pandas by the correspondence check (every
   recorded get_loc / `in` answer for a label that pandas does not parse from text is compared with it).  Definitions only. *)
From Coq Require Import ZArith List Bool String.
Import ListNotations.
Require Import PyBase Locate.
Open Scope Z_scope.
Local Notation length := List.length.

Inductive ikind : Type := IPer (freq : Z) | ITs.

Definition mk_label (k : ikind) (z : Z) : label := match k with IPer f => LPer f z | ITs => LTs z end.
(* the integer code of a label of the index's own kind (a Period of another frequency, an int, a str, ... has none) *)
Definition code_of (k : ikind) (x : label) : option Z :=
  match k, x with
  | IPer f, LPer g o => if g =? f then Some o else None
  | ITs, LTs ns => Some ns
  | _, _ => None
  end.

Definition reg_codes (start step : Z) (n : nat) : list Z := map (fun i => start + step * Z.of_nat i) (seq 0 n).
Definition reg_labels (k : ikind) (start step : Z) (n : nat) : list label := map (mk_label k) (reg_codes start step n).

(* Index.get_loc: position of the label's code (a built-in int), KeyError for a code that is not there and for labels of
   another kind *)
Definition reg_get_loc (k : ikind) (start step : Z) (n : nat) (x : label) : outcome loc :=
  match code_of k x with
  | Some z => match range_index start step n (LInt z) with Some i => Ret (LPos i true) | None => Raise KeyError end
  | None => Raise KeyError
  end.
Definition reg_contains (k : ikind) (start step : Z) (n : nat) (x : label) : bool :=
  match reg_get_loc k start step n x with Ret _ => true | Raise _ => false end.

(* recognising a regular index from its labels: kind and start from the first label, step from the second (1 for a single
   label), then all labels must be the regular ones *)
Fixpoint labels_eqb (a b : list label) : bool :=
  match a, b with [], [] => true | x :: a', y :: b' => label_eqb x y && labels_eqb a' b' | _, _ => false end.
Definition kind_code (x : label) : option (ikind * Z) :=
  match x with LPer f o => Some (IPer f, o) | LTs ns => Some (ITs, ns) | _ => None end.
Definition recognise (ls : list label) : option (ikind * Z * Z) :=
  match ls with
  | [] => None
  | x :: r =>
      match kind_code x with
      | None => None
      | Some (k, a) =>
          let s := match r with y :: _ => match code_of k y with Some b => b - a | None => 0 end | [] => 1 end in
          if (0 <? s) && labels_eqb ls (reg_labels k a s (length ls)) then Some (k, a, s) else None
      end
  end.

(* the get_loc / __contains__ pair to plug into `locate` for a pandas span: the model where the index is recognised as
   regular, the given fallback (recorded answers) elsewhere *)
Definition model_get_loc (fallback : list label -> label -> outcome loc) (ls : list label) (x : label) : outcome loc :=
  match recognise ls with Some (k, a, s) => reg_get_loc k a s (length ls) x | None => fallback ls x end.

(* which recorded labels the model speaks about: everything except text (pandas parses strings on Period / Datetime indexes:
   partial-string lookups) and Timestamps looked up in a PeriodIndex (converted to a period by pandas) *)
Definition model_speaks (k : ikind) (x : label) : bool :=
  match x, k with
  | LStr _, _ => false
  | LTs _, IPer _ => false
  | LPer _ _, ITs => false
  | _, _ => true
  end.

(* ---- any other duplicate-free pandas index (pd.Index of ints / strs, an irregular DatetimeIndex such as month starts):
   pandas' hash-table engine answers the position of the label; labels that are not in the index raise KeyError.  (With
   duplicates pandas answers slices / masks: not modelled, never generated.) ---- *)
Definition plain_get_loc (ls : list label) (x : label) : outcome loc :=
  match index_from 0 x ls with Some i => Ret (LPos i true) | None => Raise KeyError end.
Definition plain_contains (ls : list label) (x : label) : bool :=
  match index_from 0 x ls with Some _ => true | None => false end.
(* what kind of index a list of labels is, for deciding which recorded labels the model speaks about *)
Definition has_per (ls : list label) : bool := existsb (fun l => match l with LPer _ _ => true | _ => false end) ls.
Definition has_ts (ls : list label) : bool := existsb (fun l => match l with LTs _ => true | _ => false end) ls.
Definition plain_speaks (ls : list label) (x : label) : bool :=
  match ls, x with
  | [], (LStr _ | LTs _ | LPer _ _) => false            (* an empty index: its kind cannot be read off its labels *)
  | _, LStr _ => negb (has_per ls || has_ts ls)          (* text is parsed by Period / Datetime indexes *)
  | _, LTs _ => negb (has_per ls)                         (* a Timestamp is converted to a period by a PeriodIndex *)
  | _, LPer _ _ => negb (has_ts ls)
  | _, _ => true
  end.
