(* ReindexExamples.v — concrete instances and refutation witnesses for property C12. *)
From Coq Require Import ZArith List Bool String Lia.
Import ListNotations.
Require Import PyBase Generated Locate LocateFacts LocateExamples Reindex ReindexFacts.
Open Scope string_scope.
Open Scope Z_scope.
Open Scope list_scope.

Definition rx_old := SRange 2000 1 3.
Definition rx_state : cst :=
  mkC rx_old 0
      [("F", mkSeries DFloat 1 [CF (FNum 3); CF (FNum (-4)); CF FNan]);
       ("I", mkSeries DInt 2 [CI 3; CI (-4); CI 0]);
       ("B", mkSeries DBool 3 [CB true; CB false; CB true]);
       ("S", mkSeries (DStr 2) 4 [CS "p"; CS "qq"; CS ""])]
      [("names", AList 5 [1; 2]); ("engine", AVal 7)] false.
(* new span 2002, 2001, 2005, 2001: permuted, with a new period and a repeated label *)
Definition rx_new := SList [LInt 2002; LInt 2001; LInt 2005; LInt 2001].

Example rx_reindex_defaults :
  option_map (@c_vars cell) (match reindex_M no_pandas no_contains cast_tbl rx_state rx_new 9 PNone None [] 100 with Ret s => Some s | Raise _ => None end)
  = Some [("F", mkSeries DFloat 102 [CF FNan; CF (FNum (-4)); CF FNan; CF (FNum (-4))]);
          ("I", mkSeries DInt 103 [CI 0; CI (-4); CI 0; CI (-4)]);
          ("B", mkSeries DBool 104 [CB true; CB false; CB false; CB false]);
          ("S", mkSeries (DStr 2) 105 [CS ""; CS "qq"; CS ""; CS "qq"])].
Proof. vm_compute. reflexivity. Qed.

(* per-variable keyword beats fill_value beats the dtype default; str fills are cut to the series' width *)
Example rx_reindex_precedence :
  option_map (fun s => map (fun kv => nth 2 (s_data (snd kv)) (CV PNone)) (c_vars s))
             (match reindex_M no_pandas no_contains cast_tbl rx_state rx_new 9 (PInt 7) None [("F", PFlt (FNum 5)); ("S", PStr "abcd")] 100
              with Ret s => Some s | Raise _ => None end)
  = Some [CF (FNum 5); CI 7; CB true; CS "ab"].
Proof. vm_compute. reflexivity. Qed.

(* the hypotheses of the theorems are satisfiable *)
Example rx_wf : wf rx_state.
Proof. repeat constructor. Qed.
Example rx_old_span_ok : old_span_ok no_pandas no_contains (c_span rx_state) (span_labels rx_new).
Proof.
  apply old_span_ok_intro.
  - simpl. lia.
  - intros ls E. discriminate.
Qed.

(* strict: an unknown fill keyword is rejected; not strict: it is ignored *)
Example rx_unknown_strict : reindex_M no_pandas no_contains cast_tbl rx_state rx_new 9 PNone (Some true) [("Z", PInt 1)] 100 = Raise KeyError.
Proof. vm_compute. reflexivity. Qed.
Example rx_unknown_not_strict :
  reindex_M no_pandas no_contains cast_tbl rx_state rx_new 9 PNone None [("Z", PInt 1)] 100
  = reindex_M no_pandas no_contains cast_tbl rx_state rx_new 9 PNone None [] 100.
Proof. vm_compute. reflexivity. Qed.
(* a fill value that cannot be converted: the call raises (and returns no object) *)
Example rx_bad_fill : reindex_M no_pandas no_contains cast_tbl rx_state rx_new 9 (PStr "x y") None [] 100 = Raise ValueError.
Proof. vm_compute. reflexivity. Qed.

(* models: status '-' and iterations -1 unless given, fill_value does not reach them *)
Definition rx_model : cst :=
  mkC rx_old 0
      [("status", mkSeries (DStr 1) 1 [CS "-"; CS "."; CS "F"]);
       ("iterations", mkSeries DInt 2 [CI (-1); CI 4; CI 100]);
       ("Y", mkSeries DFloat 3 [CF (FNum 0); CF (FNum 3); CF (FNum 5)])]
      [("lags", AVal 1); ("leads", AVal 0); ("check", AList 6 [1])] false.
Example rx_model_defaults :
  option_map (fun s => map (fun kv => s_data (snd kv)) (c_vars s))
             (match model_reindex_M no_pandas no_contains cast_tbl rx_model (SRange 2001 1 3) 9 (PInt 7) None [] 100 with Ret s => Some s | Raise _ => None end)
  = Some [[CS "."; CS "F"; CS "-"]; [CI 4; CI 100; CI (-1)]; [CF (FNum 3); CF (FNum 5); CF (FNum 14)]].
Proof. vm_compute. reflexivity. Qed.
Example rx_unsolved_value : unsolved_value = "-".
Proof. reflexivity. Qed.

(* ---------- since fixes 28b2a9a / af303e7: object cells are deep-copied and the span object is copied ---------- *)
(* a tracer-extended model: the Trace objects held by the result are new objects (identities from the allocator), one per carried cell *)
Definition rx_traced : cst :=
  mkC rx_old 0 [("trace", mkSeries DObj 1 [CO 71; CO 72; CO 73]); ("Y", mkSeries DFloat 2 [CF (FNum 0); CF (FNum 3); CF (FNum 5)])] [] false.
Example rx_traced_deep_copied :
  option_map (fun s => (c_span_id s, map (fun kv => (s_id (snd kv), s_data (snd kv))) (c_vars s)))
             (match reindex_M no_pandas no_contains cast_tbl rx_traced (SRange 2001 1 3) 9 PNone None [] 100 with Ret s => Some s | Raise _ => None end)
  = Some (100, [(101, [CO 103; CO 104; CV PNone]); (102, [CF (FNum 3); CF (FNum 5); CF FNan])]).
Proof. vm_compute. reflexivity. Qed.
(* the hypotheses of reindex_shares_nothing are satisfiable (and its conclusion holds on this instance: nothing is shared) *)
Example rx_traced_wf : wf rx_traced.
Proof. repeat constructor. Qed.
Example rx_traced_obj_typed : obj_typed rx_traced.
Proof. repeat constructor; simpl; intros H; try reflexivity; congruence. Qed.
Example rx_traced_ids_below : forall id, In id (ids rx_traced) -> id < 100.
Proof. intros id H. vm_compute in H. intuition lia. Qed.
Example rx_cast_tbl_no_objects : forall n dt v id, cast_tbl n dt v <> Ret (CO id).
Proof.
  intros n dt v id. unfold cast_tbl. destruct dt, v; simpl; try discriminate;
    repeat (match goal with
            | |- context [match ?x with _ => _ end] => destruct x
            end; try discriminate).
Qed.
(* passing the original's own span object: the result holds a copy (a new identity), not that object *)
Example rx_same_span_object_copied :
  option_map (@c_span_id cell)
             (match reindex_M no_pandas no_contains cast_tbl rx_state (c_span rx_state) (c_span_id rx_state) PNone None [] 100 with Ret s => Some s | Raise _ => None end)
  = Some 100 /\ ~ In 100 (ids rx_state).
Proof. split; [vm_compute; reflexivity | vm_compute; intuition lia]. Qed.

(* ---------- the pandas mixin (since fix 2658d81) ----------
   With default arguments pandas is not consulted at all: the result is the core's (dtype defaults 0 / False / '' in new periods).
   With a fill method pandas' Series.reindex answers (NaN where nothing can be propagated) and the casting assignment turns that NaN
   into INT64_MIN / True / 'na' for int / bool / str series — pandas' semantics of a fill METHOD, outside the property's statement. *)
Definition pd_like_series_reindex : span -> dtype -> list cell -> span -> option string -> pyval -> outcome (list cell) :=
  fun old _ data new _ fv =>
    Ret (map (fun p => match pos p (span_labels old) with
                       | Some q => nth q data (CF FNan)
                       | None => match fv with PNone => CF FNan | PInt z => CI z | PFlt f => CF f | PBool b => CB b | PStr s => CS s end
                       end) (span_labels new)).
Definition np_like_cast_cell (dt : dtype) (c : cell) : cell :=
  match dt, c with
  | DInt, CF FNan => CI (-9223372036854775808)
  | DInt, CF (FNum t) => CI (Z.quot t 2)
  | DBool, CF FNan => CB true
  | DStr w, CF FNan => CS (truncate w "nan")
  | DFloat, CI z => CF (FNum (2 * z))
  | _, c => c
  end.
Definition np_like_assign_cast : dtype -> list cell -> outcome (list cell) := fun dt d => Ret (map (np_like_cast_cell dt) d).

Definition rx_pmodel : cst :=
  mkC rx_old 0
      [("status", mkSeries (DStr 1) 1 [CS "-"; CS "."; CS "F"]);
       ("iterations", mkSeries DInt 2 [CI (-1); CI 4; CI 100]);
       ("Y", mkSeries DFloat 3 [CF (FNum 0); CF (FNum 3); CF (FNum 5)]);
       ("I", mkSeries DInt 4 [CI 3; CI (-4); CI 0]);
       ("B", mkSeries DBool 5 [CB true; CB false; CB true]);
       ("S", mkSeries (DStr 2) 6 [CS "p"; CS "qq"; CS ""])] [] false.
Definition rx_pandas_result :=
  pandas_reindex_M no_pandas no_contains cast_tbl pd_like_series_reindex np_like_assign_cast
                   rx_pmodel ["Y"; "I"; "B"; "S"] (SRange 2001 1 3) 9 None PNone None [] [] [] [] [] [] 100.
(* formerly refuted (finding #11): with default arguments the new period now holds the dtype defaults, exactly as the core reindex *)
Theorem pandas_default_fill_is_core :
  exists st', rx_pandas_result = Ret st'
    /\ map (fun kv => nth 2 (s_data (snd kv)) (CV PNone)) (c_vars st') = [CS "-"; CI (-1); CF FNan; CI 0; CB false; CS ""]
    /\ rx_pandas_result = model_reindex_M no_pandas no_contains cast_tbl rx_pmodel (SRange 2001 1 3) 9 PNone None [] 100.
Proof. eexists. split; [vm_compute; reflexivity|]. split; vm_compute; reflexivity. Qed.
(* a fill method asked for one variable only: that variable goes through pandas, the others stay the core's *)
Example rx_pandas_method_for_one :
  option_map (fun s => map (fun kv => nth 2 (s_data (snd kv)) (CV PNone)) (c_vars s))
             (match pandas_reindex_M no_pandas no_contains cast_tbl pd_like_series_reindex np_like_assign_cast
                                     rx_pmodel ["Y"; "I"; "B"; "S"] (SRange 2001 1 3) 9 None PNone None [] [] [] [] ["I"] [] 100 with Ret s => Some s | Raise _ => None end)
  = Some [CS "-"; CI (-1); CF FNan; CI (-9223372036854775808); CB false; CS ""].
Proof. vm_compute. reflexivity. Qed.

(* the `methods` dictionary of the mixin: later keyword lists win *)
Example rx_method_for :
  map (method_for ["A"; "B"] ["B"] ["C"] ["D"; "A"] ["E"; "D"] (Some "pad")) ["A"; "B"; "C"; "D"; "E"; "G"]
  = [Some "ffill"; Some "bfill"; Some "ffill"; Some "nearest"; Some "nearest"; Some "pad"].
Proof. vm_compute. reflexivity. Qed.

(* the conversion table on a few entries (exercised entry by entry by the correspondence check) *)
Example rx_cast_examples :
  cast_tbl 1 DInt (PFlt (FNum (-5))) = Ret (CI (-2)) /\ cast_tbl 1 DInt (PFlt FNan) = Raise ValueError
  /\ cast_tbl 1 (DStr 2) (PFlt (FNum 5)) = Ret (CS "2.") /\ cast_tbl 1 (DStr 9) (PFlt (FNum (-1))) = Ret (CS "-0.5")
  /\ cast_tbl 1 DFloat (PStr "-3") = Ret (CF (FNum (-6))) /\ cast_tbl 1 DBool (PStr "") = Ret (CB false)
  /\ cast_tbl 1 (DStr 9) (PInt (-30)) = Ret (CS "-30") /\ cast_tbl 1 DInt (PStr "12") = Ret (CI 12)
  (* NumPy converts the fill value only when there is an element to fill; int() of the same text fails before NumPy is reached *)
  /\ cast_tbl 1 DFloat (PStr "ab") = Raise ValueError /\ cast_tbl 0 DFloat (PStr "ab") = Ret (CF FNan)
  /\ cast_tbl 0 DInt (PStr "ab") = Raise ValueError.
Proof. vm_compute. repeat split. Qed.
(* ... so reindexing to an EMPTY span succeeds with a fill value that a non-empty span rejects *)
Example rx_bad_fill_empty_span :
  option_map (fun s => map (fun kv => s_data (snd kv)) (c_vars s))
             (match reindex_M no_pandas no_contains cast_tbl rx_state (SList []) 9 PNone None [("F", PStr "x y")] 100 with Ret s => Some s | Raise _ => None end)
  = Some [[]; []; []; []].
Proof. vm_compute. reflexivity. Qed.

(* ---------- a tuple label of the new span against a NumPy-array old span: since fix 35fe7e2 it is ONE label — a new period that
   gets the fill (formerly refuted: it received the old value of period 2, or made the call fail with KeyError) ---------- *)
Definition rx_arr_state : cst := mkC (SArr [LInt 2; LInt 5]) 0 [("F", mkSeries DFloat 1 [CF (FNum 3); CF (FNum (-4))])] [] false.
Theorem reindex_arr_tuple_label_is_new_period :
  wf rx_arr_state /\ old_span_ok no_pandas no_contains (c_span rx_arr_state) [LPair 2 3; LPair 2 5; LInt 5]
  /\ option_map (fun s => map (fun kv => s_data (snd kv)) (c_vars s))
                (match reindex_M no_pandas no_contains cast_tbl rx_arr_state (SList [LPair 2 3; LPair 2 5; LInt 5]) 9 PNone None [] 100 with Ret s => Some s | Raise _ => None end)
     = Some [[CF FNan; CF FNan; CF (FNum (-4))]].
Proof.
  split; [repeat constructor|]. split; [|vm_compute; reflexivity].
  apply old_span_ok_intro; [simpl; repeat constructor; simpl; intuition discriminate | intros ls E; discriminate].
Qed.

(* hypotheses of model_reindex_values / pandas_loop_noop are satisfiable *)
Example rx_model_wf : wf rx_model.
Proof. repeat constructor. Qed.
Example rx_model_fill : map (model_fill [("iterations", PInt 0)] (PInt 7)) ["status"; "iterations"; "Y"] = [PStr "-"; PInt 0; PInt 7].
Proof. vm_compute. reflexivity. Qed.
(* ---------- the status / iterations keywords through the mixin (formerly refuted: ignored, and rejected under strict; fix 2658d81):
   honoured, with and without strict, exactly as by the core model reindex ---------- *)
Theorem pandas_status_keyword_honoured :
  forall strict,
  exists st', pandas_reindex_M no_pandas no_contains cast_tbl pd_like_series_reindex np_like_assign_cast
                   rx_pmodel ["Y"; "I"; "B"; "S"] (SRange 2001 1 3) 9 None PNone (Some strict) [("status", PStr "F"); ("iterations", PInt 0)] [] [] [] [] [] 100 = Ret st'
    /\ option_map (fun sr => nth 2 (s_data sr) (CV PNone)) (lookup "status" (c_vars st')) = Some (CS "F")
    /\ option_map (fun sr => nth 2 (s_data sr) (CV PNone)) (lookup "iterations" (c_vars st')) = Some (CI 0).
Proof. intros [|]; eexists; (split; [vm_compute; reflexivity | split; vm_compute; reflexivity]). Qed.

(* hypotheses of reindex_then_label_get are satisfiable; reading the reindexed object by label *)
Example rx_new_locate_spec : locate_spec (span_labels rx_new) (locate no_pandas rx_new).
Proof. exact (locate_list_spec no_pandas [LInt 2002; LInt 2001; LInt 2005; LInt 2001]). Qed.
Example rx_reindex_then_get :
  match reindex_M no_pandas no_contains cast_tbl rx_state rx_new 9 (PInt 7) None [] 100 with
  | Ret s => map (fun p => get_item no_pandas s "I" (KLabel (LInt p))) [2002; 2001; 2005; 2000]
             = [Ret (RScalar (CI 0)); Ret (RScalar (CI (-4))); Ret (RScalar (CI 7)); Raise KeyError]
  | Raise _ => False
  end.
Proof. vm_compute. reflexivity. Qed.
Example rx_pmodel_wf : wf rx_pmodel.
Proof. repeat constructor. Qed.
Example rx_pmodel_old_span_ok : old_span_ok no_pandas no_contains (c_span rx_pmodel) (span_labels (SRange 2001 1 3)).
Proof.
  apply old_span_ok_intro.
  - simpl. lia.
  - intros ls E. discriminate.
Qed.
Example rx_names_nodup : NoDup ["Y"; "I"; "B"; "S"].
Proof. repeat constructor; simpl; intuition discriminate. Qed.

(* extend at both ends and come back (hypotheses of reindex_roundtrip are satisfiable) *)
Example rx_roundtrip :
  match reindex_M no_pandas no_contains cast_tbl rx_state (SRange 1999 1 5) 9 (PInt 7) None [] 100 with
  | Ret s1 => match reindex_M no_pandas no_contains cast_tbl s1 (SRange 2000 1 3) 10 PNone None [] 200 with
              | Ret s2 => map (fun kv => s_data (snd kv)) (c_vars s2) = map (fun kv => s_data (snd kv)) (c_vars rx_state)
              | Raise _ => False
              end
  | Raise _ => False
  end.
Proof. vm_compute. reflexivity. Qed.
Example rx_roundtrip_mid_ok : old_span_ok no_pandas no_contains (SRange 1999 1 5) (span_labels (SRange 2000 1 3)).
Proof.
  apply old_span_ok_intro.
  - simpl. lia.
  - intros ls E. discriminate.
Qed.

(* ---------- repeated labels in the OLD span ----------
   list / tuple / range old spans: old_span_ok holds with repeated labels too (span_ok is True, the position is the first occurrence),
   so the theorems determine the result; a NumPy-array old span with a repeated label makes the fallback lookup refuse (several
   matches) and the whole call fails with KeyError as soon as that label is asked for — a documented exclusion (NoDup in span_ok). *)
Definition rx_dup_list : cst := mkC (SList [LInt 1; LInt 2; LInt 1]) 0 [("F", mkSeries DFloat 1 [CF (FNum 2); CF (FNum 4); CF (FNum 6)])] [] false.
Example rx_dup_list_old_span_ok : old_span_ok no_pandas no_contains (c_span rx_dup_list) [LInt 1; LInt 2; LInt 3].
Proof. apply old_span_ok_intro; [exact I | intros ls E; discriminate]. Qed.
Example rx_dup_list_first_occurrence :
  option_map (fun s => map (fun kv => s_data (snd kv)) (c_vars s))
             (match reindex_M no_pandas no_contains cast_tbl rx_dup_list (SList [LInt 1; LInt 2; LInt 3]) 9 PNone None [] 100 with Ret s => Some s | Raise _ => None end)
  = Some [[CF (FNum 2); CF (FNum 4); CF FNan]].
Proof. vm_compute. reflexivity. Qed.
Example rx_dup_arr_old_span_KeyError :
  reindex_M no_pandas no_contains cast_tbl (mkC (SArr [LInt 1; LInt 2; LInt 1]) 0 [("F", mkSeries DFloat 1 [CF (FNum 2); CF (FNum 4); CF (FNum 6)])] [] false)
            (SList [LInt 1; LInt 2]) 9 PNone None [] 100 = Raise KeyError
  /\ (* ... but not when only unrepeated labels are asked for *)
  option_map (fun s => map (fun kv => s_data (snd kv)) (c_vars s))
             (match reindex_M no_pandas no_contains cast_tbl (mkC (SArr [LInt 1; LInt 2; LInt 1]) 0 [("F", mkSeries DFloat 1 [CF (FNum 2); CF (FNum 4); CF (FNum 6)])] [] false)
                              (SList [LInt 2; LInt 3]) 9 PNone None [] 100 with Ret s => Some s | Raise _ => None end)
  = Some [[CF (FNum 4); CF FNan]].
Proof. split; vm_compute; reflexivity. Qed.
(* the dtype defaults of the conversion table that the correspondence check validates (NaN for float64 is NumPy's conversion of None) *)
Example rx_cast_tbl_defaults :
  forall n, fill_cell cast_tbl (S n) DFloat PNone = Ret (CF FNan) /\ fill_cell cast_tbl n DInt PNone = Ret (CI 0)
            /\ fill_cell cast_tbl n DBool PNone = Ret (CB false) /\ fill_cell cast_tbl n (DStr 2) PNone = Ret (CS "")
            /\ fill_cell cast_tbl n DObj PNone = Ret (CV PNone).
Proof. intros n. repeat split. Qed.

(* ---------- KEPT FINDING (reindex face of C10's): a NumPy datetime64[ns] array OLD span — `period in span` (NumPy's own test) says
   the period is there, the fallback lookup then fails on the object cast, and the whole call raises KeyError: the old values cannot
   be carried over ---------- *)
Definition rx_ns_state : cst := mkC ex_ns_arr 0 [("F", mkSeries DFloat 1 [CF (FNum 2); CF (FNum 4); CF (FNum 6)])] [] false.
Theorem reindex_arr_datetime64ns_refuted :
  wf rx_ns_state /\ NoDup (span_labels (c_span rx_ns_state))
  /\ reindex_M no_pandas no_contains cast_tbl rx_ns_state ex_ns_arr 9 PNone None [] 100 = Raise KeyError
  /\ (* only periods that are NOT in the old span can be asked for *)
     option_map (fun s => map (fun kv => s_data (snd kv)) (c_vars s))
                (match reindex_M no_pandas no_contains cast_tbl rx_ns_state (SList [LTs 5]) 9 PNone None [] 100 with Ret s => Some s | Raise _ => None end)
     = Some [[CF FNan]].
Proof.
  split; [repeat constructor|]. split; [simpl; repeat constructor; simpl; intuition discriminate|]. split; vm_compute; reflexivity.
Qed.
