(* ReindexFacts.v — proofs about the reindex model (property C12). *)
From Coq Require Import ZArith List Bool String Ascii Lia.
Import ListNotations.
Require Import PyBase Generated Locate LocateFacts Reindex.
Open Scope Z_scope.
Open Scope list_scope.
Local Notation length := List.length.

(* ================= specification-level definitions ================= *)
(* the series a reindexed variable must hold: for each period of the new span, the old value at that
   period's position if the period is in the old span, else the fill cell c *)
Definition reindexed_data (ols : list label) (old_data : list cell) (c : cell) (labels : list label) : list cell :=
  map (fun p => match pos p ols with Some q => nth q old_data c | None => c end) labels.

Definition is_some {A} (o : option A) : bool := match o with Some _ => true | None => false end.

(* every series has the span's length *)
Definition wf (st : cst) : Prop := Forall (fun kv => length (s_data (snd kv)) = length (span_labels (c_span st))) (c_vars st).

(* contents of an attribute, ignoring identity *)
Definition attr_content (a : attr) : Z + list Z := match a with AVal v => inl v | AList _ items => inr items end.
Definition attrs_view (l : list (string * attr)) := map (fun kv => (fst kv, attr_content (snd kv))) l.

(* identities *)
Definition series_ids (vars : list (string * series cell)) : list Z := map (fun kv => s_id (snd kv)) vars.
Definition attr_ids (attrs : list (string * attr)) : list Z :=
  flat_map (fun kv => match snd kv with AList id _ => [id] | AVal _ => [] end) attrs.
Definition cell_ids (d : list cell) : list Z := flat_map (fun c => match c with CO id => [id] | _ => [] end) d.
Definition object_ids (vars : list (string * series cell)) : list Z := flat_map (fun kv => cell_ids (s_data (snd kv))) vars.
Definition ids (st : cst) : list Z := c_span_id st :: series_ids (c_vars st) ++ attr_ids (c_attrs st) ++ object_ids (c_vars st).

(* ================= small list facts ================= *)
Lemma upd_app {A} (done : list A) x y rest : upd (length done) x (done ++ y :: rest) = done ++ x :: rest.
Proof. induction done as [|d r IH]; simpl; [reflexivity | rewrite IH; reflexivity]. Qed.

Lemma lookup_app {A} k (l1 l2 : list (string * A)) :
  lookup k (l1 ++ l2) = match lookup k l1 with Some a => Some a | None => lookup k l2 end.
Proof.
  induction l1 as [|[k' a] r IH]; simpl; [reflexivity|]. destruct (String.eqb k k'); [reflexivity | exact IH].
Qed.
Lemma mem_name_lookup {A} k (l : list (string * A)) : mem_name k l = is_some (lookup k l).
Proof.
  induction l as [|[k' a] r IH]; simpl; [reflexivity|]. destruct (String.eqb k k'); simpl; [reflexivity | exact IH].
Qed.

Lemma existsb_map_id {A} (f : A -> bool) l : existsb (fun b => b) (map f l) = existsb f l.
Proof. induction l as [|a r IH]; simpl; [reflexivity | rewrite IH; reflexivity]. Qed.

(* ================= positions ================= *)
Section Facts.
  Variable pd_get_loc : list label -> label -> outcome loc.
  Variable pd_contains : list label -> label -> bool.
  Variable cast : nat -> dtype -> pyval -> outcome cell.
  Notation locate' := (locate pd_get_loc).
  Notation contains' := (span_contains pd_contains).
  Notation build_positions' := (build_positions pd_get_loc pd_contains).
  Notation reindex_vars' := (reindex_vars cast).
  Notation reindex_M' := (reindex_M pd_get_loc pd_contains cast).
  Notation fill_cell' := (fill_cell cast).

  (* what the theorems need of the old span, for the labels of the new span: `in` is membership and the lookup
     of a present label is its position *)
  Definition old_span_ok (old : span) (labels : list label) : Prop :=
    forall p, In p labels ->
      contains' old p = Ret (is_some (pos p (span_labels old)))
      /\ (forall q, pos p (span_labels old) = Some q -> exists fl, locate' old p = Ret (LPos (Z.of_nat q) fl)).

  Lemma existsb_pos x ls : existsb (fun y => label_eqb y x) ls = is_some (pos x ls).
  Proof.
    induction ls as [|y r IH]; simpl; [reflexivity|]. destruct (label_eqb y x); simpl; [reflexivity|].
    rewrite IH. destruct (pos x r); reflexivity.
  Qed.
  (* list / tuple / range / duplicate-free NumPy-array (any labels, also tuples, since fix 35fe7e2) / pandas (given its two oracles
     behave) spans are ok *)
  Lemma old_span_ok_intro (old : span) (labels : list label) :
    span_ok pd_get_loc old ->
    (forall ls, old = SPandas ls -> forall p, In p labels -> pd_contains ls p = is_some (pos p ls)) ->
    old_span_ok old labels.
  Proof.
    intros Hok Hpd p Hp. split.
    - destruct old as [ls|a s n|ls|ls]; simpl.
      + rewrite existsb_pos. reflexivity.
      + rewrite existsb_pos. reflexivity.
      + rewrite existsb_pos. reflexivity.
      + rewrite (Hpd ls eq_refl p Hp). reflexivity.
    - intros q Hq. pose proof (locate_meets_spec pd_get_loc old Hok p) as S. rewrite Hq in S. exact S.
  Qed.

  (* the (new position, old position) pairs the position map must contain, in order *)
  Fixpoint expected_positions (ols : list label) (k : nat) (labels : list label) : list (nat * nat) :=
    match labels with
    | [] => []
    | p :: r => match pos p ols with
                | Some q => (k, q) :: expected_positions ols (S k) r
                | None => expected_positions ols (S k) r
                end
    end.
  Definition pos_rel (a : nat * loc) (b : nat * nat) : Prop := fst a = fst b /\ exists fl, snd a = LPos (Z.of_nat (snd b)) fl.

  Lemma build_positions_spec old labels : forall k,
    old_span_ok old labels ->
    exists m, build_positions' old k labels = Ret m /\ Forall2 pos_rel m (expected_positions (span_labels old) k labels).
  Proof.
    induction labels as [|p r IH]; intros k Hok; simpl.
    - exists []. split; [reflexivity | constructor].
    - destruct (Hok p (or_introl eq_refl)) as [Hc Hl]. rewrite Hc. simpl.
      assert (Hok' : old_span_ok old r) by (intros p' Hp'; apply Hok; right; exact Hp').
      destruct (IH (S k) Hok') as [m [Hm HF]].
      destruct (pos p (span_labels old)) as [q|] eqn:Ep; simpl.
      + destruct (Hl q eq_refl) as [fl Hq]. rewrite Hq. simpl. rewrite Hm. simpl.
        exists ((k, LPos (Z.of_nat q) fl) :: m). split; [reflexivity|]. constructor; [|exact HF].
        split; [reflexivity | exists fl; reflexivity].
      + exists m. split; [exact Hm | exact HF].
  Qed.

  Lemma py_get_nat' (d : list cell) q : (q < length d)%nat -> py_get d (Z.of_nat q) = nth_error d q.
  Proof. intros H. unfold py_get. rewrite py_pos_nonneg by lia. rewrite Nat2Z.id. reflexivity. Qed.

  Lemma erase_deep_cell c on : erase (fst (deep_cell c on)) = erase c.
  Proof. destruct c; reflexivity. Qed.
  Lemma map_erase_app (a b : list cell) : map erase (a ++ b) = map erase a ++ map erase b.
  Proof. apply map_app. Qed.

  (* what the copy loop leaves: the specified series up to the identities of copied objects (exactly it when nothing is deep-copied);
     the allocator only moves forward; with deep copies every object reference of the result is an old reference of `done`, the
     fill cell's, or a newly allocated one *)
  Lemma copy_over_spec deep ols old_data c labels : forall done m on,
    length old_data = length ols ->
    Forall2 pos_rel m (expected_positions ols (length done) labels) ->
    exists res on',
      copy_over deep (done ++ repeat c (length labels)) m old_data on = Ret (res, on')
      /\ on <= on'
      /\ map erase res = map erase (done ++ reindexed_data ols old_data c labels)
      /\ (deep = false -> res = done ++ reindexed_data ols old_data c labels)
      /\ (deep = true -> forall id, In id (cell_ids res) -> In id (cell_ids done) \/ In id (cell_ids [c]) \/ on <= id < on').
  Proof.
    induction labels as [|p r IH]; intros done m on HL HF; simpl in *.
    - inversion HF; subst. rewrite !app_nil_r. exists done, on. split; [reflexivity|]. split; [lia|]. split; [reflexivity|]. split; [reflexivity|].
      intros _ id Hid. left. exact Hid.
    - destruct (pos p ols) as [q|] eqn:Ep.
      + inversion HF as [|[i l] [i' q'] m' E' [Hi [fl Hl]] HF']; subst. simpl in Hi, Hl. subst i l.
        simpl. apply pos_Some in Ep as [_ Hq]. rewrite py_get_nat' by lia.
        destruct (nth_error old_data q) as [v|] eqn:Ev; [|apply nth_error_None in Ev; lia].
        rewrite (nth_error_nth _ _ c Ev).
        destruct (if deep then deep_cell v on else (v, on)) as [v' n'] eqn:Ed.
        rewrite upd_app.
        replace (done ++ v' :: repeat c (length r)) with ((done ++ [v']) ++ repeat c (length r)) by (rewrite <- app_assoc; reflexivity).
        assert (HF'' : Forall2 pos_rel m' (expected_positions ols (length (done ++ [v'])) r)).
        { rewrite app_length; simpl. replace (length done + 1)%nat with (S (length done)) by lia. exact HF'. }
        destruct (IH (done ++ [v']) m' n' HL HF'') as [res [on' [H1 [H2 [H3 [H4 H5]]]]]].
        assert (Hv : erase v' = erase v /\ on <= n' /\ (deep = false -> v' = v)
                     /\ (deep = true -> forall id, In id (cell_ids [v']) -> on <= id < n')).
        { destruct deep; simpl in Ed.
          - destruct v; inversion Ed; subst; simpl; repeat split; try lia; try discriminate; try tauto;
              try (intros _ id0 [H|[]]; lia).
          - inversion Ed; subst. repeat split; try lia; try discriminate. }
        destruct Hv as [Hv1 [Hv2 [Hv3 Hv4]]].
        exists res, on'. split; [exact H1|]. split; [lia|]. split.
        * rewrite H3. rewrite <- app_assoc. simpl. rewrite !map_erase_app. simpl. rewrite Hv1. reflexivity.
        * split.
          -- intros Hd. rewrite (H4 Hd), (Hv3 Hd). rewrite <- app_assoc. reflexivity.
          -- intros Hd id Hid. destruct (H5 Hd id Hid) as [H|[H|H]].
             ++ unfold cell_ids in H. rewrite flat_map_app in H. apply in_app_or in H as [H|H]; [left; exact H|].
                right. right. pose proof (Hv4 Hd id H). lia.
             ++ right. left. exact H.
             ++ right. right. lia.
      + replace (done ++ c :: repeat c (length r)) with ((done ++ [c]) ++ repeat c (length r)) by (rewrite <- app_assoc; reflexivity).
        assert (HF'' : Forall2 pos_rel m (expected_positions ols (length (done ++ [c])) r)).
        { rewrite app_length; simpl. replace (length done + 1)%nat with (S (length done)) by lia. exact HF. }
        destruct (IH (done ++ [c]) m on HL HF'') as [res [on' [H1 [H2 [H3 [H4 H5]]]]]].
        exists res, on'. split; [exact H1|]. split; [exact H2|]. split; [rewrite H3, <- app_assoc; reflexivity|]. split.
        * intros Hd. rewrite (H4 Hd), <- app_assoc. reflexivity.
        * intros Hd id Hid. destruct (H5 Hd id Hid) as [H|[H|H]].
          -- unfold cell_ids in H. rewrite flat_map_app in H. apply in_app_or in H as [H|H]; [left; exact H | right; left; exact H].
          -- right. left. exact H.
          -- right. right. exact H.
  Qed.

  (* ================= the variables loop ================= *)
  Lemma is_obj_false dt : is_obj dt = false -> dt <> DObj.
  Proof. destruct dt; simpl; congruence. Qed.
  Lemma is_obj_true dt : is_obj dt = true -> dt = DObj.
  Proof. destruct dt; simpl; congruence. Qed.

  (* relation between an old series and its reindexed version: same name and dtype; the data are the specified series — exactly
     for every dtype but object, and up to the identities of the (deep-copied) referenced objects for object dtype *)
  Definition series_rel (ols labels : list label) (fills : list (string * pyval)) (fv : pyval)
             (a b : string * series cell) : Prop :=
    fst b = fst a /\ s_dtype (snd b) = s_dtype (snd a)
    /\ exists c, fill_cell' (length labels) (s_dtype (snd a)) (fill_for fills fv (fst a)) = Ret c
              /\ map erase (s_data (snd b)) = map erase (reindexed_data ols (s_data (snd a)) c labels)
              /\ (s_dtype (snd a) <> DObj -> s_data (snd b) = reindexed_data ols (s_data (snd a)) c labels).

  Lemma reindexed_data_cell_ids ols old c labels id :
    In id (cell_ids (reindexed_data ols old c labels)) -> In id (cell_ids old) \/ In id (cell_ids [c]).
  Proof.
    unfold reindexed_data, cell_ids. rewrite flat_map_concat_map, map_map, <- flat_map_concat_map.
    intros H. apply in_flat_map in H as [p [_ Hp]].
    destruct (pos p ols) as [q|]; [|right; simpl; rewrite app_nil_r; exact Hp].
    destruct (Nat.lt_ge_cases q (length old)) as [Hq|Hq].
    - left. apply in_flat_map. exists (nth q old c). split; [apply nth_In; exact Hq | exact Hp].
    - rewrite nth_overflow in Hp by exact Hq. right. simpl. rewrite app_nil_r. exact Hp.
  Qed.
  Lemma fill_cell_CO n dt v id : fill_cell' n dt v = Ret (CO id) -> exists n' dt' v', cast n' dt' v' = Ret (CO id).
  Proof. unfold fill_cell. destruct v, dt; try discriminate; eauto. Qed.

  Lemma reindex_vars_spec ols labels m fills fv : forall vars next on vars' on',
    Forall2 pos_rel m (expected_positions ols 0 labels) ->
    Forall (fun kv => length (s_data (snd kv)) = length ols) vars ->
    reindex_vars' (length labels) m fills fv vars next on = Ret (vars', on') ->
    Forall2 (series_rel ols labels fills fv) vars vars'
    /\ series_ids vars' = map (fun i => next + Z.of_nat i) (seq 0 (length vars))
    /\ on <= on'
    /\ (forall id, In id (object_ids vars') ->
          on <= id < on'
          \/ (exists n dt v, cast n dt v = Ret (CO id))
          \/ (exists kv, In kv vars /\ s_dtype (snd kv) <> DObj /\ In id (cell_ids (s_data (snd kv))))).
  Proof.
    induction vars as [|[name sr] r IH]; intros next on vars' on' HF Hwf H; simpl in H.
    - inversion H; subst. split; [constructor|]. split; [reflexivity|]. split; [lia|]. simpl. tauto.
    - inversion Hwf as [|? ? Hlen Hwf']; subst. simpl in Hlen.
      destruct (fill_cell' (length labels) (s_dtype sr) (fill_for fills fv name)) as [c|e] eqn:Ec; simpl in H; [|discriminate].
      destruct (copy_over_spec (is_obj (s_dtype sr)) ols (s_data sr) c labels [] m on Hlen HF) as [res [on1 [Hco [Hle [Her [Hex Hids]]]]]].
      simpl in Hco. rewrite Hco in H. simpl in H.
      destruct (reindex_vars' (length labels) m fills fv r (next + 1) on1) as [[r' on2]|e] eqn:Er; simpl in H; [|discriminate].
      inversion H; subst. destruct (IH (next + 1) on1 r' on' HF Hwf' Er) as [I1 [I2 [I3 I4]]]. split.
      + constructor; [|exact I1]. split; [reflexivity|]. split; [reflexivity|]. exists c. split; [exact Ec|]. simpl. split; [exact Her|].
        intros Hd. apply Hex. destruct (s_dtype sr); simpl; congruence.
      + split; [simpl; f_equal; [lia|]; rewrite I2; rewrite <- seq_shift, map_map; apply map_ext; intros i; lia|].
        split; [lia|]. intros id Hid. simpl in Hid. apply in_app_or in Hid as [Hid|Hid].
        * destruct (is_obj (s_dtype sr)) eqn:Eo.
          -- destruct (Hids eq_refl id Hid) as [Hd|[Hd|Hd]]; [simpl in Hd; contradiction | | left; lia].
             right. left. simpl in Hd. rewrite app_nil_r in Hd. destruct c; simpl in Hd; try contradiction.
             destruct Hd as [Hd|[]]. subst. exact (fill_cell_CO _ _ _ _ Ec).
          -- rewrite (Hex eq_refl) in Hid. simpl in Hid. apply reindexed_data_cell_ids in Hid as [Hd|Hd].
             ++ right. right. exists (name, sr). split; [left; reflexivity|]. split; [apply is_obj_false; exact Eo | exact Hd].
             ++ right. left. simpl in Hd. rewrite app_nil_r in Hd. destruct c; simpl in Hd; try contradiction.
                destruct Hd as [Hd|[]]. subst. exact (fill_cell_CO _ _ _ _ Ec).
        * destruct (I4 id Hid) as [Hd|[Hd|[kv [K1 [K2 K3]]]]]; [left; lia | right; left; exact Hd |].
          right. right. exists kv. split; [right; exact K1|]. split; [exact K2 | exact K3].
  Qed.

  Lemma copy_attrs_spec attrs : forall next attrs' next',
    copy_attrs attrs next = (attrs', next') ->
    attrs_view attrs' = attrs_view attrs /\ next <= next' /\ (forall id, In id (attr_ids attrs') -> next <= id < next').
  Proof.
    induction attrs as [|[k a] r IH]; intros next attrs' next' H; simpl in H.
    - inversion H; subst. split; [reflexivity|]. split; [lia|]. simpl. tauto.
    - destruct a as [v|id items].
      + destruct (copy_attrs r next) as [r' n'] eqn:E. inversion H; subst.
        destruct (IH next r' next' E) as [I1 [I2 I3]]. split; [simpl; rewrite I1; reflexivity|]. split; [exact I2|].
        simpl. exact I3.
      + destruct (copy_attrs r (next + 1)) as [r' n'] eqn:E. inversion H; subst.
        destruct (IH (next + 1) r' next' E) as [I1 [I2 I3]]. split; [simpl; rewrite I1; reflexivity|]. split; [lia|].
        simpl. intros id0 [H0|H0]; [lia|]. apply I3 in H0. lia.
  Qed.

  (* unfolding a successful call *)
  Lemma reindex_M_inv (st st' : cst) (new_span : span) (new_id : Z) (fv : pyval) (strict : option bool)
        (fills : list (string * pyval)) (fresh : Z) :
    old_span_ok (c_span st) (span_labels new_span) ->
    reindex_M' st new_span new_id fv strict fills fresh = Ret st' ->
    exists m attrs' next vars' on',
      Forall2 pos_rel m (expected_positions (span_labels (c_span st)) 0 (span_labels new_span))
      /\ copy_attrs (c_attrs st) (fresh + 1) = (attrs', next)
      /\ reindex_vars' (length (span_labels new_span)) m fills fv (c_vars st) next (next + Z.of_nat (length (c_vars st))) = Ret (vars', on')
      /\ st' = mkC new_span fresh vars' attrs' (c_strict st).
  Proof.
    intros Hok H. unfold reindex_M in H.
    destruct ((match strict with None => c_strict st | Some b => b end) && existsb (fun kv => negb (mem_name (fst kv) (c_vars st))) fills); [discriminate|].
    destruct (build_positions_spec (c_span st) (span_labels new_span) 0%nat Hok) as [m [Hm HF]].
    rewrite Hm in H. simpl in H.
    destruct (copy_attrs (c_attrs st) (fresh + 1)) as [attrs' next] eqn:Ea.
    destruct (reindex_vars' (length (span_labels new_span)) m fills fv (c_vars st) next (next + Z.of_nat (length (c_vars st)))) as [[vars' on']|e] eqn:Ev; simpl in H; [|discriminate].
    inversion H; subst. exists m, attrs', next, vars', on'. repeat split; assumption.
  Qed.

  (* ================= reindex_values + reindex_preserves_meta ================= *)
  Theorem reindex_values (st st' : cst) (new_span : span) (new_id : Z) (fv : pyval) (strict : option bool)
          (fills : list (string * pyval)) (fresh : Z) :
    wf st ->
    old_span_ok (c_span st) (span_labels new_span) ->
    reindex_M' st new_span new_id fv strict fills fresh = Ret st' ->
    c_span st' = new_span /\ c_span_id st' = fresh /\ c_strict st' = c_strict st
    /\ attrs_view (c_attrs st') = attrs_view (c_attrs st)
    /\ Forall2 (series_rel (span_labels (c_span st)) (span_labels new_span) fills fv) (c_vars st) (c_vars st').
  Proof.
    intros Hwf Hok H. destruct (reindex_M_inv _ _ _ _ _ _ _ _ Hok H) as [m [attrs' [next [vars' [on' [HF [Ea [Ev E]]]]]]]]. subst st'. simpl.
    destruct (reindex_vars_spec _ _ m fills fv (c_vars st) next _ vars' on' HF Hwf Ev) as [R _].
    destruct (copy_attrs_spec _ _ _ _ Ea) as [A _].
    repeat split; try reflexivity; assumption.
  Qed.

  (* the reindexed object is well formed again, with the same variable names in the same order and the same dtypes *)
  Lemma series_rel_meta ols labels fills fv vars vars' :
    Forall2 (series_rel ols labels fills fv) vars vars' ->
    map fst vars' = map fst vars
    /\ map (fun kv => s_dtype (snd kv)) vars' = map (fun kv => s_dtype (snd kv)) vars
    /\ Forall (fun kv => length (s_data (snd kv)) = length labels) vars'.
  Proof.
    induction 1 as [|a b r r' [H1 [H2 [c [_ [H3 _]]]]] HF [I1 [I2 I3]]]; simpl; [repeat split; constructor|].
    split; [rewrite H1, I1; reflexivity|]. split; [rewrite H2, I2; reflexivity|].
    constructor; [|exact I3]. apply (f_equal (@length cell)) in H3. rewrite !map_length in H3. rewrite H3. apply map_length.
  Qed.

  (* ================= reindex_fresh ================= *)
  (* the span object, every array and every mutable attribute of the result are newly allocated objects; an object reference in a
     cell of the result is a newly allocated copy, or the fill value's — or sits in a series that is NOT of object dtype (NumPy
     keeps references in object arrays only: see obj_typed) *)
  Theorem reindex_fresh (st st' : cst) (new_span : span) (new_id : Z) (fv : pyval) (strict : option bool)
          (fills : list (string * pyval)) (fresh : Z) :
    wf st ->
    old_span_ok (c_span st) (span_labels new_span) ->
    reindex_M' st new_span new_id fv strict fills fresh = Ret st' ->
    (forall id, In id (c_span_id st' :: series_ids (c_vars st') ++ attr_ids (c_attrs st')) -> fresh <= id)
    /\ (forall id, In id (object_ids (c_vars st')) ->
          fresh <= id
          \/ (exists n dt v, cast n dt v = Ret (CO id))
          \/ (exists kv, In kv (c_vars st) /\ s_dtype (snd kv) <> DObj /\ In id (cell_ids (s_data (snd kv))))).
  Proof.
    intros Hwf Hok H. destruct (reindex_M_inv _ _ _ _ _ _ _ _ Hok H) as [m [attrs' [next [vars' [on' [HF [Ea [Ev E]]]]]]]]. subst st'. simpl.
    destruct (reindex_vars_spec _ _ m fills fv (c_vars st) next _ vars' on' HF Hwf Ev) as [R [I [Hle Hobj]]].
    destruct (copy_attrs_spec _ _ _ _ Ea) as [_ [A1 A2]]. split.
    - intros id [Hid|Hid]; [lia|]. apply in_app_or in Hid as [Hid|Hid].
      + rewrite I in Hid. apply in_map_iff in Hid as [i [Hi _]]. lia.
      + apply A2 in Hid. lia.
    - intros id Hid. destruct (Hobj id Hid) as [Hd|[Hd|Hd]]; [left; lia | right; left; exact Hd | right; right; exact Hd].
  Qed.

  (* object references live in object-dtype series only *)
  Definition obj_typed (st : cst) : Prop :=
    Forall (fun kv => s_dtype (snd kv) <> DObj -> cell_ids (s_data (snd kv)) = []) (c_vars st).

  (* an allocator handing out unused identities, fill values that are not objects of the original: the result shares NOTHING with
     the original — not the span object (even when the caller passes the original's own span), not an array, not a mutable
     attribute, not an object held in an object-dtype cell *)
  Theorem reindex_shares_nothing (st st' : cst) (new_span : span) (new_id : Z) (fv : pyval) (strict : option bool)
          (fills : list (string * pyval)) (fresh : Z) :
    wf st ->
    old_span_ok (c_span st) (span_labels new_span) ->
    (forall id, In id (ids st) -> id < fresh) ->
    obj_typed st ->
    (forall n dt v id, cast n dt v = Ret (CO id) -> ~ In id (ids st)) ->
    reindex_M' st new_span new_id fv strict fills fresh = Ret st' ->
    forall id, In id (ids st') -> ~ In id (ids st).
  Proof.
    intros Hwf Hok Hlt Hty Hcast H id Hid Hin.
    destruct (reindex_fresh st st' new_span new_id fv strict fills fresh Hwf Hok H) as [F1 F2].
    unfold ids in Hid. simpl in Hid. rewrite app_assoc in Hid.
    assert (Hid' : In id (c_span_id st' :: series_ids (c_vars st') ++ attr_ids (c_attrs st')) \/ In id (object_ids (c_vars st'))).
    { destruct Hid as [Hid|Hid]; [left; left; exact Hid|]. apply in_app_or in Hid as [Hid|Hid]; [left; right; exact Hid | right; exact Hid]. }
    destruct Hid' as [Hid'|Hid'].
    - apply F1 in Hid'. apply Hlt in Hin. lia.
    - destruct (F2 id Hid') as [Hd|[[n [dt [v Hd]]]|[kv [K1 [K2 K3]]]]].
      + apply Hlt in Hin. lia.
      + exact (Hcast n dt v id Hd Hin).
      + unfold obj_typed in Hty. rewrite Forall_forall in Hty. rewrite (Hty kv K1 K2) in K3. contradiction.
  Qed.

  (* ================= unknown_fill_rejected_only_strict ================= *)
  Definition effective_strict (st : cst) (strict : option bool) : bool := match strict with None => c_strict st | Some b => b end.

  Theorem unknown_fill_rejected_strict (st : cst) new_span new_id fv strict fills fresh name v :
    effective_strict st strict = true -> In (name, v) fills -> lookup name (c_vars st) = None ->
    reindex_M' st new_span new_id fv strict fills fresh = Raise KeyError.
  Proof.
    intros Hs Hin Hl. unfold reindex_M. unfold effective_strict in Hs. rewrite Hs. simpl.
    replace (existsb (fun kv => negb (mem_name (fst kv) (c_vars st))) fills) with true; [reflexivity|].
    symmetry. apply existsb_exists. exists (name, v). split; [exact Hin|]. simpl. rewrite mem_name_lookup, Hl. reflexivity.
  Qed.

  Lemma reindex_vars_fills_ext n m fills1 fills2 fv : forall vars next on,
    (forall name, mem_name name vars = true -> lookup name fills1 = lookup name fills2) ->
    reindex_vars' n m fills1 fv vars next on = reindex_vars' n m fills2 fv vars next on.
  Proof.
    induction vars as [|[name sr] r IH]; intros next on H; simpl; [reflexivity|].
    unfold fill_for. rewrite (H name) by (simpl; rewrite String.eqb_refl; reflexivity).
    destruct (fill_cell' n (s_dtype sr) match lookup name fills2 with Some v => v | None => fv end) as [c|e]; simpl; [|reflexivity].
    destruct (copy_over (is_obj (s_dtype sr)) (repeat c n) m (s_data sr) on) as [[d on1]|e]; simpl; [|reflexivity].
    rewrite (IH (next + 1) on1); [reflexivity|]. intros k Hk. apply H. simpl. rewrite Hk. apply orb_true_r.
  Qed.
  (* not strict: fill keywords naming no variable are ignored, whatever their values *)
  Theorem unknown_fill_ignored_not_strict (st : cst) new_span new_id fv strict fills1 fills2 fresh :
    effective_strict st strict = false ->
    (forall name, mem_name name (c_vars st) = true -> lookup name fills1 = lookup name fills2) ->
    reindex_M' st new_span new_id fv strict fills1 fresh = reindex_M' st new_span new_id fv strict fills2 fresh.
  Proof.
    intros Hs H. unfold reindex_M. unfold effective_strict in Hs. rewrite Hs. simpl.
    destruct (build_positions' (c_span st) 0 (span_labels new_span)) as [m|e]; simpl; [|reflexivity].
    destruct (copy_attrs (c_attrs st) (fresh + 1)) as [attrs' next].
    rewrite (reindex_vars_fills_ext _ m fills1 fills2 fv (c_vars st) next _ H). reflexivity.
  Qed.
  (* strict with every keyword naming a variable: the strict flag makes no difference *)
  Theorem known_fills_strict_irrelevant (st : cst) new_span new_id fv fills fresh s1 s2 :
    (forall kv, In kv fills -> mem_name (fst kv) (c_vars st) = true) ->
    reindex_M' st new_span new_id fv s1 fills fresh = reindex_M' st new_span new_id fv s2 fills fresh.
  Proof.
    intros H. unfold reindex_M.
    replace (existsb (fun kv => negb (mem_name (fst kv) (c_vars st))) fills) with false.
    - rewrite !andb_false_r. reflexivity.
    - symmetry. apply not_true_is_false. intros E. apply existsb_exists in E as [kv [Hin Hk]].
      rewrite (H kv Hin) in Hk. discriminate.
  Qed.

  (* ================= totality: nothing but the strict test and the fill conversions can fail ================= *)
  Lemma reindex_vars_succeeds ols labels m fills fv : forall vars next on,
    Forall2 pos_rel m (expected_positions ols 0 labels) ->
    Forall (fun kv => length (s_data (snd kv)) = length ols) vars ->
    Forall (fun kv => exists c, fill_cell' (length labels) (s_dtype (snd kv)) (fill_for fills fv (fst kv)) = Ret c) vars ->
    exists vars' on', reindex_vars' (length labels) m fills fv vars next on = Ret (vars', on').
  Proof.
    induction vars as [|[name sr] r IH]; intros next on HF Hwf Hc; simpl; [eexists; eexists; reflexivity|].
    inversion Hwf as [|? ? Hlen Hwf']; subst. inversion Hc as [|? ? [c Hc1] Hc']; subst. simpl in Hlen, Hc1.
    rewrite Hc1. simpl.
    destruct (copy_over_spec (is_obj (s_dtype sr)) ols (s_data sr) c labels [] m on Hlen HF) as [res [on1 [Hco _]]]. simpl in Hco. rewrite Hco. simpl.
    destruct (IH (next + 1) on1 HF Hwf' Hc') as [r' [on2 Hr]]. rewrite Hr. simpl. eexists; eexists; reflexivity.
  Qed.
  Theorem reindex_succeeds (st : cst) (new_span : span) (new_id : Z) (fv : pyval) (strict : option bool)
          (fills : list (string * pyval)) (fresh : Z) :
    wf st ->
    old_span_ok (c_span st) (span_labels new_span) ->
    (effective_strict st strict = false \/ forall kv, In kv fills -> mem_name (fst kv) (c_vars st) = true) ->
    Forall (fun kv => exists c, fill_cell' (length (span_labels new_span)) (s_dtype (snd kv)) (fill_for fills fv (fst kv)) = Ret c) (c_vars st) ->
    exists st', reindex_M' st new_span new_id fv strict fills fresh = Ret st'.
  Proof.
    intros Hwf Hok Hs Hc. unfold reindex_M.
    assert (E : (match strict with None => c_strict st | Some b => b end) && existsb (fun kv => negb (mem_name (fst kv) (c_vars st))) fills = false).
    { destruct Hs as [Hs|Hs]; [unfold effective_strict in Hs; rewrite Hs; reflexivity|].
      apply andb_false_iff. right. apply not_true_is_false. intros E. apply existsb_exists in E as [kv [Hin Hk]].
      rewrite (Hs kv Hin) in Hk. discriminate. }
    rewrite E.
    destruct (build_positions_spec (c_span st) (span_labels new_span) 0%nat Hok) as [m [Hm HF]].
    rewrite Hm. simpl. destruct (copy_attrs (c_attrs st) (fresh + 1)) as [attrs' next].
    destruct (reindex_vars_succeeds _ _ m fills fv (c_vars st) next (next + Z.of_nat (length (c_vars st))) HF Hwf Hc) as [vars' [on' Hv]]. rewrite Hv. simpl.
    eexists; reflexivity.
  Qed.

  (* ================= fill precedence and the models' defaults ================= *)
  Theorem fill_precedence fills fv name :
    fill_for fills fv name = match lookup name fills with Some v => v | None => fv end.
  Proof. reflexivity. Qed.
  (* dtype defaults for `None` that the code itself supplies (NaN for floats is NumPy's conversion of None: cast DFloat PNone) *)
  Theorem fill_none_defaults :
    forall n,
    fill_cell' n DBool PNone = Ret (CB false) /\ fill_cell' n DInt PNone = Ret (CI 0)
    /\ (forall w, fill_cell' n (DStr w) PNone = Ret (CS "")) /\ fill_cell' n DFloat PNone = cast n DFloat PNone
    /\ (forall dt v, v <> PNone -> fill_cell' n dt v = cast n dt v).
  Proof.
    intros n. repeat split; try reflexivity. intros dt v Hv. destruct v; try reflexivity. congruence.
  Qed.

  Theorem model_defaults fills fv :
    fill_for (with_model_defaults fills) fv "status" = match lookup "status" fills with Some v => v | None => PStr "-" end
    /\ fill_for (with_model_defaults fills) fv "iterations" = match lookup "iterations" fills with Some v => v | None => PInt (-1) end
    /\ (forall name, name <> "status"%string -> name <> "iterations"%string ->
          fill_for (with_model_defaults fills) fv name = fill_for fills fv name).
  Proof.
    unfold with_model_defaults, fill_for.
    assert (Hs : forall name (f : list (string * pyval)) k v,
               lookup name (if mem_name k f then f else f ++ [(k, v)]) =
               match lookup name f with Some x => Some x | None => if String.eqb name k then Some v else None end).
    { intros name f k v. rewrite mem_name_lookup. destruct (lookup k f) eqn:E; simpl.
      - destruct (lookup name f) eqn:E2; [reflexivity|]. destruct (String.eqb name k) eqn:E3; [|reflexivity].
        apply String.eqb_eq in E3; subst. congruence.
      - rewrite lookup_app. destruct (lookup name f); [reflexivity|]. simpl. destruct (String.eqb name k); reflexivity. }
    repeat split.
    - rewrite !Hs. simpl. destruct (lookup "status" fills); reflexivity.
    - rewrite !Hs. simpl. destruct (lookup "iterations" fills); reflexivity.
    - intros name H1 H2. rewrite !Hs.
      apply String.eqb_neq in H1. apply String.eqb_neq in H2. rewrite H1, H2.
      destruct (lookup name fills); reflexivity.
  Qed.

  (* ================= models: the full statement for BaseModel.reindex ================= *)
  (* the fill value of a model's variable: status and iterations have their own defaults, which `fill_value` never reaches *)
  Definition model_fill (fills : list (string * pyval)) (fv : pyval) (name : string) : pyval :=
    if String.eqb name "status" then match lookup "status" fills with Some v => v | None => PStr "-" end
    else if String.eqb name "iterations" then match lookup "iterations" fills with Some v => v | None => PInt (-1) end
    else fill_for fills fv name.
  Lemma model_fill_eq fills fv name : fill_for (with_model_defaults fills) fv name = model_fill fills fv name.
  Proof.
    destruct (model_defaults fills fv) as [H1 [H2 H3]]. unfold model_fill.
    destruct (String.eqb name "status") eqn:E1; [apply String.eqb_eq in E1; subst; exact H1|].
    destruct (String.eqb name "iterations") eqn:E2; [apply String.eqb_eq in E2; subst; exact H2|].
    apply String.eqb_neq in E1. apply String.eqb_neq in E2. exact (H3 name E1 E2).
  Qed.

  Definition model_series_rel (ols labels : list label) (fills : list (string * pyval)) (fv : pyval)
             (a b : string * series cell) : Prop :=
    fst b = fst a /\ s_dtype (snd b) = s_dtype (snd a)
    /\ exists c, fill_cell' (length labels) (s_dtype (snd a)) (model_fill fills fv (fst a)) = Ret c
              /\ map erase (s_data (snd b)) = map erase (reindexed_data ols (s_data (snd a)) c labels)
              /\ (s_dtype (snd a) <> DObj -> s_data (snd b) = reindexed_data ols (s_data (snd a)) c labels).

  Theorem model_reindex_values (st st' : cst) (new_span : span) (new_id : Z) (fv : pyval) (strict : option bool)
          (fills : list (string * pyval)) (fresh : Z) :
    wf st ->
    old_span_ok (c_span st) (span_labels new_span) ->
    model_reindex_M pd_get_loc pd_contains cast st new_span new_id fv strict fills fresh = Ret st' ->
    c_span st' = new_span /\ c_span_id st' = fresh /\ c_strict st' = c_strict st
    /\ attrs_view (c_attrs st') = attrs_view (c_attrs st)
    /\ Forall2 (model_series_rel (span_labels (c_span st)) (span_labels new_span) fills fv) (c_vars st) (c_vars st').
  Proof.
    intros Hwf Hok H. unfold model_reindex_M in H.
    destruct (reindex_values st st' new_span new_id fv strict (with_model_defaults fills) fresh Hwf Hok H) as [H1 [H2 [H3 [H4 H5]]]].
    repeat split; try assumption.
    clear - H5. induction H5 as [|a b r r' [Ha [Hb [c [Hc Hd]]]] HF IH]; constructor; [|exact IH].
    split; [exact Ha|]. split; [exact Hb|]. exists c. split; [|exact Hd]. rewrite <- model_fill_eq. exact Hc.
  Qed.

  (* a model's status / iterations keywords are known variables: they never trip the strict test by themselves *)
  Lemma add_default_keys (f : list (string * pyval)) k' v k :
    mem_name k (if mem_name k' f then f else f ++ [(k', v)]) = mem_name k f || String.eqb k k'.
  Proof.
    destruct (mem_name k' f) eqn:E.
    - destruct (String.eqb k k') eqn:K; [apply String.eqb_eq in K; subst; rewrite E; reflexivity | rewrite orb_false_r; reflexivity].
    - induction f as [|[k2 a] r IH]; simpl; [apply orb_false_r|]. simpl in E. apply orb_false_iff in E as [_ E].
      rewrite (IH E). apply orb_assoc.
  Qed.
  Lemma with_model_defaults_keys fills k :
    mem_name k (with_model_defaults fills) = mem_name k fills || String.eqb k "status" || String.eqb k "iterations".
  Proof. unfold with_model_defaults. cbv zeta. rewrite !add_default_keys. reflexivity. Qed.

  (* ================= the pandas mixin: what its control flow guarantees whatever pandas / NumPy answer ================= *)
  Variable series_reindex : span -> dtype -> list cell -> span -> option string -> pyval -> outcome (list cell).
  Variable assign_cast : dtype -> list cell -> outcome (list cell).
  Notation pandas_loop' := (pandas_loop series_reindex assign_cast).

  Lemma pandas_loop_frame orig new_span mf fills fv : forall names r r',
    pandas_loop' orig new_span mf fills fv names r = Ret r' ->
    c_span r' = c_span r /\ c_span_id r' = c_span_id r /\ c_attrs r' = c_attrs r /\ c_strict r' = c_strict r
    /\ map fst (c_vars r') = map fst (c_vars r)
    /\ map (fun kv => s_dtype (snd kv)) (c_vars r') = map (fun kv => s_dtype (snd kv)) (c_vars r)
    /\ (forall k, in_names k names = false -> lookup k (c_vars r') = lookup k (c_vars r)).
  Proof.
    induction names as [|name rest IH]; intros r r' H; simpl in H.
    - inversion H; subst. repeat split; reflexivity.
    - destruct (mf name) as [m|].
      + destruct (lookup name (c_vars orig)) as [so|]; [|discriminate].
        destruct (lookup name (c_vars r)) as [sn|] eqn:En; [|discriminate].
        destruct (series_reindex (c_span orig) (s_dtype so) (s_data so) new_span (Some m) (fill_for fills fv name)) as [vals|e]; simpl in H; [|discriminate].
        destruct (assign_cast (s_dtype sn) vals) as [d|e]; simpl in H; [|discriminate].
        destruct (IH _ _ H) as [I1 [I2 [I3 [I4 [I5 [I6 I7]]]]]].
        split; [rewrite I1; reflexivity|]. split; [rewrite I2; reflexivity|]. split; [rewrite I3; reflexivity|].
        split; [rewrite I4; reflexivity|]. split; [rewrite I5; simpl; apply replace_keys|]. split.
        * rewrite I6. simpl. clear - En. induction (c_vars r) as [|[k a] l IHl]; simpl in *; [reflexivity|].
          destruct (String.eqb name k) eqn:E; simpl.
          -- inversion En; subst. reflexivity.
          -- rewrite IHl by exact En. reflexivity.
        * intros k Hk. simpl in Hk. apply orb_false_iff in Hk as [Hk1 Hk2]. rewrite (I7 k Hk2).
          simpl. apply lookup_replace_other. intros E. subst. rewrite String.eqb_refl in Hk1. discriminate.
      + destruct (IH _ _ H) as [I1 [I2 [I3 [I4 [I5 [I6 I7]]]]]]. repeat split; try assumption.
        intros k Hk. simpl in Hk. apply orb_false_iff in Hk as [_ Hk2]. exact (I7 k Hk2).
  Qed.

  Lemma in_names_In k l : in_names k l = true <-> In k l.
  Proof.
    unfold in_names. rewrite existsb_exists. split.
    - intros [x [Hx E]]. apply String.eqb_eq in E. subst. exact Hx.
    - intros H. exists k. split; [exact H | apply String.eqb_refl].
  Qed.
  Lemma in_names_false k l : ~ In k l -> in_names k l = false.
  Proof. intros H. apply not_true_is_false. intros E. apply in_names_In in E. contradiction. Qed.

  (* every variable in `names`: WITHOUT a fill method it is exactly as the core reindex made it; WITH a method m it holds NumPy's
     cast (to the dtype the core kept) of what Series.reindex answered for (old span, old dtype and data, new span, m, that variable's
     fill = per-variable keyword else fill_value) *)
  Theorem pandas_loop_var orig new_span mf fills fv : forall names r r',
    NoDup names ->
    pandas_loop' orig new_span mf fills fv names r = Ret r' ->
    forall name, In name names ->
    match mf name with
    | None => lookup name (c_vars r') = lookup name (c_vars r)
    | Some m =>
        exists so sn vals d,
          lookup name (c_vars orig) = Some so /\ lookup name (c_vars r) = Some sn
          /\ series_reindex (c_span orig) (s_dtype so) (s_data so) new_span (Some m) (fill_for fills fv name) = Ret vals
          /\ assign_cast (s_dtype sn) vals = Ret d
          /\ lookup name (c_vars r') = Some (mkSeries (s_dtype sn) (s_id sn) d)
    end.
  Proof.
    induction names as [|a rest IH]; intros r r' Hnd H name Hin; [contradiction|]. simpl in H.
    inversion Hnd as [|? ? Hna Hnd']; subst.
    destruct (string_dec name a) as [E|NE].
    - subst name. destruct (mf a) as [m|] eqn:Em.
      + destruct (lookup a (c_vars orig)) as [so|] eqn:Eo; [|discriminate].
        destruct (lookup a (c_vars r)) as [sn|] eqn:En; [|discriminate].
        destruct (series_reindex (c_span orig) (s_dtype so) (s_data so) new_span (Some m) (fill_for fills fv a)) as [vals|e] eqn:Es; simpl in H; [|discriminate].
        destruct (assign_cast (s_dtype sn) vals) as [d|e] eqn:Ea; simpl in H; [|discriminate].
        exists so, sn, vals, d. repeat split; try assumption; try reflexivity.
        destruct (pandas_loop_frame _ _ _ _ _ _ _ _ H) as [_ [_ [_ [_ [_ [_ I7]]]]]].
        rewrite (I7 a (in_names_false a rest Hna)). apply set_data_lookup. exact En.
      + destruct (pandas_loop_frame _ _ _ _ _ _ _ _ H) as [_ [_ [_ [_ [_ [_ I7]]]]]]. exact (I7 a (in_names_false a rest Hna)).
    - destruct Hin as [Hin|Hin]; [congruence|].
      destruct (mf a) as [m|] eqn:Em.
      + destruct (lookup a (c_vars orig)) as [so|] eqn:Eo; [|discriminate].
        destruct (lookup a (c_vars r)) as [sn|] eqn:En; [|discriminate].
        destruct (series_reindex (c_span orig) (s_dtype so) (s_data so) new_span (Some m) (fill_for fills fv a)) as [vals|e] eqn:Es; simpl in H; [|discriminate].
        destruct (assign_cast (s_dtype sn) vals) as [d|e] eqn:Ea; simpl in H; [|discriminate].
        pose proof (IH _ _ Hnd' H name Hin) as J.
        assert (Hl : lookup name (c_vars (set_data r a sn d)) = lookup name (c_vars r)) by (unfold set_data; simpl; apply lookup_replace_other; exact NE).
        destruct (mf name) as [m'|]; [|rewrite J; exact Hl].
        destruct J as [so' [sn' [vals' [d' [J1 [J2 [J3 [J4 J5]]]]]]]].
        exists so', sn', vals', d'. repeat split; try assumption. rewrite <- J2. symmetry. exact Hl.
      + exact (IH _ _ Hnd' H name Hin).
  Qed.

  (* no fill method for any variable (the mixin's default arguments): the loop changes nothing, whatever pandas would answer *)
  Theorem pandas_loop_no_method orig new_span mf fills fv : forall names r,
    (forall name, In name names -> mf name = None) ->
    pandas_loop' orig new_span mf fills fv names r = Ret r.
  Proof.
    induction names as [|a rest IH]; intros r H; simpl; [reflexivity|].
    rewrite (H a (or_introl eq_refl)). apply IH. intros name Hn. apply H. right. exact Hn.
  Qed.

  Lemma Forall2_lookup (R : string * series cell -> string * series cell -> Prop) vars vars' k a :
    Forall2 (fun x y => fst y = fst x /\ R x y) vars vars' ->
    lookup k vars = Some a -> exists b, lookup k vars' = Some b /\ R (k, a) (k, b).
  Proof.
    induction 1 as [|[k1 a1] [k2 b1] r r' [Hk HR] HF IH]; simpl; [discriminate|]. simpl in Hk. subst k2.
    destruct (String.eqb k k1) eqn:E; intros H.
    - apply String.eqb_eq in E. subst k1. inversion H; subst. exists b1. split; [reflexivity | exact HR].
    - exact (IH H).
  Qed.

  (* Since fix 2658d81 the mixin calls the core (model) reindex WITH the fill arguments and then overwrites only the variables that
     have a fill method.  So: span, strictness, attributes, variable order and dtypes are the core's; every variable outside `names`
     (status, iterations) AND every variable in `names` without a method is exactly as the core made it — old values at overlapping
     periods, its own fill (keyword > fill_value > dtype default; '-' / -1 for status / iterations) at new ones. *)
  Theorem pandas_reindex_meta (st st' : cst) (names : list string) (new_span : span) (new_id : Z) (method : option string)
          (fv : pyval) (strict : option bool) (fills : list (string * pyval)) (l1 l2 l3 l4 l5 : list string) (fresh : Z) :
    wf st ->
    old_span_ok (c_span st) (span_labels new_span) ->
    NoDup names ->
    pandas_reindex_M pd_get_loc pd_contains cast series_reindex assign_cast st names new_span new_id method fv strict fills l1 l2 l3 l4 l5 fresh = Ret st' ->
    c_span st' = new_span /\ c_span_id st' = fresh /\ c_strict st' = c_strict st
    /\ attrs_view (c_attrs st') = attrs_view (c_attrs st)
    /\ map fst (c_vars st') = map fst (c_vars st)
    /\ map (fun kv => s_dtype (snd kv)) (c_vars st') = map (fun kv => s_dtype (snd kv)) (c_vars st)
    /\ (forall k sr, (in_names k names = false \/ method_for l1 l2 l3 l4 l5 method k = None) -> lookup k (c_vars st) = Some sr ->
          exists sr' c, lookup k (c_vars st') = Some sr' /\ s_dtype sr' = s_dtype sr
            /\ fill_cell' (length (span_labels new_span)) (s_dtype sr) (model_fill fills fv k) = Ret c
            /\ map erase (s_data sr') = map erase (reindexed_data (span_labels (c_span st)) (s_data sr) c (span_labels new_span))
            /\ (s_dtype sr <> DObj -> s_data sr' = reindexed_data (span_labels (c_span st)) (s_data sr) c (span_labels new_span))).
  Proof.
    intros Hwf Hok Hnd H. unfold pandas_reindex_M in H.
    destruct ((match strict with None => c_strict st | Some b => b end) && existsb (fun kv => negb (mem_name (fst kv) (c_vars st))) fills); [discriminate|].
    destruct (model_reindex_M pd_get_loc pd_contains cast st new_span new_id fv strict fills fresh) as [r|e] eqn:Er; simpl in H; [|discriminate].
    destruct (model_reindex_values st r new_span new_id fv strict fills fresh Hwf Hok Er) as [M1 [M2 [M3 [M4 M5]]]].
    destruct (pandas_loop_frame _ _ _ _ _ _ _ _ H) as [F1 [F2 [F3 [F4 [F5 [F6 F7]]]]]].
    assert (Hkeys : map fst (c_vars r) = map fst (c_vars st) /\ map (fun kv => s_dtype (snd kv)) (c_vars r) = map (fun kv => s_dtype (snd kv)) (c_vars st)).
    { clear - M5. induction M5 as [|a b l l' [Ha [Hb _]] HF [I1 I2]]; simpl; [split; reflexivity|]. rewrite Ha, Hb, I1, I2. split; reflexivity. }
    destruct Hkeys as [K1 K2].
    split; [rewrite F1; exact M1|]. split; [rewrite F2; exact M2|]. split; [rewrite F4; exact M3|].
    split; [rewrite F3; exact M4|]. split; [rewrite F5; exact K1|]. split; [rewrite F6; exact K2|].
    intros k sr Hk Hl.
    assert (Hsame : lookup k (c_vars st') = lookup k (c_vars r)).
    { destruct Hk as [Hk|Hk]; [exact (F7 k Hk)|].
      destruct (in_names k names) eqn:Ein; [|exact (F7 k Ein)]. apply in_names_In in Ein.
      pose proof (pandas_loop_var _ _ _ _ _ _ _ _ Hnd H k Ein) as J. rewrite Hk in J. exact J. }
    rewrite Hsame.
    destruct (Forall2_lookup (fun a b => s_dtype (snd b) = s_dtype (snd a)
                 /\ exists c, fill_cell' (length (span_labels new_span)) (s_dtype (snd a)) (model_fill fills fv (fst a)) = Ret c
                           /\ map erase (s_data (snd b)) = map erase (reindexed_data (span_labels (c_span st)) (s_data (snd a)) c (span_labels new_span))
                           /\ (s_dtype (snd a) <> DObj -> s_data (snd b) = reindexed_data (span_labels (c_span st)) (s_data (snd a)) c (span_labels new_span)))
               (c_vars st) (c_vars r) k sr) as [b [Hb [Hd [c [Hc [Hdata Hex]]]]]].
    - clear - M5. induction M5 as [|a b l l' [Ha [Hb Hc]] HF IH]; constructor; [|exact IH]. split; [exact Ha|]. split; [exact Hb | exact Hc].
    - exact Hl.
    - simpl in *. exists b, c. split; [exact Hb|]. split; [exact Hd|]. split; [exact Hc|]. split; [exact Hdata | exact Hex].
  Qed.

  (* the mixin with its DEFAULT pandas arguments (no method, no per-variable method lists) IS the core model reindex with the same
     fill arguments (formerly refuted: findings #11 and the status / iterations keywords; fixed by 2658d81) *)
  Lemma existsb_app_true {A} (P : A -> bool) l l' : existsb P l = true -> existsb P (l ++ l') = true.
  Proof. intros H. rewrite existsb_app, H. reflexivity. Qed.
  Lemma strict_test_with_defaults (st : cst) fills :
    existsb (fun kv => negb (mem_name (fst kv) (c_vars st))) fills = true ->
    existsb (fun kv => negb (mem_name (fst kv) (c_vars st))) (with_model_defaults fills) = true.
  Proof.
    intros H. unfold with_model_defaults. cbv zeta.
    destruct (mem_name "status" fills); destruct (mem_name "iterations" _); repeat apply existsb_app_true; exact H.
  Qed.
  Theorem pandas_default_is_core (st : cst) (names : list string) (new_span : span) (new_id : Z)
          (fv : pyval) (strict : option bool) (fills : list (string * pyval)) (fresh : Z) :
    pandas_reindex_M pd_get_loc pd_contains cast series_reindex assign_cast st names new_span new_id None fv strict fills [] [] [] [] [] fresh
    = model_reindex_M pd_get_loc pd_contains cast st new_span new_id fv strict fills fresh.
  Proof.
    unfold pandas_reindex_M.
    destruct ((match strict with None => c_strict st | Some b => b end) && existsb (fun kv => negb (mem_name (fst kv) (c_vars st))) fills) eqn:E.
    - apply andb_true_iff in E as [E1 E2]. unfold model_reindex_M, reindex_M. rewrite E1, (strict_test_with_defaults st fills E2). reflexivity.
    - destruct (model_reindex_M pd_get_loc pd_contains cast st new_span new_id fv strict fills fresh) as [r|e]; simpl; [|reflexivity].
      apply pandas_loop_no_method. intros name _. reflexivity.
  Qed.

  (* ================= reindex, then label access (C12 observed through C10's access path) =================
     Reading the result by label — with any lookup that meets locate_spec on the NEW span — gives, for every variable that is not
     of object dtype and every period p of the new span, the old value at p's position in the old span if p is there, else the
     variable's fill.  (For object dtype the same holds up to the identity of the copied object: `erase`.) *)
  Theorem reindex_then_label_get (st st' : cst) (new_span : span) (new_id : Z) (fv : pyval) (strict : option bool)
          (fills : list (string * pyval)) (fresh : Z) (lc' : label -> outcome loc) :
    wf st ->
    old_span_ok (c_span st) (span_labels new_span) ->
    reindex_M' st new_span new_id fv strict fills fresh = Ret st' ->
    locate_spec (span_labels new_span) lc' ->
    forall name sr, lookup name (c_vars st) = Some sr ->
    exists c, fill_cell' (length (span_labels new_span)) (s_dtype sr) (fill_for fills fv name) = Ret c
      /\ forall p i, pos p (span_labels new_span) = Some i ->
           exists v, get_item_with lc' st' name (KLabel p) = Ret (RScalar v)
             /\ erase v = erase (match pos p (span_labels (c_span st)) with Some q => nth q (s_data sr) c | None => c end)
             /\ (s_dtype sr <> DObj -> v = match pos p (span_labels (c_span st)) with Some q => nth q (s_data sr) c | None => c end).
  Proof.
    intros Hwf Hok H Hspec name sr Hl.
    destruct (reindex_values st st' new_span new_id fv strict fills fresh Hwf Hok H) as [Hsp [_ [_ [_ HF]]]].
    pose proof (series_rel_meta _ _ _ _ _ _ HF) as [_ [_ Hlens]].
    destruct (Forall2_lookup (fun a b => s_dtype (snd b) = s_dtype (snd a)
                 /\ exists c, fill_cell' (length (span_labels new_span)) (s_dtype (snd a)) (fill_for fills fv (fst a)) = Ret c
                           /\ map erase (s_data (snd b)) = map erase (reindexed_data (span_labels (c_span st)) (s_data (snd a)) c (span_labels new_span))
                           /\ (s_dtype (snd a) <> DObj -> s_data (snd b) = reindexed_data (span_labels (c_span st)) (s_data (snd a)) c (span_labels new_span)))
               (c_vars st) (c_vars st') name sr) as [sr' [Hl' [_ [c [Hc [Hd Hex]]]]]].
    - clear - HF. induction HF as [|a b l l' [Ha [Hb Hc]] HF IH]; constructor; [|exact IH]. split; [exact Ha|]. split; [exact Hb | exact Hc].
    - exact Hl.
    - simpl in *. exists c. split; [exact Hc|]. intros p i Hp.
      assert (Hlen : length (s_data sr') = length (span_labels (c_span st'))).
      { rewrite Hsp. apply (f_equal (@length cell)) in Hd. rewrite !map_length in Hd. rewrite Hd. unfold reindexed_data. apply map_length. }
      assert (Hspec' : locate_spec (span_labels (c_span st')) lc') by (rewrite Hsp; exact Hspec).
      assert (Hp' : pos p (span_labels (c_span st')) = Some i) by (rewrite Hsp; exact Hp).
      destruct (label_get_exact lc' st' name sr' Hspec' Hl' Hlen p i Hp') as [v [Hv Hg]].
      exists v. split; [exact Hg|].
      destruct (pos_Some _ _ _ Hp) as [Hn _].
      assert (Hspec_at : nth_error (reindexed_data (span_labels (c_span st)) (s_data sr) c (span_labels new_span)) i
                                  = Some (match pos p (span_labels (c_span st)) with Some q => nth q (s_data sr) c | None => c end)).
      { unfold reindexed_data. rewrite nth_error_map, Hn. reflexivity. }
      split.
      + assert (E : nth_error (map erase (s_data sr')) i = Some (erase v)) by (rewrite nth_error_map, Hv; reflexivity).
        rewrite Hd, nth_error_map, Hspec_at in E. simpl in E. inversion E. reflexivity.
      + intros Hdt. rewrite (Hex Hdt), Hspec_at in Hv. inversion Hv. reflexivity.
  Qed.

  (* ================= sanity corollaries of reindex_values ================= *)
  Lemma reindexed_data_same ols (d : list cell) c : NoDup ols -> length d = length ols -> reindexed_data ols d c ols = d.
  Proof.
    intros ND HL. unfold reindexed_data. apply nth_ext with (d := c) (d' := c); [rewrite map_length; symmetry; exact HL|].
    intros n Hn. rewrite map_length in Hn.
    destruct (nth_error ols n) as [p|] eqn:Ep; [|apply nth_error_None in Ep; lia].
    set (f := fun p : label => match pos p ols with Some q => nth q d c | None => c end).
    rewrite (nth_indep (map f ols) c (f p)) by (rewrite map_length; exact Hn).
    rewrite map_nth. rewrite (nth_error_nth _ _ p Ep). unfold f. rewrite (pos_nodup _ _ _ ND Ep). reflexivity.
  Qed.
  (* the erased view of a specified series depends on the erased view of the old data only *)
  Lemma erase_reindexed_data ols d c labels :
    map erase (reindexed_data ols d c labels) = reindexed_data ols (map erase d) (erase c) labels.
  Proof.
    unfold reindexed_data. rewrite map_map. apply map_ext. intros p. destruct (pos p ols); [|reflexivity].
    symmetry. apply map_nth.
  Qed.
  (* the view compared by the corollaries: names, dtypes, data up to the identities of copied objects *)
  Definition eview (vars : list (string * series cell)) := map (fun kv => (fst kv, (s_dtype (snd kv), map erase (s_data (snd kv))))) vars.

  (* reindexing to the same periods in the same order changes no value of any variable, whatever the fill arguments *)
  Theorem reindex_same_labels_identity (st st' : cst) (new_span : span) (new_id : Z) (fv : pyval) (strict : option bool)
          (fills : list (string * pyval)) (fresh : Z) :
    wf st ->
    old_span_ok (c_span st) (span_labels new_span) ->
    span_labels new_span = span_labels (c_span st) -> NoDup (span_labels (c_span st)) ->
    reindex_M' st new_span new_id fv strict fills fresh = Ret st' ->
    eview (c_vars st') = eview (c_vars st).
  Proof.
    intros Hwf Hok Hsame ND H.
    destruct (reindex_values st st' new_span new_id fv strict fills fresh Hwf Hok H) as [_ [_ [_ [_ HF]]]].
    rewrite Hsame in HF. unfold wf in Hwf. revert Hwf.
    induction HF as [|a b l l' [Ha [Hb [c [_ [Hd _]]]]] HF IH]; intros Hwf; [reflexivity|].
    inversion Hwf as [|? ? Hlen Hwf']; subst. simpl. rewrite (IH Hwf'). f_equal.
    rewrite Ha, Hb, Hd. rewrite (reindexed_data_same _ _ c ND Hlen). reflexivity.
  Qed.

  (* the result is well formed again (every series has the new span's length): reindex calls can be chained *)
  Theorem reindex_wf (st st' : cst) (new_span : span) (new_id : Z) (fv : pyval) (strict : option bool)
          (fills : list (string * pyval)) (fresh : Z) :
    wf st -> old_span_ok (c_span st) (span_labels new_span) ->
    reindex_M' st new_span new_id fv strict fills fresh = Ret st' -> wf st'.
  Proof.
    intros Hwf Hok H.
    destruct (reindex_values st st' new_span new_id fv strict fills fresh Hwf Hok H) as [Hsp [_ [_ [_ HF]]]].
    unfold wf. rewrite Hsp. exact (proj2 (proj2 (series_rel_meta _ _ _ _ _ _ HF))).
  Qed.

  Lemma reindexed_data_roundtrip ols nls (d : list cell) c1 c2 :
    NoDup ols -> length d = length ols -> (forall p, In p ols -> In p nls) ->
    reindexed_data nls (reindexed_data ols d c1 nls) c2 ols = d.
  Proof.
    intros ND HL Hsub. unfold reindexed_data at 1.
    apply nth_ext with (d := c2) (d' := c2); [rewrite map_length; symmetry; exact HL|].
    intros n Hn. rewrite map_length in Hn.
    destruct (nth_error ols n) as [p|] eqn:Ep; [|apply nth_error_None in Ep; lia].
    set (f2 := fun p : label => match pos p nls with Some q => nth q (reindexed_data ols d c1 nls) c2 | None => c2 end).
    rewrite (nth_indep (map f2 ols) c2 (f2 p)) by (rewrite map_length; exact Hn).
    rewrite map_nth. rewrite (nth_error_nth _ _ p Ep). unfold f2.
    assert (Hin : In p nls) by (apply Hsub; eapply nth_error_In; exact Ep).
    destruct (pos p nls) as [q|] eqn:Eq; [|apply pos_None in Eq; contradiction].
    destruct (pos_Some _ _ _ Eq) as [Hq Hqlt].
    unfold reindexed_data.
    set (f1 := fun p : label => match pos p ols with Some q => nth q d c1 | None => c1 end).
    rewrite (nth_indep (map f1 nls) c2 (f1 p)) by (rewrite map_length; exact Hqlt).
    rewrite map_nth. rewrite (nth_error_nth _ _ p Hq). unfold f1. rewrite (pos_nodup _ _ _ ND Ep).
    apply nth_indep. lia.
  Qed.

  (* extend (or permute) and come back: if every period of the (duplicate-free) original span occurs in the intermediate
     span, reindexing there and back to the original periods restores every variable's values, dtype and name *)
  Theorem reindex_roundtrip (st st1 st2 : cst) (mid back : span) id1 id2 fv1 fv2 strict1 strict2 fills1 fills2 fresh1 fresh2 :
    wf st ->
    NoDup (span_labels (c_span st)) ->
    (forall p, In p (span_labels (c_span st)) -> In p (span_labels mid)) ->
    span_labels back = span_labels (c_span st) ->
    old_span_ok (c_span st) (span_labels mid) ->
    old_span_ok mid (span_labels back) ->
    reindex_M' st mid id1 fv1 strict1 fills1 fresh1 = Ret st1 ->
    reindex_M' st1 back id2 fv2 strict2 fills2 fresh2 = Ret st2 ->
    eview (c_vars st2) = eview (c_vars st).
  Proof.
    intros Hwf ND Hsub Hback Hok1 Hok2 H1 H2.
    pose proof (reindex_wf st st1 mid id1 fv1 strict1 fills1 fresh1 Hwf Hok1 H1) as Hwf1.
    destruct (reindex_values st st1 mid id1 fv1 strict1 fills1 fresh1 Hwf Hok1 H1) as [Hsp1 [_ [_ [_ HF1]]]].
    rewrite <- Hsp1 in Hok2.
    destruct (reindex_values st1 st2 back id2 fv2 strict2 fills2 fresh2 Hwf1 Hok2 H2) as [_ [_ [_ [_ HF2]]]].
    rewrite Hsp1, Hback in HF2. unfold wf in Hwf. revert Hwf HF2. generalize (c_vars st2).
    induction HF1 as [|a b l l' [Ha [Hb [c1 [_ [Hd1 _]]]]] HF1 IH]; intros vars2 Hwf HF2.
    - inversion HF2; subst. reflexivity.
    - inversion HF2 as [|? e ? l2 [Ha2 [Hb2 [c2 [_ [Hd2 _]]]]] HF2']; subst.
      inversion Hwf as [|? ? Hlen Hwf']; subst. simpl. rewrite (IH l2 Hwf' HF2'). f_equal.
      rewrite Ha2, Ha, Hb2, Hb, Hd2. rewrite erase_reindexed_data, Hd1, erase_reindexed_data.
      assert (HL : length (map erase (s_data (snd a))) = length (span_labels (c_span st))) by (rewrite map_length; exact Hlen).
      rewrite (reindexed_data_roundtrip _ _ _ (erase c1) (erase c2) ND HL Hsub). reflexivity.
  Qed.
End Facts.
