(* LocateFacts.v — proofs about the label-access model (property C10). *)
From Coq Require Import ZArith List Bool String Ascii Lia Sorted.
Import ListNotations.
Require Import PyBase Generated Locate.
Open Scope Z_scope.
Open Scope list_scope.
Local Notation length := List.length.

(* ================= labels ================= *)
Lemma label_eqb_eq a b : label_eqb a b = true <-> a = b.
Proof.
  destruct a, b; simpl; split; intros H; try discriminate; try reflexivity;
    try (apply Z.eqb_eq in H; congruence);
    try (apply String.eqb_eq in H; congruence);
    try (apply andb_true_iff in H as [H1 H2]; apply Z.eqb_eq in H1; apply Z.eqb_eq in H2; congruence);
    try (inversion H; subst; rewrite ?Z.eqb_refl, ?String.eqb_refl; reflexivity).
Qed.
Lemma label_eqb_refl a : label_eqb a a = true.
Proof. apply label_eqb_eq; reflexivity. Qed.
Lemma label_eqb_neq a b : label_eqb a b = false <-> a <> b.
Proof.
  split; intros H.
  - intros E. apply label_eqb_eq in E. congruence.
  - destruct (label_eqb a b) eqn:E; [apply label_eqb_eq in E; contradiction | reflexivity].
Qed.

(* ================= pos: the position of a label in a span (first match) ================= *)
Fixpoint pos (x : label) (ls : list label) : option nat :=
  match ls with
  | [] => None
  | y :: r => if label_eqb y x then Some O else option_map S (pos x r)
  end.

Lemma pos_Some x ls p : pos x ls = Some p -> nth_error ls p = Some x /\ (p < length ls)%nat.
Proof.
  revert p; induction ls as [|y r IH]; intros p H; simpl in H; [discriminate|].
  destruct (label_eqb y x) eqn:E.
  - inversion H; subst. apply label_eqb_eq in E; subst. simpl; split; [reflexivity | lia].
  - destruct (pos x r) as [q|] eqn:Eq; simpl in H; [|discriminate]. inversion H; subst.
    destruct (IH q eq_refl) as [H1 H2]. simpl; split; [exact H1 | lia].
Qed.
Lemma pos_None x ls : pos x ls = None <-> ~ In x ls.
Proof.
  induction ls as [|y r IH]; simpl; [tauto|].
  destruct (label_eqb y x) eqn:E.
  - apply label_eqb_eq in E; subst. split; [discriminate | intros H; exfalso; apply H; left; reflexivity].
  - apply label_eqb_neq in E. destruct (pos x r) eqn:Eq; simpl.
    + split; [discriminate|]. intros H. exfalso. apply H. right.
      destruct (pos_Some _ _ _ Eq) as [H1 _]. eapply nth_error_In; eauto.
    + split; [|reflexivity]. intros _ [H|H]; [contradiction|]. apply IH in H; [exact H | reflexivity].
Qed.
Lemma pos_first x ls p : pos x ls = Some p -> forall q, (q < p)%nat -> nth_error ls q <> Some x.
Proof.
  revert p; induction ls as [|y r IH]; intros p H q Hq; simpl in H; [discriminate|].
  destruct (label_eqb y x) eqn:E.
  - inversion H; subst; lia.
  - destruct (pos x r) as [p'|] eqn:Ep; simpl in H; [|discriminate]. inversion H; subst.
    destruct q as [|q]; simpl.
    + intros E'. inversion E'; subst. rewrite label_eqb_refl in E; discriminate.
    + apply (IH p' eq_refl). lia.
Qed.
Lemma pos_nodup x ls p : NoDup ls -> nth_error ls p = Some x -> pos x ls = Some p.
Proof.
  intros ND; revert p; induction ND as [|y r Hy ND IH]; intros p H; [destruct p; discriminate|].
  simpl. destruct p as [|p]; simpl in H.
  - inversion H; subst. rewrite label_eqb_refl; reflexivity.
  - destruct (label_eqb y x) eqn:E.
    + apply label_eqb_eq in E; subst. exfalso; apply Hy. eapply nth_error_In; eauto.
    + rewrite (IH p H). reflexivity.
Qed.
Lemma pos_hd x r : pos x (x :: r) = Some O.
Proof. simpl. rewrite label_eqb_refl. reflexivity. Qed.

(* what the theorems assume about a lookup: a present label gives its position, an absent one KeyError *)
Definition locate_spec (ls : list label) (lc : label -> outcome loc) : Prop :=
  forall x, match pos x ls with
            | Some p => exists fl, lc x = Ret (LPos (Z.of_nat p) fl)
            | None => lc x = Raise KeyError
            end.

(* ================= the three coded lookups meet locate_spec ================= *)
Section LocateMethods.
  Variable g : list label -> label -> outcome loc.

  Lemma locate_SList ls x : locate g (SList ls) x = to_KeyError (call_method g (SList ls) x).
  Proof. reflexivity. Qed.
  Lemma locate_SRange a s n x : locate g (SRange a s n) x = to_KeyError (call_method g (SRange a s n) x).
  Proof. reflexivity. Qed.
  Lemma locate_SArr ls x : locate g (SArr ls) x = to_KeyError (fallback x ls).
  Proof. reflexivity. Qed.
  Lemma locate_SPandas ls x : locate g (SPandas ls) x = to_KeyError (g ls x).
  Proof. reflexivity. Qed.

  Lemma index_from_pos k x ls : index_from k x ls = option_map (fun p => k + Z.of_nat p) (pos x ls).
  Proof.
    revert k; induction ls as [|y r IH]; intros k; simpl; [reflexivity|].
    destruct (label_eqb y x); simpl; [f_equal; lia|].
    rewrite IH. destruct (pos x r); simpl; [f_equal; lia | reflexivity].
  Qed.

  (* list.index / tuple.index — any list, duplicates or not (first match) *)
  Lemma locate_list_spec ls : locate_spec ls (locate g (SList ls)).
  Proof.
    intros x. rewrite locate_SList. simpl. rewrite index_from_pos.
    destruct (pos x ls) as [p|]; simpl; [exists true; reflexivity | reflexivity].
  Qed.

  (* range.index — arithmetic; agrees with the search whenever step <> 0 (Python rejects step = 0) *)
  Lemma nth_error_range_labels a s n i : (i < n)%nat -> nth_error (range_labels a s n) i = Some (LInt (a + s * Z.of_nat i)).
  Proof.
    intros H. unfold range_labels. rewrite nth_error_map, nth_error_nth' with (d := O) by (rewrite seq_length; exact H).
    rewrite seq_nth by exact H. reflexivity.
  Qed.
  Lemma range_labels_length a s n : length (range_labels a s n) = n.
  Proof. unfold range_labels. rewrite map_length, seq_length. reflexivity. Qed.
  Lemma range_labels_NoDup a s n : s <> 0 -> NoDup (range_labels a s n).
  Proof.
    intros Hs. apply NoDup_nth_error. intros i j Hi E. rewrite range_labels_length in Hi.
    rewrite nth_error_range_labels in E by exact Hi.
    destruct (Nat.lt_ge_cases j n) as [Hj|Hj].
    - rewrite nth_error_range_labels in E by exact Hj. inversion E. nia.
    - assert (Hn : nth_error (range_labels a s n) j = None) by (apply nth_error_None; rewrite range_labels_length; exact Hj).
      congruence.
  Qed.
  Lemma range_index_pos a s n x : s <> 0 -> range_index a s n x = option_map Z.of_nat (pos x (range_labels a s n)).
  Proof.
    intros Hs. destruct x as [v| | | | | |];
      try (simpl; symmetry; replace (pos _ (range_labels a s n)) with (@None nat); [reflexivity|];
           symmetry; apply pos_None; intros HI; apply In_nth_error in HI as [i Hi];
           assert (Hl : (i < n)%nat) by (rewrite <- (range_labels_length a s n); apply nth_error_Some; congruence);
           rewrite nth_error_range_labels in Hi by exact Hl; discriminate).
    unfold range_index.
    destruct (((v - a) mod s =? 0) && (0 <=? (v - a) / s) && ((v - a) / s <? Z.of_nat n)) eqn:C.
    - apply andb_true_iff in C as [C C3]. apply andb_true_iff in C as [C1 C2].
      apply Z.eqb_eq in C1. apply Z.leb_le in C2. apply Z.ltb_lt in C3.
      assert (Hv : v = a + s * Z.of_nat (Z.to_nat ((v - a) / s))).
      { rewrite Z2Nat.id by exact C2. pose proof (Z.div_mod (v - a) s Hs). lia. }
      rewrite (pos_nodup (LInt v) (range_labels a s n) (Z.to_nat ((v - a) / s))).
      + simpl. rewrite Z2Nat.id by exact C2. reflexivity.
      + apply range_labels_NoDup; exact Hs.
      + rewrite nth_error_range_labels by lia. rewrite <- Hv. reflexivity.
    - destruct (pos (LInt v) (range_labels a s n)) as [p|] eqn:Ep; [|reflexivity]. exfalso.
      apply pos_Some in Ep as [E1 E2]. rewrite range_labels_length in E2.
      rewrite nth_error_range_labels in E1 by exact E2. inversion E1 as [Hv].
      assert (Hd : v - a = Z.of_nat p * s) by lia.
      rewrite Hd, Z_mod_mult, Z_div_mult_full in C by exact Hs.
      rewrite Z.eqb_refl in C. simpl in C.
      apply andb_false_iff in C as [C|C]; [apply Z.leb_gt in C | apply Z.ltb_ge in C]; lia.
  Qed.
  Lemma locate_range_spec a s n : s <> 0 -> locate_spec (range_labels a s n) (locate g (SRange a s n)).
  Proof.
    intros Hs x. rewrite locate_SRange. simpl. rewrite range_index_pos by exact Hs.
    destruct (pos x (range_labels a s n)) as [p|]; simpl; [exists true; reflexivity | reflexivity].
  Qed.

  (* the fallback (NumPy arrays) — a duplicate-free span and a label that is not a tuple *)
  (* since fix 35fe7e2 the comparison is element-wise for every label (a tuple label is ONE label): no condition on the label.
     It runs on the OBJECT CAST of the span: the lookup meets the spec for spans whose elements the cast leaves alone (obj_stable:
     everything but the elements of a datetime64[ns] array, which become Python ints) *)
  Definition obj_stable (ls : list label) : Prop := Forall (fun y => obj_cast y = y) ls.
  Lemma arr_eq_stable ls x : obj_stable ls -> arr_eq ls x = map (fun y => label_eqb y x) ls.
  Proof. unfold arr_eq. induction 1 as [|y r Hy _ IH]; simpl; [reflexivity|]. rewrite Hy, IH. reflexivity. Qed.
  Lemma true_positions_nodup k x ls :
    NoDup ls ->
    true_positions k (map (fun y => label_eqb y x) ls) = match pos x ls with Some p => [k + Z.of_nat p] | None => [] end.
  Proof.
    intros ND; revert k; induction ND as [|y r Hy ND IH]; intros k; simpl; [reflexivity|].
    destruct (label_eqb y x) eqn:E.
    - apply label_eqb_eq in E; subst. rewrite IH. apply pos_None in Hy. rewrite Hy. f_equal; lia.
    - rewrite IH. destruct (pos x r); simpl; [f_equal; lia | reflexivity].
  Qed.
  Lemma locate_arr_spec ls x :
    NoDup ls -> obj_stable ls ->
    match pos x ls with
    | Some p => locate g (SArr ls) x = Ret (LPos (Z.of_nat p) true)
    | None => locate g (SArr ls) x = Raise KeyError
    end.
  Proof.
    intros ND Hst. rewrite locate_SArr. unfold fallback. rewrite (arr_eq_stable ls x Hst).
    rewrite (true_positions_nodup 0 x ls ND). destruct (pos x ls); reflexivity.
  Qed.

  (* duplicates in a NumPy span: NotImplementedError inside the fallback, surfaced as KeyError *)
  Definition cnt (x : label) (ls : list label) : nat := length (filter (fun y => label_eqb y x) ls).
  Lemma true_positions_length k x ls : length (true_positions k (map (fun y => label_eqb y x) ls)) = cnt x ls.
  Proof.
    unfold cnt. revert k; induction ls as [|y r IH]; intros k; simpl; [reflexivity|].
    destruct (label_eqb y x); simpl; rewrite IH; reflexivity.
  Qed.
  Lemma locate_arr_not_unique ls x : obj_stable ls -> cnt x ls <> 1%nat -> locate g (SArr ls) x = Raise KeyError.
  Proof.
    intros Hst H. rewrite locate_SArr. unfold fallback. rewrite (arr_eq_stable ls x Hst).
    pose proof (true_positions_length 0 x ls) as L.
    destruct (true_positions 0 (map (fun y => label_eqb y x) ls)) as [|i [|j r]]; simpl in *; try reflexivity.
    congruence.
  Qed.
  (* the kept finding: a datetime64[ns] label (LTs) is NEVER found in a NumPy-array span — not even when it is an element — because
     the object cast of the span holds ints *)
  Lemma obj_cast_not_ts y ns : label_eqb (obj_cast y) (LTs ns) = false.
  Proof. destruct y; reflexivity. Qed.
  Lemma locate_arr_ns_label ls ns : locate g (SArr ls) (LTs ns) = Raise KeyError.
  Proof.
    rewrite locate_SArr. unfold fallback, arr_eq.
    assert (E : forall k, true_positions k (map (fun y => label_eqb (obj_cast y) (LTs ns)) ls) = []).
    { induction ls as [|y r IH]; intros k; simpl; [reflexivity|]. rewrite obj_cast_not_ts. apply IH. }
    rewrite E. reflexivity.
  Qed.

  (* pandas: whatever get_loc raises becomes KeyError; positions are passed through *)
  Lemma locate_pandas_spec ls : locate_spec ls (fun x => to_KeyError (g ls x)) -> locate_spec ls (locate g (SPandas ls)).
  Proof. intros H x. rewrite locate_SPandas. exact (H x). Qed.

  (* all span types at once *)
  Definition span_ok (sp : span) : Prop :=
    match sp with
    | SList _ => True
    | SRange _ s _ => s <> 0
    | SArr ls => NoDup ls /\ obj_stable ls
    | SPandas ls => locate_spec ls (fun x => to_KeyError (g ls x))
    end.
  (* every span type at once: with span_ok the container's own lookup meets locate_spec for ALL labels *)
  Lemma locate_meets_spec sp : span_ok sp -> locate_spec (span_labels sp) (locate g sp).
  Proof.
    destruct sp as [ls|a s n|ls|ls]; simpl; intros Hs x.
    - exact (locate_list_spec ls x).
    - exact (locate_range_spec a s n Hs x).
    - destruct Hs as [ND Hst]. pose proof (locate_arr_spec ls x ND Hst) as H. destruct (pos x ls); [exists true|]; exact H.
    - exact (locate_pandas_spec ls Hs x).
  Qed.
End LocateMethods.

(* a pandas-like oracle that answers every label of the index with its position and nothing else meets the spec *)
Fixpoint enum_tbl (i : Z) (ls : list label) : list (label * loc) :=
  match ls with [] => [] | x :: r => (x, LPos i true) :: enum_tbl (i + 1) r end.
Lemma enum_tbl_lookup i x ls : tbl_lookup x (enum_tbl i ls) = option_map (fun p => LPos (i + Z.of_nat p) true) (pos x ls).
Proof.
  revert i; induction ls as [|y r IH]; intros i; simpl; [reflexivity|].
  destruct (label_eqb y x); simpl; [do 2 f_equal; lia|].
  rewrite IH. destruct (pos x r); simpl; [do 2 f_equal; lia | reflexivity].
Qed.
Lemma enum_tbl_spec ls : locate_spec ls (fun x => to_KeyError (tbl_get_loc (enum_tbl 0 ls) ls x)).
Proof.
  intros x. unfold tbl_get_loc. rewrite enum_tbl_lookup. destruct (pos x ls); simpl; [exists true; reflexivity | reflexivity].
Qed.

(* ================= Python slices with positive step ================= *)
Lemma clip_id n i : 0 <= i <= n -> clip n i = i.
Proof. intros H. unfold clip. replace (i <? 0) with false by lia. replace (n <? i) with false by lia. reflexivity. Qed.

Lemma range_from_In fuel : forall a s b, 0 <= a -> 0 < s -> b - a <= Z.of_nat fuel ->
  forall q, In q (range_from fuel a s b) <-> exists i : nat, Z.of_nat q = a + Z.of_nat i * s /\ a + Z.of_nat i * s < b.
Proof.
  induction fuel as [|f IH]; intros a s b Ha Hs Hf q; simpl.
  - split; [tauto|]. intros [i [_ H]]. nia.
  - destruct (a <? b) eqn:E.
    + apply Z.ltb_lt in E. simpl. rewrite (IH (a + s) s b) by lia. split.
      * intros [H|[i [H1 H2]]].
        -- exists O. subst q. rewrite Z2Nat.id by lia. lia.
        -- exists (S i). lia.
      * intros [[|i] [H1 H2]].
        -- left. lia.
        -- right. exists i. lia.
    + apply Z.ltb_ge in E. split; [simpl; tauto|]. intros [i [_ H]]. nia.
Qed.
Lemma range_from_lower fuel : forall a s b q, 0 <= a -> 0 < s -> In q (range_from fuel a s b) -> a <= Z.of_nat q.
Proof.
  induction fuel as [|f IH]; intros a s b q Ha Hs H; simpl in H; [contradiction|].
  destruct (a <? b); [|contradiction]. destruct H as [H|H]; [subst; rewrite Z2Nat.id; lia|].
  apply IH in H; lia.
Qed.
Lemma range_from_sorted fuel : forall a s b, 0 <= a -> 0 < s -> StronglySorted Nat.lt (range_from fuel a s b).
Proof.
  induction fuel as [|f IH]; intros a s b Ha Hs; simpl; [constructor|].
  destruct (a <? b); [|constructor]. constructor; [apply IH; lia|].
  apply Forall_forall. intros q Hq. apply range_from_lower in Hq; lia.
Qed.

(* the addressed positions of [pa : pb + 1 : s] on a vector of length n *)
Lemma inclusive_slice_positions n pa pb s :
  (pa < n)%nat -> (pb < n)%nat -> 0 < s ->
  let L := py_slice_positions n (Some (Z.of_nat pa)) (Some (Z.of_nat pb + 1)) s in
  (forall q, In q L <-> exists i : nat, Z.of_nat q = Z.of_nat pa + Z.of_nat i * s /\ (q <= pb)%nat)
  /\ StronglySorted Nat.lt L
  /\ ((pb < pa)%nat -> L = []).
Proof.
  intros Ha Hb Hs L. unfold L, py_slice_positions, py_slice_bounds.
  rewrite !clip_id by lia. split; [|split].
  - intros q. rewrite range_from_In by lia. split; intros [i [H1 H2]]; exists i; split; lia.
  - apply range_from_sorted; lia.
  - intros H. destruct n; [lia|]. simpl. replace (Z.of_nat pa <? Z.of_nat pb + 1) with false by lia. reflexivity.
Qed.

Lemma range_from_seq k : forall a, range_from k (Z.of_nat a) 1 (Z.of_nat (a + k)) = seq a k.
Proof.
  induction k as [|k IH]; intros a; cbn [range_from seq]; [reflexivity|].
  destruct (Z.of_nat a <? Z.of_nat (a + S k)) eqn:E; [|apply Z.ltb_ge in E; lia]. rewrite Nat2Z.id. f_equal.
  replace (Z.of_nat a + 1) with (Z.of_nat (S a)) by lia. replace (a + S k)%nat with (S a + k)%nat by lia. apply IH.
Qed.
Lemma full_slice_positions n : (0 < n)%nat -> py_slice_positions n (Some 0) (Some (Z.of_nat (n - 1) + 1)) 1 = seq 0 n.
Proof.
  intros H. unfold py_slice_positions, py_slice_bounds. rewrite !clip_id by lia.
  replace (Z.of_nat (n - 1) + 1) with (Z.of_nat (0 + n)) by lia. exact (range_from_seq n 0).
Qed.

(* ================= gather / scatter ================= *)
Section Data.
  Context {V : Type}.
  Implicit Types data : list V.

  Lemma gather_Forall2 data ps : (forall p, In p ps -> (p < length data)%nat) ->
    Forall2 (fun p v => nth_error data p = Some v) ps (gather data ps).
  Proof.
    induction ps as [|p r IH]; intros H; simpl; [constructor|].
    destruct (nth_error data p) as [v|] eqn:E.
    - simpl. constructor; [exact E | apply IH; intros; apply H; right; assumption].
    - apply nth_error_None in E. specialize (H p (or_introl eq_refl)). lia.
  Qed.
  Lemma gather_app_seq pre data : gather (pre ++ data) (seq (length pre) (length data)) = data.
  Proof.
    revert pre; induction data as [|x r IH]; intros pre; simpl; [reflexivity|].
    rewrite nth_error_app2 by lia. rewrite Nat.sub_diag. simpl. f_equal.
    replace (pre ++ x :: r) with ((pre ++ [x]) ++ r) by (rewrite <- app_assoc; reflexivity).
    replace (S (length pre)) with (length (pre ++ [x])) by (rewrite app_length; simpl; lia).
    apply IH.
  Qed.
  Lemma gather_all data : gather data (seq 0 (length data)) = data.
  Proof. exact (gather_app_seq [] data). Qed.

  Lemma scatter1_length data ps v : length (scatter1 data ps v) = length data.
  Proof. revert data; induction ps as [|p r IH]; intros data; simpl; [reflexivity|]. rewrite IH, upd_length. reflexivity. Qed.
  Lemma scatter1_out data ps v q : ~ In q ps -> nth_error (scatter1 data ps v) q = nth_error data q.
  Proof.
    revert data; induction ps as [|p r IH]; intros data H; simpl; [reflexivity|].
    rewrite IH by (intros H'; apply H; right; exact H').
    apply nth_error_upd_neq. intros E; apply H; left; exact E.
  Qed.
  Lemma scatter1_in data ps v q : In q ps -> (q < length data)%nat -> nth_error (scatter1 data ps v) q = Some v.
  Proof.
    revert data; induction ps as [|p r IH]; intros data H Hq; simpl; [contradiction|].
    destruct (in_dec Nat.eq_dec q r) as [I|I].
    - apply IH; [exact I | rewrite upd_length; exact Hq].
    - rewrite scatter1_out by exact I. destruct H as [H|H]; [subst|contradiction].
      apply nth_error_upd_eq; exact Hq.
  Qed.
  Lemma scatter_length data ps vs : length (scatter data ps vs) = length data.
  Proof.
    revert data vs; induction ps as [|p r IH]; intros data vs; simpl; [reflexivity|].
    destruct vs; [reflexivity|]. rewrite IH, upd_length. reflexivity.
  Qed.
  Lemma scatter_out data ps vs q : ~ In q ps -> nth_error (scatter data ps vs) q = nth_error data q.
  Proof.
    revert data vs; induction ps as [|p r IH]; intros data vs H; simpl; [reflexivity|].
    destruct vs as [|v vs]; [reflexivity|].
    rewrite IH by (intros H'; apply H; right; exact H').
    apply nth_error_upd_neq. intros E; apply H; left; exact E.
  Qed.
  (* element i of the operand lands at the i-th addressed position (positions pairwise distinct) *)
  Lemma scatter_in data ps vs i p v : NoDup ps -> length vs = length ps ->
    nth_error ps i = Some p -> nth_error vs i = Some v -> (p < length data)%nat ->
    nth_error (scatter data ps vs) p = Some v.
  Proof.
    intros ND; revert data vs i; induction ND as [|p0 r Hp ND IH]; intros data vs i HL Hi Hv Hp'; [destruct i; discriminate|].
    destruct vs as [|v0 vs]; [destruct i; discriminate|]. simpl.
    destruct i as [|i]; simpl in Hi, Hv.
    - inversion Hi; inversion Hv; subst. rewrite scatter_out by exact Hp. apply nth_error_upd_eq; exact Hp'.
    - apply (IH _ vs i); [simpl in HL; lia | exact Hi | exact Hv | rewrite upd_length; exact Hp'].
  Qed.
End Data.

(* ================= container bookkeeping ================= *)
Section State.
  Context {V : Type}.
  Implicit Types st : cstate V.

  Lemma lookup_replace_same {A} k (a : A) l : lookup k l <> None -> lookup k (replace k a l) = Some a.
  Proof.
    induction l as [|[k' a'] r IH]; simpl; [congruence|].
    destruct (String.eqb k k') eqn:E; simpl; rewrite E; [reflexivity | exact IH].
  Qed.
  Lemma lookup_replace_other {A} k k2 (a : A) l : k2 <> k -> lookup k2 (replace k a l) = lookup k2 l.
  Proof.
    intros H. induction l as [|[k' a'] r IH]; simpl; [reflexivity|].
    destruct (String.eqb k k') eqn:E; simpl.
    - apply String.eqb_eq in E; subst k'. destruct (String.eqb k2 k) eqn:E2; [apply String.eqb_eq in E2; contradiction | reflexivity].
    - destruct (String.eqb k2 k'); [reflexivity | exact IH].
  Qed.
  Lemma replace_keys {A} k (a : A) l : map fst (replace k a l) = map fst l.
  Proof.
    induction l as [|[k' a'] r IH]; simpl; [reflexivity|].
    destruct (String.eqb k k'); simpl; [reflexivity | rewrite IH; reflexivity].
  Qed.

  (* what a write leaves alone: span, attributes, strictness, variable order, every other series, dtype and array identity *)
  Definition same_frame st st' (name : string) : Prop :=
    c_span st' = c_span st /\ c_span_id st' = c_span_id st /\ c_attrs st' = c_attrs st /\ c_strict st' = c_strict st
    /\ map fst (c_vars st') = map fst (c_vars st)
    /\ (forall k, k <> name -> lookup k (c_vars st') = lookup k (c_vars st)).
  Lemma set_data_frame st name sr d : same_frame st (set_data st name sr d) name.
  Proof.
    unfold same_frame, set_data; simpl. repeat split; try reflexivity.
    - apply replace_keys.
    - intros k Hk. apply lookup_replace_other; exact Hk.
  Qed.
  Lemma set_data_lookup st name sr d : lookup name (c_vars st) = Some sr ->
    lookup name (c_vars (set_data st name sr d)) = Some (mkSeries (s_dtype sr) (s_id sr) d).
  Proof. intros H. unfold set_data; simpl. apply lookup_replace_same. congruence. Qed.
End State.

(* the position an (optional) slice bound stands for: open start = first period, open stop = last period *)
Definition start_pos (ls : list label) (a : option label) : option nat :=
  match a with Some x => pos x ls | None => match ls with [] => None | _ => Some O end end.
Definition stop_pos (ls : list label) (b : option label) : option nat :=
  match b with Some x => pos x ls | None => match ls with [] => None | _ => Some (length ls - 1)%nat end end.
Definition step_of (s : option Z) : Z := match s with Some z => z | None => 1 end.

Lemma start_pos_open ls pa : start_pos ls None = Some pa -> ls <> [] /\ pa = O.
Proof. simpl. destruct ls; intros H; [discriminate|]. inversion H. split; [discriminate | reflexivity]. Qed.
Lemma stop_pos_open ls pb : stop_pos ls None = Some pb -> ls <> [] /\ pb = (length ls - 1)%nat.
Proof. simpl. destruct ls; intros H; [discriminate|]. inversion H. split; [discriminate | reflexivity]. Qed.
Lemma start_pos_lt ls a pa : start_pos ls a = Some pa -> (pa < length ls)%nat.
Proof. destruct a as [x|]; simpl; [intros H; apply pos_Some in H; tauto|]. destruct ls; intros H; [discriminate|]. inversion H; simpl; lia. Qed.
Lemma stop_pos_lt ls b pb : stop_pos ls b = Some pb -> (pb < length ls)%nat.
Proof. destruct b as [x|]; simpl; [intros H; apply pos_Some in H; tauto|]. destruct ls; intros H; [discriminate|]. inversion H; simpl; lia. Qed.

Lemma span_first_pos sp : span_labels sp <> [] -> exists x, span_first sp = Ret x /\ pos x (span_labels sp) = Some O.
Proof.
  unfold span_first. destruct (span_labels sp) as [|x r]; [congruence|]. intros _. exists x. split; [reflexivity | apply pos_hd].
Qed.
Lemma span_last_pos sp : NoDup (span_labels sp) -> span_labels sp <> [] ->
  exists x, span_last sp = Ret x /\ pos x (span_labels sp) = Some (length (span_labels sp) - 1)%nat.
Proof.
  intros ND NE. unfold span_last.
  destruct (exists_last NE) as [r [x E]]. rewrite E in *. rewrite rev_app_distr. simpl.
  exists x. split; [reflexivity|]. apply pos_nodup; [exact ND|].
  rewrite app_length; simpl. replace (length r + 1 - 1)%nat with (length r) by lia.
  rewrite nth_error_app2 by lia. rewrite Nat.sub_diag. reflexivity.
Qed.

(* ================= the access theorems ================= *)
Section Access.
  Context {V : Type}.
  Variable lc : label -> outcome loc.
  Variable st : cstate V.
  Variable name : string.
  Variable sr : series V.
  Let ls := span_labels (c_span st).
  Let data := s_data sr.
  Hypothesis Hspec : locate_spec ls lc.
  Hypothesis Hvar : lookup name (c_vars st) = Some sr.
  Hypothesis Hlen : length data = length ls.

  Lemma lc_present x p : pos x ls = Some p -> exists fl, lc x = Ret (LPos (Z.of_nat p) fl).
  Proof. intros H. pose proof (Hspec x) as S. rewrite H in S. exact S. Qed.
  Lemma lc_absent x : pos x ls = None -> lc x = Raise KeyError.
  Proof. intros H. pose proof (Hspec x) as S. rewrite H in S. exact S. Qed.
  Lemma py_get_nat (d : list V) p : (p < length d)%nat -> py_get d (Z.of_nat p) = nth_error d p.
  Proof. intros H. unfold py_get. rewrite py_pos_nonneg by lia. rewrite Nat2Z.id. reflexivity. Qed.
  Lemma py_set_nat (d : list V) p v : (p < length d)%nat -> py_set d (Z.of_nat p) v = Some (upd p v d).
  Proof. intros H. unfold py_set. rewrite py_pos_nonneg by lia. rewrite Nat2Z.id. reflexivity. Qed.

  (* --- label_get_set_exact --- *)
  Theorem label_get_exact x p :
    pos x ls = Some p ->
    exists v, nth_error data p = Some v /\ get_item_with lc st name (KLabel x) = Ret (RScalar v).
  Proof.
    intros Hp. destruct (pos_Some _ _ _ Hp) as [_ Hlt]. destruct (lc_present x p Hp) as [fl Hl].
    destruct (nth_error data p) as [v|] eqn:E; [|apply nth_error_None in E; lia].
    exists v. split; [reflexivity|]. unfold get_item_with. rewrite Hvar. simpl. rewrite Hl. simpl.
    fold data. rewrite py_get_nat by lia. rewrite E. reflexivity.
  Qed.
  Theorem label_set_exact x p v :
    pos x ls = Some p ->
    set_item_with lc st name (KLabel x) (OScalar v) = (set_data st name sr (upd p v data), Ret tt).
  Proof.
    intros Hp. destruct (pos_Some _ _ _ Hp) as [_ Hlt]. destruct (lc_present x p Hp) as [fl Hl].
    unfold set_item_with. rewrite Hvar, Hl. fold data. rewrite py_set_nat by lia. reflexivity.
  Qed.

  (* --- slices --- *)
  Lemma resolve_slice_ok a b s pa pb :
    NoDup ls -> start_pos ls a = Some pa -> stop_pos ls b = Some pb ->
    resolve_slice_with lc (c_span st) a b s = Ret (Z.of_nat pa, Z.of_nat pb + 1, step_of s).
  Proof.
    intros ND Ha Hb. unfold resolve_slice_with.
    assert (HA : exists x, match a with None => span_first (c_span st) | Some x => Ret x end = Ret x /\ pos x ls = Some pa).
    { destruct a as [x|]; [exists x; split; [reflexivity | exact Ha]|].
      apply start_pos_open in Ha as [NE E]; subst pa. apply span_first_pos. exact NE. }
    assert (HB : exists y, match b with None => span_last (c_span st) | Some y => Ret y end = Ret y /\ pos y ls = Some pb).
    { destruct b as [y|]; [exists y; split; [reflexivity | exact Hb]|].
      apply stop_pos_open in Hb as [NE E]; subst pb. apply span_last_pos; [exact ND | exact NE]. }
    destruct HA as [x [HA1 HA2]]. destruct HB as [y [HB1 HB2]].
    rewrite HA1, HB1. simpl.
    destruct (lc_present x pa HA2) as [f1 L1]. destruct (lc_present y pb HB2) as [f2 L2].
    rewrite L1, L2. simpl. destruct s; reflexivity.
  Qed.

  Theorem slice_get_exact a b s pa pb :
    NoDup ls -> start_pos ls a = Some pa -> stop_pos ls b = Some pb -> 0 < step_of s ->
    let L := py_slice_positions (length data) (Some (Z.of_nat pa)) (Some (Z.of_nat pb + 1)) (step_of s) in
    get_item_with lc st name (KSlice a b s) = Ret (RArr (gather data L))
    /\ Forall2 (fun p v => nth_error data p = Some v) L (gather data L)
    /\ (forall q, In q L <-> exists i : nat, Z.of_nat q = Z.of_nat pa + Z.of_nat i * step_of s /\ (q <= pb)%nat)
    /\ StronglySorted Nat.lt L
    /\ ((pb < pa)%nat -> L = []).
  Proof.
    intros ND Ha Hb Hs L.
    assert (Hpa : (pa < length data)%nat) by (rewrite Hlen; exact (start_pos_lt ls a pa Ha)).
    assert (Hpb : (pb < length data)%nat) by (rewrite Hlen; exact (stop_pos_lt ls b pb Hb)).
    destruct (inclusive_slice_positions (length data) pa pb (step_of s) Hpa Hpb Hs) as [I1 [I2 I3]]. fold L in I1, I2, I3.
    split; [|split; [|split; [exact I1 | split; [exact I2 | exact I3]]]].
    - unfold get_item_with. rewrite Hvar. rewrite (resolve_slice_ok a b s pa pb ND Ha Hb). simpl.
      unfold np_slice_positions. replace (step_of s =? 0) with false by lia. replace (0 <? step_of s) with true by lia. reflexivity.
    - apply gather_Forall2. intros p Hp. apply I1 in Hp as [i [_ H]]. lia.
  Qed.

  Theorem slice_set_exact a b s pa pb w d' :
    NoDup ls -> start_pos ls a = Some pa -> stop_pos ls b = Some pb -> 0 < step_of s ->
    let L := py_slice_positions (length data) (Some (Z.of_nat pa)) (Some (Z.of_nat pb + 1)) (step_of s) in
    assign data L w = Ret d' ->
    set_item_with lc st name (KSlice a b s) w = (set_data st name sr d', Ret tt).
  Proof.
    intros ND Ha Hb Hs L HA. unfold set_item_with.
    rewrite Hvar, (resolve_slice_ok a b s pa pb ND Ha Hb). fold data.
    unfold np_slice_positions. replace (step_of s =? 0) with false by lia. replace (0 <? step_of s) with true by lia.
    simpl. fold L. rewrite HA. reflexivity.
  Qed.
  (* a rejected operand (wrong length) changes nothing *)
  Theorem slice_set_rejected a b s pa pb w e :
    NoDup ls -> start_pos ls a = Some pa -> stop_pos ls b = Some pb -> 0 < step_of s ->
    assign data (py_slice_positions (length data) (Some (Z.of_nat pa)) (Some (Z.of_nat pb + 1)) (step_of s)) w = Raise e ->
    set_item_with lc st name (KSlice a b s) w = (st, Raise e).
  Proof.
    intros ND Ha Hb Hs HA. unfold set_item_with.
    rewrite Hvar, (resolve_slice_ok a b s pa pb ND Ha Hb). fold data.
    unfold np_slice_positions. replace (step_of s =? 0) with false by lia. replace (0 <? step_of s) with true by lia.
    simpl. rewrite HA. reflexivity.
  Qed.

  (* the effect of `assign` with a scalar: exactly the addressed positions hold v *)
  Theorem assign_scalar_effect L v :
    (forall p, In p L -> (p < length data)%nat) ->
    exists d', assign data L (OScalar v) = Ret d' /\ length d' = length data
      /\ (forall q, In q L -> nth_error d' q = Some v) /\ (forall q, ~ In q L -> nth_error d' q = nth_error data q).
  Proof.
    intros H. exists (scatter1 data L v). split; [reflexivity|]. split; [apply scatter1_length|]. split.
    - intros q Hq. apply scatter1_in; [exact Hq | apply H; exact Hq].
    - intros q Hq. apply scatter1_out; exact Hq.
  Qed.
  Theorem assign_seq_effect L vs :
    NoDup L -> length vs = length L -> (2 <= length vs)%nat -> (forall p, In p L -> (p < length data)%nat) ->
    exists d', assign data L (OSeq vs) = Ret d' /\ length d' = length data
      /\ (forall i p v, nth_error L i = Some p -> nth_error vs i = Some v -> nth_error d' p = Some v)
      /\ (forall q, ~ In q L -> nth_error d' q = nth_error data q).
  Proof.
    intros ND HL H2 H. exists (scatter data L vs). split.
    - unfold assign. destruct vs as [|v1 [|v2 r]]; simpl in H2; try lia. rewrite HL, Nat.eqb_refl. reflexivity.
    - split; [apply scatter_length|]. split.
      + intros i p v Hi Hv. apply (scatter_in data L vs i p v ND HL Hi Hv). apply H. eapply nth_error_In; eauto.
      + intros q Hq. apply scatter_out; exact Hq.
  Qed.

  (* --- missing_label_KeyError_no_alias --- *)
  Theorem missing_label_get x : pos x ls = None -> get_item_with lc st name (KLabel x) = Raise KeyError.
  Proof. intros H. unfold get_item_with. rewrite Hvar. simpl. rewrite (lc_absent x H). reflexivity. Qed.
  Theorem missing_label_set x w : pos x ls = None -> set_item_with lc st name (KLabel x) w = (st, Raise KeyError).
  Proof. intros H. unfold set_item_with. generalize (lookup name (c_vars st)). intros [s0|]; [|reflexivity]. rewrite (lc_absent x H). reflexivity. Qed.

  (* a slice one of whose bounds is absent (the other bound given, or the span not empty) *)
  Definition bound_given_or_nonempty (o : option label) : Prop := match o with Some _ => True | None => ls <> [] end.
  Lemma resolve_slice_missing a b s :
    NoDup ls -> bound_given_or_nonempty a -> bound_given_or_nonempty b ->
    (exists x, a = Some x /\ pos x ls = None) \/ (start_pos ls a <> None /\ exists y, b = Some y /\ pos y ls = None) ->
    resolve_slice_with lc (c_span st) a b s = Raise KeyError.
  Proof.
    intros ND Ga Gb H. unfold resolve_slice_with.
    assert (HB : exists y, match b with None => span_last (c_span st) | Some y => Ret y end = Ret y).
    { destruct b as [y|]; [exists y; reflexivity|]. destruct (span_last_pos (c_span st) ND Gb) as [y [Hy _]]. exists y; exact Hy. }
    destruct HB as [y0 HB].
    destruct H as [[x [Ea Hx]] | [Hsa [y [Eb Hy]]]].
    - subst a. simpl. rewrite HB. simpl. rewrite (lc_absent x Hx). reflexivity.
    - subst b. simpl.
      assert (HA : exists x p, match a with None => span_first (c_span st) | Some x => Ret x end = Ret x /\ pos x ls = Some p).
      { destruct a as [x|]; simpl in Hsa.
        - destruct (pos x ls) as [p|] eqn:E; [exists x, p; split; [reflexivity | exact E] | congruence].
        - destruct (span_first_pos (c_span st) Ga) as [x [H1 H2]]. exists x, O. split; assumption. }
      destruct HA as [x [p [HA1 HA2]]]. rewrite HA1. simpl.
      destruct (lc_present x p HA2) as [fl L1]. rewrite L1. simpl. rewrite (lc_absent y Hy). reflexivity.
  Qed.
  Theorem missing_bound_get a b s :
    NoDup ls -> bound_given_or_nonempty a -> bound_given_or_nonempty b ->
    (exists x, a = Some x /\ pos x ls = None) \/ (start_pos ls a <> None /\ exists y, b = Some y /\ pos y ls = None) ->
    get_item_with lc st name (KSlice a b s) = Raise KeyError.
  Proof.
    intros ND Ga Gb H. unfold get_item_with. rewrite Hvar. rewrite (resolve_slice_missing a b s ND Ga Gb H). reflexivity.
  Qed.
  Theorem missing_bound_set a b s w :
    NoDup ls -> bound_given_or_nonempty a -> bound_given_or_nonempty b ->
    (exists x, a = Some x /\ pos x ls = None) \/ (start_pos ls a <> None /\ exists y, b = Some y /\ pos y ls = None) ->
    set_item_with lc st name (KSlice a b s) w = (st, Raise KeyError).
  Proof.
    intros ND Ga Gb H. unfold set_item_with. generalize (lookup name (c_vars st)). intros [s0|]; [|reflexivity].
    rewrite (resolve_slice_missing a b s ND Ga Gb H). reflexivity.
  Qed.

  (* --- read paths: attribute, name key, position (either sign), label, full label slice all view the same stored vector --- *)
  Theorem read_paths_agree :
    get_attr st name = Ret data /\ get_key st name = Ret data
    /\ (forall x p, pos x ls = Some p ->
          exists v, nth_error data p = Some v
            /\ get_item_with lc st name (KLabel x) = Ret (RScalar v)
            /\ get_pos st name (Z.of_nat p) = Ret v
            /\ get_pos st name (Z.of_nat p - Z.of_nat (length data)) = Ret v)
    /\ (NoDup ls -> ls <> [] -> get_item_with lc st name (KSlice None None None) = Ret (RArr data)).
  Proof.
    split; [unfold get_attr; rewrite Hvar; reflexivity|].
    split; [unfold get_key; rewrite Hvar; reflexivity|]. split.
    - intros x p Hp. destruct (label_get_exact x p Hp) as [v [E G]]. exists v.
      destruct (pos_Some _ _ _ Hp) as [_ Hlt].
      split; [exact E|]. split; [exact G|]. unfold get_pos, get_key. rewrite Hvar. simpl. fold data. split.
      + rewrite py_get_nat by lia. rewrite E. reflexivity.
      + unfold py_get. rewrite py_pos_neg by lia.
        replace (Z.to_nat (Z.of_nat p - Z.of_nat (length data) + Z.of_nat (length data))) with p by lia. rewrite E. reflexivity.
    - intros ND NE.
      assert (Hs : start_pos ls None = Some O) by (clear - NE; simpl; destruct ls; [congruence | reflexivity]).
      assert (He : stop_pos ls None = Some (length ls - 1)%nat) by (clear - NE; simpl; destruct ls; [congruence | reflexivity]).
      destruct (slice_get_exact None None None O (length ls - 1)%nat ND Hs He) as [G _]; [simpl; lia|].
      assert (Hn : (0 < length ls)%nat) by (clear - NE; destruct ls; [congruence | simpl; lia]).
      rewrite G. f_equal. f_equal. cbn [step_of]. rewrite <- Hlen. rewrite <- Hlen in Hn.
      change (Z.of_nat 0) with 0. rewrite full_slice_positions by lia. apply gather_all.
  Qed.
End Access.

(* ================= every write path, every read path ================= *)
Inductive wpath (V : Type) : Type :=
| WLabel (x : label) (v : V)                               (* obj[name, label] = v *)
| WSlice (a b : option label) (s : option Z) (w : operand V)   (* obj[name, a:b:s] = scalar or sequence *)
| WPos (i : Z) (v : V)                                     (* obj.name[i] = v  /  obj[name][i] = v *)
| WWhole (w : operand V) (new_id : Z).                     (* obj.name = scalar or sequence  /  obj[name] = ... *)
Arguments WLabel {V}. Arguments WSlice {V}. Arguments WPos {V}. Arguments WWhole {V}.

Definition do_write {V} (lc : label -> outcome loc) (st : cstate V) (name : string) (w : wpath V) : cstate V * outcome unit :=
  match w with
  | WLabel x v => set_item_with lc st name (KLabel x) (OScalar v)
  | WSlice a b s o => set_item_with lc st name (KSlice a b s) o
  | WPos i v => set_pos st name i v
  | WWhole o id => set_whole st name o id
  end.

Section WriteRead.
  Context {V : Type}.
  Variable lc : label -> outcome loc.
  Variable st : cstate V.
  Variable name : string.
  Variable sr : series V.
  Let ls := span_labels (c_span st).
  Let data := s_data sr.
  Hypothesis Hspec : locate_spec ls lc.
  Hypothesis Hvar : lookup name (c_vars st) = Some sr.
  Hypothesis Hlen : length data = length ls.

  Lemma assign_length (d : list V) ps w d' : assign d ps w = Ret d' -> length d' = length d.
  Proof.
    unfold assign. destruct w as [v|[|v [|v2 r]]]; intros H.
    - inversion H. apply scatter1_length.
    - destruct (Nat.eqb (length (@nil V)) (length ps)); inversion H. apply scatter_length.
    - inversion H. apply scatter1_length.
    - destruct (Nat.eqb (length (v :: v2 :: r)) (length ps)); inversion H. apply scatter_length.
  Qed.

  Lemma set_data_ok d' : length d' = length data ->
    let st' := set_data st name sr d' in
    c_span st' = c_span st /\ same_frame st st' name
    /\ exists sr', lookup name (c_vars st') = Some sr' /\ s_data sr' = d' /\ s_dtype sr' = s_dtype sr /\ s_id sr' = s_id sr.
  Proof.
    intros HL st'. split; [reflexivity|]. split; [apply set_data_frame|].
    exists (mkSeries (s_dtype sr) (s_id sr) d'). split; [apply set_data_lookup; exact Hvar|]. repeat split.
  Qed.

  (* a successful write through ANY path leaves a state of the same shape: same span, same frame, the
     variable still there with a vector of the span's length and the same dtype *)
  Theorem write_keeps_shape w st' :
    do_write lc st name w = (st', Ret tt) ->
    c_span st' = c_span st /\ same_frame st st' name
    /\ exists sr', lookup name (c_vars st') = Some sr' /\ length (s_data sr') = length ls /\ s_dtype sr' = s_dtype sr.
  Proof.
    assert (K : forall d', length d' = length data ->
              c_span (set_data st name sr d') = c_span st /\ same_frame st (set_data st name sr d') name
              /\ exists sr', lookup name (c_vars (set_data st name sr d')) = Some sr' /\ length (s_data sr') = length ls /\ s_dtype sr' = s_dtype sr).
    { intros d' HL. destruct (set_data_ok d' HL) as [A [B [sr' [C [D [E _]]]]]]. split; [exact A|]. split; [exact B|].
      exists sr'. split; [exact C|]. split; [rewrite D, HL; exact Hlen | exact E]. }
    destruct w as [x v|a b s o|i v|o id]; simpl; intros H.
    - unfold set_item_with in H. rewrite Hvar in H. destruct (lc x) as [l|e]; [|inversion H].
      destruct l as [i fl|i j].
      + fold data in H. destruct (py_set data i v) as [d|] eqn:E; inversion H; subst.
        apply K. unfold py_set in E. destruct (py_pos (length data) i); inversion E. apply upd_length.
      + fold data in H. simpl in H. inversion H; subst. apply K. apply scatter1_length.
    - unfold set_item_with in H. rewrite Hvar in H.
      destruct (resolve_slice_with lc (c_span st) a b s) as [[[i j] s']|e]; [|inversion H]. fold data in H.
      destruct (np_slice_positions (length data) i j s') as [ps|e]; simpl in H; [|inversion H].
      destruct (assign data ps o) as [d|e] eqn:E; inversion H; subst. apply K. eapply assign_length; eauto.
    - unfold set_pos in H. rewrite Hvar in H. fold data in H.
      destruct (py_set data i v) as [d|] eqn:E; inversion H; subst.
      apply K. unfold py_set in E. destruct (py_pos (length data) i); inversion E. apply upd_length.
    - unfold set_whole in H. rewrite Hvar in H. destruct o as [v|vs].
      + inversion H; subst. apply K. fold data. apply map_length.
      + fold ls in H. destruct (Nat.eqb (length vs) (length ls)) eqn:E; inversion H; subst. apply Nat.eqb_eq in E.
        simpl. split; [reflexivity|]. split.
        * unfold same_frame; simpl. repeat split; try reflexivity; [apply replace_keys|].
          intros k Hk. apply lookup_replace_other; exact Hk.
        * exists (mkSeries (s_dtype sr) id vs). split; [apply lookup_replace_same; congruence|]. split; [exact E | reflexivity].
  Qed.
End WriteRead.

(* write through any path, then read through every path: all reads return the one stored vector *)
Theorem write_then_read_any_path {V} (lc : label -> outcome loc) (st st' : cstate V) name sr w :
  locate_spec (span_labels (c_span st)) lc ->
  lookup name (c_vars st) = Some sr ->
  length (s_data sr) = length (span_labels (c_span st)) ->
  do_write lc st name w = (st', Ret tt) ->
  exists d' : list V,
    length d' = length (span_labels (c_span st))
    /\ get_attr st' name = Ret d' /\ get_key st' name = Ret d'
    /\ (forall x p, pos x (span_labels (c_span st)) = Some p ->
          exists v, nth_error d' p = Some v
            /\ get_item_with lc st' name (KLabel x) = Ret (RScalar v)
            /\ get_pos st' name (Z.of_nat p) = Ret v
            /\ get_pos st' name (Z.of_nat p - Z.of_nat (length d')) = Ret v)
    /\ (NoDup (span_labels (c_span st)) -> span_labels (c_span st) <> [] ->
          get_item_with lc st' name (KSlice None None None) = Ret (RArr d'))
    /\ same_frame st st' name.
Proof.
  intros Hspec Hvar Hlen Hw.
  destruct (write_keeps_shape lc st name sr Hvar Hlen w st' Hw) as [Hsp [Hfr [sr' [Hv' [Hl' _]]]]].
  exists (s_data sr'). split; [exact Hl'|].
  assert (Hspec' : locate_spec (span_labels (c_span st')) lc) by (rewrite Hsp; exact Hspec).
  assert (Hlen' : length (s_data sr') = length (span_labels (c_span st'))) by (rewrite Hsp; exact Hl').
  destruct (read_paths_agree lc st' name sr' Hspec' Hv' Hlen') as [R1 [R2 [R3 R4]]].
  rewrite Hsp in R3, R4.
  split; [exact R1|]. split; [exact R2|]. split; [exact R3|]. split; [exact R4 | exact Hfr].
Qed.

(* what each write path stores (the d' of the theorem above) *)
Theorem write_pos_effect {V} (st : cstate V) name sr i v p :
  lookup name (c_vars st) = Some sr -> py_pos (length (s_data sr)) i = Some p ->
  set_pos st name i v = (set_data st name sr (upd p v (s_data sr)), Ret tt).
Proof. intros Hv Hp. unfold set_pos, py_set. rewrite Hv, Hp. reflexivity. Qed.
Theorem write_pos_out_of_range {V} (st : cstate V) name sr i v :
  lookup name (c_vars st) = Some sr -> py_pos (length (s_data sr)) i = None ->
  set_pos st name i v = (st, Raise IndexError).
Proof. intros Hv Hp. unfold set_pos, py_set. rewrite Hv, Hp. reflexivity. Qed.

(* ================= label slices through eval() ================= *)
Lemma py_slice_open_start n b s : py_slice_positions n None b s = py_slice_positions n (Some 0) b s.
Proof. unfold py_slice_positions, py_slice_bounds. rewrite clip_id by lia. reflexivity. Qed.
Lemma py_slice_open_stop n a s : py_slice_positions n a None s = py_slice_positions n a (Some (Z.of_nat n)) s.
Proof. unfold py_slice_positions, py_slice_bounds. rewrite clip_id by lia. reflexivity. Qed.

Section EvalAgree.
  Context {V : Type}.
  Variable lc : label -> outcome loc.
  Variable st : cstate V.
  Variable name : string.
  Variable sr : series V.
  Let ls := span_labels (c_span st).
  Let data := s_data sr.
  Hypothesis Hspec : locate_spec ls lc.
  Hypothesis Hvar : lookup name (c_vars st) = Some sr.
  Hypothesis Hlen : length data = length ls.
  (* the lookup returns built-in ints (true of list.index, range.index, the repaired fallback; recorded for pandas) *)
  Hypothesis Hint : forall x i fl, lc x = Ret (LPos i fl) -> fl = true.

  Theorem eval_slice_agrees a b s pa pb :
    NoDup ls -> start_pos ls a = Some pa -> stop_pos ls b = Some pb -> 0 < s ->
    exists l, eval_slice_with lc st name a b s = Ret l
           /\ get_item_with lc st name (KSlice a b (Some s)) = Ret (RArr l).
  Proof.
    intros ND Ha Hb Hs.
    destruct (slice_get_exact lc st name sr Hspec Hvar Hlen a b (Some s) pa pb ND Ha Hb Hs) as [G _].
    fold data in G. simpl step_of in G. eexists. split; [|exact G].
    unfold eval_slice_with. rewrite Hvar. fold data.
    assert (EA : match a with None => Ret None | Some x => bind (lc x) (fun l => Ret (Some (loc_start l))) end
                 = Ret (match a with None => None | Some _ => Some (Z.of_nat pa) end)).
    { destruct a as [x|]; [|reflexivity]. simpl in Ha. pose proof (Hspec x) as S. fold ls in S. rewrite Ha in S.
      destruct S as [fl S]. rewrite S. reflexivity. }
    assert (EB : match b with
                 | None => Ret None
                 | Some x => bind (lc x) (fun l => Ret (Some (match l with LSlice _ j => j | LPos i true => i + 1 | LPos i false => i end)))
                 end = Ret (match b with None => None | Some _ => Some (Z.of_nat pb + 1) end)).
    { destruct b as [y|]; [|reflexivity]. simpl in Hb. pose proof (Hspec y) as S. fold ls in S. rewrite Hb in S.
      destruct S as [fl S]. rewrite (Hint y _ fl S) in S. rewrite S. reflexivity. }
    unfold eval_slice_bounds. rewrite EA. simpl. rewrite EB. simpl.
    replace (s <=? 0) with false by lia. f_equal. f_equal.
    destruct a as [x|], b as [y|]; try reflexivity.
    - apply stop_pos_open in Hb as [NE E]. rewrite py_slice_open_stop. subst pb. fold ls in Hlen.
      replace (Z.of_nat (length ls - 1) + 1) with (Z.of_nat (length data)); [reflexivity|].
      assert (0 < length ls)%nat by (clear - NE; destruct ls; [congruence | simpl; lia]). lia.
    - apply start_pos_open in Ha as [NE E]. subst pa. rewrite py_slice_open_start. reflexivity.
    - apply start_pos_open in Ha as [NE E]. apply stop_pos_open in Hb as [_ E2]. subst pa pb.
      rewrite py_slice_open_start, py_slice_open_stop.
      replace (Z.of_nat (length ls - 1) + 1) with (Z.of_nat (length data)); [reflexivity|].
      assert (0 < length ls)%nat by (clear - NE; destruct ls; [congruence | simpl; lia]). lia.
  Qed.
End EvalAgree.

(* ================= any locations, incl. slice-valued ones (pandas partial-string lookups) ================= *)
(* start = the start of the first location, stop = the stop of the second if it is a slice, its position + 1 otherwise *)
Theorem resolve_slice_general (lc : label -> outcome loc) (sp : span) (a b : label) (s : option Z) (la lb : loc) :
  lc a = Ret la -> lc b = Ret lb ->
  resolve_slice_with lc sp (Some a) (Some b) s
  = Ret (match la with LSlice i _ => i | LPos i _ => i end,
         match lb with LSlice _ j => j | LPos j _ => j + 1 end,
         match s with Some z => z | None => 1 end).
Proof. intros Ha Hb. unfold resolve_slice_with. simpl. rewrite Ha, Hb. simpl. destruct la, lb; reflexivity. Qed.

Theorem slice_valued_get {V} (lc : label -> outcome loc) (st : cstate V) (name : string) (sr : series V) (a b : label) (s : Z) (la lb : loc) :
  lookup name (c_vars st) = Some sr -> lc a = Ret la -> lc b = Ret lb -> 0 < s ->
  get_item_with lc st name (KSlice (Some a) (Some b) (Some s))
  = Ret (RArr (gather (s_data sr)
                (py_slice_positions (length (s_data sr))
                   (Some (match la with LSlice i _ => i | LPos i _ => i end))
                   (Some (match lb with LSlice _ j => j | LPos j _ => j + 1 end)) s))).
Proof.
  intros Hv Ha Hb Hs. unfold get_item_with. rewrite Hv. rewrite (resolve_slice_general lc (c_span st) a b (Some s) la lb Ha Hb).
  simpl. unfold np_slice_positions. replace (s =? 0) with false by lia. replace (0 <? s) with true by lia. reflexivity.
Qed.
(* a slice-valued location used as a plain label addresses the whole slice *)
Theorem slice_valued_label_get {V} (lc : label -> outcome loc) (st : cstate V) (name : string) (sr : series V) (x : label) (i j : Z) :
  lookup name (c_vars st) = Some sr -> lc x = Ret (LSlice i j) ->
  get_item_with lc st name (KLabel x) = Ret (RArr (gather (s_data sr) (py_slice_positions (length (s_data sr)) (Some i) (Some j) 1))).
Proof. intros Hv Hx. unfold get_item_with. rewrite Hv. simpl. rewrite Hx. reflexivity. Qed.
