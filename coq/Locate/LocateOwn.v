(* LocateOwn.v — the C10 theorems about the CONTAINER'S OWN lookup (get_item g st / set_item g st = the accessors with
   locate g (c_span st)), pointwise in the labels a key actually makes the container look up.

   The generic theorems of LocateFacts.v take `locate_spec ls lc`, which quantifies over ALL labels.  For a NumPy-array span the
   container's own lookup does NOT meet it (a tuple label is broadcast against a span of length 1 or 2: arr_tuple_label_aliases_refuted),
   so there the generic hypothesis cannot be discharged.  Here: (1) an access depends on the lookup only through the labels of its key
   (and the span's ends for open slices); (2) for every span with span_ok and every label with own_label_ok — for NumPy-array spans:
   every label that is not a tuple, and every tuple label unless the span has length 1 or 2 — the own lookup answers as the spec demands;
   (3) hence the end-to-end statements for get_item / set_item. *)
From Coq Require Import ZArith List Bool String Lia.
Import ListNotations.
Require Import PyBase Generated Locate LocateFacts.
Open Scope Z_scope.
Open Scope list_scope.
Local Notation length := List.length.

(* ---------- (1) an access uses the lookup only for the labels of its key ---------- *)
Definition key_labels (sp : span) (k : key) : list label :=
  match k with
  | KLabel x => [x]
  | KSlice a b _ =>
      (match a with Some x => [x] | None => match span_labels sp with [] => [] | x :: _ => [x] end end)
      ++ (match b with Some y => [y] | None => match rev (span_labels sp) with [] => [] | y :: _ => [y] end end)
  end.

Lemma resolve_slice_ext (lc lc' : label -> outcome loc) sp a b s :
  (forall x, In x (key_labels sp (KSlice a b s)) -> lc x = lc' x) ->
  resolve_slice_with lc sp a b s = resolve_slice_with lc' sp a b s.
Proof.
  intros H. unfold resolve_slice_with, span_first, span_last. unfold key_labels in H.
  set (fl := span_labels sp) in *. set (rl := rev fl) in *. clearbody rl. clearbody fl.
  destruct a as [x|]; destruct b as [y|]; destruct fl as [|x0 r0]; destruct rl as [|y0 r1]; simpl in *; try reflexivity;
    repeat match goal with
           | |- context [lc ?z] => rewrite (H z) by (simpl; tauto)
           end; reflexivity.
Qed.

Theorem get_item_with_ext {V} (lc lc' : label -> outcome loc) (st : cstate V) name k :
  (forall x, In x (key_labels (c_span st) k) -> lc x = lc' x) ->
  get_item_with lc st name k = get_item_with lc' st name k.
Proof.
  intros H. unfold get_item_with. destruct (lookup name (c_vars st)) as [sr0|]; [|reflexivity]. destruct k as [x|a b s].
  - rewrite (H x) by (left; reflexivity). reflexivity.
  - rewrite (resolve_slice_ext lc lc' (c_span st) a b s H). reflexivity.
Qed.
Theorem set_item_with_ext {V} (lc lc' : label -> outcome loc) (st : cstate V) name k w :
  (forall x, In x (key_labels (c_span st) k) -> lc x = lc' x) ->
  set_item_with lc st name k w = set_item_with lc' st name k w.
Proof.
  intros H. unfold set_item_with. destruct (lookup name (c_vars st)) as [sr0|]; [|reflexivity]. destruct k as [x|a b s].
  - rewrite (H x) by (left; reflexivity). reflexivity.
  - rewrite (resolve_slice_ext lc lc' (c_span st) a b s H). reflexivity.
Qed.

(* ---------- (2) the labels for which the own lookup of a NumPy-array span meets the spec ----------
   every label that is not a tuple; a tuple label that is no element of the span unless the span has length 1 or 2 (there the
   element-wise comparison broadcasts: the kept finding) *)
Definition arr_label_ok (ls : list label) (x : label) : Prop :=
  match x with
  | LPair _ _ => length ls <> 1%nat /\ length ls <> 2%nat /\ ~ In x ls
  | _ => True
  end.
Definition own_label_ok (sp : span) (x : label) : Prop := match sp with SArr ls => arr_label_ok ls x | _ => True end.

Lemma arr_eq_pair_long ls a b : length ls <> 1%nat -> length ls <> 2%nat -> arr_eq ls (LPair a b) = None.
Proof. destruct ls as [|y1 [|y2 [|y3 r]]]; simpl; intros H1 H2; try reflexivity; congruence. Qed.

Section Own.
  Variable g : list label -> label -> outcome loc.

  Theorem locate_arr_spec_wide ls x :
    NoDup ls -> arr_label_ok ls x ->
    match pos x ls with
    | Some p => locate g (SArr ls) x = Ret (LPos (Z.of_nat p) true)
    | None => locate g (SArr ls) x = Raise KeyError
    end.
  Proof.
    intros ND Hok. destruct x; try (apply (locate_arr_spec g ls _ ND); exact I).
    destruct Hok as [H1 [H2 H3]]. apply pos_None in H3. rewrite H3.
    rewrite locate_SArr. unfold fallback. rewrite (arr_eq_pair_long ls a b H1 H2). reflexivity.
  Qed.

  Theorem locate_own_spec sp x :
    span_ok g sp -> own_label_ok sp x ->
    match pos x (span_labels sp) with
    | Some p => exists fl, locate g sp x = Ret (LPos (Z.of_nat p) fl)
    | None => locate g sp x = Raise KeyError
    end.
  Proof.
    destruct sp as [ls|a s n|ls|ls]; simpl; intros Hs Hl.
    - exact (locate_list_spec g ls x).
    - exact (locate_range_spec g a s n Hs x).
    - pose proof (locate_arr_spec_wide ls x Hs Hl) as H. destruct (pos x ls); [exists true|]; exact H.
    - exact (locate_pandas_spec g ls Hs x).
  Qed.

  (* the bridge: a lookup meeting locate_spec for ALL labels that coincides with the own lookup on every admissible label *)
  Definition spec_lookup (ls : list label) (x : label) : outcome loc :=
    match pos x ls with Some p => Ret (LPos (Z.of_nat p) true) | None => Raise KeyError end.
  Definition arr_okb (ls : list label) (x : label) : bool :=
    match x with
    | LPair _ _ => negb (Nat.eqb (length ls) 1) && negb (Nat.eqb (length ls) 2) && (match pos x ls with None => true | Some _ => false end)
    | _ => true
    end.
  Lemma arr_okb_true ls x : arr_okb ls x = true <-> arr_label_ok ls x.
  Proof.
    destruct x; simpl; try tauto.
    rewrite !andb_true_iff, !negb_true_iff, !Nat.eqb_neq. split.
    - intros [[H1 H2] H3]. split; [exact H1|]. split; [exact H2|]. apply pos_None. destruct (pos (LPair a b) ls); [discriminate | reflexivity].
    - intros [H1 [H2 H3]]. apply pos_None in H3. rewrite H3. tauto.
  Qed.
  Definition bridge_lookup (sp : span) (x : label) : outcome loc :=
    match sp with
    | SArr ls => if arr_okb ls x then locate g sp x else spec_lookup ls x
    | _ => locate g sp x
    end.
  Theorem bridge_spec sp : span_ok g sp -> locate_spec (span_labels sp) (bridge_lookup sp).
  Proof.
    intros Hs x. destruct sp as [ls|a s n|ls|ls]; simpl.
    - exact (locate_list_spec g ls x).
    - exact (locate_range_spec g a s n Hs x).
    - destruct (arr_okb ls x) eqn:E.
      + apply arr_okb_true in E. exact (locate_own_spec (SArr ls) x Hs E).
      + unfold spec_lookup. destruct (pos x ls); [exists true|]; reflexivity.
    - exact (locate_pandas_spec g ls Hs x).
  Qed.
  Lemma bridge_agrees sp x : own_label_ok sp x -> bridge_lookup sp x = locate g sp x.
  Proof. destruct sp; simpl; try reflexivity. intros H. apply arr_okb_true in H. rewrite H. reflexivity. Qed.

  (* ---------- (3) end to end, for the container's own accessors ---------- *)
  Section Access.
    Context {V : Type}.
    Variable st : cstate V.
    Variable name : string.
    Variable sr : series V.
    Let sp := c_span st.
    Let ls := span_labels (c_span st).
    Hypothesis Hok : span_ok g (c_span st).
    Hypothesis Hvar : lookup name (c_vars st) = Some sr.
    Hypothesis Hlen : length (s_data sr) = length (span_labels (c_span st)).

    Lemma own_get_bridge k : (forall x, In x (key_labels (c_span st) k) -> own_label_ok (c_span st) x) ->
      get_item g st name k = get_item_with (bridge_lookup (c_span st)) st name k.
    Proof. intros H. unfold get_item. apply get_item_with_ext. intros x Hx. symmetry. apply bridge_agrees. exact (H x Hx). Qed.
    Lemma own_set_bridge k w : (forall x, In x (key_labels (c_span st) k) -> own_label_ok (c_span st) x) ->
      set_item g st name k w = set_item_with (bridge_lookup (c_span st)) st name k w.
    Proof. intros H. unfold set_item. apply set_item_with_ext. intros x Hx. symmetry. apply bridge_agrees. exact (H x Hx). Qed.

    Theorem own_label_get_exact x p :
      own_label_ok (c_span st) x -> pos x (span_labels (c_span st)) = Some p ->
      exists v, nth_error (s_data sr) p = Some v /\ get_item g st name (KLabel x) = Ret (RScalar v).
    Proof.
      intros Hl Hp. rewrite (own_get_bridge (KLabel x)) by (intros y [Hy|[]]; subst; exact Hl).
      exact (label_get_exact _ st name sr (bridge_spec _ Hok) Hvar Hlen x p Hp).
    Qed.
    Theorem own_label_set_exact x p v :
      own_label_ok (c_span st) x -> pos x (span_labels (c_span st)) = Some p ->
      set_item g st name (KLabel x) (OScalar v) = (set_data st name sr (upd p v (s_data sr)), Ret tt).
    Proof.
      intros Hl Hp. rewrite (own_set_bridge (KLabel x)) by (intros y [Hy|[]]; subst; exact Hl).
      exact (label_set_exact _ st name sr (bridge_spec _ Hok) Hvar Hlen x p v Hp).
    Qed.
    (* a label that is not in the span: KeyError, nothing read, nothing written — never another period *)
    Theorem own_missing_label x w :
      own_label_ok (c_span st) x -> pos x (span_labels (c_span st)) = None ->
      get_item g st name (KLabel x) = Raise KeyError /\ set_item g st name (KLabel x) w = (st, Raise KeyError).
    Proof.
      intros Hl Hp. rewrite (own_get_bridge (KLabel x)) by (intros y [Hy|[]]; subst; exact Hl).
      rewrite (own_set_bridge (KLabel x) w) by (intros y [Hy|[]]; subst; exact Hl). split.
      - exact (missing_label_get _ st name sr (bridge_spec _ Hok) Hvar x Hp).
      - exact (missing_label_set _ st name (bridge_spec _ Hok) x w Hp).
    Qed.

    Theorem own_slice_get_exact a b s pa pb :
      (forall x, In x (key_labels (c_span st) (KSlice a b s)) -> own_label_ok (c_span st) x) ->
      NoDup (span_labels (c_span st)) ->
      start_pos (span_labels (c_span st)) a = Some pa -> stop_pos (span_labels (c_span st)) b = Some pb -> 0 < step_of s ->
      let L := py_slice_positions (length (s_data sr)) (Some (Z.of_nat pa)) (Some (Z.of_nat pb + 1)) (step_of s) in
      get_item g st name (KSlice a b s) = Ret (RArr (gather (s_data sr) L))
      /\ (forall q, In q L <-> exists i : nat, Z.of_nat q = Z.of_nat pa + Z.of_nat i * step_of s /\ (q <= pb)%nat)
      /\ ((pb < pa)%nat -> L = []).
    Proof.
      intros Hl ND Ha Hb Hs L. rewrite (own_get_bridge (KSlice a b s) Hl).
      destruct (slice_get_exact _ st name sr (bridge_spec _ Hok) Hvar Hlen a b s pa pb ND Ha Hb Hs) as [H1 [_ [H3 [_ H5]]]].
      split; [exact H1|]. split; [exact H3 | exact H5].
    Qed.
    Theorem own_slice_set_exact a b s pa pb w d' :
      (forall x, In x (key_labels (c_span st) (KSlice a b s)) -> own_label_ok (c_span st) x) ->
      NoDup (span_labels (c_span st)) ->
      start_pos (span_labels (c_span st)) a = Some pa -> stop_pos (span_labels (c_span st)) b = Some pb -> 0 < step_of s ->
      assign (s_data sr) (py_slice_positions (length (s_data sr)) (Some (Z.of_nat pa)) (Some (Z.of_nat pb + 1)) (step_of s)) w = Ret d' ->
      set_item g st name (KSlice a b s) w = (set_data st name sr d', Ret tt).
    Proof.
      intros Hl ND Ha Hb Hs HA. rewrite (own_set_bridge (KSlice a b s) w Hl).
      exact (slice_set_exact _ st name sr (bridge_spec _ Hok) Hvar Hlen a b s pa pb w d' ND Ha Hb Hs HA).
    Qed.
    Theorem own_missing_bound a b s w :
      (forall x, In x (key_labels (c_span st) (KSlice a b s)) -> own_label_ok (c_span st) x) ->
      NoDup (span_labels (c_span st)) ->
      bound_given_or_nonempty st a -> bound_given_or_nonempty st b ->
      (exists x, a = Some x /\ pos x (span_labels (c_span st)) = None)
      \/ (start_pos (span_labels (c_span st)) a <> None /\ exists y, b = Some y /\ pos y (span_labels (c_span st)) = None) ->
      get_item g st name (KSlice a b s) = Raise KeyError /\ set_item g st name (KSlice a b s) w = (st, Raise KeyError).
    Proof.
      intros Hl ND Ga Gb H. rewrite (own_get_bridge (KSlice a b s) Hl). rewrite (own_set_bridge (KSlice a b s) w Hl). split.
      - exact (missing_bound_get _ st name sr (bridge_spec _ Hok) Hvar a b s ND Ga Gb H).
      - exact (missing_bound_set _ st name (bridge_spec _ Hok) a b s w ND Ga Gb H).
    Qed.
  End Access.
End Own.

(* the hypotheses are satisfiable on a NumPy-array span, also for a tuple label (span of length 3: no broadcasting) *)
Example own_arr_tuple_label_absent :
  get_item (fun _ _ => Raise KeyError) (mkC (SArr [LInt 2; LInt 5; LInt 7]) 0 [("X"%string, mkSeries DFloat 1 [10; 11; 12])] [] false) "X" (KLabel (LPair 2 3))
  = Raise (A := rd Z) KeyError.
Proof. vm_compute. reflexivity. Qed.
Example own_arr_label_ok_long : arr_label_ok [LInt 2; LInt 5; LInt 7] (LPair 2 3).
Proof. simpl. repeat split; try lia. intuition discriminate. Qed.
