(* LocateOwn.v — the C10 theorems about the CONTAINER'S OWN accessors get_item g st / set_item g st (= the accessors with the own
   lookup locate g (c_span st)).  Since fix 35fe7e2 (a tuple label is compared as one label against a NumPy-array span) the own
   lookup meets locate_spec for ALL labels on every span with span_ok (range step <> 0, NumPy-array span duplicate-free, pandas: get_loc
   meets the spec) — locate_meets_spec — so the generic theorems of LocateFacts.v instantiate directly; no condition on the labels. *)
From Coq Require Import ZArith List Bool String Lia.
Import ListNotations.
Require Import PyBase Generated Locate LocateFacts.
Open Scope Z_scope.
Open Scope list_scope.
Local Notation length := List.length.

(* an access uses the lookup only for the labels of its key (and the span's ends for open slices) *)
Definition key_labels (sp : span) (k : key) : list label :=
  match k with
  | KLabel x => [x]
  | KSlice a b _ =>
      (match a with Some x => [x] | None => match span_labels sp with [] => [] | x :: _ => [x] end end)
      ++ (match b with Some y => [y] | None => match rev (span_labels sp) with [] => [] | y :: _ => [y] end end)
  end.

Lemma resolve_slice_ext (lc lc' : label -> outcome loc) sp a b s :
  (forall x, In x (key_labels sp (KSlice a b s)) -> lc x = lc' x) ->
  resolve_slice_with lc sp a b s = resolve_slice_with lc' sp a b s.
Proof.
  intros H. unfold resolve_slice_with, span_first, span_last. unfold key_labels in H.
  set (fl := span_labels sp) in *. set (rl := rev fl) in *. clearbody rl. clearbody fl.
  destruct a as [x|]; destruct b as [y|]; destruct fl as [|x0 r0]; destruct rl as [|y0 r1]; simpl in *; try reflexivity;
    repeat match goal with
           | |- context [lc ?z] => rewrite (H z) by (simpl; tauto)
           end; reflexivity.
Qed.
Theorem get_item_with_ext {V} (lc lc' : label -> outcome loc) (st : cstate V) name k :
  (forall x, In x (key_labels (c_span st) k) -> lc x = lc' x) ->
  get_item_with lc st name k = get_item_with lc' st name k.
Proof.
  intros H. unfold get_item_with. destruct (lookup name (c_vars st)) as [sr0|]; [|reflexivity]. destruct k as [x|a b s].
  - rewrite (H x) by (left; reflexivity). reflexivity.
  - rewrite (resolve_slice_ext lc lc' (c_span st) a b s H). reflexivity.
Qed.
Theorem set_item_with_ext {V} (lc lc' : label -> outcome loc) (st : cstate V) name k w :
  (forall x, In x (key_labels (c_span st) k) -> lc x = lc' x) ->
  set_item_with lc st name k w = set_item_with lc' st name k w.
Proof.
  intros H. unfold set_item_with. destruct (lookup name (c_vars st)) as [sr0|]; [|reflexivity]. destruct k as [x|a b s].
  - rewrite (H x) by (left; reflexivity). reflexivity.
  - rewrite (resolve_slice_ext lc lc' (c_span st) a b s H). reflexivity.
Qed.

Section Own.
  Variable g : list label -> label -> outcome loc.
  Context {V : Type}.
  Variable st : cstate V.
  Variable name : string.
  Variable sr : series V.
  Hypothesis Hok : span_ok g (c_span st).
  Hypothesis Hvar : lookup name (c_vars st) = Some sr.
  Hypothesis Hlen : length (s_data sr) = length (span_labels (c_span st)).
  Let Hspec := locate_meets_spec g (c_span st) Hok.

  Theorem own_label_get_exact x p :
    pos x (span_labels (c_span st)) = Some p ->
    exists v, nth_error (s_data sr) p = Some v /\ get_item g st name (KLabel x) = Ret (RScalar v).
  Proof. exact (label_get_exact _ st name sr Hspec Hvar Hlen x p). Qed.
  Theorem own_label_set_exact x p v :
    pos x (span_labels (c_span st)) = Some p ->
    set_item g st name (KLabel x) (OScalar v) = (set_data st name sr (upd p v (s_data sr)), Ret tt).
  Proof. exact (label_set_exact _ st name sr Hspec Hvar Hlen x p v). Qed.
  (* a label that is not in the span: KeyError, nothing read, nothing written — never another period *)
  Theorem own_missing_label x w :
    pos x (span_labels (c_span st)) = None ->
    get_item g st name (KLabel x) = Raise KeyError /\ set_item g st name (KLabel x) w = (st, Raise KeyError).
  Proof.
    intros Hp. split; [exact (missing_label_get _ st name sr Hspec Hvar x Hp) | exact (missing_label_set _ st name Hspec x w Hp)].
  Qed.
  Theorem own_slice_get_exact a b s pa pb :
    NoDup (span_labels (c_span st)) ->
    start_pos (span_labels (c_span st)) a = Some pa -> stop_pos (span_labels (c_span st)) b = Some pb -> 0 < step_of s ->
    let L := py_slice_positions (length (s_data sr)) (Some (Z.of_nat pa)) (Some (Z.of_nat pb + 1)) (step_of s) in
    get_item g st name (KSlice a b s) = Ret (RArr (gather (s_data sr) L))
    /\ (forall q, In q L <-> exists i : nat, Z.of_nat q = Z.of_nat pa + Z.of_nat i * step_of s /\ (q <= pb)%nat)
    /\ ((pb < pa)%nat -> L = []).
  Proof.
    intros ND Ha Hb Hs L.
    destruct (slice_get_exact _ st name sr Hspec Hvar Hlen a b s pa pb ND Ha Hb Hs) as [H1 [_ [H3 [_ H5]]]].
    split; [exact H1|]. split; [exact H3 | exact H5].
  Qed.
  Theorem own_slice_set_exact a b s pa pb w d' :
    NoDup (span_labels (c_span st)) ->
    start_pos (span_labels (c_span st)) a = Some pa -> stop_pos (span_labels (c_span st)) b = Some pb -> 0 < step_of s ->
    assign (s_data sr) (py_slice_positions (length (s_data sr)) (Some (Z.of_nat pa)) (Some (Z.of_nat pb + 1)) (step_of s)) w = Ret d' ->
    set_item g st name (KSlice a b s) w = (set_data st name sr d', Ret tt).
  Proof. exact (slice_set_exact _ st name sr Hspec Hvar Hlen a b s pa pb w d'). Qed.
  Theorem own_missing_bound a b s w :
    NoDup (span_labels (c_span st)) ->
    bound_given_or_nonempty st a -> bound_given_or_nonempty st b ->
    (exists x, a = Some x /\ pos x (span_labels (c_span st)) = None)
    \/ (start_pos (span_labels (c_span st)) a <> None /\ exists y, b = Some y /\ pos y (span_labels (c_span st)) = None) ->
    get_item g st name (KSlice a b s) = Raise KeyError /\ set_item g st name (KSlice a b s) w = (st, Raise KeyError).
  Proof.
    intros ND Ga Gb H. split.
    - exact (missing_bound_get _ st name sr Hspec Hvar a b s ND Ga Gb H).
    - exact (missing_bound_set _ st name Hspec a b s w ND Ga Gb H).
  Qed.
  (* every write path of the container itself, every read path *)
  Theorem own_write_then_read_any_path st' w :
    do_write (locate g (c_span st)) st name w = (st', Ret tt) ->
    exists d' : list V,
      length d' = length (span_labels (c_span st))
      /\ get_attr st' name = Ret d' /\ get_key st' name = Ret d'
      /\ (forall x p, pos x (span_labels (c_span st)) = Some p ->
            exists v, nth_error d' p = Some v
              /\ get_item_with (locate g (c_span st)) st' name (KLabel x) = Ret (RScalar v)
              /\ get_pos st' name (Z.of_nat p) = Ret v
              /\ get_pos st' name (Z.of_nat p - Z.of_nat (length d')) = Ret v)
      /\ (NoDup (span_labels (c_span st)) -> span_labels (c_span st) <> [] ->
            get_item_with (locate g (c_span st)) st' name (KSlice None None None) = Ret (RArr d'))
      /\ same_frame st st' name.
  Proof. exact (write_then_read_any_path _ st st' name sr w Hspec Hvar Hlen). Qed.
End Own.

(* a tuple label on a NumPy-array span of length 2 (the case that used to alias period 0): simply absent *)
Example own_arr_tuple_label_absent :
  get_item (fun _ _ => Raise KeyError) (mkC (SArr [LInt 2; LInt 5]) 0 [("X"%string, mkSeries DFloat 1 [10; 11])] [] false) "X" (KLabel (LPair 2 3))
  = Raise (A := rd Z) KeyError.
Proof. vm_compute. reflexivity. Qed.
