(* LocateK.v — the in-Coq side of the correspondence check K_locate: one access on one container,
   run on the model with element type Z, compared with the observation of the real fsic.
   Definitions only. *)
From Coq Require Import ZArith List Bool String.
Import ListNotations.
Require Import PyBase Locate LocateIndex.
Open Scope Z_scope.

Inductive lop : Type :=
| OpGet (k : key)
| OpSet (k : key) (w : operand Z)
| OpEval (a b : option (string * option Z)) (s : Z)
| OpLocate (x : label)
| OpSetPos (i : Z) (v : Z)
| OpSetWhole (w : operand Z)
| OpGetN (name : string) (k : key)                    (* obj[name, key] for an arbitrary (unknown) name *)
| OpSetN (name : string) (k : key) (w : operand Z).

(* observation: outcome (scalar / array / nothing), X after the call, X read back label by label *)
(* o_same: the container still holds the SAME array object for X (element writes are in place; only a whole-series
   assignment of a sequence installs a new array) *)
Record lobs := mkLObs { o_out : outcome (rd Z); o_after : list Z; o_bylabel : list (outcome (rd Z)); o_same : bool }.
Record lcase := mkLCase {
  l_span : span; l_tbl : list (label * loc); l_in : list (label * bool);
  l_data : list Z; l_other : list Z; l_op : lop; l_obs : lobs }.

Definition exn_eqb (a b : exn) : bool :=
  match a, b with
  | ValueError, ValueError | IndexError, IndexError | KeyError, KeyError | AttributeError, AttributeError
  | TypeError, TypeError | NotImplementedError, NotImplementedError | DimensionError, DimensionError
  | OtherError, OtherError => true
  | _, _ => false
  end.
Fixpoint zlist_eqb (a b : list Z) : bool :=
  match a, b with [] , [] => true | x :: a', y :: b' => (x =? y) && zlist_eqb a' b' | _, _ => false end.
Definition rd_eqb (a b : rd Z) : bool :=
  match a, b with
  | RScalar x, RScalar y => x =? y
  | RArr x, RArr y => zlist_eqb x y
  | _, _ => false
  end.
Definition out_eqb (a b : outcome (rd Z)) : bool :=
  match a, b with
  | Ret x, Ret y => rd_eqb x y
  | Raise e, Raise f => exn_eqb e f
  | _, _ => false
  end.
Fixpoint outs_eqb (a b : list (outcome (rd Z))) : bool :=
  match a, b with [], [] => true | x :: a', y :: b' => out_eqb x y && outs_eqb a' b' | _, _ => false end.

Definition mk_state (c : lcase) : cstate Z :=
  mkC (l_span c) 0 [("X"%string, mkSeries DFloat 1 (l_data c)); ("Y"%string, mkSeries DFloat 2 (l_other c))] [] false.

Definition unit_out (o : outcome unit) : outcome (rd Z) := match o with Ret _ => Ret (RArr []) | Raise e => Raise e end.
Definition data_of (st : cstate Z) (name : string) : list Z :=
  match lookup name (c_vars st) with Some sr => s_data sr | None => [] end.
Definition id_of (st : cstate Z) (name : string) : Z :=
  match lookup name (c_vars st) with Some sr => s_id sr | None => -1 end.

Definition run_lop (c : lcase) : cstate Z * outcome (rd Z) :=
  let st := mk_state c in
  let gl := tbl_get_loc (l_tbl c) in
  let ct := tbl_contains (l_in c) in
  match l_op c with
  | OpGet k => (st, get_item gl st "X" k)
  | OpSet k w => let '(st', o) := set_item gl st "X" k w in (st', unit_out o)
  | OpEval a b s => (st, match eval_bt_slice gl ct st "X" a b s with Ret l => Ret (RArr l) | Raise e => Raise e end)
  | OpLocate x => (st, match locate gl (l_span c) x with
                       | Ret (LPos i fl) => Ret (RArr [0; i; if fl then 1 else 0])
                       | Ret (LSlice a b) => Ret (RArr [1; a; b])
                       | Raise e => Raise e end)
  | OpSetPos i v => let '(st', o) := set_pos st "X" i v in (st', unit_out o)
  | OpSetWhole w => let '(st', o) := set_whole st "X" w 3 in (st', unit_out o)
  | OpGetN n k => (st, get_item gl st n k)
  | OpSetN n k w => let '(st', o) := set_item gl st n k w in (st', unit_out o)
  end.

(* the regular-index MODEL of pandas' get_loc / `in` (LocateIndex.v) against the recorded answers: on a pandas span recognised
   as a period_range / fixed-frequency date_range, for every recorded label the model speaks about (not text, not a Timestamp
   in a PeriodIndex) the model's answer (exceptions as KeyError) and its membership test equal pandas' *)
Definition oloc_eqb (a b : outcome loc) : bool :=
  match a, b with
  | Ret (LPos i f), Ret (LPos j g) => (i =? j) && Bool.eqb f g
  | Ret (LSlice i j), Ret (LSlice i' j') => (i =? i') && (j =? j')
  | Raise e, Raise f => exn_eqb e f
  | _, _ => false
  end.
Definition pd_model_ok (c : lcase) : bool :=
  match l_span c with
  | SPandas ls =>
      match recognise ls with
      | Some (k, a, s) =>
          forallb (fun xb : label * bool =>
                     let x := fst xb in
                     negb (model_speaks k x)
                     || (oloc_eqb (to_KeyError (reg_get_loc k a s (List.length ls) x)) (to_KeyError (tbl_get_loc (l_tbl c) ls x))
                         && Bool.eqb (reg_contains k a s (List.length ls) x) (snd xb)))
                  (l_in c)
      | None =>
          (* any other pandas index: the plain model (position of the label), on duplicate-free indexes *)
          forallb (fun xb : label * bool =>
                     let x := fst xb in
                     negb (plain_speaks ls x)
                     || (oloc_eqb (to_KeyError (plain_get_loc ls x)) (to_KeyError (tbl_get_loc (l_tbl c) ls x))
                         && Bool.eqb (plain_contains ls x) (snd xb)))
                  (l_in c)
      end
  | _ => true
  end.

Definition check_lcase (c : lcase) : bool :=
  let '(st', o) := run_lop c in
  out_eqb o (o_out (l_obs c))
  && zlist_eqb (data_of st' "X") (o_after (l_obs c))
  && zlist_eqb (data_of st' "Y") (l_other c)
  && (match l_op c with
      | OpSetWhole _ => true           (* whole-series assignment: in place or a new array is not constrained by the property *)
      | _ => Bool.eqb (id_of st' "X" =? 1) (o_same (l_obs c))
      end)
  && pd_model_ok c
  && outs_eqb (map (fun l => get_item (tbl_get_loc (l_tbl c)) st' "X" (KLabel l)) (span_labels (l_span c)))
              (o_bylabel (l_obs c)).

Fixpoint lbad_indices (i : nat) (l : list lcase) : list nat :=
  match l with [] => [] | x :: r => if check_lcase x then lbad_indices (S i) r else i :: lbad_indices (S i) r end.

(* cases grouped by span (the harness binds the span, its tables and its data once per group): indices of the groups
   containing a disagreement *)
Fixpoint gbad_indices (i : nat) (l : list (list lcase)) : list nat :=
  match l with
  | [] => []
  | g :: r => match lbad_indices 0%nat g with [] => gbad_indices (S i) r | _ :: _ => i :: gbad_indices (S i) r end
  end.
