(* LocateIndexFacts.v — the regular-index model of pandas' get_loc meets locate_spec: for period_range / fixed-frequency
   date_range spans the C10 theorems hold without an oracle hypothesis about pandas. *)
From Coq Require Import ZArith List Bool String Lia FinFun.
Import ListNotations.
Require Import PyBase Generated Locate LocateFacts LocateIndex.
Open Scope Z_scope.
Open Scope list_scope.
Local Notation length := List.length.

Lemma mk_label_inj k a b : mk_label k a = mk_label k b -> a = b.
Proof. destruct k; simpl; intros H; inversion H; reflexivity. Qed.
Lemma code_of_mk k z : code_of k (mk_label k z) = Some z.
Proof. destruct k; simpl; [rewrite Z.eqb_refl|]; reflexivity. Qed.
Lemma code_of_Some k x z : code_of k x = Some z -> x = mk_label k z.
Proof.
  destruct k as [f|], x; simpl; try discriminate.
  - destruct (freq =? f) eqn:E; [|discriminate]. intros H. inversion H; subst. apply Z.eqb_eq in E. subst. reflexivity.
  - intros H. inversion H. reflexivity.
Qed.

(* the position of a coded label depends only on the codes, not on the (injective) constructor *)
Lemma pos_map_inj2 (f g : Z -> label) :
  (forall a b, f a = f b -> a = b) -> (forall a b, g a = g b -> a = b) ->
  forall z l, pos (f z) (map f l) = pos (g z) (map g l).
Proof.
  intros Hf Hg z l. induction l as [|c r IH]; simpl; [reflexivity|].
  assert (E : label_eqb (f c) (f z) = label_eqb (g c) (g z)).
  { destruct (Z.eq_dec c z) as [->|N]; [rewrite !label_eqb_refl; reflexivity|].
    assert (A : label_eqb (f c) (f z) = false) by (apply label_eqb_neq; intros H; apply N, Hf; exact H).
    assert (B : label_eqb (g c) (g z) = false) by (apply label_eqb_neq; intros H; apply N, Hg; exact H).
    rewrite A, B. reflexivity. }
  rewrite E, IH. reflexivity.
Qed.
Lemma pos_map_notin (f : Z -> label) x l : (forall c, f c <> x) -> pos x (map f l) = None.
Proof. intros H. apply pos_None. intros Hin. apply in_map_iff in Hin as [c [Hc _]]. exact (H c Hc). Qed.

Lemma range_labels_codes a s n : range_labels a s n = map LInt (reg_codes a s n).
Proof. unfold range_labels, reg_codes. rewrite map_map. reflexivity. Qed.
Lemma LInt_inj a b : LInt a = LInt b -> a = b.
Proof. intros H; inversion H; reflexivity. Qed.

Lemma pos_reg_labels k a s n x :
  pos x (reg_labels k a s n) = match code_of k x with Some z => pos (LInt z) (range_labels a s n) | None => None end.
Proof.
  unfold reg_labels. destruct (code_of k x) as [z|] eqn:E.
  - rewrite (code_of_Some k x z E). rewrite range_labels_codes.
    apply pos_map_inj2; [apply mk_label_inj | apply LInt_inj].
  - apply pos_map_notin. intros c Hc. subst x. rewrite code_of_mk in E. discriminate.
Qed.

(* ---------- the model meets locate_spec: every start, every non-zero step, every length, both kinds ---------- *)
Theorem reg_get_loc_spec k a s n : s <> 0 -> locate_spec (reg_labels k a s n) (reg_get_loc k a s n).
Proof.
  intros Hs x. rewrite pos_reg_labels. unfold reg_get_loc. destruct (code_of k x) as [z|]; [|reflexivity].
  rewrite (range_index_pos a s n (LInt z) Hs). destruct (pos (LInt z) (range_labels a s n)) as [p|]; simpl; [exists true|]; reflexivity.
Qed.

Lemma reg_labels_length k a s n : length (reg_labels k a s n) = n.
Proof. unfold reg_labels, reg_codes. rewrite !map_length. apply seq_length. Qed.
Lemma reg_labels_NoDup k a s n : s <> 0 -> NoDup (reg_labels k a s n).
Proof.
  intros Hs. unfold reg_labels. apply Injective_map_NoDup; [intros x y; apply mk_label_inj|].
  pose proof (range_labels_NoDup a s n Hs) as H. rewrite range_labels_codes in H. exact (NoDup_map_inv _ _ H).
Qed.
(* `in` of the model is membership *)
Lemma reg_contains_spec k a s n x : s <> 0 -> reg_contains k a s n x = match pos x (reg_labels k a s n) with Some _ => true | None => false end.
Proof.
  intros Hs. unfold reg_contains. pose proof (reg_get_loc_spec k a s n Hs x) as H.
  destruct (pos x (reg_labels k a s n)); [destruct H as [fl H]|]; rewrite H; reflexivity.
Qed.

(* the container's lookup on a pandas span whose get_loc is the model: unconditional *)
Theorem locate_regular_index k a s n :
  s <> 0 -> locate_spec (reg_labels k a s n) (locate (fun _ => reg_get_loc k a s n) (SPandas (reg_labels k a s n))).
Proof.
  intros Hs. apply locate_pandas_spec. intros x. pose proof (reg_get_loc_spec k a s n Hs x) as H.
  destruct (pos x (reg_labels k a s n)); [destruct H as [fl H]; exists fl|]; rewrite H; reflexivity.
Qed.

(* ---------- recognition is sound: a recognised list of labels IS the regular index with a positive step ---------- *)
Lemma labels_eqb_eq a b : labels_eqb a b = true -> a = b.
Proof.
  revert b. induction a as [|x r IH]; destruct b as [|y r']; simpl; try discriminate; [reflexivity|].
  intros H. apply andb_true_iff in H as [H1 H2]. apply label_eqb_eq in H1. rewrite H1, (IH _ H2). reflexivity.
Qed.
Lemma recognise_sound ls k a s : recognise ls = Some (k, a, s) -> 0 < s /\ ls = reg_labels k a s (length ls).
Proof.
  unfold recognise. destruct ls as [|x r]; [discriminate|]. destruct (kind_code x) as [[k0 a0]|]; [|discriminate].
  match goal with |- context [if ?c then _ else _] => destruct c eqn:E end; [|discriminate].
  intros H. inversion H; subst. apply andb_true_iff in E as [E1 E2]. split; [lia | apply labels_eqb_eq; exact E2].
Qed.
Theorem model_get_loc_spec fb ls :
  recognise ls <> None -> locate_spec ls (fun x => to_KeyError (model_get_loc fb ls x)).
Proof.
  intros H. unfold model_get_loc. destruct (recognise ls) as [[[k a] s]|] eqn:E; [|congruence].
  destruct (recognise_sound ls k a s E) as [Hs Hl]. intros x.
  assert (Hx := reg_get_loc_spec k a s (length ls) ltac:(lia) x). rewrite <- Hl in Hx.
  destruct (pos x ls); [destruct Hx as [fl Hx]; exists fl|]; rewrite Hx; reflexivity.
Qed.
(* so a recognised pandas span is `span_ok` for the C10 theorems, whatever the fallback oracle *)
Corollary recognised_span_ok fb ls : recognise ls <> None -> span_ok (model_get_loc fb) (SPandas ls).
Proof. exact (model_get_loc_spec fb ls). Qed.

(* recognition succeeds on the indexes it is meant for (a quarterly period_range, a daily date_range) *)
Example recognise_quarterly : recognise (reg_labels (IPer 2) 118 1 5) = Some (IPer 2, 118, 1).
Proof. vm_compute. reflexivity. Qed.
Example recognise_daily : recognise (reg_labels ITs 946512000000000000 86400000000000 4) = Some (ITs, 946512000000000000, 86400000000000).
Proof. vm_compute. reflexivity. Qed.
Example reg_get_loc_examples :
  reg_get_loc (IPer 2) 118 1 5 (LPer 2 120) = Ret (LPos 2 true) /\ reg_get_loc (IPer 2) 118 1 5 (LPer 2 117) = Raise KeyError
  /\ reg_get_loc (IPer 2) 118 1 5 (LPer 1 120) = Raise KeyError /\ reg_get_loc (IPer 2) 118 1 5 (LInt 120) = Raise KeyError
  /\ reg_get_loc ITs 100 10 4 (LTs 130) = Ret (LPos 3 true) /\ reg_get_loc ITs 100 10 4 (LTs 135) = Raise KeyError.
Proof. vm_compute. repeat split. Qed.

(* ---------- the plain-index model meets locate_spec for EVERY list of labels (first position) ---------- *)
Theorem plain_get_loc_spec ls : locate_spec ls (plain_get_loc ls).
Proof.
  intros x. unfold plain_get_loc. rewrite index_from_pos. destruct (pos x ls) as [p|]; simpl; [exists true; f_equal; f_equal; lia | reflexivity].
Qed.
Theorem plain_contains_spec ls x : plain_contains ls x = match pos x ls with Some _ => true | None => false end.
Proof. unfold plain_contains. rewrite index_from_pos. destruct (pos x ls); reflexivity. Qed.
Corollary plain_span_ok ls : span_ok (fun l => plain_get_loc l) (SPandas ls).
Proof.
  simpl. intros x. pose proof (plain_get_loc_spec ls x) as H.
  destruct (pos x ls); [destruct H as [fl H]; exists fl|]; rewrite H; reflexivity.
Qed.
