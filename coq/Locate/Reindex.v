(* Reindex.v — executable model of VectorContainer.reindex (fsic/core/containers.py 654-747),
   BaseModel.reindex (fsic/core/models.py 119-157) and the control flow of
   PandasIndexFeaturesMixin.reindex (fsic/extensions/model.py 17-134).  Definitions only.

   Arrays, mutable attribute values and object cells carry identity tags so that "the result
   shares nothing with the original" can be stated.  External behaviour enters as Section
   variables: pandas get_loc / __contains__, the conversion of a fill value to a dtype
   (bool()/int()/str() followed by np.full), and for the mixin Series.reindex and NumPy's
   casting assignment arr[:] = values. *)
From Coq Require Import ZArith List Bool String Ascii.
Import ListNotations.
Require Import PyBase Generated Locate.
Open Scope string_scope.
Open Scope Z_scope.
Open Scope list_scope.
Local Notation length := List.length.

(* floats that occur as data in the checks: k/2 (so integers and halves), NaN, +-inf *)
Inductive fl : Type := FNum (twice : Z) | FNan | FInf (neg : bool).
(* Python values used as fill values *)
Inductive pyval : Type := PNone | PBool (b : bool) | PInt (z : Z) | PFlt (f : fl) | PStr (s : string).
(* array cells: float64 / int64 / bool / <Uk / object holding a plain value / object holding a reference *)
Inductive cell : Type := CF (f : fl) | CI (z : Z) | CB (b : bool) | CS (s : string) | CV (v : pyval) | CO (id : Z).

Definition cst := cstate cell.

Fixpoint mem_name {A} (k : string) (l : list (string * A)) : bool :=
  match l with [] => false | (k', _) :: r => String.eqb k k' || mem_name k r end.

(* fill_values.get(name, fill_value) *)
Definition fill_for (fills : list (string * pyval)) (fill_value : pyval) (name : string) : pyval :=
  match lookup name fills with Some v => v | None => fill_value end.

(* copy.deepcopy of the attributes: mutable values get a new identity *)
Fixpoint copy_attrs (attrs : list (string * attr)) (next : Z) : list (string * attr) * Z :=
  match attrs with
  | [] => ([], next)
  | (k, AVal v) :: r => let '(r', n') := copy_attrs r next in ((k, AVal v) :: r', n')
  | (k, AList _ items) :: r => let '(r', n') := copy_attrs r (next + 1) in ((k, AList next items) :: r', n')
  end.

(* a cell without the identity of the object it refers to; object dtype *)
Definition erase (c : cell) : cell := match c with CO _ => CO 0 | _ => c end.
Definition is_obj (dt : dtype) : bool := match dt with DObj => true | _ => false end.

Section Reindex.
  Variable pd_get_loc : list label -> label -> outcome loc.
  Variable pd_contains : list label -> label -> bool.
  (* bool(value) / int(value) / str(value) as the dtype demands, then np.full(n, value, dtype):
     `cast n dt v` = the element every position of that array holds, or the exception raised on the way.
     The length n is an argument because NumPy converts the fill value to an element only when there is an
     element to fill: np.full(0, 'ab', dtype=float) is an empty array, np.full(1, 'ab', dtype=float) raises
     ValueError (for n = 0 the cell returned is never stored: repeat c 0 = []). *)
  Variable cast : nat -> dtype -> pyval -> outcome cell.

  (* lines 714-740: the dtype-aware default for None, otherwise the conversion *)
  Definition fill_cell (n : nat) (dt : dtype) (v : pyval) : outcome cell :=
    match v, dt with
    | PNone, DBool => Ret (CB false)
    | PNone, DInt => Ret (CI 0)
    | PNone, DStr _ => Ret (CS "")
    | _, _ => cast n dt v
    end.

  (* lines 694-697: positions[i] = locate(period) for the periods of the new span found in the old one *)
  Fixpoint build_positions (old : span) (i : nat) (new_labels : list label) : outcome (list (nat * loc)) :=
    match new_labels with
    | [] => Ret []
    | p :: r =>
        bind (span_contains pd_contains old p) (fun c =>
        if c then bind (locate pd_get_loc old p) (fun l =>
                  bind (build_positions old (S i) r) (fun m => Ret ((i, l) :: m)))
        else build_positions old (S i) r)
    end.

  (* lines 749-758: reindexed[name][new] = self[name][old] — since fix 28b2a9a `copy.deepcopy(self[name][old])` when the series
     has object dtype: a referenced object is copied (new identity, taken from the allocator `onext`), plain values (None, numbers,
     strings: immutable) are themselves.  A slice-valued location yields an array, which NumPy refuses to store in one element. *)
  Definition deep_cell (c : cell) (onext : Z) : cell * Z := match c with CO _ => (CO onext, onext + 1) | _ => (c, onext) end.
  Fixpoint copy_over (deep : bool) (new_data : list cell) (positions : list (nat * loc)) (old_data : list cell) (onext : Z)
    : outcome (list cell * Z) :=
    match positions with
    | [] => Ret (new_data, onext)
    | (i, LPos j _) :: r =>
        match py_get old_data j with
        | Some c => let '(c', n') := if deep then deep_cell c onext else (c, onext) in copy_over deep (upd i c' new_data) r old_data n'
        | None => Raise IndexError
        end
    | (_, LSlice _ _) :: _ => Raise ValueError
    end.

  (* the loop over reindexed.index: each variable gets a new array (identity next, next+1, ...); copies of referenced objects take
     their identities from a second counter *)
  Fixpoint reindex_vars (n : nat) (positions : list (nat * loc)) (fills : list (string * pyval)) (fv : pyval)
           (vars : list (string * series cell)) (next onext : Z) : outcome (list (string * series cell) * Z) :=
    match vars with
    | [] => Ret ([], onext)
    | (name, sr) :: r =>
        bind (fill_cell n (s_dtype sr) (fill_for fills fv name)) (fun c =>
        bind (copy_over (is_obj (s_dtype sr)) (repeat c n) positions (s_data sr) onext) (fun '(d, on1) =>
        bind (reindex_vars n positions fills fv r (next + 1) on1) (fun '(r', on2) =>
        Ret ((name, mkSeries (s_dtype sr) next d) :: r', on2))))
    end.

  (* VectorContainer.reindex.  new_span_id = identity of the span object passed by the caller (since fix af303e7 NOT adopted by
     the result: `reindexed.__dict__['span'] = copy.deepcopy(span)`), fresh = an identity not yet in use (the allocator): the
     result's span object is `fresh`, then the deep-copied attributes, the new arrays, the copies of referenced objects *)
  Definition reindex_M (st : cst) (new_span : span) (new_span_id : Z) (fill_value : pyval)
             (strict : option bool) (fills : list (string * pyval)) (fresh : Z) : outcome cst :=
    let strict' := match strict with None => c_strict st | Some b => b end in
    if strict' && existsb (fun kv => negb (mem_name (fst kv) (c_vars st))) fills then Raise KeyError
    else
      bind (build_positions (c_span st) 0 (span_labels new_span)) (fun positions =>
      let '(attrs', next) := copy_attrs (c_attrs st) (fresh + 1) in
      bind (reindex_vars (length (span_labels new_span)) positions fills fill_value (c_vars st) next
                         (next + Z.of_nat (length (c_vars st)))) (fun '(vars', _) =>
      Ret (mkC new_span fresh vars' attrs' (c_strict st)))).

  (* BaseModel.reindex: status '-' (SolutionStatus.UNSOLVED.value) and iterations -1 unless given *)
  Definition unsolved_value : string := nth 0 status_values "-".
  Definition with_model_defaults (fills : list (string * pyval)) : list (string * pyval) :=
    let f1 := if mem_name "status" fills then fills else fills ++ [("status", PStr unsolved_value)] in
    if mem_name "iterations" f1 then f1 else f1 ++ [("iterations", PInt (-1))].
  Definition model_reindex_M (st : cst) (new_span : span) (new_span_id : Z) (fill_value : pyval)
             (strict : option bool) (fills : list (string * pyval)) (fresh : Z) : outcome cst :=
    reindex_M st new_span new_span_id fill_value strict (with_model_defaults fills) fresh.

  (* BaseLinker.reindex (fsic/core/linkers.py 187-194): documented as not implemented — whatever the arguments *)
  Definition linker_reindex_M (st : cst) (new_span : span) (new_span_id : Z) (fill_value : pyval)
             (strict : option bool) (fills : list (string * pyval)) (fresh : Z) : outcome cst := Raise NotImplementedError.

  (* ---- PandasIndexFeaturesMixin.reindex ---- *)
  (* Series(self[name], index=self.span).reindex(index=span, method=m, fill_value=v).values
     (arguments: old span, dtype and data of self[name], new span, method, fill value) *)
  Variable series_reindex : span -> dtype -> list cell -> span -> option string -> pyval -> outcome (list cell).
  (* reindexed[name] = values  ->  arr[:] = values, cast to the series' dtype *)
  Variable assign_cast : dtype -> list cell -> outcome (list cell).

  Definition in_names (k : string) (l : list string) : bool := existsb (String.eqb k) l.
  (* the `methods` dictionary: later entries override earlier ones *)
  Definition method_for (backfill_ bfill_ pad_ ffill_ nearest_ : list string) (method : option string) (name : string) : option string :=
    if in_names name nearest_ then Some "nearest"
    else if in_names name ffill_ || in_names name pad_ then Some "ffill"
    else if in_names name bfill_ || in_names name backfill_ then Some "bfill"
    else method.

  (* the loop over reindexed.names; since fix 2658d81 a variable WITHOUT a fill method is skipped: the base class result (old values
     by label, dtype-aware fill values elsewhere) stands, pandas is consulted only where a method was asked for *)
  Fixpoint pandas_loop (orig : cst) (new_span : span) (mf : string -> option string) (fills : list (string * pyval)) (fv : pyval)
           (names : list string) (r : cst) : outcome cst :=
    match names with
    | [] => Ret r
    | name :: rest =>
        match mf name with
        | None => pandas_loop orig new_span mf fills fv rest r
        | Some m =>
            match lookup name (c_vars orig), lookup name (c_vars r) with
            | Some so, Some sn =>
                bind (series_reindex (c_span orig) (s_dtype so) (s_data so) new_span (Some m) (fill_for fills fv name)) (fun vals =>
                bind (assign_cast (s_dtype sn) vals) (fun d =>
                pandas_loop orig new_span mf fills fv rest (set_data r name sn d)))
            | _, _ => Raise KeyError
            end
        end
    end.
  (* since fix 2658d81: the strict test compares the keywords with `index` (all variables, incl. status / iterations), and the base
     class reindex receives fill_value, strict and the per-variable keywords *)
  Definition pandas_reindex_M (st : cst) (names : list string) (new_span : span) (new_span_id : Z)
             (method : option string) (fill_value : pyval) (strict : option bool) (fills : list (string * pyval))
             (backfill_ bfill_ pad_ ffill_ nearest_ : list string) (fresh : Z) : outcome cst :=
    let strict' := match strict with None => c_strict st | Some b => b end in
    if strict' && existsb (fun kv => negb (mem_name (fst kv) (c_vars st))) fills then Raise KeyError
    else
      bind (model_reindex_M st new_span new_span_id fill_value strict fills fresh) (fun r =>
      pandas_loop st new_span (method_for backfill_ bfill_ pad_ ffill_ nearest_ method) fills fill_value names r).
End Reindex.

(* ---- the conversion table used by the correspondence check (CPython / NumPy behaviour, modelled on a
   fixed domain: ints within int64, floats k/2 with |k/2| < 1e15, strings of the generator's palette) ---- *)
Definition fl_truthy (f : fl) : bool := match f with FNum t => negb (t =? 0) | _ => true end.
Definition py_truthy (v : pyval) : bool :=
  match v with
  | PNone => false | PBool b => b | PInt z => negb (z =? 0) | PFlt f => fl_truthy f
  | PStr s => negb (String.eqb s "")
  end.

(* decimal rendering / parsing of ints (plain digits with an optional leading minus) *)
Fixpoint digits_of (fuel : nat) (n : Z) (acc : string) : string :=
  match fuel with
  | O => acc
  | S f => let acc' := String (ascii_of_nat (48 + Z.to_nat (n mod 10))) acc in
           if n / 10 =? 0 then acc' else digits_of f (n / 10) acc'
  end.
Definition str_of_Z (z : Z) : string :=
  if z <? 0 then String "-" (digits_of 80 (- z) "") else digits_of 80 z "".
Fixpoint parse_digits (s : string) (acc : Z) : option Z :=
  match s with
  | EmptyString => Some acc
  | String c r => let k := Z.of_nat (nat_of_ascii c) in
                  if (48 <=? k) && (k <=? 57) then parse_digits r (acc * 10 + (k - 48)) else None
  end.
Definition int_of_str (s : string) : option Z :=
  match s with
  | EmptyString => None
  | String "-" EmptyString => None
  | String "-" r => option_map Z.opp (parse_digits r 0)
  | _ => parse_digits s 0
  end.
Definition str_of_fl (f : fl) : string :=
  match f with
  | FNan => "nan"
  | FInf false => "inf"
  | FInf true => "-inf"
  | FNum t => let a := Z.abs t in
              (if t <? 0 then "-" else "") ++ str_of_Z (a / 2) ++ (if a mod 2 =? 0 then ".0" else ".5")
  end.
Definition py_str (v : pyval) : string :=
  match v with
  | PNone => "None" | PBool true => "True" | PBool false => "False"
  | PInt z => str_of_Z z | PFlt f => str_of_fl f | PStr s => s
  end.
Definition truncate (w : nat) (s : string) : string := substring 0 w s.
Definition int64_ok (z : Z) : bool := (- 9223372036854775808 <=? z) && (z <=? 9223372036854775807).

Definition cast_tbl (n : nat) (dt : dtype) (v : pyval) : outcome cell :=
  match dt with
  | DBool => Ret (CB (py_truthy v))
  | DInt =>
      match v with
      | PNone => Raise TypeError
      | PBool b => Ret (CI (if b then 1 else 0))
      | PInt z => if int64_ok z then Ret (CI z) else Raise OverflowError
      | PFlt (FNum t) => Ret (CI (Z.quot t 2))
      | PFlt FNan => Raise ValueError
      | PFlt (FInf _) => Raise OverflowError
      | PStr s => match int_of_str s with Some z => Ret (CI z) | None => Raise ValueError end
      end
  | DStr w => Ret (CS (truncate w (py_str v)))
  | DFloat =>
      match v with
      | PNone => Ret (CF FNan)
      | PBool b => Ret (CF (FNum (if b then 2 else 0)))
      | PInt z => Ret (CF (FNum (2 * z)))
      | PFlt f => Ret (CF f)
      | PStr s => match int_of_str s with
                  | Some z => Ret (CF (FNum (2 * z)))
                  | None => match n with O => Ret (CF FNan) | S _ => Raise ValueError end   (* no element, no conversion *)
                  end
      end
  | DObj => Ret (CV v)
  end.
