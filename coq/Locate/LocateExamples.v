(* LocateExamples.v — concrete instances (hypotheses of the C10 theorems are satisfiable, non-trivially)
   and refutation witnesses for the guards the theorems carry. *)
From Coq Require Import ZArith List Bool String Lia.
Import ListNotations.
Require Import PyBase Generated Locate LocateFacts.
Open Scope string_scope.
Open Scope Z_scope.
Open Scope list_scope.

Definition no_pandas : list label -> label -> outcome loc := fun _ _ => Raise KeyError.
Definition no_contains : list label -> label -> bool := fun _ _ => false.

Definition ex_state (sp : span) : cstate Z :=
  mkC sp 0 [("X", mkSeries DFloat 1 [10; 11; 12; 13; 14]); ("Y", mkSeries DFloat 2 [50; 51; 52; 53; 54])] [] false.
Definition ex_range := SRange 2000 1 5.
Definition ex_strs := SList [LStr "a"; LStr "b"; LStr "c"; LStr "d"; LStr "e"].
Definition ex_arr := SArr [LInt 5; LInt 6; LInt 7; LInt 8; LInt 9].
(* a quarterly PeriodIndex 1999Q3..2000Q3 with the answers pandas gives, incl. the partial strings '1999', '2000' *)
Definition ex_q := SPandas [LPer 2 118; LPer 2 119; LPer 2 120; LPer 2 121; LPer 2 122].
Definition ex_q_tbl : list (label * loc) :=
  [(LPer 2 118, LPos 0 true); (LPer 2 119, LPos 1 true); (LPer 2 120, LPos 2 true); (LPer 2 121, LPos 3 true);
   (LPer 2 122, LPos 4 true); (LStr "1999", LSlice 0 2); (LStr "2000", LSlice 2 5)].

(* --- the hypotheses of the theorems hold for ordinary spans --- *)
Example ex_span_ok_range : span_ok no_pandas ex_range.
Proof. simpl. lia. Qed.
Example ex_span_ok_arr : span_ok no_pandas ex_arr.
Proof. simpl. repeat constructor; simpl; intuition discriminate. Qed.
(* the answers for the index's own labels (an Index that does not parse strings answers like this for every label) *)
Definition ex_q_tbl_plain : list (label * loc) := firstn 5 ex_q_tbl.
Example ex_span_ok_pandas : span_ok (tbl_get_loc ex_q_tbl_plain) ex_q.
Proof. exact (enum_tbl_spec [LPer 2 118; LPer 2 119; LPer 2 120; LPer 2 121; LPer 2 122]). Qed.

(* --- reads --- *)
Example ex_get_label : get_item no_pandas (ex_state ex_range) "X" (KLabel (LInt 2003)) = Ret (RScalar 13).
Proof. vm_compute. reflexivity. Qed.
Example ex_get_slice : get_item no_pandas (ex_state ex_range) "X" (KSlice (Some (LInt 2001)) (Some (LInt 2004)) (Some 2)) = Ret (RArr [11; 13]).
Proof. vm_compute. reflexivity. Qed.
Example ex_get_slice_reversed : get_item no_pandas (ex_state ex_strs) "X" (KSlice (Some (LStr "d")) (Some (LStr "b")) None) = Ret (RArr []).
Proof. vm_compute. reflexivity. Qed.
Example ex_get_slice_open : get_item no_pandas (ex_state ex_arr) "X" (KSlice None (Some (LInt 7)) None) = Ret (RArr [10; 11; 12]).
Proof. vm_compute. reflexivity. Qed.
Example ex_get_absent : get_item no_pandas (ex_state ex_arr) "X" (KLabel (LInt 4)) = Raise KeyError.
Proof. vm_compute. reflexivity. Qed.
Example ex_negative_label_does_not_wrap : get_item no_pandas (ex_state (SList [LInt 0; LInt 1; LInt 2; LInt 3; LInt 4])) "X" (KLabel (LInt (-1))) = Raise KeyError.
Proof. vm_compute. reflexivity. Qed.
(* --- writes --- *)
Example ex_set_slice :
  set_item no_pandas (ex_state ex_strs) "X" (KSlice (Some (LStr "a")) (Some (LStr "e")) (Some 2)) (OScalar 99)
  = (mkC ex_strs 0 [("X", mkSeries DFloat 1 [99; 11; 99; 13; 99]); ("Y", mkSeries DFloat 2 [50; 51; 52; 53; 54])] [] false, Ret tt).
Proof. vm_compute. reflexivity. Qed.
Example ex_set_absent_no_change :
  set_item no_pandas (ex_state ex_strs) "X" (KSlice (Some (LStr "a")) (Some (LStr "zz")) None) (OScalar 99) = (ex_state ex_strs, Raise KeyError).
Proof. vm_compute. reflexivity. Qed.

(* --- slice-valued locations (pandas partial strings): start of the first, stop of the second, no +1 --- *)
Example ex_partial_string_label :
  get_item (tbl_get_loc ex_q_tbl) (ex_state ex_q) "X" (KLabel (LStr "2000")) = Ret (RArr [12; 13; 14]).
Proof. vm_compute. reflexivity. Qed.
Example ex_partial_string_slice :
  get_item (tbl_get_loc ex_q_tbl) (ex_state ex_q) "X" (KSlice (Some (LStr "1999")) (Some (LStr "2000")) (Some 2)) = Ret (RArr [10; 12; 14]).
Proof. vm_compute. reflexivity. Qed.
Example ex_partial_string_stop_only :
  get_item (tbl_get_loc ex_q_tbl) (ex_state ex_q) "X" (KSlice (Some (LPer 2 119)) (Some (LStr "1999")) None) = Ret (RArr [11]).
Proof. vm_compute. reflexivity. Qed.

(* --- refutations: why the theorems carry their guards --- *)
(* since fix 35fe7e2 a tuple label on a NumPy-array span is ONE label: absent unless it is an element — also on spans of length 1
   and 2, where it used to be broadcast (alias period 0 / IndexError) *)
Theorem arr_tuple_label_absent :
  forall g ls a b, NoDup ls -> ~ In (LPair a b) ls -> locate g (SArr ls) (LPair a b) = Raise KeyError.
Proof.
  intros g ls a b ND Hn. rewrite locate_SArr. unfold fallback, arr_eq.
  replace (map (fun y => label_eqb (obj_cast y) (LPair a b)) ls) with (map (fun y => label_eqb y (LPair a b)) ls)
    by (apply map_ext; intros y; destruct y; reflexivity).
  rewrite (true_positions_nodup 0 (LPair a b) ls ND). apply pos_None in Hn. rewrite Hn. reflexivity.
Qed.

(* ---------- KEPT FINDING: a NumPy datetime64[ns] array span cannot be addressed by its own labels ----------
   The fallback lookup compares against np.asarray(span, dtype=object), which holds the nanoseconds as Python ints: a present label
   is answered KeyError (so are open slices, which look up the span's ends), while the INTEGER of the same nanoseconds finds the period. *)
Definition ex_ns_arr := SArr [LTs 946512000000000000; LTs 946598400000000000; LTs 946684800000000000].
Theorem arr_datetime64ns_present_label_refuted :
  exists ls x, NoDup ls /\ In x ls /\ forall g, locate g (SArr ls) x = Raise KeyError.
Proof.
  exists [LTs 946512000000000000; LTs 946598400000000000], (LTs 946598400000000000).
  split; [repeat constructor; simpl; intuition discriminate|]. split; [simpl; tauto|]. intros g. apply locate_arr_ns_label.
Qed.
Example ex_ns_arr_open_slice : get_item no_pandas (mkC ex_ns_arr 0 [("X", mkSeries DFloat 1 [10; 11; 12])] [] false) "X" (KSlice None None None) = Raise (A := rd Z) KeyError.
Proof. vm_compute. reflexivity. Qed.
Example ex_ns_arr_int_label_aliases :
  get_item no_pandas (mkC ex_ns_arr 0 [("X", mkSeries DFloat 1 [10; 11; 12])] [] false) "X" (KLabel (LInt 946598400000000000)) = Ret (RScalar 11).
Proof. vm_compute. reflexivity. Qed.
(* the guard obj_stable of span_ok excludes exactly this class *)
Example ex_ns_arr_not_stable : ~ obj_stable [LTs 946512000000000000].
Proof. intros H. inversion H as [|? ? E _]. discriminate. Qed.
Example ex_arr_tuple_label_len2 : locate no_pandas (SArr [LInt 2; LInt 5]) (LPair 2 3) = Raise KeyError.
Proof. vm_compute. reflexivity. Qed.
Example ex_arr_tuple_label_len1 : get_item no_pandas (mkC (SArr [LInt 5]) 0 [("X", mkSeries DFloat 1 [10])] [] false) "X" (KLabel (LPair 2 5)) = Raise (A := rd Z) KeyError.
Proof. vm_compute. reflexivity. Qed.
(* duplicates: the open stop of a slice is the FIRST occurrence of the last label, not the end of the span *)
Theorem dup_span_open_slice_refuted :
  exists sp, get_item no_pandas (ex_state sp) "X" (KSlice None None None) <> Ret (RArr [10; 11; 12; 13; 14]).
Proof. exists (SList [LInt 1; LInt 2; LInt 3; LInt 4; LInt 1]). vm_compute. discriminate. Qed.
(* duplicates in a NumPy span: KeyError even though the label is there *)
Example ex_dup_arr_KeyError : locate no_pandas (SArr [LInt 1; LInt 2; LInt 1]) (LInt 1) = Raise KeyError.
Proof. vm_compute. reflexivity. Qed.
(* an empty span has no ends: an open slice raises IndexError, before any label is looked up *)
Example ex_empty_span_open_slice :
  get_item no_pandas (mkC (SList []) 0 [("X", mkSeries DFloat 1 (@nil Z))] [] false) "X" (KSlice (Some (LInt 3)) None None) = Raise IndexError.
Proof. vm_compute. reflexivity. Qed.

(* --- eval(): the stop is made inclusive only for built-in ints.  With a lookup that answers numpy.int64
   (the fallback before fix a094259) the stop label is excluded; with the repaired lookup it is included. --- *)
Definition np_int64_lookup (ls : list label) : label -> outcome loc :=
  fun x => match index_from 0 x ls with Some i => Ret (LPos i false) | None => Raise KeyError end.
Example ex_eval_nonint_stop_exclusive :
  eval_slice_with (np_int64_lookup [LStr "a"; LStr "b"; LStr "c"; LStr "d"; LStr "e"]) (ex_state ex_strs) "X" (Some (LStr "b")) (Some (LStr "d")) 1 = Ret [11; 12].
Proof. vm_compute. reflexivity. Qed.
Example ex_eval_int_stop_inclusive :
  eval_slice no_pandas (ex_state (SArr [LStr "a"; LStr "b"; LStr "c"; LStr "d"; LStr "e"])) "X" (Some (LStr "b")) (Some (LStr "d")) 1 = Ret [11; 12; 13].
Proof. vm_compute. reflexivity. Qed.
Example ex_eval_backticks_int_cast :
  eval_bt_slice no_pandas no_contains (ex_state ex_range) "X" (Some ("2001", Some 2001)) None 2 = Ret [11; 13].
Proof. vm_compute. reflexivity. Qed.

(* --- negative steps and step 0 (outside the property, inside the model) --- *)
Example ex_negative_step : get_item no_pandas (ex_state ex_range) "X" (KSlice (Some (LInt 2003)) (Some (LInt 2000)) (Some (-1))) = Ret (RArr [13; 12]).
Proof. vm_compute. reflexivity. Qed.
Example ex_zero_step : get_item no_pandas (ex_state ex_range) "X" (KSlice None None (Some 0)) = Raise ValueError.
Proof. vm_compute. reflexivity. Qed.
