(* Tracer.v — executable model of fsic.extensions.model.Trace / TracerMixin
   (fsic/extensions/model.py:137-200, 407-612).  Definitions only.

   The mixin is a *wrapper of oracles*: TracerMixin.solve_t stores a 'start' snapshot and then runs
   BaseModel.solve_t on the same instance, whose hooks (solve_t_before / _evaluate / solve_t_after) are now the
   mixin's wrappers around the user's ones.  BaseModel.solve_t is Solver.solve_t_M; "the same code run on an
   instance that carries one more component and whose hooks may touch it" is solve_t_E below (section Ext,
   generic in the extra component T).  TracerFacts.solve_t_E_unit proves that solve_t_E without an extra
   component IS Solver.solve_t_M, for every oracle.  The inner (user) oracles keep the type Solver.hook: they
   receive the variable store only, so they can neither read nor write the trace component, and they do not
   see the `trace=` / `reset=` keywords. *)
From Coq Require Import ZArith List Bool.
Import ListNotations.
Require Import PyBase Solver.
Open Scope Z_scope.

(* labels of the snapshots: 'start', 'before', the iteration number (0 = just before the first pass), 'end';
   LUser n = any other label a user hands to the public trace_t / trace_period (labels are `Any`) *)
Inductive tlabel : Type := LStart | LBefore | LIter (k : nat) | LEnd | LUser (n : nat).

(* the `trace=` keyword as passed: None, a bool, one name, a list of names (a name = row number in `names`;
   a row number beyond the store is a name the container does not know) *)
Inductive targ : Type := TNone | TFlag (b : bool) | TName (x : nat) | TList (l : list nat).

(* `if trace:` *)
Definition truthy (a : targ) : bool :=
  match a with
  | TNone => false
  | TFlag b => b
  | TName _ => true                       (* a non-empty str *)
  | TList l => match l with [] => false | _ => true end
  end.

(* class-level TRACE_VARIABLES (None = all variables) *)
Record tcfg := mkTCfg { trace_variables : option (list nat) }.

(* exception classes that trace_t can raise, as the tags the harness uses for a chained cause *)
Definition cause_tag (e : exn) : Z :=
  match e with IndexError => 2 | KeyError => 11 | ValueError => 13 | _ => 99 end.

Section Tracer.
  Variable num : Type.
  Variables (sub : num -> num -> num) (absf : num -> num) (ltb : num -> num -> bool)
            (isfin : num -> bool) (zero : num).

  Notation vals := (vals num).
  Notation opts := (opts num).
  Notation mstate := (mstate num).
  Notation hook := (hook num).
  Notation lres := (lres num).

  (* ------------------------------------------------------------------ Trace *)
  (* names, index (labels), values: the list of stored columns (numpy: N x I array; [] = the initial
     np.array([]) of shape (0,), the only shape for which is_empty() holds) *)
  Record trace := mkTrace { tr_names : list nat; tr_index : list tlabel; tr_values : list (list num) }.
  Definition traces := list trace.             (* one per period: the object array self._trace *)
  Definition empty_trace : trace := mkTrace [] [] [].     (* Trace([]) *)
  Definition is_empty (x : trace) : bool := match tr_values x with [] => true | _ :: _ => false end.
  (* list(current.names) != names *)
  Fixpoint names_eqb (a b : list nat) : bool :=
    match a, b with
    | [], [] => true
    | x :: a', y :: b' => Nat.eqb x y && names_eqb a' b'
    | _, _ => false
    end.
  (* trace_t starts a FRESH Trace for the period when the existing one is empty, when reset=True, or (fix 7d04ae5) when it
     was recorded for other variable names than the ones traced now — one array cannot hold both sets *)
  Definition afresh (old : trace) (reset : bool) (names : list nat) : bool :=
    is_empty old || reset || negb (names_eqb (tr_names old) names).

  (* Trace.append(label, values): the label is appended to `index` BEFORE np.hstack may raise ValueError
     (number of rows differs), so a failed append leaves one label more than there are columns *)
  Definition append_trace (x : trace) (lab : tlabel) (res : list num) : trace * option exn :=
    match tr_values x with
    | [] => (mkTrace (tr_names x) (tr_index x ++ [lab]) [res], None)
    | c :: _ =>
        if Nat.eqb (length c) (length res)
        then (mkTrace (tr_names x) (tr_index x ++ [lab]) (tr_values x ++ [res]), None)
        else (mkTrace (tr_names x) (tr_index x ++ [lab]) (tr_values x), Some ValueError)
    end.

  (* Trace.to_dataframe(): DataFrame(values.T, index=index, columns=names) — an empty Trace gives an empty frame; pandas
     raises ValueError unless there is one label per stored column and one name per row of every column.  The frame is
     returned as (row labels, column names, rows = the snapshots). *)
  Definition wf_trace (x : trace) : bool :=
    Nat.eqb (length (tr_index x)) (length (tr_values x))
    && forallb (fun c => Nat.eqb (length c) (length (tr_names x))) (tr_values x).
  Definition to_dataframe (x : trace) : outcome (list tlabel * list nat * list (list num)) :=
    if is_empty x then Ret ([], [], [])
    else if wf_trace x then Ret (tr_index x, tr_names x, tr_values x)
    else Raise ValueError.

  (* trace_t's choice of names: str -> [str]; Sequence -> itself; otherwise TRACE_VARIABLES or all names *)
  Definition names_of (cfg : tcfg) (nvars : nat) (a : targ) : list nat :=
    match a with
    | TName x => [x]
    | TList l => l
    | _ => match trace_variables cfg with Some l => l | None => seq 0 nvars end
    end.

  (* np.array([[self[x][t]] for x in names]): names are looked up in order; unknown name -> KeyError,
     then [t] on that series -> IndexError when t is outside the span (negative t wraps once) *)
  Fixpoint gather (v : vals) (t : Z) (names : list nat) : list num + exn :=
    match names with
    | [] => inl []
    | x :: r =>
        match nth_error v x with
        | None => inr KeyError
        | Some row =>
            match py_get row t with
            | None => inr IndexError
            | Some y => match gather v t r with inl ys => inl (y :: ys) | inr e => inr e end
            end
        end
    end.

  Definition trace_t (cfg : tcfg) (t : Z) (lab : tlabel) (a : targ) (reset : bool) (v : vals) (tr : traces)
    : traces * option exn :=
    let names := names_of cfg (length v) a in
    match gather v t names with
    | inr e => (tr, Some e)
    | inl res =>
        match py_pos (length tr) t with            (* self['trace'][t] *)
        | None => (tr, Some IndexError)
        | Some p =>
            let old := nth p tr empty_trace in
            let cur := if afresh old reset names then mkTrace names [] [] else old in
            let '(new, e) := append_trace cur lab res in
            (upd p new tr, e)
        end
    end.

  (* ------------------------------------------------------------------ BaseModel.solve_t on an extended instance *)
  Section Ext.
    Variable T : Type.                        (* what the subclass adds to the instance *)
    Definition xhook := Z -> errmode -> bool -> nat -> vals -> T -> (vals * T) * option Z.
    Variables (evX beforeX afterX : xhook).

    (* Solver.loop, line for line, with the extra component threaded through the two hooks it calls *)
    Fixpoint loopE (d : mdesc) (o : opts) (t : Z) (p : nat) (n : nat) (k : nat) (v : vals) (x : T)
             (cur : list num) (lg : list event) : lres * T :=
      match n with
      | O => (LDone v Failed (k - 1) lg, x)
      | S n' =>
        let prev := cur in
        let lg1 := lg ++ [EvPass t k] in
        match evX t (errors o) (catch_first o) k v x with
        | ((v', x'), Some c) =>
            (LRaise v' (if is_raise (errors o) then Some (ErrorSt, k) else None) (SolutionError (Some c)) lg1, x')
        | ((v', x'), None) =>
          let cur' := get_check num zero d v' p in
          if negb (all_finite num isfin prev) then loopE d o t p n' (S k) v' x' cur' lg1
          else if negb (all_finite num isfin cur') then
            match errors o with
            | ERaise => (LRaise v' (Some (ErrorSt, k)) (SolutionError None) lg1, x')
            | ESkip => (LDone v' Skipped k lg1, x')
            | EIgnore => match n' with O => (LDone v' Failed k lg1, x') | _ => loopE d o t p n' (S k) v' x' cur' lg1 end
            | EReplace => match n' with O => (LDone v' Failed k lg1, x')
                          | _ => loopE d o t p n' (S k) v' x' (replace_nonfinite num isfin zero cur') lg1 end
            | EInvalid => (LRaise v' None ValueError lg1, x')
            end
          else if Z.of_nat k <? min_iter o then loopE d o t p n' (S k) v' x' cur' lg1
          else if conv num sub absf ltb (tol o) cur' prev then
            match afterX t (errors o) (catch_first o) k v' x' with
            | ((v'', x''), Some c) => (LRaise v'' None (SolutionError (Some c)) (lg1 ++ [EvAfter t k]), x'')
            | ((v'', x''), None) => (LDone v'' Solved k (lg1 ++ [EvAfter t k]), x'')
            end
          else loopE d o t p n' (S k) v' x' cur' lg1
        end
      end.

    (* Solver.solve_t_M, line for line *)
    Definition solve_t_E (d : mdesc) (o : opts) (t : Z) (s : mstate) (x : T) : (mstate * T) * outcome bool :=
      if max_iter o <? min_iter o then ((s, x), Raise ValueError) else
      let n := length (status s) in
      match py_pos n t with
      | None => ((s, x), Raise IndexError)
      | Some p =>
        if negb (feasible d n p) then ((s, x), Raise IndexError) else
        let pre : vals + exn :=
          if offset o =? 0 then inl (vals_of s)
          else let q := Z.of_nat p + offset o in
               if q <? 0 then inr IndexError
               else if Z.of_nat n <=? q then inr IndexError
               else inl (copy_endo num zero d (vals_of s) p (Z.to_nat q)) in
        match pre with
        | inr e => ((s, x), Raise e)
        | inl v0 =>
          let cur := get_check num zero d v0 p in
          if is_raise (errors o) && negb (all_finite num isfin cur)
          then ((with_vals num s v0 (log s), x), Raise (SolutionError None))
          else
            let lg0 := log s ++ [EvBefore t] in
            match beforeX t (errors o) (catch_first o) 0%nat v0 x with
            | ((v1, x1), Some c) => ((with_vals num s v1 lg0, x1), Raise (SolutionError (Some c)))
            | ((v1, x1), None) =>
                let '(r, x2) := loopE d o t p (Z.to_nat (max_iter o)) 1%nat v1 x1 cur lg0 in
                let '(s', out) := finish num o s p r in
                ((s', x2), out)
            end
        end
      end.
  End Ext.

  (* a user oracle seen as a hook of an extended instance: it never touches the extra component *)
  Definition lift_hook (T : Type) (h : hook) : xhook T := fun t em cf k v x =>
    let '(v', r) := h t em cf k v in ((v', x), r).

  (* ------------------------------------------------------------------ the mixin's wrappers *)
  Section Wrappers.
    Variables (cfg : tcfg) (a : targ) (reset : bool).
    Variables (ev before after : hook).          (* the user's _evaluate / solve_t_before / solve_t_after *)

    (* solve_t_before: trace 'before'; super().solve_t_before(...); trace 0.
       An exception of trace_t propagates like any exception of the hook (tag of its class). *)
    Definition traced_before : xhook traces := fun t em cf k v tr =>
      if truthy a then
        match trace_t cfg t LBefore a reset v tr with
        | (tr1, Some e) => ((v, tr1), Some (cause_tag e))
        | (tr1, None) =>
            match before t em cf k v with
            | (v1, Some c) => ((v1, tr1), Some c)
            | (v1, None) =>
                match trace_t cfg t (LIter 0) a reset v1 tr1 with
                | (tr2, Some e) => ((v1, tr2), Some (cause_tag e))
                | (tr2, None) => ((v1, tr2), None)
                end
            end
        end
      else lift_hook traces before t em cf k v tr.

    (* _evaluate: super()._evaluate(...); trace `iteration` *)
    Definition traced_ev : xhook traces := fun t em cf k v tr =>
      if truthy a then
        match ev t em cf k v with
        | (v1, Some c) => ((v1, tr), Some c)
        | (v1, None) =>
            match trace_t cfg t (LIter k) a reset v1 tr with
            | (tr1, Some e) => ((v1, tr1), Some (cause_tag e))
            | (tr1, None) => ((v1, tr1), None)
            end
        end
      else lift_hook traces ev t em cf k v tr.

    (* solve_t_after: super().solve_t_after(...); trace 'end' *)
    Definition traced_after : xhook traces := fun t em cf k v tr =>
      if truthy a then
        match after t em cf k v with
        | (v1, Some c) => ((v1, tr), Some c)
        | (v1, None) =>
            match trace_t cfg t LEnd a reset v1 tr with
            | (tr1, Some e) => ((v1, tr1), Some (cause_tag e))
            | (tr1, None) => ((v1, tr1), None)
            end
        end
      else lift_hook traces after t em cf k v tr.

    (* TracerMixin.solve_t: trace 'start' (before ANY validation of the base class), then super().solve_t *)
    Definition traced_solve_t (d : mdesc) (o : opts) (t : Z) (s : mstate) (tr : traces)
      : (mstate * traces) * outcome bool :=
      if truthy a then
        match trace_t cfg t LStart a reset (vals_of s) tr with
        | (tr1, Some e) => ((s, tr1), Raise e)
        | (tr1, None) => solve_t_E traces traced_ev traced_before traced_after d o t s tr1
        end
      else solve_t_E traces traced_ev traced_before traced_after d o t s tr.

    (* solve_period / solve on the extended instance: Tracer/TracerSolve.v (over SolveAll.v's iter_periods model) *)
  End Wrappers.

  (* the snapshot trace_t takes when it succeeds (total version used in statements): the values of the
     named series at Python index t *)
  Definition snap (v : vals) (t : Z) (names : list nat) : list num :=
    map (fun x => match py_get (nth x v []) t with Some y => y | None => zero end) names.

  (* what a successful trace_t leaves in the period's slot *)
  Definition push (names : list nat) (reset : bool) (old : trace) (lab : tlabel) (res : list num) : trace :=
    if afresh old reset names then mkTrace names [lab] [res]
    else mkTrace (tr_names old) (tr_index old ++ [lab]) (tr_values old ++ [res]).

End Tracer.

Arguments mkTrace {num}.
Arguments tr_names {num}. Arguments tr_index {num}. Arguments tr_values {num}.
