(* TracerReindex.v — the object array `_trace` under model.reindex(...) and model.copy(), with references explicit.
   Definitions only.

   The Traces of a model are the cells of a NumPy object array.  VectorContainer.reindex (fsic/core/containers.py) builds
   the new instance's array as np.full(len(span), None, dtype=object) and then, for every period that exists in both
   spans, assigns a deep copy of the original's cell (fix 28b2a9a; before it the REFERENCE to the same Trace object was
   assigned — DESIGN.md finding #21 seen from the tracer).  Periods that are new keep None.  copy() deep-copies the
   array: every Trace object is duplicated.  trace_t then either replaces a cell by a NEW Trace or appends IN PLACE to the
   object the cell refers to (see trace_t_cells). *)
From Coq Require Import ZArith List Bool.
Import ListNotations.
Require Import PyBase Tracer TracerNames.

Section Reindex.
  Variable num : Type.
  Definition tcell := option addr.                       (* a cell of `_trace`: a reference to a Trace object, or None *)
  Definition theap := list (trace num).
  Definition tderef (h : theap) (r : addr) : trace num := nth r h (empty_trace num).

  (* positions: for each period of the NEW span, its position in the old span (None = a new period).
     Since fix 28b2a9a the object of a period both spans have is deep-copied (`copy.deepcopy(self[name][old])`): the cell
     of the new instance refers to a NEW object with the same contents; a period that is new keeps None. *)
  Fixpoint reindex_cells (positions : list (option nat)) (cells : list tcell) (h : theap) : list tcell * theap :=
    match positions with
    | [] => ([], h)
    | None :: r => let '(cs, h') := reindex_cells r cells h in (None :: cs, h')
    | Some q :: r =>
        match nth q cells None with
        | None => let '(cs, h') := reindex_cells r cells h in (None :: cs, h')          (* deepcopy(None) is None *)
        | Some a => let '(cs, h') := reindex_cells r cells (h ++ [tderef h a]) in (Some (length h) :: cs, h')
        end
    end.

  (* before that fix (the reverse patch): `reindexed[name][new] = self[name][old]` — the REFERENCE was copied *)
  Definition reindex_cells_shared (positions : list (option nat)) (cells : list tcell) : list tcell :=
    map (fun o => match o with Some q => nth q cells None | None => None end) positions.

  Fixpoint copy_cells (cells : list tcell) (h : theap) : list tcell * theap :=
    match cells with
    | [] => ([], h)
    | None :: r => let '(cs, h') := copy_cells r h in (None :: cs, h')
    | Some a :: r => let '(cs, h') := copy_cells r (h ++ [tderef h a]) in (Some (length h) :: cs, h')
    end.

  (* one trace_t call (names chosen, values `res` gathered) on an instance whose `_trace` array is `cells`.
     `current = self['trace'][t]`; a FRESH Trace object is put into the cell when current is not a Trace (fix 3b0200f:
     the None of a period added by reindex()), is empty, reset=True, or was recorded for other names (fix 7d04ae5);
     otherwise the snapshot is appended IN PLACE to the object the cell refers to. *)
  Definition trace_t_cells (names : list nat) (reset : bool) (p : nat) (lab : tlabel) (res : list num)
             (cells : list tcell) (h : theap) : (list tcell * theap) * option exn :=
    let fresh := let '(new, e) := append_trace num (mkTrace names [] []) lab res in
                 ((upd p (Some (length h)) cells, h ++ [new]), e) in
    match nth p cells None with
    | None => fresh
    | Some r =>
        let old := tderef h r in
        if afresh num old reset names then fresh
        else let '(new, e) := append_trace num old lab res in ((cells, upd r new h), e)   (* every holder of r sees it *)
    end.

  (* before fix 3b0200f: `None.is_empty()` raised AttributeError *)
  Definition trace_t_cells_none_raises (names : list nat) (reset : bool) (p : nat) (lab : tlabel) (res : list num)
             (cells : list tcell) (h : theap) : (list tcell * theap) * option exn :=
    match nth p cells None with
    | None => ((cells, h), Some AttributeError)
    | Some _ => trace_t_cells names reset p lab res cells h
    end.

  (* the value-level view of the array (what Tracer.v calls `traces`): defined for every cell, meaningful when no cell is None *)
  Definition view (cells : list tcell) (h : theap) : traces num :=
    map (fun c => match c with Some r => tderef h r | None => empty_trace num end) cells.

  (* what Tracer.trace_t does once the values are gathered and the period is located (its last four lines) *)
  Definition trace_t_core (names : list nat) (reset : bool) (p : nat) (lab : tlabel) (res : list num) (tr : traces num)
    : traces num * option exn :=
    let old := nth p tr (empty_trace num) in
    let cur := if afresh num old reset names then mkTrace names [] [] else old in
    let '(new, e) := append_trace num cur lab res in
    (upd p new tr, e).
End Reindex.
