(* TracerExamples.v — concrete float instances of the TracerMixin model: non-vacuity of the hypotheses of the C17
   theorems (the scripted oracles of the correspondence check meet `shape_pres`; `ready` is satisfiable) and the
   witnesses of the refutation theorems (closed computations checked by the kernel). *)
From Coq Require Import PrimFloat ZArith List Bool Lia.
Import ListNotations.
Require Import PyBase Solver SolverFacts SolverF SolveAll Tracer TracerSolve TracerNames TracerLinked TracerReindex TracerKw TracerFacts TracerFacts2 TracerF.
Open Scope Z_scope.

(* ---------------- the scripted oracles keep the shape of the store: the premise of C17 is met by every script *)
Lemma run_actions_shape catch p acts : forall v,
  shape float (fst (run_actions catch p acts v)) = shape float v.
Proof.
  induction acts as [|a r IH]; intros v; [reflexivity|]. destruct a; cbn [run_actions].
  - rewrite IH. apply shape_set_cell.
  - destruct catch; [reflexivity|]. rewrite IH. apply shape_set_cell.
  - reflexivity.
  - destruct (py_pos (length (nth i v [])) q); [|reflexivity]. rewrite IH. apply shape_set_cell.
  - rewrite IH. apply shape_set_cell.
Qed.

Lemma s_ev_shape_pres n sc : shape_pres float (s_ev n sc).
Proof. intros t em cf k v. unfold s_ev. destruct (lookup (pos_of n t) sc); [apply run_actions_shape|reflexivity]. Qed.
Lemma s_before_shape_pres n sc : shape_pres float (s_before n sc).
Proof. intros t em cf k v. unfold s_before. destruct (lookup (pos_of n t) sc); [apply run_actions_shape|reflexivity]. Qed.
Lemma s_after_shape_pres n sc : shape_pres float (s_after n sc).
Proof. intros t em cf k v. unfold s_after. destruct (lookup (pos_of n t) sc); [apply run_actions_shape|reflexivity]. Qed.

(* ---------------- a two-variable model, three periods; period 1 scripted: passes write V0 := 1, 1.5, 1.5, 1.5,
   the post-hook writes V1 := 7 *)
Definition tx_desc : mdesc := mkDesc [0%nat] [0%nat] 0%nat 0%nat.
Definition tx_state : fstate :=
  mkState [[0%float; 0%float; 0%float]; [2%float; 3%float; 4%float]] [Unsolved; Unsolved; Unsolved] [-1; -1; -1] [].
Definition tx_scripts : scripts :=
  [(1%nat, mkPS [] [[ASet 0 1%float]; [ASet 0 1.5%float]; [ASet 0 1.5%float]; [ASet 0 1.5%float]] [ASet 1 7%float])].
Definition tx_opts (mn mx : Z) : fopts := mkOpts mn mx 0x1.b7cdfd9d7bdbbp-34%float 0 true ERaise true.
Definition tx_cfg : tcfg := mkTCfg None.
Definition tx_tr0 : ftraces := repeat (empty_trace float) 3.
Definition tx_e : ftrace := empty_trace float.

(* solve_t(1, trace=True): solved at k = 3; labels start, before, 0, 1, 2, 3, end; snapshot j = values after pass j;
   the last snapshot (1.5, 7) is the stored solution *)
Example tx_trace_true :
  f_traced_solve_t tx_scripts tx_cfg (TFlag true) false tx_desc (tx_opts 0 5) 1 tx_state tx_tr0
  = ((mkState [[0%float; 1.5%float; 0%float]; [2%float; 7%float; 4%float]] [Unsolved; Solved; Unsolved] [-1; 3; -1]
              [EvBefore 1; EvPass 1 1; EvPass 1 2; EvPass 1 3; EvAfter 1 3],
      [tx_e;
       mkTrace [0%nat; 1%nat] [LStart; LBefore; LIter 0; LIter 1; LIter 2; LIter 3; LEnd]
               [[0%float; 3%float]; [0%float; 3%float]; [0%float; 3%float]; [1%float; 3%float];
                [1.5%float; 3%float]; [1.5%float; 3%float]; [1.5%float; 7%float]];
       tx_e]), Ret true).
Proof. vm_compute. reflexivity. Qed.

(* the same call without tracing: the same state and return value *)
Example tx_untraced :
  f_solve_t tx_scripts tx_desc (tx_opts 0 5) 1 tx_state
  = (mkState [[0%float; 1.5%float; 0%float]; [2%float; 7%float; 4%float]] [Unsolved; Solved; Unsolved] [-1; 3; -1]
             [EvBefore 1; EvPass 1 1; EvPass 1 2; EvPass 1 3; EvAfter 1 3], Ret true).
Proof. vm_compute. reflexivity. Qed.

(* not solved within max_iter = 2: NonConvergenceError; the trace stops after pass 2, no 'end' *)
Example tx_trace_unsolved :
  f_traced_solve_t tx_scripts tx_cfg (TFlag true) false tx_desc (tx_opts 0 2) 1 tx_state tx_tr0
  = ((mkState [[0%float; 1.5%float; 0%float]; [2%float; 3%float; 4%float]] [Unsolved; Failed; Unsolved] [-1; 2; -1]
              [EvBefore 1; EvPass 1 1; EvPass 1 2],
      [tx_e;
       mkTrace [0%nat; 1%nat] [LStart; LBefore; LIter 0; LIter 1; LIter 2]
               [[0%float; 3%float]; [0%float; 3%float]; [0%float; 3%float]; [1%float; 3%float]; [1.5%float; 3%float]];
       tx_e]), Raise NonConvergenceError).
Proof. vm_compute. reflexivity. Qed.

(* trace='V0', reset=True: every snapshot replaces the previous one; only 'end' survives *)
Example tx_trace_reset :
  snd (fst (f_traced_solve_t tx_scripts tx_cfg (TName 0) true tx_desc (tx_opts 0 5) 1 tx_state tx_tr0))
  = [tx_e; mkTrace [0%nat] [LEnd] [[1.5%float]]; tx_e].
Proof. vm_compute. reflexivity. Qed.

(* the hypotheses of the non-interference theorem are met by this instance *)
Example tx_ready : ready float tx_cfg (TFlag true) false 1 (vals_of tx_state) tx_tr0.
Proof.
  split.
  - repeat constructor; eexists; (split; [reflexivity|]); eexists; reflexivity.
  - exists 1%nat. split; [reflexivity|]. right. exact I.
Qed.

(* ---------------- a period traced again under OTHER names (former findings #16 and "stale names", repaired by 7d04ae5):
   the Trace starts afresh under the names traced now *)
Definition tx_after_first := f_traced_solve_t tx_scripts tx_cfg (TName 0) false tx_desc (tx_opts 0 5) 1 tx_state tx_tr0.
Definition tx_s1 : fstate := fst (fst tx_after_first).
Definition tx_tr1 : ftraces := snd (fst tx_after_first).

(* more names than before: solved exactly like the untraced call; the Trace of period 1 is a fresh 2-name trace of THIS
   solve (the script is replayed: three passes) and nothing of the one-name record is left *)
Example tx_second_traced_other_width :
  let R := f_traced_solve_t tx_scripts tx_cfg (TList [0%nat; 1%nat]) false tx_desc (tx_opts 0 5) 1 tx_s1 tx_tr1 in
  (fst (fst R), snd R) = f_solve_t tx_scripts tx_desc (tx_opts 0 5) 1 tx_s1
  /\ snd R = Ret true
  /\ tr_names (nth 1 (snd (fst R)) tx_e) = [0%nat; 1%nat]
  /\ tr_index (nth 1 (snd (fst R)) tx_e) = [LStart; LBefore; LIter 0; LIter 1; LIter 2; LIter 3; LEnd]
  /\ map (@length float) (tr_values (nth 1 (snd (fst R)) tx_e)) = [2; 2; 2; 2; 2; 2; 2]%nat.
Proof. cbv zeta. repeat split; vm_compute; reflexivity. Qed.

Example tx_second_untraced_returns :
  snd (f_solve_t tx_scripts tx_desc (tx_opts 0 5) 1 tx_s1) = Ret true.
Proof. vm_compute. reflexivity. Qed.

(* another name of the same number: a fresh one-name Trace for V1 (7 throughout: the post-hook of the first solve wrote
   it), nothing of V0's record mixed in *)
Example tx_second_traced_other_name :
  nth 1 (snd (fst (f_traced_solve_t tx_scripts tx_cfg (TName 1) false tx_desc (tx_opts 0 5) 1 tx_s1 tx_tr1))) tx_e
  = mkTrace [1%nat] [LStart; LBefore; LIter 0; LIter 1; LIter 2; LIter 3; LEnd]
            [[7%float]; [7%float]; [7%float]; [7%float]; [7%float]; [7%float]; [7%float]].
Proof. vm_compute. reflexivity. Qed.

(* the hypotheses of trace_shape_solved_afresh are met by these two calls *)
Example tx_afresh_hyps :
  afresh float (nth 1 tx_tr1 tx_e) false (names_of tx_cfg 2 (TList [0%nat; 1%nat])) = true
  /\ afresh float (nth 1 tx_tr1 tx_e) false (names_of tx_cfg 2 (TName 1)) = true
  /\ afresh float (nth 1 tx_tr1 tx_e) false (names_of tx_cfg 2 (TName 0)) = false
  /\ wf_trace float (nth 1 tx_tr1 tx_e) = true.
Proof. repeat split; vm_compute; reflexivity. Qed.

(* what the fix removed: with the old test (empty or reset only) the first of the two calls died in np.hstack *)
Example tx_append_to_other_width_fails :
  snd (append_trace float (nth 1 tx_tr1 tx_e) LStart [1.5%float; 7%float]) = Some ValueError.
Proof. vm_compute. reflexivity. Qed.

(* ---------------- trace_t's other failure modes surface as the call's exception, before the base class runs *)
Example tx_unknown_name :
  f_traced_solve_t tx_scripts tx_cfg (TList [0%nat; 5%nat]) false tx_desc (tx_opts 0 5) 1 tx_state tx_tr0
  = ((tx_state, tx_tr0), Raise KeyError).
Proof. vm_compute. reflexivity. Qed.

(* t outside the span with min_iter > max_iter: tracing reports IndexError (trace_t runs before any validation),
   the untraced call ValueError — outside the property's domain (t must lie in the span), recorded for completeness *)
Example tx_out_of_span_traced :
  f_traced_solve_t tx_scripts tx_cfg (TFlag true) false tx_desc (tx_opts 5 1) 7 tx_state tx_tr0
  = ((tx_state, tx_tr0), Raise IndexError).
Proof. vm_compute. reflexivity. Qed.
Example tx_out_of_span_untraced :
  f_solve_t tx_scripts tx_desc (tx_opts 5 1) 7 tx_state = (tx_state, Raise ValueError).
Proof. vm_compute. reflexivity. Qed.

Lemma trace_out_of_span_refuted :
  exists (sc : scripts) (cfg : tcfg) (d : mdesc) (o : fopts) (t : Z) (s : fstate) (tr : ftraces) (a : targ),
    truthy a = true /\ py_pos (length tr) t = None /\
    snd (f_solve_t sc d o t s) = Raise ValueError /\
    snd (f_traced_solve_t sc cfg a false d o t s tr) = Raise IndexError.
Proof.
  exists tx_scripts, tx_cfg, tx_desc, (tx_opts 5 1), 7, tx_state, tx_tr0, (TFlag true).
  rewrite tx_out_of_span_traced, tx_out_of_span_untraced. repeat split; reflexivity.
Qed.

(* ---------------- a fault path: the post-hook raises; tracing on and off agree, the trace has no 'end' *)
Definition tx_scripts_bad_after : scripts :=
  [(1%nat, mkPS [] [[ASet 0 1%float]; [ASet 0 1%float]] [ARaise 12])].
Example tx_after_raises :
  f_traced_solve_t tx_scripts_bad_after tx_cfg (TName 0) false tx_desc (tx_opts 0 5) 1 tx_state tx_tr0
  = ((mkState [[0%float; 1%float; 0%float]; [2%float; 3%float; 4%float]] [Unsolved; Unsolved; Unsolved] [-1; -1; -1]
              [EvBefore 1; EvPass 1 1; EvPass 1 2; EvAfter 1 2],
      [tx_e; mkTrace [0%nat] [LStart; LBefore; LIter 0; LIter 1; LIter 2] [[0%float]; [0%float]; [0%float]; [1%float]; [1%float]]; tx_e]),
     Raise (SolutionError (Some 12))).
Proof. vm_compute. reflexivity. Qed.
Example tx_after_raises_untraced :
  f_solve_t tx_scripts_bad_after tx_desc (tx_opts 0 5) 1 tx_state
  = (mkState [[0%float; 1%float; 0%float]; [2%float; 3%float; 4%float]] [Unsolved; Unsolved; Unsolved] [-1; -1; -1]
             [EvBefore 1; EvPass 1 1; EvPass 1 2; EvAfter 1 2], Raise (SolutionError (Some 12))).
Proof. vm_compute. reflexivity. Qed.

(* ---------------- solve(trace=True) over the whole span [2000, 2001, 2002]: the labels are looked up with list.index,
   all three periods are visited in order, each gets its own Trace (period 1: 7 snapshots, the others start, before,
   0, 1, end), and the run equals the untraced solve() *)
Definition tx_span : list Z := [2000; 2001; 2002].
Definition tx_solve (a : targ) (st en : option Z) (s : fstate) (tr : ftraces) :=
  traced_solve_all float PrimFloat.sub PrimFloat.abs PrimFloat.ltb fisfin fzero tx_cfg a false
                   (s_ev 3 tx_scripts) (s_before 3 tx_scripts) (s_after 3 tx_scripts) Z (locate_index tx_span)
                   tx_desc (tx_opts 0 5) tx_span st en s tr.

Example tx_solve_all_result :
  snd (tx_solve (TFlag true) None None tx_state tx_tr0)
  = Ret (mkRes 3 [(2000, 0, true); (2001, 1, true); (2002, 2, true)])
  /\ map (fun x => length (tr_index x)) (snd (fst (tx_solve (TFlag true) None None tx_state tx_tr0))) = [5; 7; 5]%nat.
Proof. split; vm_compute; reflexivity. Qed.

Example tx_solve_all_untraced_same :
  let R := tx_solve (TFlag true) None None tx_state tx_tr0 in
  (fst (fst R), snd R)
  = solve_M float PrimFloat.sub PrimFloat.abs PrimFloat.ltb fisfin fzero (s_ev 3 tx_scripts) (s_before 3 tx_scripts)
            (s_after 3 tx_scripts) Z (locate_index tx_span) tx_desc (tx_opts 0 5) tx_span None None tx_state.
Proof. vm_compute. reflexivity. Qed.

(* the premise of the solve() theorems is met: trace_t cannot fail at any of the positions solve() will visit *)
Example tx_solve_all_ready :
  solve_targets float Z (locate_index tx_span) tx_desc (tx_opts 0 5) tx_span None None = [0; 1; 2] /\
  forall t, In t [0; 1; 2] -> ready float tx_cfg (TFlag true) false t (vals_of tx_state) tx_tr0.
Proof.
  split; [vm_compute; reflexivity|].
  intros t [<-|[<-|[<-|[]]]]; (split;
    [repeat constructor; eexists; (split; [reflexivity|]); eexists; reflexivity
    |eexists; split; [reflexivity|]; right; exact I]).
Qed.

(* an unknown start label: KeyError, nothing solved, nothing traced (no targets) *)
Example tx_solve_all_bad_label :
  tx_solve (TFlag true) (Some 1999) None tx_state tx_tr0 = ((tx_state, tx_tr0), Raise KeyError)
  /\ solve_targets float Z (locate_index tx_span) tx_desc (tx_opts 0 5) tx_span (Some 1999) None = [].
Proof. split; vm_compute; reflexivity. Qed.

(* the hypotheses of the accumulation theorem are met by a second traced solve with the same name *)
Example tx_accumulate_hyps :
  is_empty float (nth 1 tx_tr1 tx_e) = false /\ width_ok float (nth 1 tx_tr1 tx_e) (names_of tx_cfg 2 (TName 0))
  /\ snd (f_traced_solve_t tx_scripts tx_cfg (TName 0) false tx_desc (tx_opts 0 5) 1 tx_s1 tx_tr1) = Ret true
  /\ length (tr_index (nth 1 (snd (fst (f_traced_solve_t tx_scripts tx_cfg (TName 0) false tx_desc (tx_opts 0 5) 1 tx_s1 tx_tr1))) tx_e)) = 14%nat.
Proof.
  split; [vm_compute; reflexivity|]. split; [vm_compute; reflexivity|]. split; vm_compute; reflexivity.
Qed.

(* the hypotheses of the solve()-level shape theorems are met: period 2001 (position 1) in the middle of a run over
   the three periods; the earlier period returns, the period itself is solved, all Traces start empty *)
Definition tx_run1 :=
  traced_run_periods float PrimFloat.sub PrimFloat.abs PrimFloat.ltb fisfin fzero tx_cfg (TFlag true) false
                     (s_ev 3 tx_scripts) (s_before 3 tx_scripts) (s_after 3 tx_scripts) Z tx_desc (tx_opts 0 5)
                     [(0, 2000)] tx_state tx_tr0 [].
Example tx_solve_shape_hyps :
  snd tx_run1 = Ret [(2000, 0, true)] /\
  snd (f_traced_solve_t tx_scripts tx_cfg (TFlag true) false tx_desc (tx_opts 0 5) 1 (fst (fst tx_run1)) (snd (fst tx_run1))) = Ret true /\
  is_empty float (nth 1 tx_tr0 tx_e) = true /\ py_pos (length tx_tr0) 1 = Some 1%nat /\
  (forall t', In t' (map fst [(0, 2000)] ++ map fst [(2, 2002)]) -> py_pos (length tx_tr0) t' <> Some 1%nat).
Proof.
  split; [vm_compute; reflexivity|]. split; [vm_compute; reflexivity|]. split; [reflexivity|]. split; [reflexivity|].
  intros t' [<-|[<-|[]]]; vm_compute; discriminate.
Qed.

(* tracing off (trace=False / [] / omitted): the Trace objects come back untouched and the state is the untraced one *)
Example tx_trace_off :
  truthy (TFlag false) = false /\ truthy (TList []) = false /\ truthy TNone = false /\
  f_traced_solve_t tx_scripts tx_cfg (TFlag false) true tx_desc (tx_opts 0 5) 1 tx_state tx_tr0
  = (let '(s', out) := f_solve_t tx_scripts tx_desc (tx_opts 0 5) 1 tx_state in ((s', tx_tr0), out)).
Proof. repeat (split; [reflexivity|]). vm_compute. reflexivity. Qed.

(* solve_period(2001, trace=True): list.index finds position 1, where trace_t cannot fail (tx_ready) *)
Example tx_solve_period_label :
  locate_index tx_span 2001 = LInt 1 /\ locate_index tx_span 1999 = LFail /\
  snd (traced_solve_period_all float PrimFloat.sub PrimFloat.abs PrimFloat.ltb fisfin fzero tx_cfg (TFlag true) false
         (s_ev 3 tx_scripts) (s_before 3 tx_scripts) (s_after 3 tx_scripts) Z (locate_index tx_span) tx_desc (tx_opts 0 5)
         2001 tx_state tx_tr0) = Ret true /\
  traced_solve_period_all float PrimFloat.sub PrimFloat.abs PrimFloat.ltb fisfin fzero tx_cfg (TFlag true) false
         (s_ev 3 tx_scripts) (s_before 3 tx_scripts) (s_after 3 tx_scripts) Z (locate_index tx_span) tx_desc (tx_opts 0 5)
         1999 tx_state tx_tr0 = ((tx_state, tx_tr0), Raise KeyError).
Proof. split; [reflexivity|]. split; [reflexivity|]. split; vm_compute; reflexivity. Qed.

(* ---------------- Trace.to_dataframe: the labels x names table after a traced solve *)
Example tx_frame_ok :
  to_dataframe float (nth 1 tx_tr1 tx_e)
  = Ret ([LStart; LBefore; LIter 0; LIter 1; LIter 2; LIter 3; LEnd], [0%nat],
         [[0%float]; [0%float]; [0%float]; [1%float]; [1.5%float]; [1.5%float]; [1.5%float]]).
Proof. vm_compute. reflexivity. Qed.

(* the public snapshot methods called directly: trace_t(1, 'u7', trace=None) records the default names (trace_t never
   asks whether `trace` is truthy); trace_period(1999, ...) -> KeyError *)
Example tx_direct_trace_t :
  trace_t float tx_cfg 1 (LUser 7) TNone false (vals_of tx_state) tx_tr0
  = ([tx_e; mkTrace [0%nat; 1%nat] [LUser 7] [[0%float; 3%float]]; tx_e], None)
  /\ trace_period_M float tx_cfg TNone false Z (locate_index tx_span) 1999 (LUser 7) (vals_of tx_state) tx_tr0 = (tx_tr0, Some KeyError)
  /\ trace_period_M float tx_cfg (TName 1) false Z (locate_index tx_span) 2002 LEnd (vals_of tx_state) tx_tr0
     = ([tx_e; tx_e; mkTrace [1%nat] [LEnd] [[4%float]]], None).
Proof. repeat split; vm_compute; reflexivity. Qed.

(* ---------------- a traced model inside a linker: three linker passes over the scripted submodel at period 1 record the
   labels 1, 2, 3 (no start / before / 0 / end) and leave the values the plain passes leave *)
Example tx_linked :
  linked_passes float tx_cfg (TName 0) false (s_ev 3 tx_scripts) 1 ERaise false 1 3 (vals_of tx_state) tx_tr0
  = (([[0%float; 1.5%float; 0%float]; [2%float; 3%float; 4%float]],
      [tx_e; mkTrace [0%nat] [LIter 1; LIter 2; LIter 3] [[1%float]; [1.5%float]; [1.5%float]]; tx_e]), None)
  /\ plain_passes float (s_ev 3 tx_scripts) 1 ERaise false 1 3 (vals_of tx_state)
     = ([[0%float; 1.5%float; 0%float]; [2%float; 3%float; 4%float]], None).
Proof. split; vm_compute; reflexivity. Qed.

(* ---------------- reindex(range(5)) of the three-period model after period 1 was traced (tx_tr1): since fix 28b2a9a
   periods 0..2 get Trace objects of their own (addresses 3, 4, 5: copies), periods 3 and 4 hold None; since fix 3b0200f
   tracing period 3 puts a fresh Trace (object 6) into its cell (before: AttributeError); tracing period 1 again through
   the reindexed instance extends ITS copy (object 4) and leaves the original's Trace (object 1) alone.  Before fix
   28b2a9a the cells were the original's references and object 1 grew. *)
Definition tx_cells : list tcell := [Some 0%nat; Some 1%nat; Some 2%nat].
Definition tx_positions : list (option nat) := [Some 0%nat; Some 1%nat; Some 2%nat; None; None].
Example tx_reindex :
  fst (reindex_cells float tx_positions tx_cells tx_tr1) = [Some 3%nat; Some 4%nat; Some 5%nat; None; None]
  /\ (let '(cs, h1) := reindex_cells float tx_positions tx_cells tx_tr1 in
      trace_t_cells float [0%nat] false 3%nat LStart [2.5%float] cs h1
      = (([Some 3%nat; Some 4%nat; Some 5%nat; Some 6%nat; None], h1 ++ [mkTrace [0%nat] [LStart] [[2.5%float]]]), None)
      /\ snd (trace_t_cells_none_raises float [0%nat] false 3%nat LStart [2.5%float] cs h1) = Some AttributeError
      /\ (let '((_, h'), e) := trace_t_cells float [0%nat] false 1%nat LStart [2.5%float] cs h1 in
          e = None /\ length (tr_index (tderef float h' 4%nat)) = 8%nat /\ tderef float h' 1%nat = tderef float tx_tr1 1%nat)).
Proof. split; [vm_compute; reflexivity|]. vm_compute. repeat split; reflexivity. Qed.

Example tx_reindex_before_the_fix :
  reindex_cells_shared tx_positions tx_cells = [Some 0%nat; Some 1%nat; Some 2%nat; None; None]
  /\ (let '((_, h'), e) := trace_t_cells float [0%nat] false 1%nat LStart [2.5%float] (reindex_cells_shared tx_positions tx_cells) tx_tr1 in
      e = None /\ length (tr_index (tderef float h' 1%nat)) = 8%nat /\ length (tr_index (tderef float tx_tr1 1%nat)) = 7%nat).
Proof. split; [reflexivity|]. vm_compute. repeat split; reflexivity. Qed.

(* ---------------- keyword threading (TracerKw.v): user hooks that USE what they are handed.  u_ev replays the scripted
   passes by the iteration number it receives and refuses to run without one; u_tagged wants the user keyword 7.
   With the real wrappers (`forward`) the traced call equals the plain one; a wrapper that forgets `iteration=iteration`,
   or drops **kwargs, is noticed: the traced call fails where the plain one solves the period. *)
Definition u_ev : uhook float := fun t kw v =>
  match u_iteration kw with
  | Some k => s_ev 3 tx_scripts t (u_errors kw) (u_cf kw) k v
  | None => (v, Some 13)
  end.
Definition u_tagged : uhook float := fun t kw v =>
  match u_extra kw with
  | (7%nat, _) :: _ => (v, None)
  | _ => (v, Some 12)
  end.
Definition u_quiet : uhook float := fun t kw v => (v, None).
Definition tx_K (fe fb fa : kwargs -> kwargs) (x : list (nat * Z)) (before : uhook float) :=
  traced_solve_t_K float PrimFloat.sub PrimFloat.abs PrimFloat.ltb fisfin fzero fe fb fa tx_cfg (TFlag true) false x
                   u_ev before u_quiet tx_desc (tx_opts 0 5) 1 tx_state tx_tr0.
Definition tx_P (x : list (nat * Z)) (before : uhook float) :=
  plain_solve_t_K float PrimFloat.sub PrimFloat.abs PrimFloat.ltb fisfin fzero x u_ev before u_quiet tx_desc (tx_opts 0 5) 1 tx_state.

Example tx_kw_forwarded :
  snd (tx_K forward forward forward [(7%nat, 1)] u_tagged) = Ret true /\ snd (tx_P [(7%nat, 1)] u_tagged) = Ret true
  /\ fst (fst (tx_K forward forward forward [(7%nat, 1)] u_tagged)) = fst (tx_P [(7%nat, 1)] u_tagged).
Proof. repeat split; vm_compute; reflexivity. Qed.

Lemma forgetting_iteration_is_noticed :
  snd (tx_P [] u_quiet) = Ret true /\ snd (tx_K forward_without_iteration forward forward [] u_quiet) = Raise (SolutionError (Some 13)).
Proof. split; vm_compute; reflexivity. Qed.

Lemma forgetting_kwargs_is_noticed :
  snd (tx_P [(7%nat, 1)] u_tagged) = Ret true
  /\ snd (tx_K forward forward_without_kwargs forward [(7%nat, 1)] u_tagged) = Raise (SolutionError (Some 12)).
Proof. split; vm_compute; reflexivity. Qed.
