(* TracerFacts.v — theorems about the TracerMixin model, for every number type, every user oracle,
   every option set, every state and every `trace=` argument. *)
From Coq Require Import ZArith List Bool Lia.
Import ListNotations.
Require Import PyBase Solver SolverFacts Tracer.
Open Scope Z_scope.

(* ------------------------------------------------------------------ list helpers *)
Lemma nth_upd_same {A} i (x d : A) l : (i < length l)%nat -> nth i (upd i x l) d = x.
Proof. exact (nth_upd_eq i x d l). Qed.

Lemma upd_upd {A} i (x y : A) l : upd i y (upd i x l) = upd i y l.
Proof. revert i; induction l as [|a l IH]; intros [|i]; simpl; auto. f_equal. apply IH. Qed.

Section Generic.
  Variable num : Type.
  Variables (sub : num -> num -> num) (absf : num -> num) (ltb : num -> num -> bool)
            (isfin : num -> bool) (zero : num).

  Notation vals := (vals num).
  Notation hook := (hook num).
  Notation loop := (loop num sub absf ltb isfin zero).
  Notation solve_t_M := (solve_t_M num sub absf ltb isfin zero).
  Notation loopE := (loopE num sub absf ltb isfin zero).
  Notation solve_t_E := (solve_t_E num sub absf ltb isfin zero).
  Notation get_check := (get_check num zero).
  Notation copy_endo := (copy_endo num zero).
  Notation set_cell := (set_cell num).

  (* the shape of a store: how many series, how long each *)
  Definition shape (v : vals) : list nat := map (@length num) v.
  Definition shape_pres (h : hook) : Prop := forall t em cf k v, shape (fst (h t em cf k v)) = shape v.

  Lemma shape_length v v' : shape v = shape v' -> length v = length v'.
  Proof. unfold shape. intros H. apply (f_equal (@length nat)) in H. rewrite !map_length in H. exact H. Qed.

  Lemma shape_set_cell v i p x : shape (set_cell v i p x) = shape v.
  Proof.
    unfold shape, Solver.set_cell. revert i. induction v as [|a r IH]; intros [|i]; cbn [nth upd map]; try reflexivity.
    - rewrite upd_length. reflexivity.
    - f_equal. apply IH.
  Qed.

  Lemma shape_copy_endo d v p q : shape (copy_endo d v p q) = shape v.
  Proof.
    unfold Solver.copy_endo. generalize (endo d) as l. intros l. revert v.
    induction l as [|i l IH]; intros v; cbn [fold_left]; [reflexivity|].
    rewrite IH. apply shape_set_cell.
  Qed.

  (* ================================================================ BaseModel.solve_t on an extended instance *)
  Section ExtSim.
    Variable T : Type.
    Variables (ev before after : hook).
    Variables (evX beforeX afterX : xhook num T).
    (* an invariant of (store, extra component) that looks at the store through its shape only *)
    Variable I : vals -> T -> Prop.
    Hypothesis I_shape : forall v v' x, shape v = shape v' -> I v x -> I v' x.

    (* hX behaves, on the store and in what it raises, exactly like h, and keeps the invariant *)
    Definition sim_at (t : Z) (em : errmode) (cf : bool) (h : hook) (hX : xhook num T) : Prop :=
      forall k v x, I v x ->
        fst (fst (hX t em cf k v x)) = fst (h t em cf k v) /\
        snd (hX t em cf k v x) = snd (h t em cf k v) /\
        I (fst (h t em cf k v)) (snd (fst (hX t em cf k v x))).

    Definition lres_vals (r : lres num) : vals :=
      match r with LDone v _ _ _ => v | LRaise v _ _ _ => v end.

    Lemma loopE_sim d o t p :
      sim_at t (errors o) (catch_first o) ev evX ->
      sim_at t (errors o) (catch_first o) after afterX ->
      forall n k v x cur lg, I v x ->
        fst (loopE T evX afterX d o t p n k v x cur lg) = loop ev after d o t p n k v cur lg /\
        I (lres_vals (loop ev after d o t p n k v cur lg)) (snd (loopE T evX afterX d o t p n k v x cur lg)).
    Proof.
      intros Hev Haf. induction n as [|n IH]; intros k v x cur lg HI.
      - cbn [Tracer.loopE Solver.loop fst snd lres_vals]. split; [reflexivity|exact HI].
      - cbn [Tracer.loopE Solver.loop].
        destruct (Hev k v x HI) as (E1 & E2 & E3).
        destruct (evX t (errors o) (catch_first o) k v x) as [[v' x'] r].
        destruct (ev t (errors o) (catch_first o) k v) as [v2 r2].
        cbn [fst snd] in E1, E2, E3. subst v2 r2.
        destruct r as [c|].
        + cbn [fst snd lres_vals]. split; [reflexivity|exact E3].
        + destruct (negb (all_finite num isfin cur)); [apply IH; exact E3|].
          destruct (negb (all_finite num isfin (get_check d v' p))).
          * destruct (errors o); try (cbn [fst snd lres_vals]; split; [reflexivity|exact E3]).
            -- destruct n; [cbn [fst snd lres_vals]; split; [reflexivity|exact E3]|apply IH; exact E3].
            -- destruct n; [cbn [fst snd lres_vals]; split; [reflexivity|exact E3]|apply IH; exact E3].
          * destruct (Z.of_nat k <? min_iter o); [apply IH; exact E3|].
            destruct (conv num sub absf ltb (tol o) (get_check d v' p) cur); [|apply IH; exact E3].
            destruct (Haf k v' x' E3) as (A1 & A2 & A3).
            destruct (afterX t (errors o) (catch_first o) k v' x') as [[v'' x''] r].
            destruct (after t (errors o) (catch_first o) k v') as [v3 r3].
            cbn [fst snd] in A1, A2, A3. subst v3 r3.
            destruct r; cbn [fst snd lres_vals]; (split; [reflexivity|exact A3]).
    Qed.

    Lemma finish_vals o s p r : vals_of (fst (finish num o s p r)) = lres_vals r.
    Proof.
      destruct r as [v x k lg|v wr e lg]; cbn [Solver.finish lres_vals].
      - destruct (st_eqb x Failed && fail_raise o); reflexivity.
      - destruct wr as [[x k]|]; reflexivity.
    Qed.

    (* Running BaseModel.solve_t on the extended instance and forgetting the extra component
       = running it on the plain instance; the invariant holds of the final pair. *)
    Theorem solve_t_E_sim d o t s x :
      sim_at t (errors o) (catch_first o) ev evX ->
      sim_at t (errors o) (catch_first o) before beforeX ->
      sim_at t (errors o) (catch_first o) after afterX ->
      I (vals_of s) x ->
      let R := solve_t_E T evX beforeX afterX d o t s x in
      let U := solve_t_M ev before after d o t s in
      (fst (fst R), snd R) = U /\ I (vals_of (fst U)) (snd (fst R)).
    Proof.
      intros Hev Hbe Haf HI. cbv zeta. unfold Tracer.solve_t_E, Solver.solve_t_M.
      destruct (max_iter o <? min_iter o); [cbn [fst snd]; split; [reflexivity|exact HI]|].
      destruct (py_pos (length (status s)) t) as [p|]; [|cbn [fst snd]; split; [reflexivity|exact HI]].
      destruct (negb (feasible d (length (status s)) p)); [cbn [fst snd]; split; [reflexivity|exact HI]|].
      set (pre := if offset o =? 0 then inl (vals_of s) else _).
      assert (Hpre : match pre with inl v0 => shape v0 = shape (vals_of s) | inr _ => True end).
      { subst pre. destruct (offset o =? 0); [reflexivity|].
        destruct (_ <? 0); [exact Logic.I|]. destruct (_ <=? _); [exact Logic.I|]. apply shape_copy_endo. }
      destruct pre as [v0|e]; [|cbn [fst snd]; split; [reflexivity|exact HI]].
      assert (HI0 : I v0 x) by (apply (I_shape (vals_of s)); [symmetry; exact Hpre|exact HI]).
      destruct (is_raise (errors o) && negb (all_finite num isfin (get_check d v0 p))).
      { cbn [fst snd with_vals vals_of]. split; [reflexivity|exact HI0]. }
      destruct (Hbe 0%nat v0 x HI0) as (B1 & B2 & B3).
      destruct (beforeX t (errors o) (catch_first o) 0%nat v0 x) as [[v1 x1] r].
      destruct (before t (errors o) (catch_first o) 0%nat v0) as [v2 r2].
      cbn [fst snd] in B1, B2, B3. subst v2 r2.
      destruct r as [c|]; [cbn [fst snd with_vals vals_of]; split; [reflexivity|exact B3]|].
      destruct (loopE_sim d o t p Hev Haf (Z.to_nat (max_iter o)) 1%nat v1 x1 (get_check d v0 p)
                          (log s ++ [EvBefore t]) B3) as (L1 & L2).
      destruct (loopE T evX afterX d o t p (Z.to_nat (max_iter o)) 1 v1 x1 (get_check d v0 p) (log s ++ [EvBefore t]))
        as [r x2].
      cbn [fst snd] in L1, L2. subst r.
      pose proof (finish_vals o s p (loop ev after d o t p (Z.to_nat (max_iter o)) 1 v1 (get_check d v0 p) (log s ++ [EvBefore t]))) as FV.
      destruct (finish num o s p _) as [s' out]. cbn [fst snd] in *. split; [reflexivity|]. rewrite FV. exact L2.
    Qed.
  End ExtSim.

  (* With nothing added to the instance and the user's hooks as they are, solve_t_E IS Solver.solve_t_M:
     the copy of the solver in Tracer.v and the reference model are the same function. *)
  Theorem solve_t_E_unit (ev before after : hook) d o t s :
    solve_t_E unit (lift_hook num unit ev) (lift_hook num unit before) (lift_hook num unit after) d o t s tt
    = (let '(s', out) := solve_t_M ev before after d o t s in ((s', tt), out)).
  Proof.
    assert (Hs : forall h t em cf, sim_at unit (fun _ _ => True) t em cf h (lift_hook num unit h)).
    { intros h t0 em cf k v x _. unfold lift_hook. destruct (h t0 em cf k v) as [v' r]. cbn. auto. }
    pose proof (solve_t_E_sim unit ev before after _ _ _ (fun _ _ => True) (fun _ _ _ _ _ => Logic.I)
                              d o t s tt (Hs _ _ _ _) (Hs _ _ _ _) (Hs _ _ _ _) Logic.I) as [H _].
    cbv zeta in H. destruct (solve_t_M ev before after d o t s) as [s' out].
    destruct (solve_t_E unit _ _ _ d o t s tt) as [[s2 []] out2]. cbn [fst snd] in H. congruence.
  Qed.

End Generic.

(* ==================================================================== the mixin *)
Section TracerFacts.
  Variable num : Type.
  Variables (sub : num -> num -> num) (absf : num -> num) (ltb : num -> num -> bool)
            (isfin : num -> bool) (zero : num).

  Notation vals := (vals num).
  Notation hook := (hook num).
  Notation trace := (trace num).
  Notation traces := (traces num).
  Notation empty_trace := (empty_trace num).
  Notation solve_t_M := (solve_t_M num sub absf ltb isfin zero).
  Notation solve_t_E := (solve_t_E num sub absf ltb isfin zero).
  Notation loopE := (loopE num sub absf ltb isfin zero).
  Notation traced_solve_t := (traced_solve_t num sub absf ltb isfin zero).
  Notation traced_ev := (traced_ev num zero).
  Notation traced_before := (traced_before num zero).
  Notation traced_after := (traced_after num zero).
  Notation trace_t := (trace_t num zero).
  Notation gather := (gather num).
  Notation snap := (snap num zero).
  Notation push := (push num).
  Notation shape := (shape num).
  Notation shape_pres := (shape_pres num).
  Notation copy_endo := (copy_endo num zero).

  (* ---------------------------------------------------------------- when trace_t cannot fail *)
  (* every name is a series of the store and t addresses one of its cells *)
  Definition names_valid (v : vals) (t : Z) (names : list nat) : Prop :=
    Forall (fun x => exists row, nth_error v x = Some row /\ exists q, py_pos (length row) t = Some q) names.
  (* the period's existing Trace is still empty or has as many rows as there are names now *)
  Definition width_ok (x : trace) (w : nat) : Prop :=
    match tr_values x with [] => True | c :: _ => length c = w end.
  Definition ready (cfg : tcfg) (a : targ) (reset : bool) (t : Z) (v : vals) (tr : traces) : Prop :=
    let names := names_of cfg (length v) a in
    names_valid v t names /\
    exists p, py_pos (length tr) t = Some p /\ (reset = true \/ width_ok (nth p tr empty_trace) (length names)).

  Lemma snap_length v t names : length (snap v t names) = length names.
  Proof. unfold Tracer.snap. apply map_length. Qed.

  Lemma gather_valid v t names : names_valid v t names -> gather v t names = inl (snap v t names).
  Proof.
    induction names as [|x r IH]; intros H; [reflexivity|].
    inversion H as [|? ? (row & Hrow & q & Hq) Hr]; subst.
    cbn [Tracer.gather Tracer.snap map]. rewrite Hrow. rewrite (nth_error_nth v x [] Hrow).
    unfold py_get. rewrite Hq.
    destruct (nth_error row q) as [y|] eqn:E.
    - rewrite (IH Hr). reflexivity.
    - apply nth_error_None in E. apply py_pos_lt in Hq. lia.
  Qed.

  Lemma gather_inl v t names res : gather v t names = inl res -> names_valid v t names.
  Proof.
    revert res. induction names as [|x r IH]; intros res H; [constructor|].
    cbn [Tracer.gather] in H. destruct (nth_error v x) as [row|] eqn:Hrow; [|discriminate].
    unfold py_get in H. destruct (py_pos (length row) t) as [q|] eqn:Hq; [|discriminate].
    destruct (nth_error row q); [|discriminate].
    destruct (gather v t r) as [ys|e] eqn:G; [|discriminate].
    constructor; [exists row; split; [exact Hrow|exists q; exact Hq]|apply (IH ys); reflexivity].
  Qed.

  Lemma names_valid_shape v v' t names : shape v = shape v' -> names_valid v t names -> names_valid v' t names.
  Proof.
    intros Hs H. unfold names_valid in *. rewrite Forall_forall in *. intros x Hx.
    destruct (H x Hx) as (row & Hrow & q & Hq).
    assert (E : nth_error (shape v') x = Some (length row)).
    { rewrite <- Hs. unfold TracerFacts.shape. apply map_nth_error. exact Hrow. }
    unfold TracerFacts.shape in E. rewrite nth_error_map in E.
    destruct (nth_error v' x) as [row'|]; [|discriminate]. cbn in E. inversion E as [E'].
    exists row'. split; [reflexivity|]. exists q. rewrite E'. exact Hq.
  Qed.

  Lemma push_width names reset old lab res w :
    reset = true \/ width_ok old w -> length res = w -> width_ok (push names reset old lab res) w.
  Proof.
    intros H Hl. unfold Tracer.push, width_ok in *. unfold Tracer.is_empty.
    destruct (tr_values old) as [|c cs] eqn:E; cbn [orb tr_values]; [exact Hl|].
    destruct reset; cbn [tr_values app]; [exact Hl|].
    destruct H as [H|H]; [discriminate|exact H].
  Qed.

  (* the successful case of trace_t, in closed form *)
  Lemma trace_t_ok cfg t lab a reset v tr p :
    names_valid v t (names_of cfg (length v) a) ->
    py_pos (length tr) t = Some p ->
    reset = true \/ width_ok (nth p tr empty_trace) (length (names_of cfg (length v) a)) ->
    trace_t cfg t lab a reset v tr
    = (upd p (push (names_of cfg (length v) a) reset (nth p tr empty_trace) lab
                   (snap v t (names_of cfg (length v) a))) tr, None).
  Proof.
    intros Hv Hp Hw. unfold Tracer.trace_t. rewrite (gather_valid _ _ _ Hv). rewrite Hp.
    unfold Tracer.push, Tracer.append_trace, Tracer.is_empty.
    set (names := names_of cfg (length v) a) in *. set (old := nth p tr empty_trace) in *.
    unfold width_ok in Hw.
    destruct (tr_values old) as [|c cs] eqn:E; cbn [orb tr_values tr_names tr_index app]; [reflexivity|].
    destruct reset; cbn [tr_values tr_names tr_index app]; [reflexivity|].
    rewrite E. destruct Hw as [Hw|Hw]; [discriminate|].
    rewrite Hw, snap_length, Nat.eqb_refl. reflexivity.
  Qed.

  (* ... and trace_t returns normally ONLY in that case: `ready` is exactly "trace_t cannot fail" *)
  Lemma trace_t_none_ready cfg t lab a reset v tr :
    snd (trace_t cfg t lab a reset v tr) = None -> ready cfg a reset t v tr.
  Proof.
    unfold Tracer.trace_t, ready. set (names := names_of cfg (length v) a).
    destruct (gather v t names) as [res|e] eqn:G; [|discriminate].
    pose proof (gather_inl _ _ _ _ G) as Hv. rewrite (gather_valid _ _ _ Hv) in G. inversion G; subst res.
    destruct (py_pos (length tr) t) as [p|] eqn:Hp; [|discriminate].
    intros H. split; [exact Hv|]. exists p. split; [reflexivity|].
    unfold Tracer.append_trace, Tracer.is_empty, width_ok in *.
    destruct (tr_values (nth p tr empty_trace)) as [|c cs] eqn:E; [right; exact Logic.I|].
    cbn [orb] in H. destruct reset; [left; reflexivity|right].
    rewrite E in H. destruct (Nat.eqb (length c) (length (snap v t names))) eqn:EE; [|discriminate].
    apply Nat.eqb_eq in EE. rewrite snap_length in EE. exact EE.
  Qed.

  Lemma trace_t_ready_iff cfg t lab a reset v tr :
    snd (trace_t cfg t lab a reset v tr) = None <-> ready cfg a reset t v tr.
  Proof.
    split; [apply trace_t_none_ready|].
    intros (Hv & p & Hp & Hw). rewrite (trace_t_ok cfg t lab a reset v tr p Hv Hp Hw). reflexivity.
  Qed.


End TracerFacts.
