(* TracerFacts.v — theorems about the TracerMixin model, for every number type, every user oracle,
   every option set, every state and every `trace=` argument. *)
From Coq Require Import ZArith List Bool Lia.
Import ListNotations.
Require Import PyBase Solver SolverFacts Tracer.
Open Scope Z_scope.

(* ------------------------------------------------------------------ list helpers *)
Lemma nth_upd_same {A} i (x d : A) l : (i < length l)%nat -> nth i (upd i x l) d = x.
Proof. exact (nth_upd_eq i x d l). Qed.

Lemma upd_upd {A} i (x y : A) l : upd i y (upd i x l) = upd i y l.
Proof. revert i; induction l as [|a l IH]; intros [|i]; simpl; auto. f_equal. apply IH. Qed.

Section Generic.
  Variable num : Type.
  Variables (sub : num -> num -> num) (absf : num -> num) (ltb : num -> num -> bool)
            (isfin : num -> bool) (zero : num).

  Notation vals := (vals num).
  Notation hook := (hook num).
  Notation loop := (loop num sub absf ltb isfin zero).
  Notation solve_t_M := (solve_t_M num sub absf ltb isfin zero).
  Notation loopE := (loopE num sub absf ltb isfin zero).
  Notation solve_t_E := (solve_t_E num sub absf ltb isfin zero).
  Notation get_check := (get_check num zero).
  Notation copy_endo := (copy_endo num zero).
  Notation set_cell := (set_cell num).

  (* the shape of a store: how many series, how long each *)
  Definition shape (v : vals) : list nat := map (@length num) v.
  Definition shape_pres (h : hook) : Prop := forall t em cf k v, shape (fst (h t em cf k v)) = shape v.

  Lemma shape_length v v' : shape v = shape v' -> length v = length v'.
  Proof. unfold shape. intros H. apply (f_equal (@length nat)) in H. rewrite !map_length in H. exact H. Qed.

  Lemma shape_set_cell v i p x : shape (set_cell v i p x) = shape v.
  Proof.
    unfold shape, Solver.set_cell. revert i. induction v as [|a r IH]; intros [|i]; cbn [nth upd map]; try reflexivity.
    - rewrite upd_length. reflexivity.
    - f_equal. apply IH.
  Qed.

  Lemma shape_copy_endo d v p q : shape (copy_endo d v p q) = shape v.
  Proof.
    unfold Solver.copy_endo. generalize (endo d) as l. intros l. revert v.
    induction l as [|i l IH]; intros v; cbn [fold_left]; [reflexivity|].
    rewrite IH. apply shape_set_cell.
  Qed.

  (* ================================================================ BaseModel.solve_t on an extended instance *)
  Section ExtSim.
    Variable T : Type.
    Variables (ev before after : hook).
    Variables (evX beforeX afterX : xhook num T).
    (* an invariant of (store, extra component) that looks at the store through its shape only *)
    Variable I : vals -> T -> Prop.
    Hypothesis I_shape : forall v v' x, shape v = shape v' -> I v x -> I v' x.

    (* hX behaves, on the store and in what it raises, exactly like h, and keeps the invariant *)
    Definition sim_at (t : Z) (em : errmode) (cf : bool) (h : hook) (hX : xhook num T) : Prop :=
      forall k v x, I v x ->
        fst (fst (hX t em cf k v x)) = fst (h t em cf k v) /\
        snd (hX t em cf k v x) = snd (h t em cf k v) /\
        I (fst (h t em cf k v)) (snd (fst (hX t em cf k v x))).

    Definition lres_vals (r : lres num) : vals :=
      match r with LDone v _ _ _ => v | LRaise v _ _ _ => v end.

    Lemma loopE_sim d o t p :
      sim_at t (errors o) (catch_first o) ev evX ->
      sim_at t (errors o) (catch_first o) after afterX ->
      forall n k v x cur lg, I v x ->
        fst (loopE T evX afterX d o t p n k v x cur lg) = loop ev after d o t p n k v cur lg /\
        I (lres_vals (loop ev after d o t p n k v cur lg)) (snd (loopE T evX afterX d o t p n k v x cur lg)).
    Proof.
      intros Hev Haf. induction n as [|n IH]; intros k v x cur lg HI.
      - cbn [Tracer.loopE Solver.loop fst snd lres_vals]. split; [reflexivity|exact HI].
      - cbn [Tracer.loopE Solver.loop].
        destruct (Hev k v x HI) as (E1 & E2 & E3).
        destruct (evX t (errors o) (catch_first o) k v x) as [[v' x'] r].
        destruct (ev t (errors o) (catch_first o) k v) as [v2 r2].
        cbn [fst snd] in E1, E2, E3. subst v2 r2.
        destruct r as [c|].
        + cbn [fst snd lres_vals]. split; [reflexivity|exact E3].
        + destruct (negb (all_finite num isfin cur)); [apply IH; exact E3|].
          destruct (negb (all_finite num isfin (get_check d v' p))).
          * destruct (errors o); try (cbn [fst snd lres_vals]; split; [reflexivity|exact E3]).
            -- destruct n; [cbn [fst snd lres_vals]; split; [reflexivity|exact E3]|apply IH; exact E3].
            -- destruct n; [cbn [fst snd lres_vals]; split; [reflexivity|exact E3]|apply IH; exact E3].
          * destruct (Z.of_nat k <? min_iter o); [apply IH; exact E3|].
            destruct (conv num sub absf ltb (tol o) (get_check d v' p) cur); [|apply IH; exact E3].
            destruct (Haf k v' x' E3) as (A1 & A2 & A3).
            destruct (afterX t (errors o) (catch_first o) k v' x') as [[v'' x''] r].
            destruct (after t (errors o) (catch_first o) k v') as [v3 r3].
            cbn [fst snd] in A1, A2, A3. subst v3 r3.
            destruct r; cbn [fst snd lres_vals]; (split; [reflexivity|exact A3]).
    Qed.

    Lemma finish_vals o s p r : vals_of (fst (finish num o s p r)) = lres_vals r.
    Proof.
      destruct r as [v x k lg|v wr e lg]; cbn [Solver.finish lres_vals].
      - destruct (st_eqb x Failed && fail_raise o); reflexivity.
      - destruct wr as [[x k]|]; reflexivity.
    Qed.

    (* Running BaseModel.solve_t on the extended instance and forgetting the extra component
       = running it on the plain instance; the invariant holds of the final pair. *)
    Theorem solve_t_E_sim d o t s x :
      sim_at t (errors o) (catch_first o) ev evX ->
      sim_at t (errors o) (catch_first o) before beforeX ->
      sim_at t (errors o) (catch_first o) after afterX ->
      I (vals_of s) x ->
      let R := solve_t_E T evX beforeX afterX d o t s x in
      let U := solve_t_M ev before after d o t s in
      (fst (fst R), snd R) = U /\ I (vals_of (fst U)) (snd (fst R)).
    Proof.
      intros Hev Hbe Haf HI. cbv zeta. unfold Tracer.solve_t_E, Solver.solve_t_M.
      destruct (max_iter o <? min_iter o); [cbn [fst snd]; split; [reflexivity|exact HI]|].
      destruct (py_pos (length (status s)) t) as [p|]; [|cbn [fst snd]; split; [reflexivity|exact HI]].
      destruct (negb (feasible d (length (status s)) p)); [cbn [fst snd]; split; [reflexivity|exact HI]|].
      set (pre := if offset o =? 0 then inl (vals_of s) else _).
      assert (Hpre : match pre with inl v0 => shape v0 = shape (vals_of s) | inr _ => True end).
      { subst pre. destruct (offset o =? 0); [reflexivity|].
        destruct (_ <? 0); [exact Logic.I|]. destruct (_ <=? _); [exact Logic.I|]. apply shape_copy_endo. }
      destruct pre as [v0|e]; [|cbn [fst snd]; split; [reflexivity|exact HI]].
      assert (HI0 : I v0 x) by (apply (I_shape (vals_of s)); [symmetry; exact Hpre|exact HI]).
      destruct (is_raise (errors o) && negb (all_finite num isfin (get_check d v0 p))).
      { cbn [fst snd with_vals vals_of]. split; [reflexivity|exact HI0]. }
      destruct (Hbe 0%nat v0 x HI0) as (B1 & B2 & B3).
      destruct (beforeX t (errors o) (catch_first o) 0%nat v0 x) as [[v1 x1] r].
      destruct (before t (errors o) (catch_first o) 0%nat v0) as [v2 r2].
      cbn [fst snd] in B1, B2, B3. subst v2 r2.
      destruct r as [c|]; [cbn [fst snd with_vals vals_of]; split; [reflexivity|exact B3]|].
      destruct (loopE_sim d o t p Hev Haf (Z.to_nat (max_iter o)) 1%nat v1 x1 (get_check d v0 p)
                          (log s ++ [EvBefore t]) B3) as (L1 & L2).
      destruct (loopE T evX afterX d o t p (Z.to_nat (max_iter o)) 1 v1 x1 (get_check d v0 p) (log s ++ [EvBefore t]))
        as [r x2].
      cbn [fst snd] in L1, L2. subst r.
      pose proof (finish_vals o s p (loop ev after d o t p (Z.to_nat (max_iter o)) 1 v1 (get_check d v0 p) (log s ++ [EvBefore t]))) as FV.
      destruct (finish num o s p _) as [s' out]. cbn [fst snd] in *. split; [reflexivity|]. rewrite FV. exact L2.
    Qed.
  End ExtSim.

  (* With nothing added to the instance and the user's hooks as they are, solve_t_E IS Solver.solve_t_M:
     the copy of the solver in Tracer.v and the reference model are the same function. *)
  Theorem solve_t_E_unit (ev before after : hook) d o t s :
    solve_t_E unit (lift_hook num unit ev) (lift_hook num unit before) (lift_hook num unit after) d o t s tt
    = (let '(s', out) := solve_t_M ev before after d o t s in ((s', tt), out)).
  Proof.
    assert (Hs : forall h t em cf, sim_at unit (fun _ _ => True) t em cf h (lift_hook num unit h)).
    { intros h t0 em cf k v x _. unfold lift_hook. destruct (h t0 em cf k v) as [v' r]. cbn. auto. }
    pose proof (solve_t_E_sim unit ev before after _ _ _ (fun _ _ => True) (fun _ _ _ _ _ => Logic.I)
                              d o t s tt (Hs _ _ _ _) (Hs _ _ _ _) (Hs _ _ _ _) Logic.I) as [H _].
    cbv zeta in H. destruct (solve_t_M ev before after d o t s) as [s' out].
    destruct (solve_t_E unit _ _ _ d o t s tt) as [[s2 []] out2]. cbn [fst snd] in H. congruence.
  Qed.

End Generic.

(* ==================================================================== specification vocabulary for traces *)
Section TraceSpec.
  Variable num : Type.
  Variable zero : num.
  (* the slot after a list of successful trace_t calls (label, snapshot), oldest first *)
  Definition pushes (names : list nat) (reset : bool) (X : trace num) (l : list (tlabel * list num)) : trace num :=
    fold_left (fun x e => push num names reset x (fst e) (snd e)) l X.
  (* passes j+1 .. kk, each recorded under its number with the values of `names` it left at t
     (st_after ... i = the store after i evaluation passes, starting from v1 = the store after the pre-hook) *)
  Definition iter_entries (ev : hook num) (o : opts num) (t : Z) (v1 : vals num) (names : list nat) (j kk : nat)
    : list (tlabel * list num) :=
    map (fun i => (LIter i, snap num zero (st_after num ev o t v1 i) t names)) (seq (S j) (kk - j)).
  (* 'end' is recorded only when the period was solved *)
  Definition end_entry (t : Z) (names : list nat) (x : st) (v' : vals num) : list (tlabel * list num) :=
    if st_eqb x Solved then [(LEnd, snap num zero v' t names)] else [].
  (* BaseModel.solve_t's optional seeding of period p from period p + offset *)
  Definition seeded (d : mdesc) (o : opts num) (s : mstate num) (p : nat) : vals num :=
    if offset o =? 0 then vals_of s
    else copy_endo num zero d (vals_of s) p (Z.to_nat (Z.of_nat p + offset o)).
End TraceSpec.

(* the label sequences one traced solve_t can append: always an initial run of start, before, 0, 1, 2, ... and
   'end' only at the very end, after at least one pass *)
Inductive run_index : list tlabel -> Prop :=
| RI_start : run_index [LStart]                                  (* rejected before the pre-hook *)
| RI_before : run_index [LStart; LBefore]                         (* the pre-hook raised *)
| RI_iters k : run_index (LStart :: LBefore :: map LIter (seq 0 (S k)))      (* k passes recorded, no 'end' *)
| RI_end k : (1 <= k)%nat -> run_index (LStart :: LBefore :: map LIter (seq 0 (S k)) ++ [LEnd]).

(* ==================================================================== the mixin *)
Section TracerFacts.
  Variable num : Type.
  Variables (sub : num -> num -> num) (absf : num -> num) (ltb : num -> num -> bool)
            (isfin : num -> bool) (zero : num).

  Notation vals := (vals num).
  Notation hook := (hook num).
  Notation trace := (trace num).
  Notation traces := (traces num).
  Notation empty_trace := (empty_trace num).
  Notation solve_t_M := (solve_t_M num sub absf ltb isfin zero).
  Notation solve_t_E := (solve_t_E num sub absf ltb isfin zero).
  Notation loopE := (loopE num sub absf ltb isfin zero).
  Notation traced_solve_t := (traced_solve_t num sub absf ltb isfin zero).
  Notation traced_ev := (traced_ev num).
  Notation traced_before := (traced_before num).
  Notation traced_after := (traced_after num).
  Notation trace_t := (trace_t num).
  Notation gather := (gather num).
  Notation snap := (snap num zero).
  Notation push := (push num).
  Notation shape := (shape num).
  Notation shape_pres := (shape_pres num).
  Notation copy_endo := (copy_endo num zero).

  (* ---------------------------------------------------------------- when trace_t cannot fail *)
  (* every name is a series of the store and t addresses one of its cells *)
  Definition names_valid (v : vals) (t : Z) (names : list nat) : Prop :=
    Forall (fun x => exists row, nth_error v x = Some row /\ exists q, py_pos (length row) t = Some q) names.
  (* the period's existing Trace can take a snapshot of `names`: it is still empty, or it was recorded for other names (then
     trace_t starts a fresh one: fix 7d04ae5), or it has one row per name.  Every Trace the class itself builds is well
     formed (wf_trace) and therefore passes: wf_width_ok. *)
  Definition width_ok (x : trace) (names : list nat) : Prop :=
    match tr_values x with [] => True | c :: _ => tr_names x = names -> length c = length names end.

  Lemma names_eqb_eq a : forall b, names_eqb a b = true <-> a = b.
  Proof.
    induction a as [|x a IH]; intros [|y b]; cbn [Tracer.names_eqb]; split; intros H; try reflexivity; try discriminate.
    - apply andb_prop in H. destruct H as [H1 H2]. apply Nat.eqb_eq in H1. apply IH in H2. congruence.
    - inversion H; subst. rewrite Nat.eqb_refl. cbn [andb]. apply IH. reflexivity.
  Qed.

  Lemma wf_width_ok (x : trace) names : wf_trace num x = true -> width_ok x names.
  Proof.
    unfold Tracer.wf_trace, width_ok. intros H. apply andb_prop in H. destruct H as [_ H].
    destruct (tr_values x) as [|c cs]; [exact Logic.I|]. cbn [forallb] in H. apply andb_prop in H. destruct H as [H _].
    apply Nat.eqb_eq in H. intros E. rewrite <- E. exact H.
  Qed.
  Definition ready (cfg : tcfg) (a : targ) (reset : bool) (t : Z) (v : vals) (tr : traces) : Prop :=
    let names := names_of cfg (length v) a in
    names_valid v t names /\
    exists p, py_pos (length tr) t = Some p /\ (reset = true \/ width_ok (nth p tr empty_trace) names).

  Lemma snap_length v t names : length (snap v t names) = length names.
  Proof. unfold Tracer.snap. apply map_length. Qed.

  Lemma gather_valid v t names : names_valid v t names -> gather v t names = inl (snap v t names).
  Proof.
    induction names as [|x r IH]; intros H; [reflexivity|].
    inversion H as [|? ? (row & Hrow & q & Hq) Hr]; subst.
    cbn [Tracer.gather Tracer.snap map]. rewrite Hrow. rewrite (nth_error_nth v x [] Hrow).
    unfold py_get. rewrite Hq.
    destruct (nth_error row q) as [y|] eqn:E.
    - rewrite (IH Hr). reflexivity.
    - apply nth_error_None in E. apply py_pos_lt in Hq. lia.
  Qed.

  Lemma gather_inl v t names res : gather v t names = inl res -> names_valid v t names.
  Proof.
    revert res. induction names as [|x r IH]; intros res H; [constructor|].
    cbn [Tracer.gather] in H. destruct (nth_error v x) as [row|] eqn:Hrow; [|discriminate].
    unfold py_get in H. destruct (py_pos (length row) t) as [q|] eqn:Hq; [|discriminate].
    destruct (nth_error row q); [|discriminate].
    destruct (gather v t r) as [ys|e] eqn:G; [|discriminate].
    constructor; [exists row; split; [exact Hrow|exists q; exact Hq]|apply (IH ys); reflexivity].
  Qed.

  Lemma names_valid_shape v v' t names : shape v = shape v' -> names_valid v t names -> names_valid v' t names.
  Proof.
    intros Hs H. unfold names_valid in *. rewrite Forall_forall in *. intros x Hx.
    destruct (H x Hx) as (row & Hrow & q & Hq).
    assert (E : nth_error (shape v') x = Some (length row)).
    { rewrite <- Hs. unfold TracerFacts.shape. apply map_nth_error. exact Hrow. }
    unfold TracerFacts.shape in E. rewrite nth_error_map in E.
    destruct (nth_error v' x) as [row'|]; [|discriminate]. cbn in E. inversion E as [E'].
    exists row'. split; [reflexivity|]. exists q. rewrite E'. exact Hq.
  Qed.

  Lemma push_width names reset old lab res :
    reset = true \/ width_ok old names -> length res = length names -> width_ok (push names reset old lab res) names.
  Proof.
    intros H Hl. unfold Tracer.push, Tracer.afresh, width_ok in *. unfold Tracer.is_empty.
    destruct (tr_values old) as [|c cs] eqn:E; cbn [orb tr_values]; [intros _; exact Hl|].
    destruct reset; cbn [orb tr_values app]; [intros _; exact Hl|].
    destruct (names_eqb (tr_names old) names) eqn:En; cbn [negb tr_values tr_names app]; [|intros _; exact Hl].
    destruct H as [H|H]; [discriminate|]. intros _. apply H. apply names_eqb_eq. exact En.
  Qed.

  (* the successful case of trace_t, in closed form *)
  Lemma trace_t_ok cfg t lab a reset v tr p :
    names_valid v t (names_of cfg (length v) a) ->
    py_pos (length tr) t = Some p ->
    reset = true \/ width_ok (nth p tr empty_trace) (names_of cfg (length v) a) ->
    trace_t cfg t lab a reset v tr
    = (upd p (push (names_of cfg (length v) a) reset (nth p tr empty_trace) lab
                   (snap v t (names_of cfg (length v) a))) tr, None).
  Proof.
    intros Hv Hp Hw. unfold Tracer.trace_t. rewrite (gather_valid _ _ _ Hv). rewrite Hp.
    unfold Tracer.push, Tracer.afresh, Tracer.append_trace, Tracer.is_empty.
    set (names := names_of cfg (length v) a) in *. set (old := nth p tr empty_trace) in *.
    unfold width_ok in Hw.
    destruct (tr_values old) as [|c cs] eqn:E; cbn [orb tr_values tr_names tr_index app]; [reflexivity|].
    destruct reset; cbn [orb tr_values tr_names tr_index app]; [reflexivity|].
    destruct (names_eqb (tr_names old) names) eqn:En; cbn [negb tr_values tr_names tr_index app]; [|reflexivity].
    rewrite E. destruct Hw as [Hw|Hw]; [discriminate|].
    rewrite (Hw (proj1 (names_eqb_eq _ _) En)), snap_length, Nat.eqb_refl. reflexivity.
  Qed.

  (* ... and trace_t returns normally ONLY in that case: `ready` is exactly "trace_t cannot fail" *)
  Lemma trace_t_none_ready cfg t lab a reset v tr :
    snd (trace_t cfg t lab a reset v tr) = None -> ready cfg a reset t v tr.
  Proof.
    unfold Tracer.trace_t, ready. set (names := names_of cfg (length v) a).
    destruct (gather v t names) as [res|e] eqn:G; [|discriminate].
    pose proof (gather_inl _ _ _ _ G) as Hv. rewrite (gather_valid _ _ _ Hv) in G. inversion G; subst res.
    destruct (py_pos (length tr) t) as [p|] eqn:Hp; [|discriminate].
    intros H. split; [exact Hv|]. exists p. split; [reflexivity|].
    unfold Tracer.append_trace, Tracer.afresh, Tracer.is_empty, width_ok in *.
    destruct (tr_values (nth p tr empty_trace)) as [|c cs] eqn:E; [right; exact Logic.I|].
    cbn [orb] in H. destruct reset; [left; reflexivity|right].
    intros En. apply names_eqb_eq in En. rewrite En in H. cbn [orb negb] in H.
    rewrite E in H. destruct (Nat.eqb (length c) (length (snap v t names))) eqn:EE; [|discriminate].
    apply Nat.eqb_eq in EE. rewrite snap_length in EE. exact EE.
  Qed.

  Lemma trace_t_ready_iff cfg t lab a reset v tr :
    snd (trace_t cfg t lab a reset v tr) = None <-> ready cfg a reset t v tr.
  Proof.
    split; [apply trace_t_none_ready|].
    intros (Hv & p & Hp & Hw). rewrite (trace_t_ok cfg t lab a reset v tr p Hv Hp Hw). reflexivity.
  Qed.



  (* ---------------------------------------------------------------- the wrappers simulate the user's hooks *)
  Section Sim.
    Variables (cfg : tcfg) (a : targ) (reset : bool).
    Variables (ev before after : hook).
    Hypothesis ev_shape : shape_pres ev.
    Hypothesis before_shape : shape_pres before.
    Hypothesis after_shape : shape_pres after.
    Variables (t : Z) (p : nat) (sh0 : list nat) (tr0 : traces).
    Hypothesis Hp : py_pos (length tr0) t = Some p.
    Variable nv : nat.
    Hypothesis sh0_len : length sh0 = nv.
    Let names := names_of cfg nv a.
    Hypothesis names_ok : forall v, shape v = sh0 -> names_valid v t names.

    (* tracing on: the store keeps its shape, the trace list keeps its length, only slot p moves, and slot p
       stays appendable *)
    Definition InvOn (v : vals) (x : traces) : Prop :=
      shape v = sh0 /\ length x = length tr0 /\
      (reset = true \/ width_ok (nth p x empty_trace) names) /\
      (forall q, q <> p -> nth q x empty_trace = nth q tr0 empty_trace).
    (* tracing off: the trace list is not touched at all *)
    Definition InvOff (v : vals) (x : traces) : Prop := shape v = sh0 /\ x = tr0.

    Lemma InvOn_shape v v' x : shape v = shape v' -> InvOn v x -> InvOn v' x.
    Proof. intros H (H1 & H2). split; [congruence|exact H2]. Qed.
    Lemma InvOff_shape v v' x : shape v = shape v' -> InvOff v x -> InvOff v' x.
    Proof. intros H (H1 & H2). split; [congruence|exact H2]. Qed.

    Lemma shape_nv v : shape v = sh0 -> length v = nv.
    Proof. intros H. rewrite <- sh0_len, <- H. unfold TracerFacts.shape. rewrite map_length. reflexivity. Qed.

    (* one successful trace_t under the invariant *)
    Lemma trace_t_step lab v x :
      InvOn v x ->
      trace_t cfg t lab a reset v x
      = (upd p (push names reset (nth p x empty_trace) lab (snap v t names)) x, None) /\
      forall v', shape v' = sh0 ->
        InvOn v' (upd p (push names reset (nth p x empty_trace) lab (snap v t names)) x).
    Proof.
      intros (Hs & Hl & Hw & Hf).
      pose proof (shape_nv v Hs) as Hnv.
      assert (Hp' : py_pos (length x) t = Some p) by (rewrite Hl; exact Hp).
      split.
      - pose proof (trace_t_ok cfg t lab a reset v x p) as H. rewrite Hnv in H. fold names in H.
        apply H; [apply names_ok; exact Hs|exact Hp'|exact Hw].
      - intros v' Hs'. pose proof (py_pos_lt _ _ _ Hp') as Hlt.
        split; [exact Hs'|]. split; [rewrite upd_length; exact Hl|]. split.
        + right. rewrite nth_upd_eq by exact Hlt. apply push_width; [exact Hw|apply snap_length].
        + intros q Hq. rewrite nth_upd_neq by congruence. apply Hf; exact Hq.
    Qed.

    Lemma sim_ev_on em cf : truthy a = true ->
      sim_at num (traces) InvOn t em cf ev (traced_ev cfg a reset ev).
    Proof.
      intros Ha k v x HI. unfold Tracer.traced_ev. rewrite Ha.
      pose proof (ev_shape t em cf k v) as Hsh. destruct (ev t em cf k v) as [v1 r]. cbn [fst snd] in *.
      assert (Hs1 : shape v1 = sh0) by (rewrite Hsh; exact (proj1 HI)).
      assert (HI1 : InvOn v1 x) by (apply (InvOn_shape v); [symmetry; exact Hsh|exact HI]).
      destruct r as [c|]; [cbn [fst snd]; auto|].
      destruct (trace_t_step (LIter k) v1 x HI1) as (E & HI2). rewrite E. cbn [fst snd]. auto.
    Qed.

    Lemma sim_after_on em cf : truthy a = true ->
      sim_at num (traces) InvOn t em cf after (traced_after cfg a reset after).
    Proof.
      intros Ha k v x HI. unfold Tracer.traced_after. rewrite Ha.
      pose proof (after_shape t em cf k v) as Hsh. destruct (after t em cf k v) as [v1 r]. cbn [fst snd] in *.
      assert (Hs1 : shape v1 = sh0) by (rewrite Hsh; exact (proj1 HI)).
      assert (HI1 : InvOn v1 x) by (apply (InvOn_shape v); [symmetry; exact Hsh|exact HI]).
      destruct r as [c|]; [cbn [fst snd]; auto|].
      destruct (trace_t_step LEnd v1 x HI1) as (E & HI2). rewrite E. cbn [fst snd]. auto.
    Qed.

    Lemma sim_before_on em cf : truthy a = true ->
      sim_at num (traces) InvOn t em cf before (traced_before cfg a reset before).
    Proof.
      intros Ha k v x HI. unfold Tracer.traced_before. rewrite Ha.
      destruct (trace_t_step LBefore v x HI) as (E & HI2). rewrite E.
      pose proof (before_shape t em cf k v) as Hsh. destruct (before t em cf k v) as [v1 r]. cbn [fst snd] in *.
      assert (Hs1 : shape v1 = sh0) by (rewrite Hsh; exact (proj1 HI)).
      specialize (HI2 v1 Hs1).
      destruct r as [c|]; [cbn [fst snd]; auto|].
      destruct (trace_t_step (LIter 0) v1 _ HI2) as (E2 & HI3). rewrite E2. cbn [fst snd]. auto.
    Qed.

    Lemma sim_off em cf (h : hook) (hX : xhook num traces) :
      shape_pres h ->
      (forall k v x, hX t em cf k v x = lift_hook num traces h t em cf k v x) ->
      sim_at num (traces) InvOff t em cf h hX.
    Proof.
      intros Hsh Heq k v x (Hs & Hx). rewrite Heq. unfold lift_hook.
      pose proof (Hsh t em cf k v) as H. destruct (h t em cf k v) as [v1 r]. cbn [fst snd] in *.
      repeat split; [congruence|exact Hx].
    Qed.
    (* ------------------------------------------------------------ what the wrappers write, pass by pass *)
    Section Loop.
      Hypothesis Ha : truthy a = true.
      Variables (d : mdesc) (o : opts num) (ps : nat) (v1 : vals).
      Notation st_after := (st_after num ev o t v1).
      Notation em := (errors o).
      Notation cf := (catch_first o).

      Lemma traced_ev_on_eq k v x : InvOn v x ->
        traced_ev cfg a reset ev t em cf k v x
        = (let '(v', r) := ev t em cf k v in
           match r with
           | Some c => ((v', x), Some c)
           | None => ((v', upd p (push names reset (nth p x empty_trace) (LIter k) (snap v' t names)) x), None)
           end).
      Proof.
        intros HI. unfold Tracer.traced_ev. rewrite Ha.
        pose proof (ev_shape t em cf k v) as Hsh. destruct (ev t em cf k v) as [v' r]. cbn [fst] in Hsh.
        destruct r as [c|]; [reflexivity|].
        assert (HI1 : InvOn v' x) by (apply (InvOn_shape v); [symmetry; exact Hsh|exact HI]).
        rewrite (proj1 (trace_t_step (LIter k) v' x HI1)). reflexivity.
      Qed.

      Lemma traced_after_on_eq k v x : InvOn v x ->
        traced_after cfg a reset after t em cf k v x
        = (let '(v', r) := after t em cf k v in
           match r with
           | Some c => ((v', x), Some c)
           | None => ((v', upd p (push names reset (nth p x empty_trace) LEnd (snap v' t names)) x), None)
           end).
      Proof.
        intros HI. unfold Tracer.traced_after. rewrite Ha.
        pose proof (after_shape t em cf k v) as Hsh. destruct (after t em cf k v) as [v' r]. cbn [fst] in Hsh.
        destruct r as [c|]; [reflexivity|].
        assert (HI1 : InvOn v' x) by (apply (InvOn_shape v); [symmetry; exact Hsh|exact HI]).
        rewrite (proj1 (trace_t_step LEnd v' x HI1)). reflexivity.
      Qed.

      Lemma traced_before_on_eq k v x : InvOn v x ->
        traced_before cfg a reset before t em cf k v x
        = (let x1 := upd p (push names reset (nth p x empty_trace) LBefore (snap v t names)) x in
           let '(v', r) := before t em cf k v in
           match r with
           | Some c => ((v', x1), Some c)
           | None => ((v', upd p (push names reset (nth p x1 empty_trace) (LIter 0) (snap v' t names)) x1), None)
           end).
      Proof.
        intros HI. unfold Tracer.traced_before. rewrite Ha.
        destruct (trace_t_step LBefore v x HI) as (E & HI2). rewrite E. cbv zeta.
        pose proof (before_shape t em cf k v) as Hsh. destruct (before t em cf k v) as [v' r]. cbn [fst] in Hsh.
        destruct r as [c|]; [reflexivity|].
        assert (Hs1 : shape v' = sh0) by (rewrite Hsh; exact (proj1 HI)).
        rewrite (proj1 (trace_t_step (LIter 0) v' _ (HI2 v' Hs1))). reflexivity.
      Qed.

      Notation pushes := (pushes num names reset).
      Notation iter_entries := (iter_entries num zero ev o t v1 names).
      Notation end_entry := (end_entry num zero t names).

      Definition loop_post (j : nat) (x : traces) (R : lres num * traces) : Prop :=
        match fst R with
        | LDone v' x' kk _ =>
            (j <= kk)%nat /\ (x' = Solved -> (S j <= kk)%nat) /\ (x' <> Solved -> v' = st_after kk) /\
            nth p (snd R) empty_trace = pushes (nth p x empty_trace) (iter_entries j kk ++ end_entry x' v')
        | LRaise _ _ e _ =>
            (* an exception path: passes j+1 .. m were recorded, nothing else *)
            e <> NonConvergenceError /\
            exists m, (j <= m)%nat /\
              nth p (snd R) empty_trace = pushes (nth p x empty_trace) (iter_entries j m)
        end.

      Lemma iter_entries_S j kk : (S j <= kk)%nat ->
        iter_entries j kk = (LIter (S j), snap (st_after (S j)) t names) :: iter_entries (S j) kk.
      Proof.
        intros H. unfold TracerFacts.iter_entries. replace (kk - j)%nat with (S (kk - S j)) by lia. reflexivity.
      Qed.

      Lemma loop_post_step j x R : (p < length x)%nat ->
        loop_post (S j) (upd p (push names reset (nth p x empty_trace) (LIter (S j)) (snap (st_after (S j)) t names)) x) R ->
        loop_post j x R.
      Proof.
        intros Hlt. unfold loop_post. destruct (fst R) as [v' x' kk lg|v' wr e lg].
        - intros (H1 & H2 & H3 & H4). split; [lia|]. split; [intros; lia|]. split; [exact H3|].
          rewrite H4. rewrite nth_upd_eq by exact Hlt. rewrite (iter_entries_S j kk H1). reflexivity.
        - intros (He & m & Hm & Hn). split; [exact He|]. exists m. split; [lia|].
          rewrite Hn. rewrite nth_upd_eq by exact Hlt. rewrite (iter_entries_S j m Hm). reflexivity.
      Qed.

      Lemma loop_post_raise_now j x v' wr e lg : e <> NonConvergenceError ->
        loop_post j x (LRaise v' wr e lg, x).
      Proof.
        intros He. unfold loop_post. cbn [fst snd]. split; [exact He|]. exists j. split; [lia|].
        unfold TracerFacts.iter_entries. rewrite Nat.sub_diag. reflexivity.
      Qed.

      Lemma loop_post_raise_after_pass j x v' wr e lg : (p < length x)%nat -> e <> NonConvergenceError ->
        loop_post j x (LRaise v' wr e lg,
                       upd p (push names reset (nth p x empty_trace) (LIter (S j)) (snap (st_after (S j)) t names)) x).
      Proof.
        intros Hlt He. unfold loop_post. cbn [fst snd]. split; [exact He|]. exists (S j). split; [lia|].
        rewrite nth_upd_eq by exact Hlt. unfold TracerFacts.iter_entries.
        replace (S j - j)%nat with 1%nat by lia. reflexivity.
      Qed.

      Lemma loop_post_stop j x x' lg : (p < length x)%nat -> x' <> Solved ->
        loop_post j x (LDone (st_after (S j)) x' (S j) lg,
                       upd p (push names reset (nth p x empty_trace) (LIter (S j)) (snap (st_after (S j)) t names)) x).
      Proof.
        intros Hlt Hx. unfold loop_post. cbn [fst snd]. split; [lia|]. split; [intros; lia|]. split; [reflexivity|].
        rewrite nth_upd_eq by exact Hlt. unfold TracerFacts.iter_entries, TracerFacts.end_entry.
        replace (S j - j)%nat with 1%nat by lia. destruct x'; try reflexivity. congruence.
      Qed.

      Lemma InvOn_lt v x : InvOn v x -> (p < length x)%nat.
      Proof. intros (_ & Hl & _). rewrite Hl. exact (py_pos_lt _ _ _ Hp). Qed.

      Lemma loopE_trace : forall n j x cur lg,
        InvOn (st_after j) x ->
        loop_post j x (loopE traces (traced_ev cfg a reset ev) (traced_after cfg a reset after)
                             d o t ps n (S j) (st_after j) x cur lg).
      Proof.
        induction n as [|n IH]; intros j x cur lg HI.
        - cbn [Tracer.loopE]. unfold loop_post. cbn [fst snd]. replace (S j - 1)%nat with j by lia.
          split; [lia|]. split; [discriminate|]. split; [reflexivity|].
          unfold TracerFacts.iter_entries, TracerFacts.end_entry. rewrite Nat.sub_diag. reflexivity.
        - cbn [Tracer.loopE]. rewrite (traced_ev_on_eq (S j) (st_after j) x HI).
          pose proof (ev_shape t em cf (S j) (st_after j)) as Hsh.
          destruct (ev t em cf (S j) (st_after j)) as [v' r] eqn:E. cbn [fst] in Hsh.
          assert (Hv' : v' = st_after (S j)).
          { cbn [SolverFacts.st_after]. unfold evk. rewrite E. reflexivity. }
          destruct r as [c|]; [apply loop_post_raise_now; discriminate|].
          pose proof (InvOn_lt _ _ HI) as Hlt.
          assert (Hs1 : shape v' = sh0) by (rewrite Hsh; exact (proj1 HI)).
          pose proof (proj2 (trace_t_step (LIter (S j)) v' x
                       (InvOn_shape _ _ _ (eq_sym Hsh) HI)) v' Hs1) as HI1.
          rewrite Hv' in *.
          set (x1 := upd p _ x) in *.
          destruct (negb (all_finite num isfin cur)); [apply loop_post_step; [exact Hlt|apply IH; exact HI1]|].
          destruct (negb (all_finite num isfin (get_check num zero d (st_after (S j)) ps))).
          + destruct (errors o); try (apply loop_post_raise_after_pass; [exact Hlt|discriminate]).
            * apply loop_post_stop; [exact Hlt|discriminate].
            * destruct n; [apply loop_post_stop; [exact Hlt|discriminate]|].
              apply loop_post_step; [exact Hlt|apply IH; exact HI1].
            * destruct n; [apply loop_post_stop; [exact Hlt|discriminate]|].
              apply loop_post_step; [exact Hlt|apply IH; exact HI1].
          + destruct (Z.of_nat (S j) <? min_iter o); [apply loop_post_step; [exact Hlt|apply IH; exact HI1]|].
            destruct (conv num sub absf ltb (tol o) _ cur); [|apply loop_post_step; [exact Hlt|apply IH; exact HI1]].
            rewrite (traced_after_on_eq (S j) (st_after (S j)) x1 HI1).
            destruct (after t em cf (S j) (st_after (S j))) as [v'' r'].
            destruct r' as [c|]; [apply loop_post_raise_after_pass; [exact Hlt|discriminate]|].
            unfold loop_post. cbn [fst snd]. split; [lia|]. split; [intros; lia|]. split; [congruence|].
            pose proof (InvOn_lt _ _ HI1) as Hlt1.
            rewrite nth_upd_eq by exact Hlt1. subst x1. rewrite nth_upd_eq by exact Hlt.
            unfold TracerFacts.iter_entries, TracerFacts.end_entry. replace (S j - j)%nat with 1%nat by lia. reflexivity.
      Qed.
    End Loop.
  End Sim.

  (* ---------------------------------------------------------------- solve_t: non-interference *)
  Section SolveT.
    Variables (cfg : tcfg) (a : targ) (reset : bool).
    Variables (ev before after : hook).
    Hypothesis ev_shape : shape_pres ev.
    Hypothesis before_shape : shape_pres before.
    Hypothesis after_shape : shape_pres after.

    (* Tracing OFF: the traced class run without `trace=` (or with a falsy one) is the plain solve, and the
       trace component comes back untouched. *)
    Theorem trace_off_writes_nothing d o t s tr :
      truthy a = false ->
      traced_solve_t cfg a reset ev before after d o t s tr
      = (let '(s', out) := solve_t_M ev before after d o t s in ((s', tr), out)).
    Proof.
      intros Ha. unfold Tracer.traced_solve_t. rewrite Ha.
      pose proof (solve_t_E_sim num sub absf ltb isfin zero traces ev before after
                   (traced_ev cfg a reset ev) (traced_before cfg a reset before) (traced_after cfg a reset after)
                   (InvOff (shape (vals_of s)) tr) (InvOff_shape _ _) d o t s tr) as H.
      cbv zeta in H. destruct H as [H1 H2].
      - apply sim_off; [exact ev_shape|]. intros k v x. unfold Tracer.traced_ev. rewrite Ha. reflexivity.
      - apply sim_off; [exact before_shape|]. intros k v x. unfold Tracer.traced_before. rewrite Ha. reflexivity.
      - apply sim_off; [exact after_shape|]. intros k v x. unfold Tracer.traced_after. rewrite Ha. reflexivity.
      - split; reflexivity.
      - destruct (solve_t_M ev before after d o t s) as [s' out].
        destruct (solve_t_E traces _ _ _ d o t s tr) as [[s2 tr2] out2]. cbn [fst snd] in *.
        destruct H2 as [_ H2]. inversion H1; subst. reflexivity.
    Qed.

    (* Tracing ON, first trace_t ('start') cannot fail: erasing the trace component of the traced run gives the
       untraced run — values, status, iterations, event log, return value / exception class and cause — on
       every path.  Moreover only the period's own Trace moved and it can be appended to again. *)
    Theorem traced_solve_t_on d o t s tr p :
      truthy a = true ->
      names_valid (vals_of s) t (names_of cfg (length (vals_of s)) a) ->
      py_pos (length tr) t = Some p ->
      reset = true \/ width_ok (nth p tr empty_trace) (names_of cfg (length (vals_of s)) a) ->
      let R := traced_solve_t cfg a reset ev before after d o t s tr in
      let U := solve_t_M ev before after d o t s in
      (fst (fst R), snd R) = U /\
      shape (vals_of (fst U)) = shape (vals_of s) /\
      length (snd (fst R)) = length tr /\
      (reset = true \/ width_ok (nth p (snd (fst R)) empty_trace) (names_of cfg (length (vals_of s)) a)) /\
      (forall q, q <> p -> nth q (snd (fst R)) empty_trace = nth q tr empty_trace).
    Proof.
      intros Ha Hv Hp Hw. cbv zeta. unfold Tracer.traced_solve_t. rewrite Ha.
      rewrite (trace_t_ok cfg t LStart a reset (vals_of s) tr p Hv Hp Hw).
      set (names := names_of cfg (length (vals_of s)) a) in *.
      set (tr1 := upd p _ tr).
      assert (Hnv : length (shape (vals_of s)) = length (vals_of s)) by (unfold TracerFacts.shape; apply map_length).
      assert (Hnames : forall v, shape v = shape (vals_of s) -> names_valid v t names).
      { intros v Hs. apply (names_valid_shape (vals_of s)); [symmetry; exact Hs|exact Hv]. }
      pose proof (py_pos_lt _ _ _ Hp) as Hlt.
      assert (HI : InvOn cfg a reset p (shape (vals_of s)) tr (length (vals_of s)) (vals_of s) tr1).
      { unfold InvOn. fold names. subst tr1. split; [reflexivity|]. split; [apply upd_length|]. split.
        - right. rewrite nth_upd_eq by exact Hlt. apply push_width; [exact Hw|apply snap_length].
        - intros q Hq. apply nth_upd_neq. congruence. }
      pose proof (solve_t_E_sim num sub absf ltb isfin zero traces ev before after
                   (traced_ev cfg a reset ev) (traced_before cfg a reset before) (traced_after cfg a reset after)
                   (InvOn cfg a reset p (shape (vals_of s)) tr (length (vals_of s)))
                   (InvOn_shape cfg a reset p _ tr _) d o t s tr1
                   (sim_ev_on cfg a reset ev ev_shape t p _ tr Hp _ Hnv Hnames _ _ Ha)
                   (sim_before_on cfg a reset before before_shape t p _ tr Hp _ Hnv Hnames _ _ Ha)
                   (sim_after_on cfg a reset after after_shape t p _ tr Hp _ Hnv Hnames _ _ Ha) HI) as H.
      cbv zeta in H. destruct H as [H1 (H2 & H3 & H4 & H5)]. fold names in H4.
      split; [exact H1|]. split; [exact H2|]. split; [exact H3|]. split; [exact H4|exact H5].
    Qed.

    (* the property's first sentence for solve_t *)
    Theorem trace_noninterference_solve_t d o t s tr :
      (truthy a = true -> ready cfg a reset t (vals_of s) tr) ->
      let R := traced_solve_t cfg a reset ev before after d o t s tr in
      (fst (fst R), snd R) = solve_t_M ev before after d o t s.
    Proof.
      intros Hr. cbv zeta. destruct (truthy a) eqn:Ha.
      - destruct (Hr eq_refl) as (Hv & p & Hp & Hw).
        exact (proj1 (traced_solve_t_on d o t s tr p Ha Hv Hp Hw)).
      - rewrite (trace_off_writes_nothing d o t s tr Ha).
        destruct (solve_t_M ev before after d o t s) as [s' out]. reflexivity.
    Qed.

    (* Tracing ON and the first trace_t fails (unknown name, t outside the span, width mismatch): the call
       raises that exception before the base class is entered; nothing but the period's Trace index moved. *)
    Theorem traced_solve_t_start_fails d o t s tr e :
      truthy a = true ->
      snd (trace_t cfg t LStart a reset (vals_of s) tr) = Some e ->
      traced_solve_t cfg a reset ev before after d o t s tr
      = ((s, fst (trace_t cfg t LStart a reset (vals_of s) tr)), Raise e).
    Proof.
      intros Ha He. unfold Tracer.traced_solve_t. rewrite Ha.
      destruct (trace_t cfg t LStart a reset (vals_of s) tr) as [tr1 r]. cbn [fst snd] in *. subst r. reflexivity.
    Qed.

    (* ------------------------------------------------------------ what a traced solve_t leaves in the Trace *)
    Lemma trace_of_run_core d o t s tr p s' tr' out v0 :
      truthy a = true ->
      names_valid (vals_of s) t (names_of cfg (length (vals_of s)) a) ->
      py_pos (length tr) t = Some p ->
      reset = true \/ width_ok (nth p tr empty_trace) (names_of cfg (length (vals_of s)) a) ->
      shape v0 = shape (vals_of s) ->
      let names := names_of cfg (length (vals_of s)) a in
      let tr1 := upd p (push names reset (nth p tr empty_trace) LStart (snap (vals_of s) t names)) tr in
      (if is_raise (errors o) && negb (all_finite num isfin (get_check num zero d v0 p))
       then ((with_vals num s v0 (log s), tr1), Raise (SolutionError None))
       else match traced_before cfg a reset before t (errors o) (catch_first o) 0%nat v0 tr1 with
            | ((v1, x1), Some c) =>
                ((with_vals num s v1 (log s ++ [EvBefore t]), x1), Raise (SolutionError (Some c)))
            | ((v1, x1), None) =>
                let '(r, x2) := loopE traces (traced_ev cfg a reset ev) (traced_after cfg a reset after)
                                      d o t p (Z.to_nat (max_iter o)) 1%nat v1 x1
                                      (get_check num zero d v0 p) (log s ++ [EvBefore t]) in
                let '(s'', out') := finish num o s p r in ((s'', x2), out')
            end) = ((s', tr'), out) ->
      out = Ret true \/ out = Ret false \/ out = Raise NonConvergenceError ->
      let v1 := fst (before t (errors o) (catch_first o) 0%nat v0) in
      exists k x,
        status s' = upd p x (status s) /\ iters s' = upd p (Z.of_nat k) (iters s) /\
        (out = Ret true <-> x = Solved) /\ (x = Solved -> (1 <= k)%nat) /\
        (x <> Solved -> vals_of s' = st_after num ev o t v1 k) /\
        nth p tr' empty_trace
        = pushes num names reset (nth p tr empty_trace)
            ([(LStart, snap (vals_of s) t names); (LBefore, snap v0 t names); (LIter 0, snap v1 t names)]
             ++ iter_entries num zero ev o t v1 names 0 k ++ end_entry num zero t names x (vals_of s')).
    Proof.
      intros Ha Hv Hp Hw Hs0 names tr1 Hrun Hout. cbv zeta.
      assert (Hnv : length (shape (vals_of s)) = length (vals_of s)) by (unfold TracerFacts.shape; apply map_length).
      assert (Hnames : forall v, shape v = shape (vals_of s) -> names_valid v t names).
      { intros v Hs. apply (names_valid_shape (vals_of s)); [symmetry; exact Hs|exact Hv]. }
      pose proof (py_pos_lt _ _ _ Hp) as Hlt.
      assert (HI0 : InvOn cfg a reset p (shape (vals_of s)) tr (length (vals_of s)) v0 tr1).
      { unfold InvOn. fold names. subst tr1. split; [exact Hs0|]. split; [apply upd_length|]. split.
        - right. rewrite nth_upd_eq by exact Hlt. apply push_width; [exact Hw|apply snap_length].
        - intros q Hq. apply nth_upd_neq. congruence. }
      destruct (is_raise (errors o) && negb (all_finite num isfin (get_check num zero d v0 p))).
      { inversion Hrun; subst. destruct Hout as [Q|[Q|Q]]; discriminate Q. }
      rewrite (traced_before_on_eq cfg a reset before before_shape t p _ tr Hp _ Hnv Hnames Ha o 0%nat v0 tr1 HI0) in Hrun.
      cbv zeta in Hrun. fold names in Hrun.
      pose proof (before_shape t (errors o) (catch_first o) 0%nat v0) as Hsh1.
      destruct (before t (errors o) (catch_first o) 0%nat v0) as [v1 r]. cbn [fst] in *.
      destruct r as [c|].
      { inversion Hrun; subst. destruct Hout as [Q|[Q|Q]]; discriminate Q. }
      assert (Hs1 : shape v1 = shape (vals_of s)) by congruence.
      set (x1 := upd p (push names reset (nth p tr1 empty_trace) LBefore (snap v0 t names)) tr1) in *.
      pose proof (proj2 (trace_t_step cfg a reset t p _ tr Hp _ Hnv Hnames LBefore v0 tr1 HI0) v1 Hs1) as HI1.
      fold names in HI1. fold x1 in HI1.
      set (x3 := upd p (push names reset (nth p x1 empty_trace) (LIter 0) (snap v1 t names)) x1) in *.
      pose proof (proj2 (trace_t_step cfg a reset t p _ tr Hp _ Hnv Hnames (LIter 0) v1 x1 HI1) v1 Hs1) as HI3.
      fold names in HI3. fold x3 in HI3.
      pose proof (loopE_trace cfg a reset ev after ev_shape after_shape t p _ tr Hp _ Hnv Hnames Ha d o p v1
                              (Z.to_nat (max_iter o)) 0%nat x3 (get_check num zero d v0 p) (log s ++ [EvBefore t]) HI3) as LT.
      cbn [SolverFacts.st_after] in LT. unfold loop_post in LT. fold names in LT.
      destruct (loopE traces _ _ d o t p (Z.to_nat (max_iter o)) 1 v1 x3 _ _) as [r x2]. cbn [fst snd] in LT.
      destruct r as [v' x kk lg'|v' wr e lg'].
      - destruct LT as (L1 & L2 & L3 & L4).
        assert (Hslot : nth p x3 empty_trace
                        = push names reset (push names reset (push names reset (nth p tr empty_trace) LStart
                            (snap (vals_of s) t names)) LBefore (snap v0 t names)) (LIter 0) (snap v1 t names)).
        { subst x3. rewrite nth_upd_eq by (destruct HI1 as (_ & Hl & _); rewrite Hl; exact Hlt).
          subst x1. rewrite nth_upd_eq by (subst tr1; rewrite upd_length; exact Hlt).
          subst tr1. rewrite nth_upd_eq by exact Hlt. reflexivity. }
        cbn [Solver.finish] in Hrun.
        destruct (st_eqb x Failed && fail_raise o) eqn:EF; inversion Hrun; subst s' tr' out; clear Hrun;
          exists kk, x; cbn [stamp status iters vals_of].
        + apply andb_true_iff in EF as [EF _]. assert (x = Failed) by (destruct x; try discriminate; reflexivity). subst x.
          split; [reflexivity|]. split; [reflexivity|]. split; [split; discriminate|]. split; [discriminate|].
          split; [exact L3|]. rewrite L4, Hslot. reflexivity.
        + split; [reflexivity|]. split; [reflexivity|]. split.
          { destruct x; cbn [st_eqb]; split; intros Q; try discriminate Q; reflexivity. }
          split; [exact L2|]. split; [exact L3|]. rewrite L4, Hslot. reflexivity.
      - destruct LT as [LT _]. cbn [Solver.finish] in Hrun. inversion Hrun; subst.
        destruct Hout as [Q|[Q|Q]]; try discriminate Q. inversion Q; subst. congruence.
    Qed.

    Theorem trace_of_run d o t s tr p s' tr' out :
      truthy a = true ->
      names_valid (vals_of s) t (names_of cfg (length (vals_of s)) a) ->
      py_pos (length tr) t = Some p -> length tr = length (status s) ->
      reset = true \/ width_ok (nth p tr empty_trace) (names_of cfg (length (vals_of s)) a) ->
      traced_solve_t cfg a reset ev before after d o t s tr = ((s', tr'), out) ->
      out = Ret true \/ out = Ret false \/ out = Raise NonConvergenceError ->
      let names := names_of cfg (length (vals_of s)) a in
      let v0 := seeded num zero d o s p in
      let v1 := fst (before t (errors o) (catch_first o) 0%nat v0) in
      exists k x,
        status s' = upd p x (status s) /\ iters s' = upd p (Z.of_nat k) (iters s) /\
        (out = Ret true <-> x = Solved) /\ (x = Solved -> (1 <= k)%nat) /\
        (x <> Solved -> vals_of s' = st_after num ev o t v1 k) /\
        nth p tr' empty_trace
        = pushes num names reset (nth p tr empty_trace)
            ([(LStart, snap (vals_of s) t names); (LBefore, snap v0 t names); (LIter 0, snap v1 t names)]
             ++ iter_entries num zero ev o t v1 names 0 k ++ end_entry num zero t names x (vals_of s')).
    Proof.
      intros Ha Hv Hp Hlen Hw Hrun Hout. cbv zeta.
      unfold Tracer.traced_solve_t in Hrun. rewrite Ha in Hrun.
      rewrite (trace_t_ok cfg t LStart a reset (vals_of s) tr p Hv Hp Hw) in Hrun.
      unfold Tracer.solve_t_E in Hrun.
      destruct (max_iter o <? min_iter o).
      { inversion Hrun; subst. destruct Hout as [Q|[Q|Q]]; discriminate Q. }
      rewrite <- Hlen, Hp in Hrun.
      destruct (negb (feasible d (length tr) p)).
      { inversion Hrun; subst. destruct Hout as [Q|[Q|Q]]; discriminate Q. }
      unfold seeded. destruct (offset o =? 0).
      - apply (trace_of_run_core d o t s tr p s' tr' out (vals_of s) Ha Hv Hp Hw eq_refl Hrun Hout).
      - destruct (Z.of_nat p + offset o <? 0).
        { inversion Hrun; subst. destruct Hout as [Q|[Q|Q]]; discriminate Q. }
        destruct (Z.of_nat (length tr) <=? Z.of_nat p + offset o).
        { inversion Hrun; subst. destruct Hout as [Q|[Q|Q]]; discriminate Q. }
        apply (trace_of_run_core d o t s tr p s' tr' out _ Ha Hv Hp Hw (shape_copy_endo num zero d _ p _) Hrun Hout).
    Qed.

    Lemma map_fst_iter_entries o t v1 names j kk :
      map fst (iter_entries num zero ev o t v1 names j kk) = map LIter (seq (S j) (kk - j)).
    Proof. unfold iter_entries. rewrite map_map. reflexivity. Qed.

    (* EVERY path (any exception included): what the call appends to the period's Trace is a run
       start [, before [, 0, 1, .., m [, end]]] — never a gap, never a label out of order, 'end' only last *)
    Theorem trace_every_path d o t s tr p :
      truthy a = true ->
      names_valid (vals_of s) t (names_of cfg (length (vals_of s)) a) ->
      py_pos (length tr) t = Some p -> length tr = length (status s) ->
      reset = true \/ width_ok (nth p tr empty_trace) (names_of cfg (length (vals_of s)) a) ->
      let R := traced_solve_t cfg a reset ev before after d o t s tr in
      exists l, run_index (map fst l) /\
        nth p (snd (fst R)) empty_trace
        = pushes num (names_of cfg (length (vals_of s)) a) reset (nth p tr empty_trace) l.
    Proof.
      intros Ha Hv Hp Hlen Hw. cbv zeta.
      unfold Tracer.traced_solve_t. rewrite Ha.
      rewrite (trace_t_ok cfg t LStart a reset (vals_of s) tr p Hv Hp Hw).
      set (names := names_of cfg (length (vals_of s)) a) in *.
      set (X := nth p tr empty_trace) in *.
      set (tr1 := upd p (push names reset X LStart (snap (vals_of s) t names)) tr).
      pose proof (py_pos_lt _ _ _ Hp) as Hlt.
      assert (Hearly : forall (s0 : mstate num) (out0 : outcome bool),
                 exists l, run_index (map fst l) /\
                   nth p (snd (fst ((s0, tr1), out0))) empty_trace = pushes num names reset X l).
      { intros s0 out0. exists [(LStart, snap (vals_of s) t names)]. split; [apply RI_start|].
        cbn [fst snd]. subst tr1. rewrite nth_upd_eq by exact Hlt. reflexivity. }
      unfold Tracer.solve_t_E.
      destruct (max_iter o <? min_iter o); [apply Hearly|].
      rewrite <- Hlen, Hp.
      destruct (negb (feasible d (length tr) p)); [apply Hearly|].
      set (pre := if offset o =? 0 then inl (vals_of s) else _).
      assert (Hpre : match pre with inl v0 => shape v0 = shape (vals_of s) | inr _ => True end).
      { subst pre. destruct (offset o =? 0); [reflexivity|].
        destruct (_ <? 0); [exact Logic.I|]. destruct (_ <=? _); [exact Logic.I|]. apply shape_copy_endo. }
      destruct pre as [v0|e]; [|apply Hearly].
      assert (Hnv : length (shape (vals_of s)) = length (vals_of s)) by (unfold TracerFacts.shape; apply map_length).
      assert (Hnames : forall v, shape v = shape (vals_of s) -> names_valid v t names).
      { intros v Hs. apply (names_valid_shape (vals_of s)); [symmetry; exact Hs|exact Hv]. }
      assert (HI0 : InvOn cfg a reset p (shape (vals_of s)) tr (length (vals_of s)) v0 tr1).
      { unfold InvOn. fold names. subst tr1. split; [exact Hpre|]. split; [apply upd_length|]. split.
        - right. rewrite nth_upd_eq by exact Hlt. apply push_width; [exact Hw|apply snap_length].
        - intros q Hq. apply nth_upd_neq. congruence. }
      destruct (is_raise (errors o) && negb (all_finite num isfin (get_check num zero d v0 p))); [apply Hearly|].
      rewrite (traced_before_on_eq cfg a reset before before_shape t p _ tr Hp _ Hnv Hnames Ha o 0%nat v0 tr1 HI0).
      cbv zeta. fold names.
      pose proof (before_shape t (errors o) (catch_first o) 0%nat v0) as Hsh1.
      destruct (before t (errors o) (catch_first o) 0%nat v0) as [v1 r]. cbn [fst] in Hsh1.
      assert (Hs1 : shape v1 = shape (vals_of s)) by congruence.
      set (x1 := upd p (push names reset (nth p tr1 empty_trace) LBefore (snap v0 t names)) tr1).
      pose proof (proj2 (trace_t_step cfg a reset t p _ tr Hp _ Hnv Hnames LBefore v0 tr1 HI0) v1 Hs1) as HI1.
      fold names in HI1. fold x1 in HI1.
      assert (Hx1 : nth p x1 empty_trace
                    = push names reset (push names reset X LStart (snap (vals_of s) t names)) LBefore (snap v0 t names)).
      { subst x1. rewrite nth_upd_eq by (subst tr1; rewrite upd_length; exact Hlt).
        subst tr1. rewrite nth_upd_eq by exact Hlt. reflexivity. }
      destruct r as [c|].
      { exists [(LStart, snap (vals_of s) t names); (LBefore, snap v0 t names)]. split; [apply RI_before|].
        cbn [fst snd]. rewrite Hx1. reflexivity. }
      set (x3 := upd p (push names reset (nth p x1 empty_trace) (LIter 0) (snap v1 t names)) x1).
      pose proof (proj2 (trace_t_step cfg a reset t p _ tr Hp _ Hnv Hnames (LIter 0) v1 x1 HI1) v1 Hs1) as HI3.
      fold names in HI3. fold x3 in HI3.
      assert (Hx3 : nth p x3 empty_trace
                    = push names reset (push names reset (push names reset X LStart (snap (vals_of s) t names))
                                         LBefore (snap v0 t names)) (LIter 0) (snap v1 t names)).
      { subst x3. rewrite nth_upd_eq by (destruct HI1 as (_ & Hl & _); rewrite Hl; exact Hlt). rewrite Hx1. reflexivity. }
      pose proof (loopE_trace cfg a reset ev after ev_shape after_shape t p _ tr Hp _ Hnv Hnames Ha d o p v1
                              (Z.to_nat (max_iter o)) 0%nat x3 (get_check num zero d v0 p) (log s ++ [EvBefore t]) HI3) as LT.
      cbn [SolverFacts.st_after] in LT. unfold loop_post in LT. fold names in LT.
      destruct (loopE traces _ _ d o t p (Z.to_nat (max_iter o)) 1 v1 x3 _ _) as [r x2]. cbn [fst snd] in LT.
      destruct (finish num o s p r) as [s'' out'] eqn:EF. cbn [fst snd].
      destruct r as [v' x kk lg'|v' wr e lg'].
      - destruct LT as (L1 & L2 & L3 & L4).
        exists ([(LStart, snap (vals_of s) t names); (LBefore, snap v0 t names); (LIter 0, snap v1 t names)]
                ++ iter_entries num zero ev o t v1 names 0 kk ++ end_entry num zero t names x v').
        split.
        + rewrite !map_app, map_fst_iter_entries, Nat.sub_0_r. cbn [map fst app].
          unfold end_entry. destruct (st_eqb x Solved) eqn:Ex.
          * cbn [map fst]. apply (RI_end kk). apply L2. destruct x; try discriminate Ex; reflexivity.
          * cbn [map]. rewrite app_nil_r. apply (RI_iters kk).
        + rewrite L4, Hx3. reflexivity.
      - destruct LT as (_ & m & Hm & Hn).
        exists ([(LStart, snap (vals_of s) t names); (LBefore, snap v0 t names); (LIter 0, snap v1 t names)]
                ++ iter_entries num zero ev o t v1 names 0 m).
        split.
        + rewrite !map_app, map_fst_iter_entries, Nat.sub_0_r. cbn [map fst app]. apply (RI_iters m).
        + rewrite Hn, Hx3. reflexivity.
    Qed.
  End SolveT.

  (* ---------------------------------------------------------------- closed forms of `pushes` *)
  Lemma names_eqb_refl names : names_eqb names names = true.
  Proof. apply names_eqb_eq. reflexivity. Qed.

  (* appending to a non-empty Trace recorded for the SAME names: nothing is lost, the entries follow in order *)
  Lemma pushes_append names (Y : trace) l :
    tr_values Y <> [] -> tr_names Y = names ->
    pushes num names false Y l = mkTrace (tr_names Y) (tr_index Y ++ map fst l) (tr_values Y ++ map snd l).
  Proof.
    unfold pushes. revert Y. induction l as [|[lab res] l IH]; intros Y HY HN.
    - cbn [fold_left map]. rewrite !app_nil_r. destruct Y; reflexivity.
    - cbn [fold_left fst snd map].
      assert (E : push names false Y lab res = mkTrace (tr_names Y) (tr_index Y ++ [lab]) (tr_values Y ++ [res])).
      { unfold Tracer.push, Tracer.afresh, Tracer.is_empty. destruct (tr_values Y) eqn:EV; [congruence|].
        rewrite HN, names_eqb_refl. reflexivity. }
      rewrite E. rewrite IH.
      + cbn [tr_names tr_index tr_values]. rewrite <- !app_assoc. reflexivity.
      + cbn [tr_values]. destruct (tr_values Y); [congruence|discriminate].
      + cbn [tr_names]. exact HN.
  Qed.

  (* the first snapshot into an empty Trace, or into one recorded for OTHER names, starts the Trace afresh under the
     names traced now; the rest follows *)
  Lemma pushes_afresh names reset (X : trace) e l :
    afresh num X reset names = true -> reset = false ->
    pushes num names reset X (e :: l) = mkTrace names (fst e :: map fst l) (snd e :: map snd l).
  Proof.
    intros HX Hr. subst reset.
    change (pushes num names false X (e :: l))
      with (pushes num names false (push names false X (fst e) (snd e)) l).
    assert (E : push names false X (fst e) (snd e) = mkTrace names [fst e] [snd e])
      by (unfold Tracer.push; rewrite HX; reflexivity).
    rewrite E. rewrite pushes_append; [reflexivity|cbn [tr_values]; discriminate|reflexivity].
  Qed.

  Lemma pushes_from_empty names (X : trace) e l :
    is_empty num X = true ->
    pushes num names false X (e :: l) = mkTrace names (fst e :: map fst l) (snd e :: map snd l).
  Proof.
    intros HX. apply pushes_afresh; [|reflexivity]. unfold Tracer.afresh. rewrite HX. reflexivity.
  Qed.

  Lemma pushes_other_names names (X : trace) e l :
    tr_names X <> names ->
    pushes num names false X (e :: l) = mkTrace names (fst e :: map fst l) (snd e :: map snd l).
  Proof.
    intros HX. apply pushes_afresh; [|reflexivity]. unfold Tracer.afresh.
    destruct (names_eqb (tr_names X) names) eqn:E; [apply names_eqb_eq in E; congruence|].
    rewrite orb_true_r. reflexivity.
  Qed.

  Lemma pushes_reset names (X : trace) l e :
    pushes num names true X (l ++ [e]) = mkTrace names [fst e] [snd e].
  Proof.
    unfold pushes. rewrite fold_left_app. cbn [fold_left]. unfold Tracer.push, Tracer.afresh.
    rewrite orb_true_r. reflexivity.
  Qed.

  Lemma is_empty_width (X : trace) names : is_empty num X = true -> width_ok X names.
  Proof. unfold Tracer.is_empty, width_ok. destruct (tr_values X); [auto|discriminate]. Qed.

  (* ---------------------------------------------------------------- the property's second sentence *)
  Section Corollaries.
    Variables (cfg : tcfg) (a : targ).
    Variables (ev before after : hook).
    Hypothesis ev_shape : shape_pres ev.
    Hypothesis before_shape : shape_pres before.
    Hypothesis after_shape : shape_pres after.

    (* reset=False, the period's Trace empty, the period SOLVED: labels start, before, 0, 1..k, end with
       k = iterations[t] >= 1; snapshot j = the traced variables after pass j (0 = after the pre-hook);
       the last snapshot = the stored solution *)
    Theorem trace_shape_solved d o t s tr p s' tr' :
      truthy a = true ->
      names_valid (vals_of s) t (names_of cfg (length (vals_of s)) a) ->
      py_pos (length tr) t = Some p -> length tr = length (status s) ->
      is_empty num (nth p tr empty_trace) = true ->
      traced_solve_t cfg a false ev before after d o t s tr = ((s', tr'), Ret true) ->
      let names := names_of cfg (length (vals_of s)) a in
      let v0 := seeded num zero d o s p in
      let v1 := fst (before t (errors o) (catch_first o) 0%nat v0) in
      exists k, (1 <= k)%nat /\
        status s' = upd p Solved (status s) /\ iters s' = upd p (Z.of_nat k) (iters s) /\
        nth p tr' empty_trace
        = mkTrace names
            (LStart :: LBefore :: map LIter (seq 0 (S k)) ++ [LEnd])
            (snap (vals_of s) t names :: snap v0 t names
             :: map (fun j => snap (st_after num ev o t v1 j) t names) (seq 0 (S k)) ++ [snap (vals_of s') t names]).
    Proof.
      intros Ha Hv Hp Hlen HX Hrun. cbv zeta.
      destruct (trace_of_run cfg a false ev before after ev_shape before_shape after_shape d o t s tr p s' tr' _
                  Ha Hv Hp Hlen (or_intror (is_empty_width _ _ HX)) Hrun (or_introl eq_refl))
        as (k & x & Hst & Hit & Hx & Hk & _ & Htr).
      assert (x = Solved) by (apply Hx; reflexivity). subst x.
      exists k. split; [apply Hk; reflexivity|]. split; [exact Hst|]. split; [exact Hit|].
      rewrite Htr. cbn [app]. rewrite pushes_from_empty by exact HX.
      unfold iter_entries, end_entry. cbn [st_eqb fst snd map]. rewrite !map_app, !map_map. cbn [fst snd map].
      rewrite Nat.sub_0_r. reflexivity.
    Qed.

    (* ... the period NOT solved (returned False, or NonConvergenceError): the trace stops after the last pass
       k = iterations[t] (no 'end'), and that last snapshot is what is stored *)
    Theorem trace_shape_unsolved d o t s tr p s' tr' out :
      truthy a = true ->
      names_valid (vals_of s) t (names_of cfg (length (vals_of s)) a) ->
      py_pos (length tr) t = Some p -> length tr = length (status s) ->
      is_empty num (nth p tr empty_trace) = true ->
      traced_solve_t cfg a false ev before after d o t s tr = ((s', tr'), out) ->
      out = Ret false \/ out = Raise NonConvergenceError ->
      let names := names_of cfg (length (vals_of s)) a in
      let v0 := seeded num zero d o s p in
      let v1 := fst (before t (errors o) (catch_first o) 0%nat v0) in
      exists k x, x <> Solved /\
        status s' = upd p x (status s) /\ iters s' = upd p (Z.of_nat k) (iters s) /\
        vals_of s' = st_after num ev o t v1 k /\
        nth p tr' empty_trace
        = mkTrace names
            (LStart :: LBefore :: map LIter (seq 0 (S k)))
            (snap (vals_of s) t names :: snap v0 t names
             :: map (fun j => snap (st_after num ev o t v1 j) t names) (seq 0 (S k))).
    Proof.
      intros Ha Hv Hp Hlen HX Hrun Hout. cbv zeta.
      destruct (trace_of_run cfg a false ev before after ev_shape before_shape after_shape d o t s tr p s' tr' out
                  Ha Hv Hp Hlen (or_intror (is_empty_width _ _ HX)) Hrun (or_intror Hout))
        as (k & x & Hst & Hit & Hx & _ & Hv' & Htr).
      assert (Hns : x <> Solved).
      { intros Q. apply Hx in Q. destruct Hout as [H|H]; rewrite H in Q; discriminate Q. }
      exists k, x. split; [exact Hns|]. split; [exact Hst|]. split; [exact Hit|]. split; [apply Hv'; exact Hns|].
      rewrite Htr. cbn [app]. rewrite pushes_from_empty by exact HX.
      unfold iter_entries, end_entry. destruct x; try congruence;
        cbn [st_eqb fst snd map]; rewrite !map_app, !map_map; cbn [fst snd map];
        rewrite Nat.sub_0_r, !app_nil_r; reflexivity.
    Qed.

    (* reset=True is passed to EVERY trace_t call of the run, so each snapshot replaces the previous one:
       after a solved period only 'end' (= the stored solution) is left, whatever the Trace held before *)
    Theorem trace_reset_keeps_last_only d o t s tr p s' tr' :
      truthy a = true ->
      names_valid (vals_of s) t (names_of cfg (length (vals_of s)) a) ->
      py_pos (length tr) t = Some p -> length tr = length (status s) ->
      traced_solve_t cfg a true ev before after d o t s tr = ((s', tr'), Ret true) ->
      let names := names_of cfg (length (vals_of s)) a in
      nth p tr' empty_trace = mkTrace names [LEnd] [snap (vals_of s') t names].
    Proof.
      intros Ha Hv Hp Hlen Hrun. cbv zeta.
      destruct (trace_of_run cfg a true ev before after ev_shape before_shape after_shape d o t s tr p s' tr' _
                  Ha Hv Hp Hlen (or_introl eq_refl) Hrun (or_introl eq_refl))
        as (k & x & _ & _ & Hx & _ & _ & Htr).
      assert (x = Solved) by (apply Hx; reflexivity). subst x.
      rewrite Htr. unfold end_entry. cbn [st_eqb]. rewrite !app_assoc. rewrite pushes_reset. reflexivity.
    Qed.
  End Corollaries.

  (* ---------------------------------------------------------------- towards solve_period and solve (TracerFacts2.v) *)
  Section Entry.
    Variables (cfg : tcfg) (a : targ) (reset : bool).
    Variables (ev before after : hook).
    Hypothesis ev_shape : shape_pres ev.
    Hypothesis before_shape : shape_pres before.
    Hypothesis after_shape : shape_pres after.
    (* `ready` at any period survives a traced solve of any period *)
    Lemma ready_preserved t t' v v' (tr tr' : traces) p :
      shape v' = shape v -> length tr' = length tr -> py_pos (length tr) t = Some p ->
      (reset = true \/ width_ok (nth p tr' empty_trace) (names_of cfg (length v) a)) ->
      (forall q, q <> p -> nth q tr' empty_trace = nth q tr empty_trace) ->
      ready cfg a reset t' v tr -> ready cfg a reset t' v' tr'.
    Proof.
      intros Hs Hl Hp Hw Hf (Hv & p' & Hp' & Hw'). unfold ready.
      rewrite (shape_length num _ _ Hs). split; [apply (names_valid_shape v); [symmetry; exact Hs|exact Hv]|].
      exists p'. rewrite Hl. split; [exact Hp'|].
      destruct (Nat.eq_dec p' p) as [->|Hne]; [exact Hw|]. rewrite Hf by exact Hne. exact Hw'.
    Qed.

  End Entry.

End TracerFacts.
