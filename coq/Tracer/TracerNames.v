(* TracerNames.v — WHICH OBJECT a Trace keeps as its `names` (fsic/extensions/model.py, TracerMixin.trace_t, the lines
   between `if isinstance(trace, str)` and `Trace(names)`), with Python's reference semantics made explicit.
   Definitions only.

   Tracer.v treats names as values (`names_of`); that is enough for what a Trace holds at the moment it is written,
   but not for the clause "a Trace is a record: nothing done later to the model, to the caller's list or to the class
   changes it", which is about SHARING.  Here list objects live in a heap and are referred to by address:
     - the model's own `names` list (ModelInterface.add_variable appends to it IN PLACE),
     - the class attribute TRACE_VARIABLES (a list the user may edit),
     - the list the caller passed as `trace=[...]` (the caller may edit it after the call),
   and trace_t (since fix cfb58ac) allocates a NEW list, `names = list(names)`, before the values are read and
   before `Trace(names)`.  `trace_names_nocopy` is the code before that fix (the reverse patch), kept to show what
   the fix removed. *)
From Coq Require Import ZArith List Bool.
Import ListNotations.
Require Import PyBase Tracer.

Definition addr := nat.
Definition nheap := list (list nat).                 (* address -> contents (names = row numbers, as in Tracer.v) *)
Definition deref (h : nheap) (r : addr) : list nat := nth r h [].
Definition alloc (h : nheap) (l : list nat) : nheap * addr := (h ++ [l], length h).
(* an in-place edit of the list object at r (append, item assignment, del, ...): any new contents *)
Definition mutate (h : nheap) (r : addr) (l : list nat) : nheap := upd r l h.
Definition mutates (h : nheap) (ms : list (addr * list nat)) : nheap :=
  fold_left (fun h m => mutate h (fst m) (snd m)) ms h.

(* the `trace=` argument as an object *)
Inductive nspec : Type :=
| NSNone | NSFlag (b : bool)
| NSStr (x : nat)                 (* a str naming ONE variable (of any length: 'YD' is one name, never 'Y','D') *)
| NSList (r : addr)               (* a list object of the caller, passed by reference *)
| NSTuple (l : list nat)          (* a tuple: an immutable Sequence *)
| NSOther.                        (* any other truthy non-Sequence (a generator, a set): treated like True *)

(* what the instance can reach: its `names` list and the class's TRACE_VARIABLES (None or a list) *)
Record nenv := mkNEnv { e_model_names : addr; e_trace_variables : option addr }.

(* the object bound to `names` before the copy: an existing object, or a value built on the spot *)
Inductive nsel : Type := SelRef (r : addr) | SelVal (l : list nat).
Definition select (e : nenv) (s : nspec) : nsel :=
  match s with
  | NSStr x => SelVal [x]                       (* trace = [trace] *)
  | NSList r => SelRef r                         (* names = trace *)
  | NSTuple l => SelVal l
  | _ => match e_trace_variables e with          (* names = self.TRACE_VARIABLES; if None: self.names *)
         | Some r => SelRef r
         | None => SelRef (e_model_names e)
         end
  end.
Definition sel_contents (h : nheap) (x : nsel) : list nat :=
  match x with SelRef r => deref h r | SelVal l => l end.

(* since fix cfb58ac: names = list(names) — one new object per trace_t call *)
Definition trace_names (e : nenv) (s : nspec) (h : nheap) : nheap * addr :=
  alloc h (sel_contents h (select e s)).

(* before the fix: Trace(names) kept the selected object itself *)
Definition trace_names_nocopy (e : nenv) (s : nspec) (h : nheap) : nheap * addr :=
  match select e s with
  | SelRef r => (h, r)
  | SelVal l => alloc h l
  end.

(* the value-level view of Tracer.v *)
Definition targ_of (h : nheap) (s : nspec) : targ :=
  match s with
  | NSNone => TNone | NSFlag b => TFlag b | NSStr x => TName x
  | NSList r => TList (deref h r) | NSTuple l => TList l
  | NSOther => TFlag true
  end.
Definition tcfg_of (h : nheap) (e : nenv) : tcfg :=
  mkTCfg (match e_trace_variables e with Some r => Some (deref h r) | None => None end).

(* what the correspondence check observes about a freshly created Trace: is its `names` the model's list, the
   class's list, the caller's list? *)
Definition alias_flags (e : nenv) (s : nspec) (r : addr) : bool * bool * bool :=
  (Nat.eqb r (e_model_names e),
   match e_trace_variables e with Some c => Nat.eqb r c | None => false end,
   match s with NSList c => Nat.eqb r c | _ => false end).
