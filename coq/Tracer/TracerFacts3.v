(* TracerFacts3.v — facts about TracerNames.v: since fix cfb58ac every Trace owns its `names` list. *)
From Coq Require Import ZArith List Bool Lia.
Import ListNotations.
Require Import PyBase Solver SolverFacts SolveAll Tracer TracerSolve TracerNames TracerLinked TracerFacts TracerFacts2.

Lemma deref_alloc_old h l a : (a < length h)%nat -> deref (fst (alloc h l)) a = deref h a.
Proof. intros H. unfold deref, alloc. cbn [fst]. apply app_nth1. exact H. Qed.

Lemma deref_alloc_new h l : deref (fst (alloc h l)) (snd (alloc h l)) = l.
Proof. unfold deref, alloc. cbn [fst snd]. rewrite app_nth2 by lia. rewrite Nat.sub_diag. reflexivity. Qed.

Lemma deref_mutate_other h r l a : a <> r -> deref (mutate h r l) a = deref h a.
Proof. intros H. unfold deref, mutate. apply nth_upd_neq. congruence. Qed.

Lemma deref_mutates_other a : forall ms h,
  (forall m, In m ms -> fst m <> a) -> deref (mutates h ms) a = deref h a.
Proof.
  induction ms as [|m ms IH]; intros h H; [reflexivity|].
  unfold mutates. cbn [fold_left]. fold (mutates (mutate h (fst m) (snd m)) ms).
  rewrite IH by (intros m' Hm'; apply H; right; exact Hm').
  apply deref_mutate_other. intros E. apply (H m); [left; reflexivity|]. symmetry. exact E.
Qed.

(* the value trace_t copies is the value-level `names_of` of Tracer.v *)
Lemma sel_contents_names_of e s h nvars :
  deref h (e_model_names e) = seq 0 nvars ->
  sel_contents h (select e s) = names_of (tcfg_of h e) nvars (targ_of h s).
Proof.
  intros Hm. unfold names_of, tcfg_of, select, targ_of.
  destruct s; cbn [sel_contents trace_variables]; try reflexivity;
    destruct (e_trace_variables e); cbn [sel_contents]; auto.
Qed.

(* THE FIX.  trace_t's `names` object is NEW: it did not exist before the call, it holds the selected names, and
   nothing that existed before is changed by the call. *)
Theorem trace_names_fresh e s h :
  let '(h', r) := trace_names e s h in
  r = length h /\ deref h' r = sel_contents h (select e s) /\
  length h' = S (length h) /\ (forall a, (a < length h)%nat -> deref h' a = deref h a).
Proof.
  unfold trace_names. set (l := sel_contents h (select e s)).
  pose proof (deref_alloc_new h l) as H1. unfold alloc in *. cbn [fst snd] in *.
  split; [reflexivity|]. split; [exact H1|]. split; [rewrite app_length; cbn [length]; lia|].
  intros a Ha. exact (deref_alloc_old h l a Ha).
Qed.

(* A TRACE IS A RECORD.  Whatever is done afterwards, in any order and any number of times, to ANY list object other
   than the Trace's own — the model's names list (add_variable), the class's TRACE_VARIABLES, the list the caller
   passed, lists created later — the names of the Trace stay what trace_t recorded. *)
Theorem trace_names_private e s h ms :
  let '(h', r) := trace_names e s h in
  (forall m, In m ms -> fst m <> r) ->
  deref (mutates h' ms) r = sel_contents h (select e s).
Proof.
  pose proof (trace_names_fresh e s h) as H. destruct (trace_names e s h) as [h' r].
  destruct H as (_ & H & _). intros Hms. rewrite deref_mutates_other by exact Hms. exact H.
Qed.

(* ... in particular for every object that existed when trace_t was called (everything the model, the class and the
   caller could hold a reference to) *)
Corollary trace_names_private_existing e s h ms :
  (forall m, In m ms -> (fst m < length h)%nat) ->
  deref (mutates (fst (trace_names e s h)) ms) (snd (trace_names e s h)) = sel_contents h (select e s).
Proof.
  intros Hms. pose proof (trace_names_private e s h ms) as H.
  pose proof (trace_names_fresh e s h) as F.
  destruct (trace_names e s h) as [h' r]. cbn [fst snd]. destruct F as (Hr & _).
  apply H. intros m Hm E. pose proof (Hms m Hm) as Q. unfold addr in *. lia.
Qed.

(* the Trace's names object is none of the three the outside world holds *)
Theorem trace_names_no_alias e s h :
  (e_model_names e < length h)%nat ->
  (forall c, e_trace_variables e = Some c -> (c < length h)%nat) ->
  (forall c, s = NSList c -> (c < length h)%nat) ->
  alias_flags e s (snd (trace_names e s h)) = (false, false, false).
Proof.
  intros Hm Hc Hs. unfold trace_names, alloc, alias_flags. cbn [snd].
  replace (Nat.eqb (length h) (e_model_names e)) with false by (symmetry; apply Nat.eqb_neq; lia).
  assert (E2 : match e_trace_variables e with Some c => Nat.eqb (length h) c | None => false end = false).
  { destruct (e_trace_variables e) as [c|] eqn:E; [|reflexivity]. specialize (Hc c eq_refl). apply Nat.eqb_neq. lia. }
  assert (E3 : match s with NSList c => Nat.eqb (length h) c | _ => false end = false).
  { destruct s; try reflexivity. specialize (Hs r eq_refl). apply Nat.eqb_neq. lia. }
  rewrite E2, E3. reflexivity.
Qed.

(* WITHOUT the copy (the code before cfb58ac) the clause is false: with trace=True the Trace keeps the model's own list,
   and add_variable's in-place append shows up in the Trace.  (Heap: object 0 = model.names = [V0; V1].) *)
Lemma trace_names_nocopy_shared :
  exists e s h l,
    let '(h', r) := trace_names_nocopy e s h in
    r = e_model_names e /\ deref (mutate h' (e_model_names e) l) r <> sel_contents h (select e s).
Proof.
  exists (mkNEnv 0%nat None), (NSFlag true), [[0; 1]]%nat, [0; 1; 2]%nat.
  cbn. split; [reflexivity|discriminate].
Qed.

(* ... and the same edit leaves the Trace alone once the copy is there *)
Example trace_names_copy_not_shared :
  let e := mkNEnv 0%nat None in let h := [[0; 1]]%nat in
  let '(h', r) := trace_names e (NSFlag true) h in
  r = 1%nat /\ deref (mutate h' (e_model_names e) [0; 1; 2]%nat) r = [0; 1]%nat.
Proof. cbn. split; reflexivity. Qed.

(* ==================================================================== Trace.to_dataframe *)
Section Frames.
  Variable num : Type.
  Variables (sub : num -> num -> num) (absf : num -> num) (ltb : num -> num -> bool)
            (isfin : num -> bool) (zero : num).
  Notation trace := (trace num).
  Notation traces := (traces num).
  Notation empty_trace := (empty_trace num).
  Notation traced_solve_t := (traced_solve_t num sub absf ltb isfin zero).
  Notation snap := (snap num zero).

  Lemma forallb_app_true {A} (f : A -> bool) l1 l2 : forallb f l1 = true -> forallb f l2 = true -> forallb f (l1 ++ l2) = true.
  Proof. intros H1 H2. rewrite forallb_app, H1, H2. reflexivity. Qed.

  (* a well-formed Trace (one label per column, one name per row) stays well formed under EVERY trace_t: it is either
     started afresh or — same names, hence same number of rows — extended by one column *)
  Lemma push_wf names reset (old : trace) lab res :
    wf_trace num old = true -> length res = length names ->
    wf_trace num (push num names reset old lab res) = true.
  Proof.
    intros Hwf Hl. unfold push.
    destruct (afresh num old reset names) eqn:Ea.
    { unfold wf_trace. cbn [tr_index tr_values tr_names length forallb]. rewrite Hl, !Nat.eqb_refl. reflexivity. }
    unfold afresh in Ea. apply orb_false_elim in Ea. destruct Ea as [Ea En]. apply orb_false_elim in Ea. destruct Ea as [Ee _].
    apply negb_false_iff in En. apply names_eqb_eq in En.
    unfold wf_trace in *. cbn [tr_index tr_values tr_names].
    apply andb_prop in Hwf. destruct Hwf as [H1 H2]. apply Nat.eqb_eq in H1.
    rewrite !app_length, H1. cbn [length]. rewrite Nat.eqb_refl. cbn [andb].
    apply forallb_app_true; [exact H2|]. cbn [forallb]. rewrite andb_true_r.
    apply Nat.eqb_eq. rewrite En. exact Hl.
  Qed.

  Lemma pushes_wf names reset : forall l (X : trace),
    wf_trace num X = true ->
    Forall (fun e => length (snd e) = length names) l ->
    wf_trace num (pushes num names reset X l) = true.
  Proof.
    induction l as [|e l IH]; intros X Hwf Hall; [exact Hwf|].
    inversion Hall as [|? ? He Hl]; subst.
    change (pushes num names reset X (e :: l)) with (pushes num names reset (push num names reset X (fst e) (snd e)) l).
    apply IH; [apply push_wf; assumption|exact Hl].
  Qed.

  Lemma push_nonempty names reset (Y : trace) lab res : tr_values (push num names reset Y lab res) <> [].
  Proof.
    unfold push. destruct (afresh num Y reset names); cbn [tr_values]; [discriminate|].
    destruct (tr_values Y); discriminate.
  Qed.

  Lemma pushes_nonempty names reset : forall l (Y : trace),
    tr_values Y <> [] -> tr_values (pushes num names reset Y l) <> [].
  Proof.
    induction l as [|e l IH]; intros Y HY; [exact HY|].
    change (pushes num names reset Y (e :: l)) with (pushes num names reset (push num names reset Y (fst e) (snd e)) l).
    apply IH. apply push_nonempty.
  Qed.

  Lemma wf_to_dataframe (x : trace) :
    wf_trace num x = true -> is_empty num x = false ->
    to_dataframe num x = Ret (tr_index x, tr_names x, tr_values x).
  Proof. intros H1 H2. unfold to_dataframe. rewrite H2, H1. reflexivity. Qed.

  Section Run.
    Variables (cfg : tcfg) (a : targ) (reset : bool).
    Variables (ev before after : hook num).
    Hypothesis ev_shape : shape_pres num ev.
    Hypothesis before_shape : shape_pres num before.
    Hypothesis after_shape : shape_pres num after.

    (* After a traced solve that returns (or fails to converge), a Trace that was well formed is well formed and not
       empty, so Trace.to_dataframe() succeeds and IS the labels x names table: row labels = index, columns = names,
       row j = snapshot j. *)
    Theorem to_dataframe_after_run d o t s tr p s' tr' out :
      truthy a = true ->
      names_valid num (vals_of s) t (names_of cfg (length (vals_of s)) a) ->
      py_pos (length tr) t = Some p -> length tr = length (status s) ->
      wf_trace num (nth p tr empty_trace) = true ->
      traced_solve_t cfg a reset ev before after d o t s tr = ((s', tr'), out) ->
      out = Ret true \/ out = Ret false \/ out = Raise NonConvergenceError ->
      let X := nth p tr' empty_trace in
      to_dataframe num X = Ret (tr_index X, tr_names X, tr_values X) /\ tr_values X <> [].
    Proof.
      intros Ha Hv Hp Hlen Hwf Hrun Hout. cbv zeta.
      assert (Hw : reset = true \/ width_ok num (nth p tr empty_trace) (names_of cfg (length (vals_of s)) a))
        by (right; apply wf_width_ok; exact Hwf).
      destruct (trace_of_run num sub absf ltb isfin zero cfg a reset ev before after ev_shape before_shape after_shape
                  d o t s tr p s' tr' out Ha Hv Hp Hlen Hw Hrun Hout) as (k & x & _ & _ & _ & _ & _ & Htr).
      set (names := names_of cfg (length (vals_of s)) a) in *.
      set (l := _ ++ _ ++ _) in Htr.
      assert (Hall : Forall (fun e => length (snd e) = length names) l).
      { subst l. apply Forall_app. split.
        - repeat constructor; cbn [snd]; apply snap_length.
        - apply Forall_app. split.
          + unfold iter_entries. apply Forall_forall. intros e He. apply in_map_iff in He.
            destruct He as (i & <- & _). cbn [snd]. apply snap_length.
          + unfold end_entry. destruct (st_eqb x Solved); repeat constructor. cbn [snd]. apply snap_length. }
      assert (Hwf' : wf_trace num (nth p tr' empty_trace) = true) by (rewrite Htr; apply pushes_wf; assumption).
      assert (Hne : tr_values (nth p tr' empty_trace) <> []).
      { rewrite Htr. subst l. cbn [app].
        match goal with |- tr_values (pushes _ _ _ _ (?e :: ?r)) <> [] =>
          change (pushes num names reset (nth p tr empty_trace) (e :: r))
            with (pushes num names reset (push num names reset (nth p tr empty_trace) (fst e) (snd e)) r) end.
        apply pushes_nonempty. apply push_nonempty. }
      split; [|exact Hne].
      apply wf_to_dataframe; [exact Hwf'|]. unfold is_empty. destruct (tr_values (nth p tr' empty_trace)); [congruence|reflexivity].
    Qed.
  End Run.
End Frames.

(* ==================================================================== TracerMixin.__init__ *)
Theorem tracer_init_spec (num : Type) index trace_name n :
  (In trace_name index -> tracer_init num index trace_name n = Raise DuplicateNameError) /\
  (~ In trace_name index ->
   exists tr, tracer_init num index trace_name n = Ret (index ++ [trace_name], tr) /\
     length tr = n /\ (forall p, is_empty num (nth p tr (empty_trace num)) = true) /\
     (forall p w, width_ok num (nth p tr (empty_trace num)) w) /\
     (forall p, wf_trace num (nth p tr (empty_trace num)) = true)).
Proof.
  unfold tracer_init. split.
  - intros H. replace (existsb (Nat.eqb trace_name) index) with true; [reflexivity|].
    symmetry. apply existsb_exists. exists trace_name. split; [exact H|apply Nat.eqb_refl].
  - intros H. replace (existsb (Nat.eqb trace_name) index) with false.
    + exists (repeat (empty_trace num) n). split; [reflexivity|]. split; [apply repeat_length|].
      assert (E : forall p, nth p (repeat (empty_trace num) n) (empty_trace num) = empty_trace num).
      { intros p. destruct (Nat.lt_ge_cases p n) as [Hp|Hp].
        - apply nth_repeat.
        - apply nth_overflow. rewrite repeat_length. exact Hp. }
      split; [intros p; rewrite E; reflexivity|]. split; [intros p w; rewrite E; exact I|intros p; rewrite E; reflexivity].
    + symmetry. apply Bool.not_true_is_false. intros Q. apply existsb_exists in Q.
      destruct Q as (x & Hx & Q). apply Nat.eqb_eq in Q. subst x. exact (H Hx).
Qed.

(* ==================================================================== a traced model as a submodel of a linker *)
Section LinkedFacts.
  Variable num : Type.
  Variable zero : num.
  Variables (cfg : tcfg) (a : targ) (reset : bool).
  Variable ev : hook num.
  Hypothesis ev_shape : shape_pres num ev.
  Hypothesis a_on : truthy a = true.
  Notation linked_passes := (linked_passes num cfg a reset ev).
  Notation plain_passes := (plain_passes num ev).
  Notation linked_entries := (linked_entries num zero ev).
  Notation empty_trace := (empty_trace num).

  (* The linker's passes over a traced submodel, when trace_t cannot fail at the period: erasing the Trace objects
     gives the passes over the plain submodel (values, the exception that stopped them); only the period's own Trace
     moves; it receives exactly one snapshot per pass that returned, labelled with the pass number — no 'start',
     'before', 0 or 'end' — holding the traced variables as that pass left them. *)
  Theorem linked_passes_spec t em cf : forall n k v tr p,
    names_valid num v t (names_of cfg (length v) a) ->
    py_pos (length tr) t = Some p ->
    reset = true \/ width_ok num (nth p tr empty_trace) (names_of cfg (length v) a) ->
    let R := linked_passes t em cf k n v tr in
    (fst (fst R), snd R) = plain_passes t em cf k n v /\
    shape num (fst (fst R)) = shape num v /\
    length (snd (fst R)) = length tr /\
    (forall q, q <> p -> nth q (snd (fst R)) empty_trace = nth q tr empty_trace) /\
    nth p (snd (fst R)) empty_trace
    = pushes num (names_of cfg (length v) a) reset (nth p tr empty_trace)
        (linked_entries t em cf (names_of cfg (length v) a) k n v).
  Proof.
    induction n as [|n IH]; intros k v tr p Hv Hp Hw; cbv zeta.
    { cbn [TracerLinked.linked_passes TracerLinked.plain_passes TracerLinked.linked_entries fst snd].
      repeat split; auto. }
    cbn [TracerLinked.linked_passes TracerLinked.plain_passes TracerLinked.linked_entries].
    unfold traced_ev. rewrite a_on.
    pose proof (ev_shape t em cf k v) as Hsh.
    destruct (ev t em cf k v) as [v1 [c|]] eqn:Eev; cbn [fst] in Hsh.
    { cbn [fst snd]. repeat split; auto. }
    assert (Hlen : length v1 = length v) by (apply (shape_length num); exact Hsh).
    assert (Hv1 : names_valid num v1 t (names_of cfg (length v1) a)).
    { rewrite Hlen. apply (names_valid_shape num v v1); [symmetry; exact Hsh|exact Hv]. }
    assert (Hw1 : reset = true \/ width_ok num (nth p tr empty_trace) (names_of cfg (length v1) a))
      by (rewrite Hlen; exact Hw).
    rewrite (trace_t_ok num zero cfg t (LIter k) a reset v1 tr p Hv1 Hp Hw1).
    rewrite Hlen.
    set (names := names_of cfg (length v) a) in *.
    set (new := push num names reset (nth p tr empty_trace) (LIter k) (snap num zero v1 t names)).
    assert (Hplt : (p < length tr)%nat) by (apply (py_pos_lt _ t); exact Hp).
    assert (Hnew : nth p (upd p new tr) empty_trace = new) by (apply nth_upd_same; exact Hplt).
    specialize (IH (S k) v1 (upd p new tr) p).
    rewrite Hlen, upd_length, Hnew in IH. fold names in IH.
    assert (Hw2 : reset = true \/ width_ok num new names).
    { destruct Hw as [Hw|Hw]; [left; exact Hw|right]. subst new. apply push_width; [right; exact Hw|apply snap_length]. }
    rewrite Hlen in Hv1. fold names in Hv1.
    specialize (IH Hv1 Hp Hw2). cbv zeta in IH. destruct IH as (I1 & I2 & I3 & I4 & I5).
    split; [exact I1|]. split; [congruence|]. split; [exact I3|]. split.
    - intros q Hq. rewrite I4 by exact Hq. apply nth_upd_neq. congruence.
    - rewrite I5. reflexivity.
  Qed.

  (* the labels recorded are consecutive pass numbers starting at k: k, k+1, .., k+m-1 for the m <= n passes that
     returned; all n of them when no pass raised *)
  Lemma linked_entries_labels t em cf names : forall n k v,
    exists m, (m <= n)%nat /\ map fst (linked_entries t em cf names k n v) = map LIter (seq k m) /\
              (snd (plain_passes t em cf k n v) = None -> m = n).
  Proof.
    induction n as [|n IH]; intros k v.
    { exists 0%nat. repeat split; auto. }
    cbn [TracerLinked.linked_entries TracerLinked.plain_passes].
    destruct (ev t em cf k v) as [v1 [c|]].
    - exists 0%nat. split; [lia|]. split; [reflexivity|]. cbn [snd]. discriminate.
    - destruct (IH (S k) v1) as (m & Hm & Hl & Hn). exists (S m). split; [lia|]. split.
      + cbn [map fst seq]. rewrite Hl. reflexivity.
      + intros H. rewrite (Hn H). reflexivity.
  Qed.
End LinkedFacts.
