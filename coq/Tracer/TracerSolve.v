(* TracerSolve.v — SolverMixin.solve / solve_period on a tracer-extended instance, with their LABEL arguments
   (fsic/core/interfaces.py:325-548 run on a class that has TracerMixin in front).  Definitions only.

   solve(start=, end=, trace=, reset=, **opts) validates min_iter/max_iter and the two labels, asks iter_periods for
   the (position, label) pairs — the `trace=` / `reset=` keywords travel in **kwargs and iter_periods ignores them —
   and then calls self.solve_t(t, ..., trace=, reset=) for each pair: that is TracerMixin.solve_t (Tracer.traced_solve_t).
   The untraced twin of these two functions is SolveAll.solve_M / SolveAll.solve_period_M (the reference model of
   SolverMixin.solve / solve_period of properties C03/C05), whose iter_periods_M / bad_label are reused here verbatim. *)
From Coq Require Import ZArith List Bool.
Import ListNotations.
Require Import PyBase Solver SolveAll Tracer.
Open Scope Z_scope.

Section TracerSolve.
  Variable num : Type.
  Variables (sub : num -> num -> num) (absf : num -> num) (ltb : num -> num -> bool)
            (isfin : num -> bool) (zero : num).
  Variables (cfg : tcfg) (a : targ) (reset : bool).
  Variables (ev before after : hook num).
  Variable L : Type.
  Variable locate : L -> locres.

  Notation traced_solve_t := (traced_solve_t num sub absf ltb isfin zero cfg a reset ev before after).

  (* SolveAll.run_periods, line for line, on the extended instance *)
  Fixpoint traced_run_periods (d : mdesc) (o : opts num) (ps : list (Z * L)) (s : mstate num) (tr : traces num)
           (acc : list (visit L)) : (mstate num * traces num) * outcome (list (visit L)) :=
    match ps with
    | [] => ((s, tr), Ret acc)
    | (t, lab) :: r =>
        match traced_solve_t d o t s tr with
        | ((s', tr'), Ret b) => traced_run_periods d o r s' tr' (acc ++ [(lab, t, b)])
        | (st', Raise e) => (st', Raise e)
        end
    end.

  (* SolveAll.solve_M, line for line *)
  Definition traced_solve_all (d : mdesc) (o : opts num) (span : list L) (start end_ : option L)
             (s : mstate num) (tr : traces num) : (mstate num * traces num) * outcome (sresult L) :=
    if max_iter o <? min_iter o then ((s, tr), Raise ValueError) else
    if bad_label L locate start then ((s, tr), Raise KeyError) else
    if bad_label L locate end_ then ((s, tr), Raise KeyError) else
    match iter_periods_M L locate d span start end_ with
    | Raise e => ((s, tr), Raise e)
    | Ret (len, ps) =>
        match traced_run_periods d o ps s tr [] with
        | (st', Ret vs) => (st', Ret (mkRes len vs))
        | (st', Raise e) => (st', Raise e)
        end
    end.

  (* SolveAll.solve_period_M, line for line *)
  Definition traced_solve_period_all (d : mdesc) (o : opts num) (lab : L) (s : mstate num) (tr : traces num)
    : (mstate num * traces num) * outcome bool :=
    match locate lab with
    | LInt t => traced_solve_t d o t s tr
    | LOther => ((s, tr), Raise KeyError)
    | LFail => ((s, tr), Raise KeyError)
    end.

  (* TracerMixin.trace_period(period, label, trace=, reset=): the public way to add a snapshot by period label —
     _locate_period_in_span, KeyError unless it answers with an int, then trace_t.  (trace_t itself never looks at the
     truthiness of `trace`: None / False mean "the default names" there.) *)
  Definition trace_period_M (lab : L) (label : tlabel) (v : vals num) (tr : traces num) : traces num * option exn :=
    match locate lab with
    | LInt t => trace_t num cfg t label a reset v tr
    | LOther => (tr, Some KeyError)
    | LFail => (tr, Some KeyError)
    end.

  (* the positions solve() is going to visit (none when it rejects its arguments) *)
  Definition solve_targets (d : mdesc) (o : opts num) (span : list L) (start end_ : option L) : list Z :=
    if max_iter o <? min_iter o then [] else
    if bad_label L locate start then [] else
    if bad_label L locate end_ then [] else
    match iter_periods_M L locate d span start end_ with
    | Raise _ => []
    | Ret (_, ps) => map fst ps
    end.
End TracerSolve.

(* TracerMixin.__init__ (after the base class has built the container): the name under which the Traces are stored must
   be free — DuplicateNameError if TRACE_NAME is already in `index` (a variable of the model, 'status', 'iterations') —
   then the name is appended to `index` and one empty Trace per period is created.  Names are numbers here. *)
Definition tracer_init (num : Type) (index : list nat) (trace_name : nat) (n : nat) : outcome (list nat * traces num) :=
  if existsb (Nat.eqb trace_name) index then Raise DuplicateNameError
  else Ret (index ++ [trace_name], repeat (empty_trace num) n).
