(* TracerFacts2.v — further facts about the TracerMixin model (Tracer.v):
   - which names a period's Trace carries after a traced run, and the closed form of a REPEATED traced solve
     (reset=False on a non-empty Trace: the run's labels and snapshots are appended, the names of the FIRST
     traced call stay);
   - solve() with its label arguments (TracerSolve.v) against SolveAll.solve_M. *)
From Coq Require Import ZArith List Bool Lia.
Import ListNotations.
Require Import PyBase Solver SolverFacts SolveAll SolveAllFacts Tracer TracerFacts TracerSolve.
Open Scope Z_scope.

Section TracerFacts2.
  Variable num : Type.
  Variables (sub : num -> num -> num) (absf : num -> num) (ltb : num -> num -> bool)
            (isfin : num -> bool) (zero : num).

  Notation vals := (vals num).
  Notation hook := (hook num).
  Notation trace := (trace num).
  Notation traces := (traces num).
  Notation empty_trace := (empty_trace num).
  Notation solve_t_M := (solve_t_M num sub absf ltb isfin zero).
  Notation traced_solve_t := (traced_solve_t num sub absf ltb isfin zero).
  Notation snap := (snap num zero).
  Notation shape := (shape num).
  Notation shape_pres := (shape_pres num).
  Notation names_valid := (names_valid num).
  Notation width_ok := (width_ok num).
  Notation ready := (ready num).

  (* ---------------------------------------------------------------- names of a Trace after some pushes *)
  (* since fix 7d04ae5: as soon as one snapshot is pushed, the Trace carries the names pushed NOW — whatever it held *)
  Lemma pushes_names names reset (X : trace) l :
    l <> [] -> tr_names (pushes num names reset X l) = names.
  Proof.
    destruct l as [|e l]; [congruence|]. intros _.
    destruct reset.
    - destruct (@exists_last _ (e :: l)) as (l' & e' & E); [discriminate|]. rewrite E.
      rewrite pushes_reset. reflexivity.
    - destruct (afresh num X false names) eqn:HX.
      + rewrite (pushes_afresh num names false X e l HX eq_refl). reflexivity.
      + unfold afresh in HX. apply orb_false_elim in HX. destruct HX as [HX Hn]. apply orb_false_elim in HX. destruct HX as [HX _].
        apply negb_false_iff in Hn. apply names_eqb_eq in Hn.
        rewrite pushes_append; [exact Hn| |exact Hn].
        unfold Tracer.is_empty in HX. destruct (tr_values X); [discriminate HX|discriminate].
  Qed.

  Section Runs.
    Variables (cfg : tcfg) (a : targ).
    Variables (ev before after : hook).
    Hypothesis ev_shape : shape_pres ev.
    Hypothesis before_shape : shape_pres before.
    Hypothesis after_shape : shape_pres after.

    (* The names a period's Trace carries after a traced run that returned (or failed to converge): ALWAYS those of this
       call (fix 7d04ae5; before it a Trace recorded for other names of the same number kept its old names — the former
       stale-names finding). *)
    Theorem trace_names_after_run reset d o t s tr p s' tr' out :
      truthy a = true ->
      names_valid (vals_of s) t (names_of cfg (length (vals_of s)) a) ->
      py_pos (length tr) t = Some p -> length tr = length (status s) ->
      reset = true \/ width_ok (nth p tr empty_trace) (names_of cfg (length (vals_of s)) a) ->
      traced_solve_t cfg a reset ev before after d o t s tr = ((s', tr'), out) ->
      out = Ret true \/ out = Ret false \/ out = Raise NonConvergenceError ->
      tr_names (nth p tr' empty_trace) = names_of cfg (length (vals_of s)) a.
    Proof.
      intros Ha Hv Hp Hlen Hw Hrun Hout.
      destruct (trace_of_run num sub absf ltb isfin zero cfg a reset ev before after ev_shape before_shape after_shape
                  d o t s tr p s' tr' out Ha Hv Hp Hlen Hw Hrun Hout) as (k & x & _ & _ & _ & _ & _ & Htr).
      rewrite Htr. apply pushes_names. discriminate.
    Qed.

    (* REPEATED SOLVES, default reset=False, the period traced before under THE SAME names: the Trace keeps what it held,
       and the run's labels start, before, 0, 1..k [, end] and snapshots are appended to it, in order.  (Under other
       names the Trace starts afresh: trace_restarts_under_other_names.) *)
    Theorem trace_accumulates d o t s tr p s' tr' out :
      truthy a = true ->
      names_valid (vals_of s) t (names_of cfg (length (vals_of s)) a) ->
      py_pos (length tr) t = Some p -> length tr = length (status s) ->
      is_empty num (nth p tr empty_trace) = false ->
      tr_names (nth p tr empty_trace) = names_of cfg (length (vals_of s)) a ->
      width_ok (nth p tr empty_trace) (names_of cfg (length (vals_of s)) a) ->
      traced_solve_t cfg a false ev before after d o t s tr = ((s', tr'), out) ->
      out = Ret true \/ out = Ret false \/ out = Raise NonConvergenceError ->
      let names := names_of cfg (length (vals_of s)) a in
      let old := nth p tr empty_trace in
      let v0 := seeded num zero d o s p in
      let v1 := fst (before t (errors o) (catch_first o) 0%nat v0) in
      exists k x,
        status s' = upd p x (status s) /\ iters s' = upd p (Z.of_nat k) (iters s) /\
        (out = Ret true <-> x = Solved) /\
        nth p tr' empty_trace
        = mkTrace (tr_names old)
            (tr_index old ++ LStart :: LBefore :: map LIter (seq 0 (S k)) ++ (if st_eqb x Solved then [LEnd] else []))
            (tr_values old ++ snap (vals_of s) t names :: snap v0 t names
               :: map (fun j => snap (st_after num ev o t v1 j) t names) (seq 0 (S k))
               ++ (if st_eqb x Solved then [snap (vals_of s') t names] else [])).
    Proof.
      intros Ha Hv Hp Hlen HX HN Hw Hrun Hout. cbv zeta.
      destruct (trace_of_run num sub absf ltb isfin zero cfg a false ev before after ev_shape before_shape after_shape
                  d o t s tr p s' tr' out Ha Hv Hp Hlen (or_intror Hw) Hrun Hout)
        as (k & x & Hst & Hit & Hx & _ & _ & Htr).
      exists k, x. split; [exact Hst|]. split; [exact Hit|]. split; [exact Hx|].
      rewrite Htr. rewrite pushes_append; [| |exact HN].
      2:{ unfold Tracer.is_empty in HX. destruct (tr_values (nth p tr empty_trace)); [discriminate HX|discriminate]. }
      unfold iter_entries, end_entry. cbn [app map fst snd].
      rewrite !map_app, !map_map. cbn [fst snd]. rewrite Nat.sub_0_r.
      destruct (st_eqb x Solved); reflexivity.
    Qed.

    (* reset=True on EVERY path (exceptions included): whatever the period's Trace held, after the call it holds exactly
       ONE snapshot — the last one the run took — under the names of this call *)
    Theorem trace_reset_every_path d o t s tr p :
      truthy a = true ->
      names_valid (vals_of s) t (names_of cfg (length (vals_of s)) a) ->
      py_pos (length tr) t = Some p -> length tr = length (status s) ->
      let R := traced_solve_t cfg a true ev before after d o t s tr in
      exists lab res, nth p (snd (fst R)) empty_trace = mkTrace (names_of cfg (length (vals_of s)) a) [lab] [res].
    Proof.
      intros Ha Hv Hp Hlen. cbv zeta.
      destruct (trace_every_path num sub absf ltb isfin zero cfg a true ev before after ev_shape before_shape after_shape
                  d o t s tr p Ha Hv Hp Hlen (or_introl eq_refl)) as (l & Hri & Htr).
      destruct l as [|e0 l0]; [inversion Hri|].
      destruct (@exists_last _ (e0 :: l0)) as (l' & e & E); [discriminate|].
      rewrite E in Htr. rewrite pushes_reset in Htr. exists (fst e), (snd e). exact Htr.
    Qed.

    (* an empty Trace, or one recorded for other names, accepts any snapshot of `names` *)
    Lemma afresh_width_ok (X : trace) names : afresh num X false names = true -> width_ok X names.
    Proof.
      unfold afresh, TracerFacts.width_ok, Tracer.is_empty. destruct (tr_values X) as [|c cs]; [intros _; exact I|].
      cbn [orb]. intros H E. apply negb_true_iff in H. rewrite E, names_eqb_refl in H. discriminate H.
    Qed.

    (* NON-INTERFERENCE WITHOUT A WIDTH GUARD (fixes 7d04ae5 + cfb58ac; replaces the refutation of finding #16): on
       well-formed Traces — the only ones the class ever builds (tracer_init_spec, push_wf) — EVERY traced call with valid
       names at a period of the span erases to the untraced call, whatever the period's Trace holds and whatever names it
       was recorded for. *)
    Theorem trace_noninterference_wf reset d o t s tr p :
      names_valid (vals_of s) t (names_of cfg (length (vals_of s)) a) ->
      py_pos (length tr) t = Some p ->
      wf_trace num (nth p tr empty_trace) = true ->
      let R := traced_solve_t cfg a reset ev before after d o t s tr in
      (fst (fst R), snd R) = solve_t_M ev before after d o t s.
    Proof.
      intros Hv Hp Hwf. cbv zeta.
      apply (trace_noninterference_solve_t num sub absf ltb isfin zero cfg a reset ev before after ev_shape before_shape after_shape).
      intros _. split; [exact Hv|]. exists p. split; [exact Hp|]. right. apply wf_width_ok. exact Hwf.
    Qed.

    (* A PERIOD TRACED AGAIN UNDER OTHER NAMES STARTS AFRESH (replaces the refutations of finding #16 and of the stale-names
       finding): default reset=False, the period's Trace empty OR recorded for other names (of any number), the period
       solved: afterwards the Trace is exactly the trace of a first solve under the names traced now — labels start,
       before, 0, 1..k, end, snapshot j = the traced variables after pass j, last = the stored solution; nothing of the
       old recording is mixed in. *)
    Theorem trace_shape_solved_afresh d o t s tr p s' tr' :
      truthy a = true ->
      names_valid (vals_of s) t (names_of cfg (length (vals_of s)) a) ->
      py_pos (length tr) t = Some p -> length tr = length (status s) ->
      afresh num (nth p tr empty_trace) false (names_of cfg (length (vals_of s)) a) = true ->
      traced_solve_t cfg a false ev before after d o t s tr = ((s', tr'), Ret true) ->
      let names := names_of cfg (length (vals_of s)) a in
      let v0 := seeded num zero d o s p in
      let v1 := fst (before t (errors o) (catch_first o) 0%nat v0) in
      exists k, (1 <= k)%nat /\
        status s' = upd p Solved (status s) /\ iters s' = upd p (Z.of_nat k) (iters s) /\
        nth p tr' empty_trace
        = mkTrace names
            (LStart :: LBefore :: map LIter (seq 0 (S k)) ++ [LEnd])
            (snap (vals_of s) t names :: snap v0 t names
             :: map (fun j => snap (st_after num ev o t v1 j) t names) (seq 0 (S k)) ++ [snap (vals_of s') t names]).
    Proof.
      intros Ha Hv Hp Hlen HX Hrun. cbv zeta.
      destruct (trace_of_run num sub absf ltb isfin zero cfg a false ev before after ev_shape before_shape after_shape
                  d o t s tr p s' tr' _ Ha Hv Hp Hlen (or_intror (afresh_width_ok _ _ HX)) Hrun (or_introl eq_refl))
        as (k & x & Hst & Hit & Hx & Hk & _ & Htr).
      assert (x = Solved) by (apply Hx; reflexivity). subst x.
      exists k. split; [apply Hk; reflexivity|]. split; [exact Hst|]. split; [exact Hit|].
      rewrite Htr. cbn [app]. rewrite (pushes_afresh num _ false _ _ _ HX eq_refl).
      unfold iter_entries, end_entry. cbn [st_eqb fst snd map]. rewrite !map_app, !map_map. cbn [fst snd map].
      rewrite Nat.sub_0_r. reflexivity.
    Qed.

    (* ... unsolved: no 'end'; the fresh Trace stops after the last pass *)
    Theorem trace_shape_unsolved_afresh d o t s tr p s' tr' out :
      truthy a = true ->
      names_valid (vals_of s) t (names_of cfg (length (vals_of s)) a) ->
      py_pos (length tr) t = Some p -> length tr = length (status s) ->
      afresh num (nth p tr empty_trace) false (names_of cfg (length (vals_of s)) a) = true ->
      traced_solve_t cfg a false ev before after d o t s tr = ((s', tr'), out) ->
      out = Ret false \/ out = Raise NonConvergenceError ->
      let names := names_of cfg (length (vals_of s)) a in
      let v0 := seeded num zero d o s p in
      let v1 := fst (before t (errors o) (catch_first o) 0%nat v0) in
      exists k x, x <> Solved /\
        status s' = upd p x (status s) /\ iters s' = upd p (Z.of_nat k) (iters s) /\
        vals_of s' = st_after num ev o t v1 k /\
        nth p tr' empty_trace
        = mkTrace names
            (LStart :: LBefore :: map LIter (seq 0 (S k)))
            (snap (vals_of s) t names :: snap v0 t names
             :: map (fun j => snap (st_after num ev o t v1 j) t names) (seq 0 (S k))).
    Proof.
      intros Ha Hv Hp Hlen HX Hrun Hout. cbv zeta.
      destruct (trace_of_run num sub absf ltb isfin zero cfg a false ev before after ev_shape before_shape after_shape
                  d o t s tr p s' tr' out Ha Hv Hp Hlen (or_intror (afresh_width_ok _ _ HX)) Hrun (or_intror Hout))
        as (k & x & Hst & Hit & Hx & _ & Hv' & Htr).
      assert (Hns : x <> Solved).
      { intros Q. apply Hx in Q. destruct Hout as [H|H]; rewrite H in Q; discriminate Q. }
      exists k, x. split; [exact Hns|]. split; [exact Hst|]. split; [exact Hit|]. split; [apply Hv'; exact Hns|].
      rewrite Htr. cbn [app]. rewrite (pushes_afresh num _ false _ _ _ HX eq_refl).
      unfold iter_entries, end_entry. destruct x; try congruence;
        cbn [st_eqb fst snd map]; rewrite !map_app, !map_map; cbn [fst snd map];
        rewrite Nat.sub_0_r, !app_nil_r; reflexivity.
    Qed.
  End Runs.
  (* ---------------------------------------------------------------- solve(start=, end=) and solve_period(label) *)
  Section SolveAllEntry.
    Variables (cfg : tcfg) (a : targ) (reset : bool).
    Variables (ev before after : hook).
    Hypothesis ev_shape : shape_pres ev.
    Hypothesis before_shape : shape_pres before.
    Hypothesis after_shape : shape_pres after.
    Variable L : Type.
    Variable locate : L -> locres.

    Notation traced_run_periods := (traced_run_periods num sub absf ltb isfin zero cfg a reset ev before after L).
    Notation run_periods := (run_periods num sub absf ltb isfin zero ev before after L).
    Notation traced_solve_all := (traced_solve_all num sub absf ltb isfin zero cfg a reset ev before after L locate).
    Notation solve_M := (solve_M num sub absf ltb isfin zero ev before after L locate).
    Notation traced_solve_period_all := (traced_solve_period_all num sub absf ltb isfin zero cfg a reset ev before after L locate).
    Notation solve_period_M := (solve_period_M num sub absf ltb isfin zero ev before after L locate).

    Definition ready_at (ts : list Z) (v : vals) (tr : traces) : Prop :=
      forall t, In t ts -> ready cfg a reset t v tr.

    Lemma traced_run_periods_erase d o : forall (ps : list (Z * L)) s tr acc,
      (truthy a = true -> ready_at (map fst ps) (vals_of s) tr) ->
      let R := traced_run_periods d o ps s tr acc in
      (fst (fst R), snd R) = run_periods d o ps s acc.
    Proof.
      induction ps as [|[t lab] r IH]; intros s tr acc Hr; [reflexivity|].
      cbv zeta. cbn [TracerSolve.traced_run_periods SolveAll.run_periods].
      destruct (truthy a) eqn:Ha.
      - specialize (Hr eq_refl).
        destruct (Hr t (or_introl eq_refl)) as (Hv & p & Hp & Hw).
        pose proof (traced_solve_t_on num sub absf ltb isfin zero cfg a reset ev before after ev_shape before_shape after_shape
                      d o t s tr p Ha Hv Hp Hw) as H.
        cbv zeta in H. destruct H as (H1 & H2 & H3 & H4 & H5).
        destruct (traced_solve_t cfg a reset ev before after d o t s tr) as [[s1 tr1] out1].
        destruct (solve_t_M ev before after d o t s) as [s1' out1'].
        cbn [fst snd] in *. inversion H1; subst s1' out1'. clear H1.
        destruct out1 as [b|e]; [|reflexivity].
        apply IH. intros _ t' Ht'.
        apply (ready_preserved num cfg a reset t t' (vals_of s) (vals_of s1) tr tr1 p H2 H3 Hp H4 H5).
        apply Hr. right. exact Ht'.
      - rewrite (trace_off_writes_nothing num sub absf ltb isfin zero cfg a reset ev before after
                   ev_shape before_shape after_shape d o t s tr Ha).
        destruct (solve_t_M ev before after d o t s) as [s1 out1].
        destruct out1 as [b|e]; [|reflexivity].
        apply IH. intros Q. discriminate Q.
    Qed.

    (* solve(start=, end=, trace=, reset=, ...): argument validation, the periods iter_periods yields, one traced
       solve_t per period.  If trace_t cannot fail (in the initial state) at any position solve() is going to visit,
       erasing the Trace objects from the traced run gives SolverMixin.solve without the keywords (SolveAll.solve_M):
       the same three lists, the same exception, every period's values / status / iterations. *)
    Theorem trace_noninterference_solve_all d o span start end_ s tr :
      (truthy a = true ->
       ready_at (solve_targets num L locate d o span start end_) (vals_of s) tr) ->
      let R := traced_solve_all d o span start end_ s tr in
      (fst (fst R), snd R) = solve_M d o span start end_ s.
    Proof.
      intros Hr. cbv zeta. unfold TracerSolve.traced_solve_all, SolveAll.solve_M, solve_targets in *.
      destruct (max_iter o <? min_iter o); [reflexivity|].
      destruct (bad_label L locate start); [reflexivity|].
      destruct (bad_label L locate end_); [reflexivity|].
      destruct (iter_periods_M L locate d span start end_) as [[len ps]|e]; [|reflexivity].
      pose proof (traced_run_periods_erase d o ps s tr [] Hr) as H. cbv zeta in H.
      destruct (traced_run_periods d o ps s tr []) as [[s1 tr1] out1].
      destruct (run_periods d o ps s []) as [s1' out1']. cbn [fst snd] in H. inversion H; subst.
      destruct out1'; reflexivity.
    Qed.

    (* rejected arguments (min_iter > max_iter, unknown start / end label, empty span, lags / leads beyond the span):
       nothing is solved and nothing is traced *)
    Theorem traced_solve_all_no_targets d o span start end_ s tr :
      solve_targets num L locate d o span start end_ = [] ->
      fst (traced_solve_all d o span start end_ s tr) = (s, tr).
    Proof.
      unfold TracerSolve.traced_solve_all, solve_targets.
      destruct (max_iter o <? min_iter o); [reflexivity|].
      destruct (bad_label L locate start); [reflexivity|].
      destruct (bad_label L locate end_); [reflexivity|].
      destruct (iter_periods_M L locate d span start end_) as [[len ps]|e]; [|reflexivity].
      intros E. destruct ps as [|x r]; [reflexivity|discriminate E].
    Qed.

    (* tracing off: solve() leaves every Trace alone *)
    Theorem trace_off_solve_all_writes_nothing d o span start end_ s tr :
      truthy a = false -> snd (fst (traced_solve_all d o span start end_ s tr)) = tr.
    Proof.
      intros Ha. unfold TracerSolve.traced_solve_all.
      destruct (max_iter o <? min_iter o); [reflexivity|].
      destruct (bad_label L locate start); [reflexivity|].
      destruct (bad_label L locate end_); [reflexivity|].
      destruct (iter_periods_M L locate d span start end_) as [[len ps]|e]; [|reflexivity].
      assert (H : forall ps s acc, snd (fst (traced_run_periods d o ps s tr acc)) = tr).
      { clear ps. induction ps as [|[t lab] r IH]; intros s0 acc; [reflexivity|].
        cbn [TracerSolve.traced_run_periods].
        rewrite (trace_off_writes_nothing num sub absf ltb isfin zero cfg a reset ev before after
                   ev_shape before_shape after_shape d o t s0 tr Ha).
        destruct (solve_t_M ev before after d o t s0) as [s1 out1].
        destruct out1 as [b|e]; [apply IH|reflexivity]. }
      specialize (H ps s []). destruct (traced_run_periods d o ps s tr []) as [[s1 tr1] out1].
      cbn [fst snd] in *. destruct out1; exact H.
    Qed.

    (* solve_period(label, trace=, reset=): a label the span lookup cannot turn into an int -> KeyError in both;
       otherwise solve_t at the position found *)
    Theorem trace_noninterference_solve_period_all d o lab s tr :
      (forall t, locate lab = LInt t -> truthy a = true -> ready cfg a reset t (vals_of s) tr) ->
      let R := traced_solve_period_all d o lab s tr in
      (fst (fst R), snd R) = solve_period_M d o lab s.
    Proof.
      intros Hr. cbv zeta. unfold TracerSolve.traced_solve_period_all, SolveAll.solve_period_M.
      destruct (locate lab) as [t| |]; [|reflexivity|reflexivity].
      apply (trace_noninterference_solve_t num sub absf ltb isfin zero cfg a reset ev before after
               ev_shape before_shape after_shape).
      apply Hr. reflexivity.
    Qed.

    (* ------------------------------------------------------------ the Trace objects during a multi-period solve() *)
    Hypothesis a_on : truthy a = true.

    (* one traced solve_t whose trace_t calls cannot fail: shapes and lengths are kept, `ready` survives at every
       position, only the period's own Trace moves *)
    Lemma traced_solve_t_step d o t s tr ts s1 tr1 out1 :
      ready cfg a reset t (vals_of s) tr -> ready_at ts (vals_of s) tr ->
      traced_solve_t cfg a reset ev before after d o t s tr = ((s1, tr1), out1) ->
      exists p, py_pos (length tr) t = Some p /\
        shape (vals_of s1) = shape (vals_of s) /\ length tr1 = length tr /\ length (status s1) = length (status s) /\
        ready_at ts (vals_of s1) tr1 /\
        (forall q, q <> p -> nth q tr1 empty_trace = nth q tr empty_trace).
    Proof.
      intros (Hv & p & Hp & Hw) Hts Hrun.
      pose proof (traced_solve_t_on num sub absf ltb isfin zero cfg a reset ev before after ev_shape before_shape after_shape
                    d o t s tr p a_on Hv Hp Hw) as H.
      cbv zeta in H. rewrite Hrun in H.
      destruct (solve_t_M ev before after d o t s) as [s1' out1'] eqn:EU. cbn [fst snd] in H.
      destruct H as (H1 & H2 & H3 & H4 & H5). inversion H1; subst s1' out1'. clear H1.
      exists p. split; [exact Hp|]. split; [exact H2|]. split; [exact H3|].
      split; [exact (solve_t_length num sub absf ltb isfin zero ev before after d o t s s1 out1 EU)|].
      split; [|exact H5].
      intros t' Ht'. apply (ready_preserved num cfg a reset t t' (vals_of s) (vals_of s1) tr tr1 p H2 H3 Hp H4 H5).
      apply Hts. exact Ht'.
    Qed.

    Lemma traced_run_periods_app d o : forall (l1 l2 : list (Z * L)) s tr acc,
      traced_run_periods d o (l1 ++ l2) s tr acc
      = match traced_run_periods d o l1 s tr acc with
        | ((s1, tr1), Ret acc1) => traced_run_periods d o l2 s1 tr1 acc1
        | (st, Raise e) => (st, Raise e)
        end.
    Proof.
      induction l1 as [|[t lab] r IH]; intros l2 s tr acc; [reflexivity|].
      cbn [app TracerSolve.traced_run_periods].
      destruct (traced_solve_t cfg a reset ev before after d o t s tr) as [[s1 tr1] [b|e]]; [apply IH|reflexivity].
    Qed.

    (* solve() moves only the Traces of the periods it visits; store shape, number of Traces and of periods stay;
       `ready` survives everywhere it held *)
    Theorem traced_run_periods_on d o : forall (ps : list (Z * L)) s tr acc ts,
      ready_at (map fst ps) (vals_of s) tr -> ready_at ts (vals_of s) tr ->
      let R := traced_run_periods d o ps s tr acc in
      let s' := fst (fst R) in let tr' := snd (fst R) in
      shape (vals_of s') = shape (vals_of s) /\ length tr' = length tr /\ length (status s') = length (status s) /\
      ready_at ts (vals_of s') tr' /\
      (forall q, (forall t, In t (map fst ps) -> py_pos (length tr) t <> Some q) ->
                 nth q tr' empty_trace = nth q tr empty_trace).
    Proof.
      induction ps as [|[t lab] r IH]; intros s tr acc ts Hps Hts; cbv zeta.
      { cbn [TracerSolve.traced_run_periods fst snd].
        split; [reflexivity|]. split; [reflexivity|]. split; [reflexivity|]. split; [exact Hts|]. intros q _. reflexivity. }
      cbn [TracerSolve.traced_run_periods].
      destruct (traced_solve_t cfg a reset ev before after d o t s tr) as [[s1 tr1] out1] eqn:Hrun.
      assert (Ht : ready cfg a reset t (vals_of s) tr) by (apply Hps; left; reflexivity).
      assert (Hts' : ready_at (ts ++ map fst r) (vals_of s) tr).
      { intros t' Ht'. apply in_app_or in Ht'. destruct Ht' as [Q|Q]; [apply Hts; exact Q|apply Hps; right; exact Q]. }
      destruct (traced_solve_t_step d o t s tr (ts ++ map fst r) s1 tr1 out1 Ht Hts' Hrun) as (p & Hp & H2 & H3 & H4 & H5 & H6).
      assert (Hfr : forall q, (forall t0, In t0 (map fst ((t, lab) :: r)) -> py_pos (length tr) t0 <> Some q) ->
                              nth q tr1 empty_trace = nth q tr empty_trace).
      { intros q Hq. apply H6. intros ->. apply (Hq t); [left; reflexivity|exact Hp]. }
      destruct out1 as [b|e].
      - assert (Hr1 : ready_at (map fst r) (vals_of s1) tr1).
        { intros t' Ht'. apply H5. apply in_or_app. right. exact Ht'. }
        assert (Hr2 : ready_at ts (vals_of s1) tr1).
        { intros t' Ht'. apply H5. apply in_or_app. left. exact Ht'. }
        pose proof (IH s1 tr1 (acc ++ [(lab, t, b)]) ts Hr1 Hr2) as IH'.
        cbv zeta in IH'. destruct IH' as (I1 & I2 & I3 & I4 & I5).
        split; [congruence|]. split; [congruence|]. split; [congruence|]. split; [exact I4|].
        intros q Hq. rewrite I5.
        + apply Hfr. exact Hq.
        + intros t0 Ht0. rewrite H3. apply Hq. right. exact Ht0.
      - cbn [fst snd]. split; [exact H2|]. split; [exact H3|]. split; [exact H4|]. split.
        + intros t' Ht'. apply H5. apply in_or_app. left. exact Ht'.
        + exact Hfr.
    Qed.

    (* WITHIN a multi-period solve(): the Trace of a period that is visited once is exactly what that period's own
       traced solve_t writes, starting from the Trace the period had before solve() was called — earlier and later
       periods of the run do not touch it.  (s1, tr1) is the instance when the period's turn comes; the facts listed
       for it are the hypotheses of the single-period trace theorems, so those apply to it.) *)
    Theorem trace_of_period_within_solve d o (l1 l2 : list (Z * L)) t lab s tr acc p s1 tr1 acc1 :
      ready_at (map fst (l1 ++ (t, lab) :: l2)) (vals_of s) tr ->
      py_pos (length tr) t = Some p ->
      (forall t', In t' (map fst l1 ++ map fst l2) -> py_pos (length tr) t' <> Some p) ->
      traced_run_periods d o l1 s tr acc = ((s1, tr1), Ret acc1) ->
      nth p tr1 empty_trace = nth p tr empty_trace /\
      ready cfg a reset t (vals_of s1) tr1 /\ length tr1 = length tr /\ length (status s1) = length (status s) /\
      nth p (snd (fst (traced_run_periods d o (l1 ++ (t, lab) :: l2) s tr acc))) empty_trace
      = nth p (snd (fst (traced_solve_t cfg a reset ev before after d o t s1 tr1))) empty_trace.
    Proof.
      intros Hall Hp Hother Hl1.
      assert (Hsub1 : ready_at (map fst l1) (vals_of s) tr).
      { intros t' Ht'. apply Hall. rewrite map_app. apply in_or_app. left. exact Ht'. }
      pose proof (traced_run_periods_on d o l1 s tr acc _ Hsub1 Hall) as H. cbv zeta in H. rewrite Hl1 in H.
      cbn [fst snd] in H. destruct H as (A1 & A2 & A3 & A4 & A5).
      assert (Hp1 : nth p tr1 empty_trace = nth p tr empty_trace).
      { apply A5. intros t' Ht'. apply Hother. apply in_or_app. left. exact Ht'. }
      assert (Hrt : ready cfg a reset t (vals_of s1) tr1).
      { apply A4. rewrite map_app. apply in_or_app. right. left. reflexivity. }
      split; [exact Hp1|]. split; [exact Hrt|]. split; [exact A2|]. split; [exact A3|].
      rewrite traced_run_periods_app, Hl1. cbn [TracerSolve.traced_run_periods].
      destruct (traced_solve_t cfg a reset ev before after d o t s1 tr1) as [[s2 tr2] out2] eqn:Hrun.
      destruct out2 as [b|e]; [|reflexivity].
      assert (Hl2 : ready_at (map fst l2) (vals_of s1) tr1).
      { intros t' Ht'. apply A4. rewrite map_app. apply in_or_app. right. right. exact Ht'. }
      destruct (traced_solve_t_step d o t s1 tr1 (map fst l2) s2 tr2 (Ret b) Hrt Hl2 Hrun) as (p' & Hp' & B2 & B3 & B4 & B5 & B6).
      assert (Hnil : ready_at [] (vals_of s2) tr2) by (intros t' []).
      pose proof (traced_run_periods_on d o l2 s2 tr2 (acc1 ++ [(lab, t, b)]) [] B5 Hnil) as H. cbv zeta in H.
      destruct H as (_ & _ & _ & _ & C5).
      cbn [fst snd]. apply C5. intros t' Ht'. rewrite B3, A2. apply Hother. apply in_or_app. right. exact Ht'.
    Qed.
  End SolveAllEntry.
  (* ---------------------------------------------------------------- the property's second sentence, for solve() *)
  Section SolveShape.
    Variables (cfg : tcfg) (a : targ).
    Variables (ev before after : hook).
    Hypothesis ev_shape : shape_pres ev.
    Hypothesis before_shape : shape_pres before.
    Hypothesis after_shape : shape_pres after.
    Variable L : Type.
    Notation traced_run_periods := (traced_run_periods num sub absf ltb isfin zero cfg a false ev before after L).

    (* solve(trace=..., reset=False) over periods whose Traces are empty: a period that is visited once and SOLVED ends
       up — after the WHOLE multi-period run — with labels start, before, 0, 1..k, end (k = its iteration count >= 1),
       snapshot j = the traced variables after its pass j, last snapshot = the solution stored when it finished.
       (s1, tr1) is the instance when the period's turn comes, s2 the state right after its solve_t.) *)
    Theorem solve_trace_shape_solved d o (l1 l2 : list (Z * L)) t lab s tr acc p s1 tr1 acc1 s2 tr2 :
      truthy a = true ->
      ready_at cfg a false (map fst (l1 ++ (t, lab) :: l2)) (vals_of s) tr ->
      py_pos (length tr) t = Some p -> length tr = length (status s) ->
      (forall t', In t' (map fst l1 ++ map fst l2) -> py_pos (length tr) t' <> Some p) ->
      is_empty num (nth p tr empty_trace) = true ->
      traced_run_periods d o l1 s tr acc = ((s1, tr1), Ret acc1) ->
      traced_solve_t cfg a false ev before after d o t s1 tr1 = ((s2, tr2), Ret true) ->
      let names := names_of cfg (length (vals_of s1)) a in
      let v0 := seeded num zero d o s1 p in
      let v1 := fst (before t (errors o) (catch_first o) 0%nat v0) in
      exists k, (1 <= k)%nat /\
        status s2 = upd p Solved (status s1) /\ iters s2 = upd p (Z.of_nat k) (iters s1) /\
        nth p (snd (fst (traced_run_periods d o (l1 ++ (t, lab) :: l2) s tr acc))) empty_trace
        = mkTrace names
            (LStart :: LBefore :: map LIter (seq 0 (S k)) ++ [LEnd])
            (snap (vals_of s1) t names :: snap v0 t names
             :: map (fun j => snap (st_after num ev o t v1 j) t names) (seq 0 (S k)) ++ [snap (vals_of s2) t names]).
    Proof.
      intros Ha Hall Hp Hlen Hother HX Hl1 Hrun. cbv zeta.
      destruct (trace_of_period_within_solve cfg a false ev before after ev_shape before_shape after_shape L Ha
                  d o l1 l2 t lab s tr acc p s1 tr1 acc1 Hall Hp Hother Hl1) as (E1 & Hrt & E2 & E3 & Efin).
      rewrite Hrun in Efin. cbn [fst snd] in Efin. rewrite Efin.
      destruct Hrt as (Hv & _).
      assert (Hp1 : py_pos (length tr1) t = Some p) by (rewrite E2; exact Hp).
      assert (Hlen1 : length tr1 = length (status s1)) by congruence.
      assert (HX1 : is_empty num (nth p tr1 empty_trace) = true) by (rewrite E1; exact HX).
      exact (trace_shape_solved num sub absf ltb isfin zero cfg a ev before after ev_shape before_shape after_shape
               d o t s1 tr1 p s2 tr2 Ha Hv Hp1 Hlen1 HX1 Hrun).
    Qed.

    (* ... and an UNSOLVED one (flag False; with failures='raise' the run stops there): no 'end', the trace stops
       after its last pass k = iterations, and that last snapshot is what is stored *)
    Theorem solve_trace_shape_unsolved d o (l1 l2 : list (Z * L)) t lab s tr acc p s1 tr1 acc1 s2 tr2 out :
      truthy a = true ->
      ready_at cfg a false (map fst (l1 ++ (t, lab) :: l2)) (vals_of s) tr ->
      py_pos (length tr) t = Some p -> length tr = length (status s) ->
      (forall t', In t' (map fst l1 ++ map fst l2) -> py_pos (length tr) t' <> Some p) ->
      is_empty num (nth p tr empty_trace) = true ->
      traced_run_periods d o l1 s tr acc = ((s1, tr1), Ret acc1) ->
      traced_solve_t cfg a false ev before after d o t s1 tr1 = ((s2, tr2), out) ->
      out = Ret false \/ out = Raise NonConvergenceError ->
      let names := names_of cfg (length (vals_of s1)) a in
      let v0 := seeded num zero d o s1 p in
      let v1 := fst (before t (errors o) (catch_first o) 0%nat v0) in
      exists k x, x <> Solved /\
        status s2 = upd p x (status s1) /\ iters s2 = upd p (Z.of_nat k) (iters s1) /\
        vals_of s2 = st_after num ev o t v1 k /\
        nth p (snd (fst (traced_run_periods d o (l1 ++ (t, lab) :: l2) s tr acc))) empty_trace
        = mkTrace names
            (LStart :: LBefore :: map LIter (seq 0 (S k)))
            (snap (vals_of s1) t names :: snap v0 t names
             :: map (fun j => snap (st_after num ev o t v1 j) t names) (seq 0 (S k))).
    Proof.
      intros Ha Hall Hp Hlen Hother HX Hl1 Hrun Hout. cbv zeta.
      destruct (trace_of_period_within_solve cfg a false ev before after ev_shape before_shape after_shape L Ha
                  d o l1 l2 t lab s tr acc p s1 tr1 acc1 Hall Hp Hother Hl1) as (E1 & Hrt & E2 & E3 & Efin).
      rewrite Hrun in Efin. cbn [fst snd] in Efin. rewrite Efin.
      destruct Hrt as (Hv & _).
      assert (Hp1 : py_pos (length tr1) t = Some p) by (rewrite E2; exact Hp).
      assert (Hlen1 : length tr1 = length (status s1)) by congruence.
      assert (HX1 : is_empty num (nth p tr1 empty_trace) = true) by (rewrite E1; exact HX).
      exact (trace_shape_unsolved num sub absf ltb isfin zero cfg a ev before after ev_shape before_shape after_shape
               d o t s1 tr1 p s2 tr2 out Ha Hv Hp1 Hlen1 HX1 Hrun Hout).
    Qed.
  End SolveShape.
End TracerFacts2.
