(* TracerKw.v — the KEYWORDS the four wrappers of TracerMixin thread through (fsic/extensions/model.py:522-612), explicit.
   Definitions only.

   BaseModel.solve_t calls its hooks as
       self.solve_t_before(t, errors=errors, catch_first_error=catch_first_error, iteration=0, **kwargs)
       self._evaluate     (t, errors=errors, catch_first_error=catch_first_error, iteration=k, **kwargs)
       self.solve_t_after (t, errors=errors, catch_first_error=catch_first_error, iteration=k, **kwargs)
   where **kwargs is whatever the caller gave beyond the solver options — on a tracer-extended class always `trace=` and
   `reset=` (TracerMixin.solve_t passes both on) plus any further user keyword.  Each wrapper has the signature
       (self, t, *args, trace=None, reset=False, iteration=None, **kwargs)
   (so `errors`, `catch_first_error` and the user keywords stay inside its **kwargs) and calls
       super().<hook>(t, *args, trace=trace, reset=reset, iteration=iteration, **kwargs).
   Tracer.v hands the user's hooks `t em cf k` positionally and so cannot express a wrapper that forgets to pass one of
   them on.  Here the bundle is a record, the wrapper's forwarding is a function `fwd : kwargs -> kwargs`, the real one
   (`forward`) rebuilds the record field by field as the code's keyword list does, and forgetful variants are other
   functions.  The USER's hooks see everything but trace / reset (that they do not look at those two is the property's
   standing assumption, here part of the type). *)
From Coq Require Import ZArith List Bool.
Import ListNotations.
Require Import PyBase Solver Tracer.
Open Scope Z_scope.

(* what a wrapper receives *)
Record kwargs := mkKw {
  kw_iteration : option nat; kw_errors : errmode; kw_cf : bool;
  kw_trace : targ; kw_reset : bool;
  kw_extra : list (nat * Z) }.                 (* further user keywords: name, value *)

(* what the user's own hook gets to see *)
Record ukwargs := mkUKw { u_iteration : option nat; u_errors : errmode; u_cf : bool; u_extra : list (nat * Z) }.
Definition strip (kw : kwargs) : ukwargs := mkUKw (kw_iteration kw) (kw_errors kw) (kw_cf kw) (kw_extra kw).

(* `super().<hook>(t, *args, trace=trace, reset=reset, iteration=iteration, **kwargs)`: every binding is handed on *)
Definition forward (kw : kwargs) : kwargs :=
  mkKw (kw_iteration kw) (kw_errors kw) (kw_cf kw) (kw_trace kw) (kw_reset kw) (kw_extra kw).
(* wrappers that forget something (what a careless edit of one of the four methods produces) *)
Definition forward_without_iteration (kw : kwargs) : kwargs :=
  mkKw None (kw_errors kw) (kw_cf kw) (kw_trace kw) (kw_reset kw) (kw_extra kw).
Definition forward_without_kwargs (kw : kwargs) : kwargs :=       (* **kwargs dropped: the user's hook falls back on its defaults *)
  mkKw (kw_iteration kw) ERaise true (kw_trace kw) (kw_reset kw) [].

Section Kw.
  Variable num : Type.
  Variables (sub : num -> num -> num) (absf : num -> num) (ltb : num -> num -> bool)
            (isfin : num -> bool) (zero : num).
  Definition uhook := Z -> ukwargs -> vals num -> vals num * option Z.

  (* the call without trace= / reset= on the plain class: the hook receives iteration, errors, catch_first_error and the
     user keywords straight from BaseModel.solve_t *)
  Definition plain_hook (h : uhook) (x : list (nat * Z)) : hook num :=
    fun t em cf k v => h t (mkUKw (Some k) em cf x) v.

  (* through a wrapper with forwarding `fwd`: BaseModel.solve_t -> wrapper (binds trace, reset, iteration) -> super() *)
  Definition wrapped_hook (fwd : kwargs -> kwargs) (h : uhook) (a : targ) (r : bool) (x : list (nat * Z)) : hook num :=
    fun t em cf k v => h t (strip (fwd (mkKw (Some k) em cf a r x))) v.

  (* TracerMixin.solve_t(t, trace=a, reset=r, **x, <solver options>) with the three wrappers forwarding by fwd_ev / fwd_before /
     fwd_after *)
  Definition traced_solve_t_K (fwd_ev fwd_before fwd_after : kwargs -> kwargs) (cfg : tcfg) (a : targ) (r : bool)
             (x : list (nat * Z)) (ev before after : uhook) (d : mdesc) (o : opts num) (t : Z) (s : mstate num) (tr : traces num) :=
    traced_solve_t num sub absf ltb isfin zero cfg a r
                   (wrapped_hook fwd_ev ev a r x) (wrapped_hook fwd_before before a r x) (wrapped_hook fwd_after after a r x)
                   d o t s tr.
  Definition plain_solve_t_K (x : list (nat * Z)) (ev before after : uhook) (d : mdesc) (o : opts num) (t : Z) (s : mstate num) :=
    solve_t_M num sub absf ltb isfin zero (plain_hook ev x) (plain_hook before x) (plain_hook after x) d o t s.
End Kw.
