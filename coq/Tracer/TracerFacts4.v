(* TracerFacts4.v — facts about TracerReindex.v: what reindex() and copy() do to the Trace objects. *)
From Coq Require Import ZArith List Bool Lia.
Import ListNotations.
Require Import PyBase Solver Tracer TracerNames TracerReindex.

Lemma names_eqb_same l : names_eqb l l = true.
Proof. induction l as [|x l IH]; [reflexivity|]. cbn [names_eqb]. rewrite Nat.eqb_refl. exact IH. Qed.

Section ReindexFacts.
  Variable num : Type.
  Notation tderef := (tderef num).
  Notation trace_t_cells := (trace_t_cells num).
  Notation copy_cells := (copy_cells num).

  (* ---- since fix 28b2a9a ---- *)
  (* reindex(): a period that is new holds None; a period both spans have gets its OWN Trace object with the contents of
     the original's; no existing object is touched *)
  Theorem reindex_cells_fresh : forall positions cells h,
    let '(cs, h') := reindex_cells num positions cells h in
    length cs = length positions /\ (length h <= length h')%nat /\
    (forall a, (a < length h)%nat -> tderef h' a = tderef h a) /\
    (forall i, match nth i positions None with
               | None => nth i cs None = None
               | Some q => match nth q cells None with
                           | None => nth i cs None = None
                           | Some a => (a < length h)%nat ->
                               exists b, nth i cs None = Some b /\ (length h <= b < length h')%nat /\ tderef h' b = tderef h a
                           end
               end).
  Proof.
    induction positions as [|o positions IH]; intros cells h.
    { cbn [TracerReindex.reindex_cells]. split; [reflexivity|]. split; [lia|]. split; [reflexivity|].
      intros i. destruct i; reflexivity. }
    cbn [TracerReindex.reindex_cells].
    destruct o as [q|].
    2:{ specialize (IH cells h). destruct (reindex_cells num positions cells h) as [cs h'].
        destruct IH as (I1 & I2 & I3 & I4).
        split; [cbn [length]; rewrite I1; reflexivity|]. split; [exact I2|]. split; [exact I3|].
        intros [|i]; cbn [nth]; [reflexivity|exact (I4 i)]. }
    destruct (nth q cells None) as [a0|] eqn:Eq.
    - specialize (IH cells (h ++ [tderef h a0])). destruct (reindex_cells num positions cells (h ++ [tderef h a0])) as [cs h'].
      destruct IH as (I1 & I2 & I3 & I4). rewrite app_length in I2, I3. cbn [length] in I2, I3.
      assert (Hold : forall a, (a < length h)%nat -> tderef h' a = tderef h a).
      { intros a Ha. rewrite I3 by lia. unfold TracerReindex.tderef. apply app_nth1. exact Ha. }
      split; [cbn [length]; rewrite I1; reflexivity|]. split; [lia|]. split; [exact Hold|].
      intros [|i]; cbn [nth].
      + rewrite Eq. intros Ha. exists (length h). split; [reflexivity|]. split; [lia|].
        rewrite I3 by lia. unfold TracerReindex.tderef. rewrite app_nth2 by lia. rewrite Nat.sub_diag. reflexivity.
      + specialize (I4 i). destruct (nth i positions None) as [q'|]; [|exact I4].
        destruct (nth q' cells None) as [a|]; [|exact I4].
        intros Ha. destruct I4 as (b & B1 & B2 & B3).
        { rewrite app_length. cbn [length]. lia. }
        exists b. split; [exact B1|]. rewrite app_length in B2. cbn [length] in B2. split; [lia|].
        rewrite B3. unfold TracerReindex.tderef. apply app_nth1. exact Ha.
    - specialize (IH cells h). destruct (reindex_cells num positions cells h) as [cs h'].
      destruct IH as (I1 & I2 & I3 & I4).
      split; [cbn [length]; rewrite I1; reflexivity|]. split; [exact I2|]. split; [exact I3|].
      intros [|i]; cbn [nth]; [rewrite Eq; reflexivity|exact (I4 i)].
  Qed.

  (* since fix 3b0200f: the first trace_t on a period that did not exist before reindex() — its cell holds None — puts a
     fresh Trace with this snapshot into the cell, for every names / label / values / reset, and touches no existing object.
     (Before the fix `None.is_empty()` raised AttributeError: trace_t_cells_none_raises, below.) *)
  Theorem reindex_new_period_gets_a_trace positions cells i names reset lab res h :
    nth i positions None = None ->
    let '(cs, h') := reindex_cells num positions cells h in
    trace_t_cells names reset i lab res cs h'
    = ((upd i (Some (length h')) cs, h' ++ [mkTrace names [lab] [res]]), None).
  Proof.
    intros H. pose proof (reindex_cells_fresh positions cells h) as F.
    destruct (reindex_cells num positions cells h) as [cs h']. destruct F as (_ & _ & _ & F).
    specialize (F i). rewrite H in F. unfold TracerReindex.trace_t_cells. unfold tcell, addr in *. rewrite F. reflexivity.
  Qed.

  Theorem reindex_new_period_raised_before_the_fix positions cells i names reset lab res h :
    nth i positions None = None ->
    let '(cs, h') := reindex_cells num positions cells h in
    trace_t_cells_none_raises num names reset i lab res cs h' = ((cs, h'), Some AttributeError).
  Proof.
    intros H. pose proof (reindex_cells_fresh positions cells h) as F.
    destruct (reindex_cells num positions cells h) as [cs h']. destruct F as (_ & _ & _ & F).
    specialize (F i). rewrite H in F. unfold TracerReindex.trace_t_cells_none_raises. unfold tcell, addr in *. rewrite F. reflexivity.
  Qed.

  (* ---- what fix 28b2a9a removed (the reverse patch, reindex_cells_shared) ---- *)
  Lemma reindex_cell positions cells i :
    nth i (reindex_cells_shared positions cells) None
    = match nth i positions None with Some q => nth q cells None | None => None end.
  Proof.
    unfold TracerReindex.reindex_cells_shared.
    exact (map_nth (fun o : option nat => match o with Some q => nth q cells None | None => None end) positions None i).
  Qed.

  (* without the deep copy a period that was traced before (non-empty Trace, same width) and is traced again through the
     REINDEXED instance with reset=False was appended to in place — in the object the original instance still holds *)
  Theorem reindex_without_deepcopy_shared positions cells i q r names lab res h c cs :
    nth i positions None = Some q -> nth q cells None = Some r -> (r < length h)%nat ->
    tr_values (tderef h r) = c :: cs -> length c = length res -> tr_names (tderef h r) = names ->
    let old := tderef h r in
    let '((cells', h'), e) := trace_t_cells names false i lab res (reindex_cells_shared positions cells) h in
    e = None /\ cells' = reindex_cells_shared positions cells /\
    tderef h' r = mkTrace (tr_names old) (tr_index old ++ [lab]) (tr_values old ++ [res]) /\
    tderef h' r <> old.
  Proof.
    intros Hi Hq Hr Hv Hl Hn. cbv zeta. unfold TracerReindex.trace_t_cells. rewrite reindex_cell, Hi. cbv beta iota. unfold tcell, addr in *. rewrite Hq.
    unfold afresh, is_empty. rewrite Hv, Hn.
    rewrite names_eqb_same.
    cbn [orb negb]. unfold append_trace. rewrite Hv. rewrite Hl, Nat.eqb_refl.
    split; [reflexivity|]. split; [reflexivity|].
    match goal with |- context [upd r ?n h] => set (new := n) end.
    assert (E : tderef (upd r new h) r = new) by (unfold TracerReindex.tderef; apply nth_upd_eq; exact Hr).
    rewrite E. split; [subst new; rewrite ?Hn; reflexivity|]. intros Q.
    apply (f_equal (fun x => length (tr_values x))) in Q. subst new. cbn [tr_values] in Q. rewrite Hv in Q.
    rewrite app_length in Q. cbn [length] in Q. lia.
  Qed.

  (* trace_t through a cell whose Trace is empty, or with reset=True, never writes into an existing object: it puts a
     NEW Trace into the cell (so an untraced period of the original is not disturbed by the reindexed instance) *)
  Theorem trace_t_cells_fresh_object names reset p lab res cells h r :
    nth p cells None = Some r -> afresh num (tderef h r) reset names = true ->
    let '((cells', h'), e) := trace_t_cells names reset p lab res cells h in
    cells' = upd p (Some (length h)) cells /\ (forall a, (a < length h)%nat -> tderef h' a = tderef h a).
  Proof.
    intros Hp He. cbv zeta. unfold TracerReindex.trace_t_cells. unfold tcell, addr in *. rewrite Hp, He.
    destruct (append_trace num (mkTrace names [] []) lab res) as [new e].
    split; [reflexivity|]. intros a Ha. unfold TracerReindex.tderef. apply app_nth1. exact Ha.
  Qed.

  (* copy(): every cell of the copy refers to a NEW object with the contents of the original's, and no existing object
     is touched — so nothing done to the copy's Traces can reach the original's *)
  Theorem copy_cells_fresh : forall cells h,
    let '(cs, h') := copy_cells cells h in
    length cs = length cells /\ (length h <= length h')%nat /\
    (forall a, (a < length h)%nat -> tderef h' a = tderef h a) /\
    (forall i, match nth i cells None with
               | None => nth i cs None = None
               | Some a => (a < length h)%nat ->
                           exists b, nth i cs None = Some b /\ (length h <= b < length h')%nat /\ tderef h' b = tderef h a
               end).
  Proof.
    induction cells as [|c cells IH]; intros h.
    { cbn [TracerReindex.copy_cells]. split; [reflexivity|]. split; [lia|]. split; [reflexivity|].
      intros i. destruct i; reflexivity. }
    destruct c as [a0|]; cbn [TracerReindex.copy_cells].
    - specialize (IH (h ++ [tderef h a0])). destruct (copy_cells cells (h ++ [tderef h a0])) as [cs h'].
      destruct IH as (I1 & I2 & I3 & I4). rewrite app_length in I2, I3. cbn [length] in I2, I3.
      assert (Hold : forall a, (a < length h)%nat -> tderef h' a = tderef h a).
      { intros a Ha. rewrite I3 by lia. unfold TracerReindex.tderef. apply app_nth1. exact Ha. }
      split; [cbn [length]; rewrite I1; reflexivity|]. split; [lia|]. split; [exact Hold|].
      intros [|i]; cbn [nth].
      + intros Ha. exists (length h). split; [reflexivity|]. split; [lia|].
        rewrite I3 by lia. unfold TracerReindex.tderef. rewrite app_nth2 by lia. rewrite Nat.sub_diag. reflexivity.
      + specialize (I4 i). destruct (nth i cells None) as [a|]; [|exact I4].
        intros Ha. destruct I4 as (b & B1 & B2 & B3).
        { rewrite app_length. cbn [length]. lia. }
        exists b. split; [exact B1|]. rewrite app_length in B2. cbn [length] in B2. split; [lia|].
        rewrite B3. unfold TracerReindex.tderef. apply app_nth1. exact Ha.
    - specialize (IH h). destruct (copy_cells cells h) as [cs h'].
      destruct IH as (I1 & I2 & I3 & I4).
      split; [cbn [length]; rewrite I1; reflexivity|]. split; [exact I2|]. split; [exact I3|].
      intros [|i]; cbn [nth]; [reflexivity|exact (I4 i)].
  Qed.
  (* ---- the link between the reference level and the value level ---- *)
  Lemma trace_t_is_core cfg t lab a reset (v : vals num) (tr : traces num) res p :
    gather num v t (names_of cfg (length v) a) = inl res -> py_pos (length tr) t = Some p ->
    trace_t num cfg t lab a reset v tr = trace_t_core num (names_of cfg (length v) a) reset p lab res tr.
  Proof. intros Hg Hp. unfold trace_t, TracerReindex.trace_t_core. rewrite Hg, Hp. reflexivity. Qed.

  Lemma view_nth cells h i :
    nth i (view num cells h) (empty_trace num) = match nth i cells None with Some r => tderef h r | None => empty_trace num end.
  Proof.
    unfold TracerReindex.view.
    exact (map_nth (fun c : tcell => match c with Some r => tderef h r | None => empty_trace num end) cells None i).
  Qed.

  Lemma nth_upd_case {A} i p (x d : A) l :
    nth i (upd p x l) d = if Nat.eqb i p && Nat.ltb p (length l) then x else nth i l d.
  Proof.
    destruct (Nat.eqb i p) eqn:E; cbn [andb].
    - apply Nat.eqb_eq in E. subst i. destruct (Nat.ltb p (length l)) eqn:L.
      + apply Nat.ltb_lt in L. apply nth_upd_eq. exact L.
      + apply Nat.ltb_ge in L. rewrite !nth_overflow; [reflexivity|exact L|rewrite upd_length; exact L].
    - apply Nat.eqb_neq in E. apply nth_upd_neq. congruence.
  Qed.

  (* THE LINK.  On an array whose cells are None (a period added by reindex(), not traced yet) or Trace objects of their own
     (no two periods sharing one), the reference-level trace_t_cells, seen at the level of values — a None cell reads as
     the empty Trace — IS Tracer.trace_t, and the new array is again of that kind.  Such arrays are what __init__, copy()
     and reindex() produce (tracer_init_spec, copy_cells_fresh, reindex_cells_fresh), so the theorems stated over `traces`
     (lists of Trace values) speak about every instance the class can build.  (Before fix 3b0200f the None cells had to
     be excluded: there trace_t raised AttributeError.) *)
  Theorem cells_refine_traces names reset p lab res cells h :
    (forall i r, nth i cells None = Some r -> (r < length h)%nat) ->
    (forall i j r, nth i cells None = Some r -> nth j cells None = Some r -> i = j) ->
    (p < length cells)%nat ->
    let '((cells', h'), e) := trace_t_cells names reset p lab res cells h in
    (view num cells' h', e) = trace_t_core num names reset p lab res (view num cells h)
    /\ (forall i r, nth i cells' None = Some r -> (r < length h')%nat)
    /\ (forall i j r, nth i cells' None = Some r -> nth j cells' None = Some r -> i = j)
    /\ length cells' = length cells.
  Proof.
    intros Hall Hinj Hp.
    assert (Hpl : Nat.ltb p (length cells) = true) by (apply Nat.ltb_lt; exact Hp).
    (* the branch that puts a fresh object into cell p *)
    assert (Fresh : forall new e,
      afresh num (nth p (view num cells h) (empty_trace num)) reset names = true ->
      append_trace num (mkTrace names [] []) lab res = (new, e) ->
      (view num (upd p (Some (length h)) cells) (h ++ [new]), e) = trace_t_core num names reset p lab res (view num cells h)
      /\ (forall i r, nth i (upd p (Some (length h)) cells) None = Some r -> (r < length (h ++ [new]))%nat)
      /\ (forall i j r, nth i (upd p (Some (length h)) cells) None = Some r -> nth j (upd p (Some (length h)) cells) None = Some r -> i = j)
      /\ length (upd p (Some (length h)) cells) = length cells).
    { intros new e Ea Eapp. unfold TracerReindex.trace_t_core. rewrite Ea, Eapp.
      assert (Hlen : length (view num (upd p (Some (length h)) cells) (h ++ [new])) = length (upd p new (view num cells h))).
      { unfold TracerReindex.view. rewrite map_length, !upd_length, map_length. reflexivity. }
      split; [f_equal|].
      - apply (nth_ext _ _ (empty_trace num) (empty_trace num) Hlen). intros i Hi.
        rewrite view_nth, !nth_upd_case, view_nth.
        unfold TracerReindex.view. rewrite map_length. unfold tcell, addr in *. rewrite !Hpl, !andb_true_r.
        destruct (Nat.eqb i p) eqn:E.
        + unfold TracerReindex.tderef. rewrite app_nth2 by lia. rewrite Nat.sub_diag. reflexivity.
        + destruct (nth i cells None) as [ri|] eqn:Hri; [|reflexivity].
          unfold TracerReindex.tderef. apply app_nth1. exact (Hall i ri Hri).
      - split; [|split].
        + intros i r0. rewrite nth_upd_case, app_length. cbn [length]. unfold tcell, addr in *. rewrite Hpl, andb_true_r.
          destruct (Nat.eqb i p); [intros Q; inversion Q; lia|]. intros Q. pose proof (Hall i r0 Q). lia.
        + intros i j r0. rewrite !nth_upd_case. unfold tcell, addr in *. rewrite Hpl, !andb_true_r.
          destruct (Nat.eqb i p) eqn:Ei; destruct (Nat.eqb j p) eqn:Ej.
          * intros _ _. apply Nat.eqb_eq in Ei, Ej. congruence.
          * intros Q1 Q2. inversion Q1; subst r0. pose proof (Hall j _ Q2). lia.
          * intros Q1 Q2. inversion Q2; subst r0. pose proof (Hall i _ Q1). lia.
          * apply Hinj.
        + apply upd_length. }
    unfold TracerReindex.trace_t_cells. unfold tcell, addr in *.
    destruct (nth p cells None) as [r|] eqn:Hr.
    - pose proof (Hall p r Hr) as Hrl.
      assert (Hview : nth p (view num cells h) (empty_trace num) = tderef h r).
      { rewrite view_nth. unfold tcell, addr in *. rewrite Hr. reflexivity. }
      destruct (afresh num (tderef h r) reset names) eqn:Ea.
      + destruct (append_trace num (mkTrace names [] []) lab res) as [new e] eqn:Eapp.
        apply Fresh; [rewrite Hview; exact Ea|reflexivity].
      + unfold TracerReindex.trace_t_core. rewrite Hview, Ea.
        destruct (append_trace num (tderef h r) lab res) as [new e].
        assert (Hlen : length (view num cells (upd r new h)) = length (upd p new (view num cells h))).
        { unfold TracerReindex.view. rewrite upd_length, !map_length. reflexivity. }
        split; [f_equal|].
        * apply (nth_ext _ _ (empty_trace num) (empty_trace num) Hlen). intros i Hi.
          rewrite view_nth, nth_upd_case, view_nth. unfold TracerReindex.view. rewrite map_length.
          unfold tcell, addr in *. rewrite Hpl, andb_true_r.
          destruct (nth i cells None) as [ri|] eqn:Hri.
          -- unfold TracerReindex.tderef. rewrite nth_upd_case.
             assert (Hrl' : Nat.ltb r (length h) = true) by (apply Nat.ltb_lt; exact Hrl). rewrite Hrl', andb_true_r.
             destruct (Nat.eqb i p) eqn:Ei.
             ++ apply Nat.eqb_eq in Ei. subst i. rewrite Hr in Hri. inversion Hri; subst ri. rewrite Nat.eqb_refl. reflexivity.
             ++ destruct (Nat.eqb ri r) eqn:Er; [|reflexivity].
                apply Nat.eqb_eq in Er. subst ri. apply Nat.eqb_neq in Ei. exfalso. apply Ei. exact (Hinj i p r Hri Hr).
          -- destruct (Nat.eqb i p) eqn:Ei; [|reflexivity].
             apply Nat.eqb_eq in Ei. subst i. rewrite Hr in Hri. discriminate Hri.
        * split; [|split; [exact Hinj|reflexivity]].
          intros i r0 Q. rewrite upd_length. exact (Hall i r0 Q).
    - destruct (append_trace num (mkTrace names [] []) lab res) as [new e] eqn:Eapp.
      apply Fresh; [|reflexivity].
      rewrite view_nth. unfold tcell, addr in *. rewrite Hr. reflexivity.
  Qed.
End ReindexFacts.
