(* TracerFacts4.v — facts about TracerReindex.v: what reindex() and copy() do to the Trace objects. *)
From Coq Require Import ZArith List Bool Lia.
Import ListNotations.
Require Import PyBase Tracer TracerNames TracerReindex.

Section ReindexFacts.
  Variable num : Type.
  Notation tderef := (tderef num).
  Notation trace_t_cells := (trace_t_cells num).
  Notation copy_cells := (copy_cells num).

  (* ---- since fix 28b2a9a ---- *)
  (* reindex(): a period that is new holds None; a period both spans have gets its OWN Trace object with the contents of
     the original's; no existing object is touched *)
  Theorem reindex_cells_fresh : forall positions cells h,
    let '(cs, h') := reindex_cells num positions cells h in
    length cs = length positions /\ (length h <= length h')%nat /\
    (forall a, (a < length h)%nat -> tderef h' a = tderef h a) /\
    (forall i, match nth i positions None with
               | None => nth i cs None = None
               | Some q => match nth q cells None with
                           | None => nth i cs None = None
                           | Some a => (a < length h)%nat ->
                               exists b, nth i cs None = Some b /\ (length h <= b < length h')%nat /\ tderef h' b = tderef h a
                           end
               end).
  Proof.
    induction positions as [|o positions IH]; intros cells h.
    { cbn [TracerReindex.reindex_cells]. split; [reflexivity|]. split; [lia|]. split; [reflexivity|].
      intros i. destruct i; reflexivity. }
    cbn [TracerReindex.reindex_cells].
    destruct o as [q|].
    2:{ specialize (IH cells h). destruct (reindex_cells num positions cells h) as [cs h'].
        destruct IH as (I1 & I2 & I3 & I4).
        split; [cbn [length]; rewrite I1; reflexivity|]. split; [exact I2|]. split; [exact I3|].
        intros [|i]; cbn [nth]; [reflexivity|exact (I4 i)]. }
    destruct (nth q cells None) as [a0|] eqn:Eq.
    - specialize (IH cells (h ++ [tderef h a0])). destruct (reindex_cells num positions cells (h ++ [tderef h a0])) as [cs h'].
      destruct IH as (I1 & I2 & I3 & I4). rewrite app_length in I2, I3. cbn [length] in I2, I3.
      assert (Hold : forall a, (a < length h)%nat -> tderef h' a = tderef h a).
      { intros a Ha. rewrite I3 by lia. unfold TracerReindex.tderef. apply app_nth1. exact Ha. }
      split; [cbn [length]; rewrite I1; reflexivity|]. split; [lia|]. split; [exact Hold|].
      intros [|i]; cbn [nth].
      + rewrite Eq. intros Ha. exists (length h). split; [reflexivity|]. split; [lia|].
        rewrite I3 by lia. unfold TracerReindex.tderef. rewrite app_nth2 by lia. rewrite Nat.sub_diag. reflexivity.
      + specialize (I4 i). destruct (nth i positions None) as [q'|]; [|exact I4].
        destruct (nth q' cells None) as [a|]; [|exact I4].
        intros Ha. destruct I4 as (b & B1 & B2 & B3).
        { rewrite app_length. cbn [length]. lia. }
        exists b. split; [exact B1|]. rewrite app_length in B2. cbn [length] in B2. split; [lia|].
        rewrite B3. unfold TracerReindex.tderef. apply app_nth1. exact Ha.
    - specialize (IH cells h). destruct (reindex_cells num positions cells h) as [cs h'].
      destruct IH as (I1 & I2 & I3 & I4).
      split; [cbn [length]; rewrite I1; reflexivity|]. split; [exact I2|]. split; [exact I3|].
      intros [|i]; cbn [nth]; [rewrite Eq; reflexivity|exact (I4 i)].
  Qed.

  (* FINDING (new period after reindex, still present): trace_t on a period that did not exist before reindex raises
     AttributeError — for every names / label / values / reset — and changes nothing *)
  Theorem reindex_new_period_raises positions cells i names reset lab res h :
    nth i positions None = None ->
    let '(cs, h') := reindex_cells num positions cells h in
    trace_t_cells names reset i lab res cs h' = ((cs, h'), Some AttributeError).
  Proof.
    intros H. pose proof (reindex_cells_fresh positions cells h) as F.
    destruct (reindex_cells num positions cells h) as [cs h']. destruct F as (_ & _ & _ & F).
    specialize (F i). rewrite H in F. unfold TracerReindex.trace_t_cells. unfold tcell, addr in *. rewrite F. reflexivity.
  Qed.

  (* ---- what fix 28b2a9a removed (the reverse patch, reindex_cells_shared) ---- *)
  Lemma reindex_cell positions cells i :
    nth i (reindex_cells_shared positions cells) None
    = match nth i positions None with Some q => nth q cells None | None => None end.
  Proof.
    unfold TracerReindex.reindex_cells_shared.
    exact (map_nth (fun o : option nat => match o with Some q => nth q cells None | None => None end) positions None i).
  Qed.

  (* without the deep copy a period that was traced before (non-empty Trace, same width) and is traced again through the
     REINDEXED instance with reset=False was appended to in place — in the object the original instance still holds *)
  Theorem reindex_without_deepcopy_shared positions cells i q r names lab res h c cs :
    nth i positions None = Some q -> nth q cells None = Some r -> (r < length h)%nat ->
    tr_values (tderef h r) = c :: cs -> length c = length res ->
    let old := tderef h r in
    let '((cells', h'), e) := trace_t_cells names false i lab res (reindex_cells_shared positions cells) h in
    e = None /\ cells' = reindex_cells_shared positions cells /\
    tderef h' r = mkTrace (tr_names old) (tr_index old ++ [lab]) (tr_values old ++ [res]) /\
    tderef h' r <> old.
  Proof.
    intros Hi Hq Hr Hv Hl. cbv zeta. unfold TracerReindex.trace_t_cells. rewrite reindex_cell, Hi. cbv beta iota. unfold tcell, addr in *. rewrite Hq.
    unfold is_empty, append_trace. rewrite Hv. cbn [orb]. rewrite Hl, Nat.eqb_refl.
    split; [reflexivity|]. split; [reflexivity|].
    match goal with |- context [upd r ?n h] => set (new := n) end.
    assert (E : tderef (upd r new h) r = new) by (unfold TracerReindex.tderef; apply nth_upd_eq; exact Hr).
    rewrite E. split; [subst new; reflexivity|]. intros Q.
    apply (f_equal (fun x => length (tr_values x))) in Q. subst new. cbn [tr_values] in Q. rewrite Hv in Q.
    rewrite app_length in Q. cbn [length] in Q. lia.
  Qed.

  (* trace_t through a cell whose Trace is empty, or with reset=True, never writes into an existing object: it puts a
     NEW Trace into the cell (so an untraced period of the original is not disturbed by the reindexed instance) *)
  Theorem trace_t_cells_fresh_object names reset p lab res cells h r :
    nth p cells None = Some r -> is_empty num (tderef h r) || reset = true ->
    let '((cells', h'), e) := trace_t_cells names reset p lab res cells h in
    cells' = upd p (Some (length h)) cells /\ (forall a, (a < length h)%nat -> tderef h' a = tderef h a).
  Proof.
    intros Hp He. cbv zeta. unfold TracerReindex.trace_t_cells. unfold tcell, addr in *. rewrite Hp, He.
    destruct (append_trace num (mkTrace names [] []) lab res) as [new e].
    split; [reflexivity|]. intros a Ha. unfold TracerReindex.tderef. apply app_nth1. exact Ha.
  Qed.

  (* copy(): every cell of the copy refers to a NEW object with the contents of the original's, and no existing object
     is touched — so nothing done to the copy's Traces can reach the original's *)
  Theorem copy_cells_fresh : forall cells h,
    let '(cs, h') := copy_cells cells h in
    length cs = length cells /\ (length h <= length h')%nat /\
    (forall a, (a < length h)%nat -> tderef h' a = tderef h a) /\
    (forall i, match nth i cells None with
               | None => nth i cs None = None
               | Some a => (a < length h)%nat ->
                           exists b, nth i cs None = Some b /\ (length h <= b < length h')%nat /\ tderef h' b = tderef h a
               end).
  Proof.
    induction cells as [|c cells IH]; intros h.
    { cbn [TracerReindex.copy_cells]. split; [reflexivity|]. split; [lia|]. split; [reflexivity|].
      intros i. destruct i; reflexivity. }
    destruct c as [a0|]; cbn [TracerReindex.copy_cells].
    - specialize (IH (h ++ [tderef h a0])). destruct (copy_cells cells (h ++ [tderef h a0])) as [cs h'].
      destruct IH as (I1 & I2 & I3 & I4). rewrite app_length in I2, I3. cbn [length] in I2, I3.
      assert (Hold : forall a, (a < length h)%nat -> tderef h' a = tderef h a).
      { intros a Ha. rewrite I3 by lia. unfold TracerReindex.tderef. apply app_nth1. exact Ha. }
      split; [cbn [length]; rewrite I1; reflexivity|]. split; [lia|]. split; [exact Hold|].
      intros [|i]; cbn [nth].
      + intros Ha. exists (length h). split; [reflexivity|]. split; [lia|].
        rewrite I3 by lia. unfold TracerReindex.tderef. rewrite app_nth2 by lia. rewrite Nat.sub_diag. reflexivity.
      + specialize (I4 i). destruct (nth i cells None) as [a|]; [|exact I4].
        intros Ha. destruct I4 as (b & B1 & B2 & B3).
        { rewrite app_length. cbn [length]. lia. }
        exists b. split; [exact B1|]. rewrite app_length in B2. cbn [length] in B2. split; [lia|].
        rewrite B3. unfold TracerReindex.tderef. apply app_nth1. exact Ha.
    - specialize (IH h). destruct (copy_cells cells h) as [cs h'].
      destruct IH as (I1 & I2 & I3 & I4).
      split; [cbn [length]; rewrite I1; reflexivity|]. split; [exact I2|]. split; [exact I3|].
      intros [|i]; cbn [nth]; [reflexivity|exact (I4 i)].
  Qed.
End ReindexFacts.
