(* TracerFacts5.v — the wrappers forward every keyword (TracerKw.v). *)
From Coq Require Import ZArith List Bool Lia.
Import ListNotations.
Require Import PyBase Solver SolverFacts Tracer TracerFacts TracerKw.
Open Scope Z_scope.

(* the code's `trace=trace, reset=reset, iteration=iteration, **kwargs` hands on exactly what the wrapper received *)
Lemma forward_id kw : forward kw = kw.
Proof. destruct kw; reflexivity. Qed.

Section KwFacts.
  Variable num : Type.
  Variables (sub : num -> num -> num) (absf : num -> num) (ltb : num -> num -> bool)
            (isfin : num -> bool) (zero : num).
  Notation uhook := (uhook num).

  Definition ushape_pres (h : uhook) : Prop := forall t kw v, shape num (fst (h t kw v)) = shape num v.

  (* what the user's hook receives through the real wrapper is what it receives on the plain class: iteration, errors,
     catch_first_error and every further user keyword, unchanged — for every value of trace / reset *)
  Lemma wrapped_forward_is_plain (h : uhook) a r x : wrapped_hook num forward h a r x = plain_hook num h x.
  Proof. reflexivity. Qed.

  (* NON-INTERFERENCE WITH THE KEYWORDS EXPLICIT.  For all user hooks (functions of iteration, errors, catch_first_error and
     the further user keywords x), options, states, Trace contents and trace= / reset= for which trace_t cannot fail: the
     traced call — BaseModel.solve_t handing the bundle to the three wrappers, each binding trace / reset / iteration and
     forwarding with `forward` — erases to the call on the plain class with the same solver options and the same user
     keywords.  In particular the user's hooks are called with the same iteration numbers, errors, catch_first_error and
     user keywords in both. *)
  Theorem kw_noninterference cfg a r x (ev before after : uhook) d o t s tr :
    ushape_pres ev -> ushape_pres before -> ushape_pres after ->
    (truthy a = true -> ready num cfg a r t (vals_of s) tr) ->
    let R := traced_solve_t_K num sub absf ltb isfin zero forward forward forward cfg a r x ev before after d o t s tr in
    (fst (fst R), snd R) = plain_solve_t_K num sub absf ltb isfin zero x ev before after d o t s.
  Proof.
    intros H1 H2 H3 Hr. cbv zeta. unfold traced_solve_t_K, plain_solve_t_K.
    rewrite !wrapped_forward_is_plain.
    apply (trace_noninterference_solve_t num sub absf ltb isfin zero cfg a r
             (plain_hook num ev x) (plain_hook num before x) (plain_hook num after x)).
    - intros t0 em cf k v. apply H1.
    - intros t0 em cf k v. apply H2.
    - intros t0 em cf k v. apply H3.
    - exact Hr.
  Qed.
End KwFacts.
