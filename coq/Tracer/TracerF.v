(* TracerF.v — the TracerMixin model instantiated with the kernel's binary64 floats and the scripted
   oracles of Solver/SolverF.v, plus the in-Coq comparison used by the correspondence check K_tracer.
   Definitions only. *)
From Coq Require Import PrimFloat ZArith List Bool.
Import ListNotations.
Require Import PyBase Solver SolverF SolveAll Tracer TracerSolve TracerNames TracerLinked TracerReindex.
Open Scope Z_scope.

Definition ftrace := trace float.
Definition ftraces := traces float.

(* how the span object is searched by _locate_period_in_span (SolveAll.v): 0 = a Python list (span.index: first occurrence),
   1 = a NumPy array (the static fallback: exactly one match, returned as a built-in int), otherwise a pandas Index of
   DISTINCT plain labels (get_loc answers with the position; with repeated labels it would answer with a slice or a mask,
   which the case generator does not produce) *)
Definition span_locate (kind : nat) (span : list Z) (x : Z) : locres :=
  match kind with
  | O => locate_index span x
  | S O => locate_unique span x
  | _ => locate_index span x
  end.

(* one call on the instance: which solve method, its options, the trace= and reset= keywords *)
(* (labels are the integers of the span; the span is a Python list, searched with list.index = SolveAll.locate_index) *)
Inductive entry : Type :=
| ESolveT (t : Z) | ESolvePeriod (lab : Z) | ESolve (start end_ : option Z)
| ETraceT (t : Z) (label : tlabel) | ETracePeriod (lab : Z) (label : tlabel)      (* the public snapshot methods, called directly *)
(* what a user does to the instance BETWEEN solves (histories): `model.V<i> = [...]` (whole-series list assignment: the
   series is replaced), and model = model.copy() / model.reindex(<the same span>) (a new instance with equal contents:
   the identity at the level of values, statuses, iteration counts and Trace contents) *)
| ESetSeries (i : nat) (row : list float) | ENoop
| EAddSeries (row : list float).                 (* model.add_variable(<new name>, ...): one more series, appended to `names` *)
Record call := mkCall { k_entry : entry; k_opts : fopts; k_targ : targ; k_reset : bool }.
Inductive cres : Type := RBool (o : outcome bool) | RSolve (o : outcome (sresult Z)) | RUnit (o : outcome unit).
Definition unit_res (e : option exn) : cres := match e with None => RUnit (Ret tt) | Some x => RUnit (Raise x) end.

Definition f_traced_solve_t (sc : scripts) (cfg : tcfg) (a : targ) (reset : bool) (d : mdesc) (o : fopts) (t : Z)
           (s : fstate) (tr : ftraces) : (fstate * ftraces) * outcome bool :=
  let n := length (status s) in
  traced_solve_t float PrimFloat.sub PrimFloat.abs PrimFloat.ltb fisfin fzero cfg a reset
                 (s_ev n sc) (s_before n sc) (s_after n sc) d o t s tr.

(* the call on the tracer-extended class, with the keywords *)
Definition f_call (sc : scripts) (cfg : tcfg) (kind : nat) (span : list Z) (d : mdesc) (c : call) (s : fstate) (tr : ftraces)
  : (fstate * ftraces) * cres :=
  let n := length (status s) in
  let ev := s_ev n sc in let be := s_before n sc in let af := s_after n sc in
  match k_entry c with
  | ESolveT t =>
      let '(st, o) := traced_solve_t float PrimFloat.sub PrimFloat.abs PrimFloat.ltb fisfin fzero cfg (k_targ c) (k_reset c)
                                     ev be af d (k_opts c) t s tr in (st, RBool o)
  | ESolvePeriod lab =>
      let '(st, o) := traced_solve_period_all float PrimFloat.sub PrimFloat.abs PrimFloat.ltb fisfin fzero cfg (k_targ c) (k_reset c)
                                              ev be af Z (span_locate kind span) d (k_opts c) lab s tr in (st, RBool o)
  | ESolve start end_ =>
      let '(st, o) := traced_solve_all float PrimFloat.sub PrimFloat.abs PrimFloat.ltb fisfin fzero cfg (k_targ c) (k_reset c)
                                       ev be af Z (span_locate kind span) d (k_opts c) span start end_ s tr in (st, RSolve o)
  | ETraceT t label =>
      let '(tr', e) := trace_t float cfg t label (k_targ c) (k_reset c) (vals_of s) tr in ((s, tr'), unit_res e)
  | ETracePeriod lab label =>
      let '(tr', e) := trace_period_M float cfg (k_targ c) (k_reset c) Z (span_locate kind span) lab label (vals_of s) tr in
      ((s, tr'), unit_res e)
  | ESetSeries i row => ((with_vals float s (upd i row (vals_of s)) (log s), tr), RUnit (Ret tt))
  | ENoop => ((s, tr), RUnit (Ret tt))
  | EAddSeries row => ((with_vals float s (vals_of s ++ [row]) (log s), tr), RUnit (Ret tt))
  end.

(* the same call without the keywords (the untraced twin): Solver.solve_t_M, SolveAll.solve_period_M, SolveAll.solve_M *)
Definition f_plain_call (sc : scripts) (kind : nat) (span : list Z) (d : mdesc) (c : call) (s : fstate) : fstate * cres :=
  let n := length (status s) in
  let ev := s_ev n sc in let be := s_before n sc in let af := s_after n sc in
  match k_entry c with
  | ESolveT t =>
      let '(s', o) := solve_t_M float PrimFloat.sub PrimFloat.abs PrimFloat.ltb fisfin fzero ev be af d (k_opts c) t s in
      (s', RBool o)
  | ESolvePeriod lab =>
      let '(s', o) := solve_period_M float PrimFloat.sub PrimFloat.abs PrimFloat.ltb fisfin fzero ev be af Z (span_locate kind span) d (k_opts c) lab s in
      (s', RBool o)
  | ESolve start end_ =>
      let '(s', o) := solve_M float PrimFloat.sub PrimFloat.abs PrimFloat.ltb fisfin fzero ev be af Z (span_locate kind span) d (k_opts c) span start end_ s in
      (s', RSolve o)
  | ETraceT _ _ | ETracePeriod _ _ => (s, RUnit (Ret tt))       (* the twin is left alone: a snapshot method is not a solve *)
  | ESetSeries i row => (with_vals float s (upd i row (vals_of s)) (log s), RUnit (Ret tt))
  | ENoop => (s, RUnit (Ret tt))
  | EAddSeries row => (with_vals float s (vals_of s ++ [row]) (log s), RUnit (Ret tt))
  end.

(* ---- comparison with the implementation's observation ---- *)
Definition label_eqb (a b : tlabel) : bool :=
  match a, b with
  | LStart, LStart | LBefore, LBefore | LEnd, LEnd => true
  | LIter j, LIter k => Nat.eqb j k
  | LUser j, LUser k => Nat.eqb j k
  | _, _ => false
  end.
Definition trace_eqb (a b : ftrace) : bool :=
  list_eqb Nat.eqb (tr_names a) (tr_names b) && list_eqb label_eqb (tr_index a) (tr_index b)
  && list_eqb (list_eqb feq_bits) (tr_values a) (tr_values b).
(* the three lists solve() returns: labels, positions, flags — and their common length *)
Definition visit_eqb (a b : visit Z) : bool :=
  let '(la, ta, ba) := a in let '(lb, tb, bb) := b in (la =? lb) && (ta =? tb) && Bool.eqb ba bb.
Definition outl_eqb (a b : outcome (sresult Z)) : bool :=
  match a, b with
  | Ret x, Ret y => Nat.eqb (r_len x) (r_len y) && list_eqb visit_eqb (r_visits x) (r_visits y)
  | Raise x, Raise y => exn_eqb x y
  | _, _ => false
  end.
Definition cres_eqb (a b : cres) : bool :=
  match a, b with
  | RBool x, RBool y => out_eqb x y
  | RSolve x, RSolve y => outl_eqb x y
  | RUnit (Ret _), RUnit (Ret _) => true
  | RUnit (Raise x), RUnit (Raise y) => exn_eqb x y
  | _, _ => false
  end.

(* Trace.to_dataframe() of every period, as observed after the call *)
Definition frame := outcome (list tlabel * list nat * list (list float)).
Definition frame_eqb (a b : frame) : bool :=
  match a, b with
  | Ret (i, n, v), Ret (i', n', v') =>
      list_eqb label_eqb i i' && list_eqb Nat.eqb n n' && list_eqb (list_eqb feq_bits) v v'
  | Raise x, Raise y => exn_eqb x y
  | _, _ => false
  end.

(* The hook-call log is compared up to the SPELLING of the period argument: a negative t and the position it denotes are the
   same period (whether BaseModel.solve_t hands its hooks t as passed or normalised is nothing the property constrains). *)
Definition norm_event (n : nat) (e : event) : event :=
  match e with
  | EvBefore t => EvBefore (Z.of_nat (pos_of n t))
  | EvPass t k => EvPass (Z.of_nat (pos_of n t)) k
  | EvAfter t k => EvAfter (Z.of_nat (pos_of n t)) k
  end.
Definition norm_log (s : fstate) : fstate := with_vals float s (vals_of s) (map (norm_event (length (status s))) (log s)).
Definition state_eqb17 (a b : fstate) : bool := state_eqb (norm_log a) (norm_log b).

(* what the implementation showed after one call: traced instance (state, traces, result), untraced twin *)
(* compact form of the observed frame: FSame = "the frame is exactly the labels x names table of the observed Trace
   (the empty frame for an empty Trace)" *)
Inductive fobs : Type := FSame | FExplicit (f : frame).
Definition fobs_ok (x : ftrace) (o : fobs) : bool :=
  match o with
  | FSame => frame_eqb (to_dataframe float x)
                       (if is_empty float x then Ret ([], [], []) else Ret (tr_index x, tr_names x, tr_values x))
  | FExplicit f => frame_eqb (to_dataframe float x) f
  end.
Fixpoint frames_ok (xs : ftraces) (os : list fobs) : bool :=
  match xs, os with
  | [], [] => true
  | x :: xs', o :: os' => fobs_ok x o && frames_ok xs' os'
  | _, _ => false
  end.

Record xstep := mkX { x_state : fstate; x_traces : ftraces; x_res : cres; x_twin : fstate; x_twin_res : cres;
                      x_frames : list fobs }.

Record tcase17 := mkCase17 {
  c_scripts : scripts; c_cfg : tcfg; c_kind : nat; c_span : list Z; c_desc : mdesc;
  c_state0 : fstate; c_calls : list call; c_expect : list xstep }.

(* run the calls one after the other on the model (traced instance and untraced twin side by side) and compare
   with the implementation after every call *)
Fixpoint run_check (sc : scripts) (cfg : tcfg) (kind : nat) (span : list Z) (d : mdesc) (cs : list call) (xs : list xstep)
         (s : fstate) (tr : ftraces) (u : fstate) : bool :=
  match cs, xs with
  | [], [] => true
  | c :: cs', x :: xs' =>
      let '((s', tr'), r) := f_call sc cfg kind span d c s tr in
      let '(u', ru) := f_plain_call sc kind span d c u in
      state_eqb17 s' (x_state x) && list_eqb trace_eqb tr' (x_traces x) && cres_eqb r (x_res x)
      && frames_ok tr' (x_frames x)
      && state_eqb17 u' (x_twin x) && cres_eqb ru (x_twin_res x)
      && run_check sc cfg kind span d cs' xs' s' tr' u'
  | _, _ => false
  end.

(* the model's own prediction for a sequence of calls (used to explain a disagreement in a replay file) *)
Fixpoint run_calls (sc : scripts) (cfg : tcfg) (kind : nat) (span : list Z) (d : mdesc) (cs : list call) (s : fstate) (tr : ftraces)
  : list ((fstate * ftraces) * cres) :=
  match cs with
  | [] => []
  | c :: cs' => let '((s', tr'), r) := f_call sc cfg kind span d c s tr in ((s', tr'), r) :: run_calls sc cfg kind span d cs' s' tr'
  end.

Definition check_tcase17 (c : tcase17) : bool :=
  run_check (c_scripts c) (c_cfg c) (c_kind c) (c_span c) (c_desc c) (c_calls c) (c_expect c) (c_state0 c)
            (repeat (empty_trace float) (length (status (c_state0 c)))) (c_state0 c).

(* ---- which list object a freshly created Trace keeps as `names` (TracerNames.v): the observed identity flags
   (is it the model's list / the class's TRACE_VARIABLES / the object passed as trace=) and the observed names of every
   Trace the call created, against the heap model ---- *)
Record acase := mkACase {
  a_env : nenv; a_spec : nspec; a_heap : nheap; a_flags : list (bool * bool * bool); a_names : list (list nat) }.
Definition flags_eqb (x y : bool * bool * bool) : bool :=
  let '(a, b, c) := x in let '(a', b', c') := y in Bool.eqb a a' && Bool.eqb b b' && Bool.eqb c c'.
Definition check_acase (c : acase) : bool :=
  let '(h', r) := trace_names (a_env c) (a_spec c) (a_heap c) in
  forallb (flags_eqb (alias_flags (a_env c) (a_spec c) r)) (a_flags c)
  && forallb (list_eqb Nat.eqb (deref h' r)) (a_names c).

(* ---- TracerMixin.__init__: the observed outcome (class of the exception, or the new index and the number of Traces,
   all empty) against TracerSolve.tracer_init ---- *)
Record icase := mkICase { i_index : list nat; i_trace_name : nat; i_n : nat; i_obs : outcome (list nat * nat) }.
Definition check_icase (c : icase) : bool :=
  match tracer_init float (i_index c) (i_trace_name c) (i_n c), i_obs c with
  | Raise x, Raise y => exn_eqb x y
  | Ret (ix, tr), Ret (ix', k) =>
      list_eqb Nat.eqb ix ix' && Nat.eqb (length tr) k && forallb (is_empty float) tr
  | _, _ => false
  end.

(* ---- a traced scripted model as a submodel of a BaseLinker (TracerLinked.v): the n passes the linker made of it
   (labels 1..n), its values and Traces afterwards and the exception that ended the passes, against linked_passes; the
   same submodel in an untraced twin linker against plain_passes.  evaluate_t calls _evaluate under
   warnings.catch_warnings(record=True) + simplefilter('always'): a warning never becomes an exception there, which for
   the scripted oracle is catch = false (cf := false). ---- *)
Record lcase := mkLCase {
  l_scripts : scripts; l_cfg : tcfg; l_targ : targ; l_reset : bool; l_nper : nat; l_t : Z; l_passes : nat;
  l_vals0 : vals float; l_traces0 : ftraces;
  l_vals : vals float; l_traces : ftraces; l_exn : option Z; l_twin_vals : vals float; l_twin_exn : option Z }.
Definition optZ_eqb (a b : option Z) : bool :=
  match a, b with None, None => true | Some x, Some y => Z.eqb x y | _, _ => false end.
Definition fvals_eqb (a b : vals float) : bool := list_eqb (list_eqb feq_bits) a b.
Definition check_lcase (c : lcase) : bool :=
  let ev := s_ev (l_nper c) (l_scripts c) in
  let '((v', tr'), e) := linked_passes float (l_cfg c) (l_targ c) (l_reset c) ev (l_t c) ERaise false 1 (l_passes c)
                                       (l_vals0 c) (l_traces0 c) in
  let '(u', eu) := plain_passes float ev (l_t c) ERaise false 1 (l_passes c) (l_vals0 c) in
  fvals_eqb v' (l_vals c) && list_eqb trace_eqb tr' (l_traces c) && optZ_eqb e (l_exn c)
  && fvals_eqb u' (l_twin_vals c) && optZ_eqb eu (l_twin_exn c).

(* ---- reindex() / copy() of a traced instance (TracerReindex.v): which cells of the new instance's `_trace` array are
   None, the very object of the original's period q, or an object of their own; whether a traced solve_t of period 0 through
   the NEW instance changes the ORIGINAL's Trace of period 0; whether tracing a period that is new raises AttributeError ---- *)
Record rxcase := mkRx {
  rx_reindex : bool; rx_n : nat; rx_extra : nat; rx_old : list ftrace;
  rx_pattern : list (option (option nat));          (* None = None cell; Some (Some q) = the original's object of q; Some None = own *)
  rx_names : list nat; rx_reset : bool; rx_res : list float;
  rx_old_changed : bool; rx_new_period_attr : bool }.
Definition pat_eqb (a b : option (option nat)) : bool :=
  match a, b with
  | None, None => true
  | Some None, Some None => true
  | Some (Some x), Some (Some y) => Nat.eqb x y
  | _, _ => false
  end.
Definition check_rxcase (c : rxcase) : bool :=
  let n := rx_n c in
  let cells0 : list tcell := map Some (seq 0%nat n) in
  let h0 : theap float := rx_old c in
  let '(cells1, h1) := if rx_reindex c then reindex_cells float (map Some (seq 0%nat n) ++ repeat None (rx_extra c)) cells0 h0
                       else copy_cells float cells0 h0 in
  let pat := map (fun x : tcell => match x with None => None | Some r => if Nat.ltb r n then Some (Some r) else Some None end) cells1 in
  let '((_, h2), _) := trace_t_cells float (rx_names c) (rx_reset c) 0%nat LStart (rx_res c) cells1 h1 in
  let changed := negb (trace_eqb (tderef float h2 0%nat) (tderef float h0 0%nat)) in
  let '(_, eB) := trace_t_cells float (rx_names c) (rx_reset c) n LStart (rx_res c) cells1 h1 in
  let attr := match eB with Some AttributeError => true | _ => false end in
  list_eqb pat_eqb pat (rx_pattern c) && Bool.eqb changed (rx_old_changed c)
  && (if rx_reindex c && negb (Nat.eqb (rx_extra c) 0%nat) then Bool.eqb attr (rx_new_period_attr c) else true).
