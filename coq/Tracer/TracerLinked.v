(* TracerLinked.v — a TRACED model used as a submodel of a linker (fsic/core/linkers.py BaseLinker.solve_t / evaluate_t).
   Definitions only.

   BaseLinker.solve_t never calls a submodel's solve_t, solve_t_before or solve_t_after: it reaches a submodel through
   `submodel._evaluate(t, errors=, catch_first_error=, iteration=k, **kwargs)` only, once per linker pass k = 1, 2, ..
   (evaluate_t), with the caller's `trace=` / `reset=` travelling in **kwargs.  For a tracer-extended submodel that call is
   TracerMixin._evaluate (Tracer.traced_ev): the user's _evaluate, then — if `trace` is truthy — a snapshot labelled k.
   So a linker run records the labels 1, 2, .., k of the submodel's period and NO 'start', 'before', 0 or 'end'.
   An exception of the submodel's pass (or of trace_t) leaves evaluate_t as it is (no SolutionError wrapper there). *)
From Coq Require Import ZArith List Bool.
Import ListNotations.
Require Import PyBase Solver Tracer.
Open Scope Z_scope.

Section Linked.
  Variable num : Type.
  Variable zero : num.
  Variables (cfg : tcfg) (a : targ) (reset : bool).
  Variable ev : hook num.                       (* the submodel's own _evaluate *)

  (* linker passes k, k+1, .., k+n-1 as one traced submodel sees them; stops at the first exception *)
  Fixpoint linked_passes (t : Z) (em : errmode) (cf : bool) (k n : nat) (v : vals num) (tr : traces num)
    : (vals num * traces num) * option Z :=
    match n with
    | O => ((v, tr), None)
    | S n' =>
        match traced_ev num cfg a reset ev t em cf k v tr with
        | ((v1, tr1), None) => linked_passes t em cf (S k) n' v1 tr1
        | r => r
        end
    end.

  (* the same passes on the submodel without the keywords *)
  Fixpoint plain_passes (t : Z) (em : errmode) (cf : bool) (k n : nat) (v : vals num) : vals num * option Z :=
    match n with
    | O => (v, None)
    | S n' =>
        match ev t em cf k v with
        | (v1, None) => plain_passes t em cf (S k) n' v1
        | r => r
        end
    end.

  (* what gets recorded: label j and the traced variables as pass j left them, for every pass that returned *)
  Fixpoint linked_entries (t : Z) (em : errmode) (cf : bool) (names : list nat) (k n : nat) (v : vals num)
    : list (tlabel * list num) :=
    match n with
    | O => []
    | S n' =>
        match ev t em cf k v with
        | (v1, None) => (LIter k, snap num zero v1 t names) :: linked_entries t em cf names (S k) n' v1
        | (_, Some _) => []
        end
    end.
End Linked.
