(* CodeGenExamples.v — instances (the hypotheses of the C01 theorems are satisfiable by non-trivial statements) and
   refutation witnesses (where the faithful model of the CURRENT code violates the property text). *)
From Coq Require Import String Ascii List Bool Arith ZArith PrimFloat.
Import ListNotations.
Require Import Generated PyBase PyStr Lex Format Symbols Split Merge ParseEq ParseModel Solver SolverF Eval EvalF.
Require Import CodeGen CodeGenF CodeGenFacts CodeGenFacts2 CodeGenLexFacts CodeGenSrc CodeGenSrcFacts CodeGenSrcFacts2.
Open Scope string_scope.

Definition lf : string := String (ascii_of_nat 10) "".

(* ---------- a statement with every trap of the property in it ---------- *)
Definition eqA : string :=
  "Yd[1] = { alpha_1 }*exp (  is_open[-12] ) + min( Pin[ +2 ],1.5 )/< e > - not_X**2 + np.sqrt(in_[0]) + `self.k`".

Example eqA_guard : is_blank eqA = false /\ head_is "`" eqA && last_is "`" eqA = false /\ text_guard eqA = true.
Proof. vm_compute. repeat split. Qed.

Example eqA_code :
  code_text eqA = Some "self._Yd[t+1] = self._alpha_1[t]*np.exp(self._is_open[t-12]) + min(self._Pin[t+2],1.5)/self._e[t] - self._not_X[t]**2 + np.sqrt(self._in_[t]) + self.k" /\
  equation_text eqA = Some "Yd[t+1] = alpha_1[t]*exp(is_open[t-12]) + min(Pin[t+2],1.5)/e[t] - not_X[t]**2 + np.sqrt(in_[t]) + `self.k`".
Proof. vm_compute. split; reflexivity. Qed.

Example eqA_parsed :
  exists syms, parse_equation_M eqA = POk syms /\
    In (mkSymbol (Some "Yd") TEndogenous (Some (IInt 0%Z)) (Some (IInt 1%Z))
                 (Some "Yd[t+1] = alpha_1[t]*exp(is_open[t-12]) + min(Pin[t+2],1.5)/e[t] - not_X[t]**2 + np.sqrt(in_[t]) + `self.k`")
                 (Some "self._Yd[t+1] = self._alpha_1[t]*np.exp(self._is_open[t-12]) + min(self._Pin[t+2],1.5)/self._e[t] - self._not_X[t]**2 + np.sqrt(self._in_[t]) + self.k")) syms /\
    In (mkSymbol (Some "is_open") TExogenous (Some (IInt (-12)%Z)) (Some (IInt 0%Z)) None None) syms /\
    In (mkSymbol (Some "alpha_1") TParameter (Some (IInt 0%Z)) (Some (IInt 0%Z)) None None) syms.
Proof. eexists. split; [vm_compute; reflexivity|]. cbn [In]. repeat split; auto 12. Qed.

(* multi-line statement inside parentheses, tabs, a comparison and a conditional expression: still the same rule *)
Definition eqB : string := "C = ( {a}" ++ lf ++ "      + X[-1]	*  2 ) if X >= 0 else  W[1]".
Example eqB_code :
  text_guard eqB = true /\ code_text eqB = Some "self._C[t] = (self._a[t] + self._X[t-1] * 2) if self._X[t] >= 0 else self._W[t+1]".
Proof. vm_compute. split; reflexivity. Qed.

(* ---------- refutation witnesses (genuine defects of the current code, mirrored by the model) ---------- *)

(* #20: a blank between a name and its index bracket — legal subscript spacing in Python — is accepted, the lag is
   lost (symbol X gets lags 0) and the code subscripts the VALUE X[t] with -1 *)
Example space_before_index_refuted :
  exists eq syms, parse_equation_M eq = POk syms /\ text_guard eq = true /\
    code_text eq = Some "self._Y[t] = self._X[t] [-1]" /\
    In (mkSymbol (Some "X") TExogenous (Some (IInt 0%Z)) (Some (IInt 0%Z)) None None) syms /\
    stmt_of_equation (fun x => index_of x ["Y"; "X"]) eq = None.
Proof. exists "Y = X [-1]". eexists. split; [vm_compute; reflexivity|]. cbn [In]. repeat split; auto. Qed.

(* a doubled brace around a parameter: str.format un-escapes `{{ }}` and the parameter disappears from the code
   (this is why parse_equation_code_spec needs `gaps_brace_free`) *)
Example brace_outside_parameter_refuted :
  exists eq syms, parse_equation_M eq = POk syms /\ gaps_brace_free (scan_items eq) = false /\
    code_text eq = Some "self._Y[t] = {self._a[t]}" /\
    In (mkSymbol (Some "Y") TEndogenous (Some (IInt 0%Z)) (Some (IInt 0%Z)) (Some "Y[t] = {}") (Some "self._Y[t] = {}")) syms /\
    In (mkSymbol (Some "a") TParameter (Some (IInt 0%Z)) (Some (IInt 0%Z)) None None) syms.
Proof. exists "Y = {{a}}". eexists. split; [vm_compute; reflexivity|]. cbn [In]. repeat split; auto. Qed.

(* #19 is repaired (b45daa1): a name used both as a series and as a function — in one statement, in either order, or in two
   statements — is rejected with SymbolError; every_series_term_declared (CodeGenFacts11) is the positive statement *)
Example function_and_series_name_rejected :
  parse_model_nocheck "Y = exp + exp(X)" = PErr SymbolError /\
  parse_model_nocheck "Y = log(log[-1])" = PErr SymbolError /\
  parse_model_nocheck ("Y = exp(X)" ++ lf ++ "Z = exp") = PErr SymbolError /\
  (exists syms, parse_model_nocheck "Y = exp(X) + exp(Z)" = POk syms /\ names_of syms = ["Y"; "X"; "Z"]).
Proof. repeat split; try (vm_compute; reflexivity). eexists. split; vm_compute; reflexivity. Qed.

(* NEW: a series whose name begins with an underscore: the class-body access self.__x is name-mangled by CPython to
   self._Model__x, which does not exist — the model builds, the text is what the rule says, the evaluation raises
   AttributeError.  Such names have no row (mangled), so the statement is outside the subset *)
Example underscore_name_mangled_refuted :
  exists script syms, parse_model_nocheck script = POk syms /\
    In (mkSymbol (Some "Y") TEndogenous (Some (IInt 0%Z)) (Some (IInt 0%Z)) (Some "Y[t] = _x[t] + 1")
                 (Some "self._Y[t] = self.__x[t] + 1")) syms /\
    names_of syms = ["Y"; "_x"] /\ mangled "_x" = true /\ mangled "_" = false /\ mangled "__x__" = false /\
    program_of_script script = None.
Proof. exists "Y = _x + 1". eexists. split; [vm_compute; reflexivity|]. cbn [In]. repeat split; auto. Qed.

(* statements that parse_model accepts (also with its syntax check) and that are NOT one assignment to the left-hand cell:
   the text is what the rule says, the statement is outside the subset (program_of_script = None), and the real pass writes a
   cell of an EXOGENOUS variable / assigns nothing / is not executed at all (known findings of C01) *)
Definition sym_view (s : symbol) := (sname s, stype s, scode s).
Example chained_assignment_refuted :
  (exists syms, parse_model_nocheck "Y = Z = X" = POk syms /\
     map sym_view syms = [(Some "Y", TEndogenous, Some "self._Y[t] = self._Z[t] = self._X[t]"); (Some "Z", TExogenous, None); (Some "X", TExogenous, None)]) /\
  (exists syms, parse_model_nocheck "Y = X; Z = 1" = POk syms /\
     map sym_view syms = [(Some "Y", TEndogenous, Some "self._Y[t] = self._X[t]; self._Z[t] = 1"); (Some "X", TExogenous, None); (Some "Z", TExogenous, None)]) /\
  program_of_script "Y = Z = X" = None /\ program_of_script "Y = X; Z = 1" = None.
Proof. split; [eexists; split; vm_compute; reflexivity|]. split; [eexists; split; vm_compute; reflexivity|]. split; vm_compute; reflexivity. Qed.
Example comparison_statement_refuted :
  (exists syms, parse_model_nocheck "Y == X" = POk syms /\
     map sym_view syms = [(Some "Y", TEndogenous, Some "self._Y[t] == self._X[t]"); (Some "X", TExogenous, None)]) /\
  program_of_script "Y == X" = None.
Proof. split; [eexists; split; vm_compute; reflexivity|]. vm_compute; reflexivity. Qed.
Example yield_statement_refuted :
  (exists syms, parse_model_nocheck ("Z = (yield)" ++ lf ++ "Y = X") = POk syms /\
     map sym_view (filter emits syms) = [(Some "Z", TEndogenous, Some "self._Z[t] = (yield)"); (Some "Y", TEndogenous, Some "self._Y[t] = self._X[t]")]) /\
  program_of_script ("Z = (yield)" ++ lf ++ "Y = X") = None.
Proof. split; [eexists; split; vm_compute; reflexivity|]. vm_compute; reflexivity. Qed.
Example blank_in_dotted_name_refuted :
  (exists syms, parse_model_nocheck "Y = np .sqrt(X)" = POk syms /\
     map sym_view syms = [(Some "Y", TEndogenous, Some "self._Y[t] = self._np[t] .sqrt(self._X[t])"); (Some "np", TExogenous, None);
                          (Some "sqrt", TFunction, None); (Some "X", TExogenous, None)]) /\
  code_text "Y = np.sqrt(X)" = Some "self._Y[t] = np.sqrt(self._X[t])" /\ program_of_script "Y = np .sqrt(X)" = None.
Proof. split; [eexists; split; vm_compute; reflexivity|]. split; vm_compute; reflexivity. Qed.
(* Python-number traps that py_ok keeps out of the subset *)
Example python_number_holes :
  stmt_of_equation (row_of ["Y"; "X"]) "Y = X + 9007199254740993 * 3" = None /\
  stmt_of_equation (row_of ["Y"; "X"]) "Y = X + 3 * 3" = Some ("Y", SAssign 0 0%Z (EBin OAdd (ERead 1 0%Z) (ENum "9"))) /\
  py_ok (EBin OMul (ERead 1 0%Z) (ENum (String "1" (string_of_list_ascii (repeat "0"%char 400))))) = false /\
  py_ok (EBin ODiv (ENum "1") (ENum (String "0" (String "." (string_of_list_ascii (repeat "0"%char 400 ++ ["1"%char])))))) = false /\
  py_ok (EBin ODiv (ENum "1") (ENum "0.001")) = true.
Proof. vm_compute. repeat split; reflexivity. Qed.

(* a match of the whole statement that spans the first `=`: the two sides are lexed separately, the template is not,
   and terms and placeholders no longer correspond (this is why parse_equation_code_spec needs `aligned`) *)
Example match_spanning_equals_refuted :
  exists eq syms, parse_equation_M eq = POk syms /\ aligned_b eq = false /\
    In (mkSymbol (Some "Y") TEndogenous (Some (IInt 0%Z)) (Some (IInt 0%Z)) (Some "Y[t] = a[t]") (Some "self._Y[t] = self._a[t]")) syms.
Proof. exists "Y[a=b] = X". eexists. split; [vm_compute; reflexivity|]. cbn [In]. repeat split; auto. Qed.

(* ---------- programs ---------- *)
(* symbol order, not script order: X is defined by the THIRD statement but runs second, because the symbol X first
   appears in the first statement *)
Definition scriptC : string := "Y = 2*X[-1] + {a}" ++ lf ++ "Z = max(W, Y) - <e>" ++ lf ++ "X = -Y*Y/4".
Example scriptC_program :
  program_of_script scriptC =
  Some (["Y"; "X"; "Z"; "W"; "a"; "e"],
        [SAssign 0 0%Z (EBin OAdd (EBin OMul (ENum "2") (ERead 1 (-1)%Z)) (ERead 4 0%Z));
         SAssign 1 0%Z (EBin ODiv (EBin OMul (ENeg (ERead 0 0%Z)) (ERead 0 0%Z)) (ENum "4"));
         SAssign 2 0%Z (EBin OSub (EMax (ERead 3 0%Z) (ERead 0 0%Z)) (ERead 5 0%Z))]).
Proof. vm_compute. reflexivity. Qed.

(* one pass at t = 1 on a two-period store: Y = 2*3 + 1 = 7 ; X = -(7*7)/4 = -12.25 (sees the new Y) ;
   Z = max(5, 7) - 0.5 = 6.5 (sees the new Y); nothing else changes *)
Example scriptC_pass :
  match fprogram_of_script scriptC with
  | Some (_, p) =>
    fst (fst (f_eval_pass [] false p 1%Z
                [[0; 0]; [3; 0]; [0; 0]; [5; 5]; [1; 1]; [0.5; 0.5]]%float))
    = [[0; 7]; [3; -12.25]; [0; 6.5]; [5; 5]; [1; 1]; [0.5; 0.5]]%float
  | None => False
  end.
Proof. vm_compute. reflexivity. Qed.

(* the premises of script_pass_feasible hold for scriptC on a two-period store at t = 1 (position 1):
   deepest lag 1, no lead *)
Example scriptC_feasible :
  match program_of_script scriptC with
  | Some (names, p) => length names = 6 /\ terms_lags (prog_terms string p) = 1 /\ terms_leads (prog_terms string p) = 0 /\
                       py_pos 2 1%Z = Some 1
  | None => False
  end.
Proof. vm_compute. repeat split. Qed.

(* statement_terms_exact is not vacuous *)
Example stmt_terms_instance :
  exists y st, stmt_of_equation (fun x => index_of x ["Y"; "X"; "p"]) "Y[1] = X[-2]*{ p } + X" = Some (y, st) /\
    st = SAssign 0 1%Z (EBin OAdd (EBin OMul (ERead 1 (-2)%Z) (ERead 2 0%Z)) (ERead 1 0%Z)).
Proof. eexists. eexists. split; vm_compute; reflexivity. Qed.

(* literals *)
Example literal_values :
  (lit_float "0.1", lit_float "1.5", lit_float "3", lit_float ".25", lit_float "1.", lit_float "12.75")
  = (0x1.999999999999ap-4, 0x1.8p+0, 0x1.8p+1, 0x1p-2, 0x1p+0, 0x1.98p+3)%float.
Proof. vm_compute. reflexivity. Qed.

(* ---------- flat token sequences: wf is satisfiable by a statement with every trap of the property ---------- *)
Definition tsA : list stok :=
  [SVar "Yd" (Some "1"); SGap " = "; SBra true " " "alpha_1" " " None; SGap "*"; SFun "exp" " "; SGap "(  ";
   SVar "is_open" (Some "-12"); SGap " ) + "; SFun "min" ""; SGap "( "; SVar "Pin" (Some " +2 "); SGap ",1.5 )/";
   SBra false " " "e" " " None; SGap " - "; SVar "not_X" None; SGap "**2 + 3*"; SBra true "" "p" "" (Some "-1");
   SGap (" + (" ++ lf ++ "   "); SVar "in_" (Some "0"); SGap "-"; SVar "expo" None; SGap ")"].
Example tsA_wf :
  wf tsA = true /\
  render tsA = "Yd[1] = { alpha_1 }*exp (  is_open[-12] ) + min( Pin[ +2 ],1.5 )/< e > - not_X**2 + 3*{p}[-1] + (" ++ lf ++ "   in_[0]-expo)".
Proof. vm_compute. split; reflexivity. Qed.
(* … it has the shape `left = right` with the `=` in a gap, no `}` in a gap, and parse_equation accepts it *)
Example tsA_shape :
  tsA = ([SVar "Yd" (Some "1")] ++ SGap (" " ++ String "=" " ") :: tl (tl tsA))%list /\
  no_rbrace tsA = true /\ has_char "=" (render [SVar "Yd" (Some "1")] ++ " ") = false /\
  head_is "`" (render tsA) = false /\
  exists syms, parse_equation_M (render tsA) = POk syms.
Proof. repeat split; try (vm_compute; reflexivity). eexists. vm_compute. reflexivity. Qed.

(* keywords and a backticked fragment: a conditional expression with `not`, `and`, a namespaced call kept verbatim *)
Definition tsB : list stok :=
  [SVar "C" None; SGap " = ("; SBra true "" "a" "" None; SGap "*"; SVar "X" (Some "-1"); SGap ") "; SKw "if"; SGap " ";
   SKw "not"; SGap " "; SVar "is_open" None; SGap " > 0 "; SKw "and"; SGap " "; SVar "Pin" None; SGap " "; SKw "else"; SGap " ";
   SVerb "np.pi"; SGap " * "; SFun "np.sqrt" " "; SGap "("; SVar "W" (Some "1"); SGap ")"].
Example tsB_wf :
  wf tsB = true /\ render tsB = "C = ({a}*X[-1]) if not is_open > 0 and Pin else `np.pi` * np.sqrt (W[1])" /\
  code_text (render tsB) = Some "self._C[t] = (self._a[t]*self._X[t-1]) if not self._is_open[t] > 0 and self._Pin[t] else np.pi * np.sqrt(self._W[t+1])".
Proof. vm_compute. repeat split; reflexivity. Qed.
(* the comparisons `<` and `<=` (SLt): a conditional with both; and `A < X > 0`, where term_re takes `< X >` for an error term *)
Definition tsD : list stok :=
  [SVar "Y" None; SGap " = "; SVar "A" None; SGap " "; SKw "if"; SGap " "; SVar "A" None; SGap " "; SLt ""; SGap " ";
   SVar "X" (Some "-1"); SGap " "; SKw "and"; SGap " "; SBra true "" "p" "" None; SLt "="; SGap "2 "; SKw "else"; SGap " 0"].
Example tsD_wf :
  wf tsD = true /\ render tsD = "Y = A if A < X[-1] and {p}<=2 else 0" /\
  code_text (render tsD) = Some "self._Y[t] = self._A[t] if self._A[t] < self._X[t-1] and self._p[t]<=2 else 0" /\
  code_agrees (row_of ["Y"; "A"; "X"; "p"]) (render tsD) = true /\
  lt_free " X[-1] and" = true /\ lt_free "=2 " = true /\ lt_free " X > 0" = false /\
  wf [SVar "Y" None; SGap " = 1 "; SKw "if"; SGap " "; SVar "A" None; SGap " "; SLt ""; SGap " "; SVar "X" None; SGap " > 0 ";
      SKw "else"; SGap " 2"] = false /\
  code_text "Y = 1 if A < X > 0 else 2" = Some "self._Y[t] = 1 if self._A[t] self._X[t] 0 else 2".
Proof. vm_compute. repeat split; reflexivity. Qed.
(* tight statements (the hypothesis of CodeGenFacts15.code_statement_tie) and the two kinds that are not *)
Example tight_instances :
  tight_statement "Yd[1] = { alpha_1 }*exp (  is_open[-12] ) + min( Pin[ +2 ],1.5 )/< e > - not_X**2 + 3*{p}[-1]" = true /\
  tight_statement "Y = A if A < X[-1] and {p}<=2 else 0" = true /\
  tight_statement "Y = X if not C >= 1 and (W < X or X == 2) else W if C != 0 else -X" = true /\
  tight_statement "Y = 1 if not {X} > 0 else 2" = true /\
  tight_statement "Y = 1 if not{X} > 0 else 2" = false /\          (* keyword fused with the term *)
  tight_statement "Y = 2{p}" = false /\ tight_statement "Y = 2X" = false /\ tight_statement "Y = 1e5" = false /\
  tight_statement "Y = X if.5 else 1" = false /\
  tight_statement "Y = sqrt(X)" = false /\ tight_statement "Y = X['2000']" = false /\ tight_statement "Y = `np.pi` * X" = false.
Proof. vm_compute. repeat split; reflexivity. Qed.
Example tsA_code :
  code_text (render tsA) = Some "self._Yd[t+1] = self._alpha_1[t]*np.exp(self._is_open[t-12]) + min(self._Pin[t+2],1.5)/self._e[t] - self._not_X[t]**2 + 3*self._p[t-1] + (self._in_[t]-self._expo[t])".
Proof. vm_compute. reflexivity. Qed.

(* ---------- small instances of the remaining hypotheses ---------- *)
Example int_index_instances :
  py_int "+2" = Some 2%Z /\ py_int " -12 " = Some (-12)%Z /\ py_int "0" = Some 0%Z /\ py_int "1_0" = Some 10%Z /\
  (quoted_by "'" "+2" || quoted_by """" "+2" = false) /\ quoted_by "`" "+2" = false /\
  mk_index (Some "'2000'") = Ret (IStr "'2000'") /\ mk_index (Some "`2001`") = Ret (IStr "2001") /\
  mk_index (Some "x") = Raise ParserError.
Proof. vm_compute. repeat split; reflexivity. Qed.
Example offsets_instances :
  offset_text 0%Z = "[t]" /\ offset_text 1%Z = "[t+1]" /\ offset_text (-1)%Z = "[t-1]" /\ offset_text (-12)%Z = "[t-12]" /\
  offset_text 10%Z = "[t+10]".
Proof. vm_compute. repeat split; reflexivity. Qed.
Example namespaced_instance : has_char "." "np.sqrt" = true /\ In "if" KW /\ ~ In "is_open" KW /\ ~ In "not_X" KW /\ ~ In "Pin" KW.
Proof.
  split; [reflexivity|]. split; [vm_compute; tauto|].
  repeat split; apply in_kw_false; vm_compute; reflexivity.
Qed.
(* a period-label index is outside the arithmetic subset (it is rendered through self['X', label], not self._X[t+k]) *)
Example label_index_instance :
  code_text "Y = X['2000'] + Z[`2001`]" = Some "self._Y[t] = self['X', '2000'] + self['Z', 2001]" /\
  stmt_of_equation (fun x => index_of x ["Y"; "X"; "Z"]) "Y = X['2000'] + Z[`2001`]" = None.
Proof. vm_compute. split; reflexivity. Qed.

(* integer-literal subtrees are computed on ints, as CPython does: -0 is 0 (no negative zero), max(1, 2, 3) is 3,
   (2 - 5) is -3, 0 * -3 is 0; a float literal or a series stops the folding *)
Example int_folding_instance :
  stmt_of_equation (row_of ["Y"; "X"]) "Y = -0 + max(1, 2, 3)*X - (2 - 5) + 0*-3 + -0.0 - -X" =
  Some ("Y", SAssign 0 0%Z
          (EBin OSub (EBin OAdd (EBin OAdd (EBin OSub (EBin OAdd (ENum "0") (EBin OMul (ENum "3") (ERead 1 0%Z))) (ENum "-3"))
                                           (ENum "0")) (ENeg (ENum "0.0"))) (ENeg (ERead 1 0%Z)))) /\
  (lit_float "-0", lit_float "-3", lit_float "0.0") = (0, -3, 0)%float /\
  PrimFloat.eqb (PrimFloat.div 1 (lit_float "-0")) infinity = true.
Proof. vm_compute. repeat split; reflexivity. Qed.

(* the merged symbol list of scriptC: three code strings, in SYMBOL order (Y, X, Z — not the script's order Y, Z, X) *)
Example scriptC_codes :
  exists syms, parse_model_nocheck scriptC = POk syms /\
    map scode (filter emits syms) = [Some "self._Y[t] = 2*self._X[t-1] + self._a[t]"; Some "self._X[t] = -self._Y[t]*self._Y[t]/4";
                                     Some "self._Z[t] = max(self._W[t], self._Y[t]) - self._e[t]"].
Proof. eexists. split; vm_compute; reflexivity. Qed.

(* ---------- conditional expressions ---------- *)
(* the documented form `X if C > 0 else Y`, and one with not / and / or, a parenthesised condition and a chained alternative *)
Example conditional_instance :
  stmt_of_equation (row_of ["Y"; "X"; "C"; "W"]) "Y = X[-1] if C > 0 else W" =
    Some ("Y", SAssign 0 0%Z (EIf CGt (ERead 2 0%Z) (ENum "0") (ERead 1 (-1)%Z) (ERead 3 0%Z))) /\
  src_of_tokens (row_of ["Y"; "X"; "C"; "W"])
      (lex_items LNone (scan_items "Y = X if not C >= 1 and (W < X or X == 2) else W if C != 0 else -X")) =
    Some ("Y", 0, 0%Z,
          SIf (ERead 1 0%Z)
              (SAnd (SNot (SCmp CGe (ERead 2 0%Z) (ENum "1")))
                    (SOr (SCmp CLt (ERead 3 0%Z) (ERead 1 0%Z)) (SCmp CEq (ERead 1 0%Z) (ENum "2"))))
              (SIf (ERead 3 0%Z) (SCmp CNe (ERead 2 0%Z) (ENum "0")) (SVal (ENeg (ERead 1 0%Z))))).
Proof. vm_compute. split; reflexivity. Qed.

(* not C >= 1 and (W < X or X == 2): the nesting Eval evaluates — C >= 1 true: the alternative, nothing else is looked at *)
Example conditional_nesting :
  mk_if (SAnd (SNot (SCmp CGe (ERead 2 0%Z) (ENum "1"))) (SOr (SCmp CLt (ERead 3 0%Z) (ERead 1 0%Z)) (SCmp CEq (ERead 1 0%Z) (ENum "2"))))
        (ERead 1 0%Z) (ERead 3 0%Z)
  = EIf CGe (ERead 2 0%Z) (ENum "1") (ERead 3 0%Z)
        (EIf CLt (ERead 3 0%Z) (ERead 1 0%Z) (ERead 1 0%Z) (EIf CEq (ERead 1 0%Z) (ENum "2") (ERead 1 0%Z) (ERead 3 0%Z))).
Proof. reflexivity. Qed.

(* one pass on binary64: Y = X[-1] if C > 0 else W at t = 1 with C = 2 reads C[1] and X[0] only — W is never touched *)
Example conditional_pass :
  match fprogram_of_script "Y = X[-1] if C > 0 else W" with
  | Some (names, p) =>
    names = ["Y"; "X"; "C"; "W"] /\
    f_eval_pass [] false p 1%Z [[0; 0]; [3; 4]; [2; 2]; [7; 7]]%float
    = (([[0; 3]; [3; 4]; [2; 2]; [7; 7]]%float, None),
       [Acc false 2 1%Z (Some 1); Acc false 1 0%Z (Some 0); Acc true 0 1%Z (Some 1)])
  | None => False
  end.
Proof. vm_compute. split; reflexivity. Qed.

(* a comparison as a value, a chained comparison, a conditional inside parentheses: outside the subset (fail-closed) *)
Example conditional_outside :
  stmt_of_equation (row_of ["Y"; "X"]) "Y = X > 1" = None /\
  stmt_of_equation (row_of ["Y"; "X"]) "Y = 1 if 0 < X < 2 else 0" = None /\
  stmt_of_equation (row_of ["Y"; "X"]) "Y = 2*(1 if X > 0 else 0)" = None.
Proof. vm_compute. repeat split; reflexivity. Qed.

(* NEW: a {parameter} / <error> term written directly after a keyword (no blank): the rendering `self._X[t]` starts with a
   word character, the script text `{X}` does not — in the generated code keyword and term fuse into ONE identifier
   (`notself`), which compiles and raises NameError when evaluated.  The text is what the rule says; the statement is
   outside the subset (a CBad token marks the fusion) *)
Example keyword_fused_with_term_refuted :
  exists eq syms, parse_equation_M eq = POk syms /\ text_guard eq = true /\
    code_text eq = Some "self._Y[t] = 1 if notself._X[t] > 0 else 2" /\
    stmt_of_equation (row_of ["Y"; "X"]) eq = None /\
    stmt_of_equation (row_of ["Y"; "X"]) "Y = 1 if not {X} > 0 else 2"
    = Some ("Y", SAssign 0 0%Z (EIf CGt (ERead 1 0%Z) (ENum "0") (ENum "2") (ENum "1"))).
Proof. exists "Y = 1 if not{X} > 0 else 2". eexists. split; [vm_compute; reflexivity|]. repeat split; vm_compute; reflexivity. Qed.

(* a lead / a lag on the LEFT-hand side: the write lands at t + k0 (here Y[t+1] and Z[t-1] at t = 1), nowhere else *)
Example lhs_offset_pass :
  match fprogram_of_script ("Y[1] = X[-1] + 1" ++ lf ++ "Z[-1] = Y[1]*2") with
  | Some (names, p) =>
    names = ["Y"; "Z"; "X"] /\
    f_eval_pass [] false p 1%Z [[0; 0; 0]; [0; 0; 0]; [5; 6; 7]]%float
    = (([[0; 0; 6]; [12; 0; 0]; [5; 6; 7]]%float, None),
       [Acc false 2 0%Z (Some 0); Acc true 0 2%Z (Some 2); Acc false 0 2%Z (Some 2); Acc true 1 0%Z (Some 0)])
  | None => False
  end.
Proof. vm_compute. split; reflexivity. Qed.

(* one-line verbatim assignments of the arithmetic subset are statements of the program, run where the symbol list puts them
   (after the equations), read off their own code; a verbatim statement outside the subset makes the script unsupported *)
Example verbatim_statement_program :
  program_of_script ("`self._W[t] = self._Y[t-1] * 2.0 + max(self._Z[t+1], 1)`" ++ lf ++ "Y = X + 1" ++ lf ++ "Z = Y * W")
  = Some (["Y"; "Z"; "X"; "W"],
          [SAssign 0 0%Z (EBin OAdd (ERead 2 0%Z) (ENum "1"));
           SAssign 1 0%Z (EBin OMul (ERead 0 0%Z) (ERead 3 0%Z));
           SAssign 3 0%Z (EBin OAdd (EBin OMul (ERead 0 (-1)%Z) (ENum "2.0")) (EMax (ERead 1 1%Z) (ENum "1")))]) /\
  program_of_script ("`self.k = 3`" ++ lf ++ "Y = X + 1") = None /\
  program_of_script ("```" ++ lf ++ "self._Y[t] = 1" ++ lf ++ "```" ++ lf ++ "Z = X") = None.
Proof. vm_compute. repeat split; reflexivity. Qed.

(* operations CPython performs on Python numbers (both operands free of series): a division by a literal zero raises
   ZeroDivisionError, a power of literals may raise OverflowError / be complex / be a huge int — outside the subset;
   a non-zero literal divisor, and any operation with a series operand (NumPy performs it), are inside *)
Example python_number_operations :
  stmt_of_equation (row_of ["Y"; "X"]) "Y = X * (1/0)" = None /\
  stmt_of_equation (row_of ["Y"; "X"]) "Y = X + (-8) ** 0.5" = None /\
  stmt_of_equation (row_of ["Y"; "X"]) "Y = X * 10.0 ** 400" = None /\
  stmt_of_equation (row_of ["Y"; "X"]) "Y = max(1, X) / 0" = None /\
  stmt_of_equation (row_of ["Y"; "X"]) "Y = X / 0 + 1 / 4 + 2 / -3 + X ** 2 + 2 ** X"
  = Some ("Y", SAssign 0 0%Z (EBin OAdd (EBin OAdd (EBin OAdd (EBin OAdd (EBin ODiv (ERead 1 0%Z) (ENum "0")) (EBin ODiv (ENum "1") (ENum "4")))
                                                                  (EBin ODiv (ENum "2") (ENum "-3"))) (EBin OPow (ERead 1 0%Z) (ENum "2")))
                                        (EBin OPow (ENum "2") (ERead 1 0%Z)))).
Proof. vm_compute. repeat split; reflexivity. Qed.
