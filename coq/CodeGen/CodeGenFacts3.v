(* CodeGenFacts3.v — one evaluation pass of the program of a script (property C01, semantic level), for EVERY
   arithmetic and EVERY interpretation of the literals: no fact of arithmetic is used, the operations, exp / log / **,
   NumPy's warning predicate and the value of a literal text are Section variables.

   The theorems put together what CodeGenFacts2 says about the translation (which cells the statements name) with
   what EvalFacts / EvalDeps (owned by the solver properties) say about eval_pass (what a pass does with them):
     script_pass_frame        a pass changes no cell except the left-hand cells (row NAME, t + k0) of the statements
     script_pass_accesses     every array access of the pass is the read of a series term written in the script, at
                              t + the lag / lead written, or the write of a left-hand cell; nothing else is touched
     script_pass_in_order     statement j runs on the store left by statements 1 … j-1 (Gauss-Seidel), in symbol order
     script_value_local       the value a statement assigns depends only on the cells its own terms name *)
From Coq Require Import String Ascii List Bool Arith ZArith Lia.
Import ListNotations.
Require Import Generated PyBase PyStr Lex Format Symbols Split Merge ParseEq ParseModel Solver Eval EvalFacts EvalDeps.
Require Import CodeGen CodeGenFacts2.
Open Scope list_scope.

Section Pass.
  Variable num : Type.
  Variables (add sub mul div pow : num -> num -> num) (neg absf : num -> num).
  Variables (ltb leb eqb : num -> num -> bool).
  Variable zero : num.
  Variable fun1 : nat -> num -> num.
  Variable fun2 : nat -> num -> num -> num.
  Variable flagged : list num -> num -> bool.
  Variable lit : string -> num.                 (* the value of a decimal literal: CPython's float() / int() *)

  Notation eval_expr := (eval_expr num add sub mul div pow neg absf ltb leb eqb zero fun1 fun2 flagged).
  Notation exec_stmt := (exec_stmt num add sub mul div pow neg absf ltb leb eqb zero fun1 fun2 flagged).
  Notation eval_pass := (eval_pass num add sub mul div pow neg absf ltb leb eqb zero fun1 fun2 flagged).
  Notation nexpr := (expr_map string num lit).
  Notation nstmt := (stmt_map string num lit).
  Notation nprog := (program_map string num lit).

  Lemma reads_map (e : sexpr) : expr_reads num (nexpr e) = expr_reads string e.
  Proof.
    induction e; cbn [expr_map expr_reads]; try reflexivity; try assumption;
      repeat match goal with H : _ = _ |- _ => rewrite H; clear H end; reflexivity.
  Qed.
  Lemma prog_lhs_map (p : sprogram) : prog_lhs num (nprog p) = prog_lhs string p.
  Proof. unfold prog_lhs, program_map. rewrite map_map. apply map_ext. intros [y k e]. reflexivity. Qed.
  Lemma prog_reads_map (p : sprogram) : prog_reads num (nprog p) = prog_reads string p.
  Proof.
    unfold prog_reads, program_map. induction p as [|[y k e] r IH]; [reflexivity|].
    cbn [map flat_map stmt_reads stmt_map]. rewrite reads_map, IH. reflexivity.
  Qed.

  (* ---- frame ---- *)
  Theorem script_pass_frame script names (p : sprogram) catch t v :
    program_of_script script = Some (names, p) ->
    agree_outside (fun i q => exists k0, In (i, k0) (prog_lhs string p) /\ py_pos (nth i (shape v) 0%nat) (t + k0) = Some q)
                  v (fst (fst (eval_pass catch (nprog p) t v))).
  Proof.
    intros _. pose proof (eval_pass_agree num add sub mul div pow neg absf ltb leb eqb zero fun1 fun2 flagged catch t (nprog p) v) as H.
    unfold written in H. rewrite prog_lhs_map in H. exact H.
  Qed.

  (* ---- accesses ---- *)
  Theorem script_pass_accesses script names (p : sprogram) catch t v :
    program_of_script script = Some (names, p) ->
    Forall (fun a => (exists xk, In xk (prog_reads string p) /\ a = entry (shape v) t false xk) \/
                     (exists xk, In xk (prog_lhs string p) /\ a = entry (shape v) t true xk))
           (snd (eval_pass catch (nprog p) t v)).
  Proof.
    intros _. apply eval_pass_log_P.
    - intros xk Hx. left. exists xk. rewrite prog_reads_map in Hx. split; [exact Hx|reflexivity].
    - intros xk Hx. right. exists xk. rewrite prog_lhs_map in Hx. split; [exact Hx|reflexivity].
  Qed.

  (* ---- order: the statement after a prefix p1 runs on the store p1 left ---- *)
  Theorem script_pass_in_order (p1 : sprogram) y k (e : sexpr) (p2 : sprogram) catch t v v1 l1 :
    eval_pass catch (nprog p1) t v = ((v1, None), l1) ->
    eval_pass catch (nprog (p1 ++ SAssign y k e :: p2)) t v =
    match exec_stmt catch t v1 (SAssign y k (nexpr e)) with
    | ((v2, None), l2) => let '(r, l3) := eval_pass catch (nprog p2) t v2 in (r, l1 ++ l2 ++ l3)
    | (r, l2) => (r, l1 ++ l2)
    end.
  Proof.
    intros H1. unfold program_map. rewrite map_app. cbn [map stmt_map].
    rewrite (eval_pass_app num). fold (nprog p1). rewrite H1. cbn [Eval.eval_pass].
    destruct (exec_stmt catch t v1 (SAssign y k (nexpr e))) as [[v2 [c|]] l2]; [reflexivity|].
    fold (nprog p2). destruct (eval_pass catch (nprog p2) t v2) as [r l3]. reflexivity.
  Qed.

  (* ---- the pass as an explicit left fold over the statements (Gauss-Seidel): the state is (store, exception, log);
          a statement runs on the store the fold has reached; after an exception nothing runs any more ---- *)
  Definition pass_step (catch : bool) (t : Z) (st : (vals num * option Z) * list access) (s : stmt num)
    : (vals num * option Z) * list access :=
    match st with
    | ((v, None), l) => let '(r, l1) := exec_stmt catch t v s in (r, l ++ l1)
    | _ => st
    end.

  Lemma fold_stuck catch t (prog : program num) v c l :
    fold_left (pass_step catch t) prog ((v, Some c), l) = ((v, Some c), l).
  Proof. induction prog as [|s r IH]; [reflexivity|exact IH]. Qed.

  Lemma eval_pass_fold_gen catch t (prog : program num) : forall v l0,
    (let '(r, l) := eval_pass catch prog t v in (r, l0 ++ l)) = fold_left (pass_step catch t) prog ((v, None), l0).
  Proof.
    induction prog as [|s rest IH]; intros v l0; cbn [Eval.eval_pass fold_left pass_step].
    - rewrite app_nil_r. reflexivity.
    - destruct (exec_stmt catch t v s) as [[v' [c|]] l1].
      + rewrite fold_stuck. reflexivity.
      + rewrite <- IH. destruct (eval_pass catch rest t v') as [r l2]. rewrite app_assoc. reflexivity.
  Qed.

  Theorem script_pass_is_fold (p : sprogram) catch t v :
    eval_pass catch (nprog p) t v = fold_left (pass_step catch t) (nprog p) ((v, None), []).
  Proof.
    rewrite <- eval_pass_fold_gen. destruct (eval_pass catch (nprog p) t v) as [r l]. reflexivity.
  Qed.

  (* ---- what one statement does: the value of its right-hand side, stored in its left-hand cell, nothing else ---- *)
  Theorem statement_effect y k (e : sexpr) catch t v x le q :
    eval_expr catch t v (nexpr e) = (EVal x, le) ->
    py_pos (length (nth y v [])) (t + k) = Some q ->
    exec_stmt catch t v (SAssign y k (nexpr e)) = ((set_cell num v y q x, None), le ++ [Acc true y (t + k) (Some q)]).
  Proof. intros He Hq. cbn [Eval.exec_stmt]. unfold row. rewrite He, Hq. reflexivity. Qed.

  (* ---- a conditional evaluates its comparison, then ONLY the branch taken: the other branch is neither evaluated nor
          read (Python's short-circuit; `and` / `or` / `not` are nestings of this, see CodeGen.mk_if) ---- *)
  Theorem conditional_short_circuit o (l r a b : sexpr) catch t v x y ll lr :
    eval_expr catch t v (nexpr l) = (EVal x, ll) -> eval_expr catch t v (nexpr r) = (EVal y, lr) ->
    eval_expr catch t v (nexpr (EIf o l r a b)) =
    (let '(res, lx) := eval_expr catch t v (nexpr (if cmp_sem num ltb leb eqb o x y then a else b)) in (res, ll ++ lr ++ lx)).
  Proof.
    intros Hl Hr. cbn [expr_map Eval.eval_expr]. rewrite Hl, Hr.
    destruct (cmp_sem num ltb leb eqb o x y); reflexivity.
  Qed.

  (* `l <o> r and c2`: when the comparison is false the alternative is evaluated at once — c2 is not looked at;
     `l <o> r or c2`: when the comparison is true the value is evaluated at once — c2 is not looked at *)
  Corollary and_short_circuit o (l r : sexpr) (c2 : scond) (a b : sexpr) catch t v x y ll lr :
    eval_expr catch t v (nexpr l) = (EVal x, ll) -> eval_expr catch t v (nexpr r) = (EVal y, lr) ->
    cmp_sem num ltb leb eqb o x y = false ->
    eval_expr catch t v (nexpr (mk_if (SAnd (SCmp o l r) c2) a b)) =
    (let '(res, lx) := eval_expr catch t v (nexpr b) in (res, ll ++ lr ++ lx)).
  Proof.
    intros Hl Hr Hc. cbn [mk_if]. rewrite (conditional_short_circuit o l r (mk_if c2 a b) b catch t v x y ll lr Hl Hr), Hc. reflexivity.
  Qed.
  Corollary or_short_circuit o (l r : sexpr) (c2 : scond) (a b : sexpr) catch t v x y ll lr :
    eval_expr catch t v (nexpr l) = (EVal x, ll) -> eval_expr catch t v (nexpr r) = (EVal y, lr) ->
    cmp_sem num ltb leb eqb o x y = true ->
    eval_expr catch t v (nexpr (mk_if (SOr (SCmp o l r) c2) a b)) =
    (let '(res, lx) := eval_expr catch t v (nexpr a) in (res, ll ++ lr ++ lx)).
  Proof.
    intros Hl Hr Hc. cbn [mk_if]. rewrite (conditional_short_circuit o l r a (mk_if c2 a b) catch t v x y ll lr Hl Hr), Hc. reflexivity.
  Qed.

  (* ---- locality of the value: only the cells named by the statement's own terms matter ---- *)
  Theorem script_value_local (e : sexpr) catch t (v v' : vals num) :
    shape v' = shape v ->
    (forall x k q, In (x, k) (expr_reads string e) -> py_pos (nth x (shape v) 0%nat) (t + k) = Some q ->
                   nth q (nth x v' []) zero = nth q (nth x v []) zero) ->
    eval_expr catch t v' (nexpr e) = eval_expr catch t v (nexpr e).
  Proof. intros Hs H. apply eval_expr_ext; [exact Hs|]. intros x k q Hin. rewrite reads_map in Hin. apply H, Hin. Qed.
End Pass.
