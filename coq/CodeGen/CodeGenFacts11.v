(* CodeGenFacts11.v — every series the generated code names is declared (property C01; positive statement that replaces the
   refutation of finding #19, repaired by b45daa1: a function symbol is now COMBINED with any earlier use of its name).

   every_series_term_declared : whatever script parse_model accepts, every VARIABLE / {PARAMETER} / <ERROR> term of every
     one of its (non-verbatim) statements has its name in NAMES = ENDOGENOUS + EXOGENOUS + PARAMETERS + ERRORS of the merged
     symbol list — so every `self._NAME[…]` the generated code reads or writes is a declared series of the class.
   (A name used both as a series and as a function — in one statement or in two — makes Symbol.combine raise SymbolError.) *)
From Coq Require Import String Ascii List Bool Arith ZArith Lia.
Import ListNotations.
Require Import Generated PyBase PyStr Lex Format Symbols Split Merge ParseEq ParseModel Eval CodeGen.
Open Scope string_scope.

Definition declarable (ty : ptype) : bool :=
  match ty with TExogenous | TEndogenous | TParameter | TError => true | _ => false end.

(* ---------- Symbol.combine ---------- *)
Lemma combine_name a b c : combine a b = Ret c -> sname c = sname a.
Proof.
  unfold combine, obind. intros H.
  repeat match type of H with
         | match ?x with _ => _ end = _ => destruct x; try discriminate
         end. inversion H. reflexivity.
Qed.
Lemma type_eqb_true' a b : type_eqb a b = true -> a = b.
Proof. destruct a, b; cbn; intros H; try discriminate; reflexivity. Qed.
Lemma combine_type a b c : combine a b = Ret c ->
  (stype a = stype b /\ stype c = stype a) \/
  (is_variable_type (stype a) = true /\ is_variable_type (stype b) = true /\ (stype c = stype a \/ stype c = stype b)).
Proof.
  unfold combine, obind. intros H.
  destruct (type_eqb (stype a) (stype b)) eqn:Et.
  - left. apply type_eqb_true' in Et.
    repeat match type of H with
           | match ?x with _ => _ end = _ => destruct x; try discriminate
           end. inversion H; subst. cbn. auto.
  - right. destruct (is_variable_type (stype a) && is_variable_type (stype b)) eqn:Ev; [|discriminate].
    apply andb_true_iff in Ev as [Ea Eb].
    repeat match type of H with
           | match ?x with _ => _ end = _ => destruct x; try discriminate
           end. inversion H; subst. cbn [stype]. repeat split; auto.
    unfold type_max. destruct (_ <? _)%Z; auto.
Qed.
Lemma combine_declarable a b c : combine a b = Ret c ->
  stype a <> TVariable -> stype b <> TVariable ->
  (declarable (stype a) = true \/ declarable (stype b) = true) ->
  declarable (stype c) = true /\ stype c <> TVariable.
Proof.
  intros H Na Nb D. destruct (combine_type a b c H) as [[E1 E2]|(Va & Vb & [E|E])].
  - rewrite E2. split; [|exact Na]. destruct D as [D|D]; [exact D|rewrite E1; exact D].
  - rewrite E. split; [|exact Na]. destruct (stype a); try discriminate; try reflexivity. contradiction.
  - rewrite E. split; [|exact Nb]. destruct (stype b); try discriminate; try reflexivity. contradiction.
Qed.
Lemma combine_novar a b c : combine a b = Ret c -> stype a <> TVariable -> stype b <> TVariable -> stype c <> TVariable.
Proof.
  intros H Na Nb. destruct (combine_type a b c H) as [[_ E]|(_ & _ & [E|E])]; rewrite E; assumption.
Qed.

(* ---------- insertion-ordered dicts ---------- *)
Lemma dict_get_set_eq {V} k (v : V) d : dict_get k (dict_set k v d) = Some v.
Proof.
  induction d as [|[k' v'] r IH]; cbn [dict_set dict_get]; [rewrite String.eqb_refl; reflexivity|].
  destruct (String.eqb k k') eqn:E; cbn [dict_get]; rewrite E; [reflexivity|exact IH].
Qed.
Lemma dict_get_set_neq {V} k n (v : V) d : n <> k -> dict_get n (dict_set k v d) = dict_get n d.
Proof.
  intros Hn. induction d as [|[k' v'] r IH]; cbn [dict_set dict_get].
  - destruct (String.eqb_spec n k); [contradiction|reflexivity].
  - destruct (String.eqb k k') eqn:E; cbn [dict_get].
    + apply String.eqb_eq in E. subst k'. destruct (String.eqb_spec n k); [contradiction|reflexivity].
    + destruct (String.eqb n k'); [reflexivity|exact IH].
Qed.
Lemma dict_get_values {V} k (d : list (string * V)) v : dict_get k d = Some v -> In v (dict_values d).
Proof.
  induction d as [|[k' v'] r IH]; cbn [dict_get dict_values map]; [discriminate|].
  destruct (String.eqb k k'); [intros H; inversion H; left; reflexivity|intros H; right; exact (IH H)].
Qed.

(* a dict whose entries are filed under their own name and carry no bare VARIABLE type *)
Definition entry_ok (kv : string * symbol) : Prop := sname (snd kv) = Some (fst kv) /\ stype (snd kv) <> TVariable.
Definition dict_inv (d : list (string * symbol)) : Prop := Forall entry_ok d.
Definition has_series (n : string) (d : list (string * symbol)) : Prop :=
  exists s, dict_get n d = Some s /\ declarable (stype s) = true.

Lemma dict_get_inv k d s : dict_inv d -> dict_get k d = Some s -> sname s = Some k /\ stype s <> TVariable.
Proof.
  induction d as [|[k' v] r IH]; cbn [dict_get]; [discriminate|]. intros Hi. inversion Hi as [|? ? Hv Hr]; subst.
  destruct (String.eqb_spec k k') as [->|Ne]; [intros H; inversion H; subst; exact Hv|apply IH, Hr].
Qed.
Lemma dict_set_inv k v d : dict_inv d -> sname v = Some k -> stype v <> TVariable -> dict_inv (dict_set k v d).
Proof.
  intros Hi Hn Hv. induction d as [|[k' v'] r IH]; cbn [dict_set].
  - constructor; [split; assumption|constructor].
  - inversion Hi as [|? ? Hv' Hr]; subst. destruct (String.eqb_spec k k') as [->|Ne].
    + constructor; [split; assumption|exact Hr].
    + constructor; [exact Hv'|exact (IH Hr)].
Qed.

Lemma dict_combine_step name sym d d' :
  dict_inv d -> sname sym = Some name -> stype sym <> TVariable -> dict_combine name sym d = Ret d' ->
  dict_inv d' /\ (forall n, has_series n d -> has_series n d') /\ (declarable (stype sym) = true -> has_series name d').
Proof.
  intros Hi Hn Hv H. unfold dict_combine in H.
  destruct (dict_get name d) as [old|] eqn:G.
  - destruct (dict_get_inv _ _ _ Hi G) as [On Ov]. destruct (combine old sym) as [c|] eqn:C; [|discriminate]. inversion H; subst; clear H.
    pose proof (combine_name _ _ _ C) as Cn. pose proof (combine_novar _ _ _ C Ov Hv) as Cv.
    refine (conj _ (conj _ _)).
    + apply dict_set_inv; [exact Hi|congruence|exact Cv].
    + intros n (s & Hs & Ds). destruct (String.eqb_spec n name) as [->|Ne].
      * exists c. rewrite dict_get_set_eq. split; [reflexivity|]. rewrite G in Hs. inversion Hs; subst.
        exact (proj1 (combine_declarable _ _ _ C Ov Hv (or_introl Ds))).
      * exists s. rewrite (dict_get_set_neq _ _ _ _ Ne). auto.
    + intros Ds. exists c. rewrite dict_get_set_eq. split; [reflexivity|].
      exact (proj1 (combine_declarable _ _ _ C Ov Hv (or_intror Ds))).
  - destruct (combine sym sym) as [c|] eqn:C; [|discriminate]. inversion H; subst; clear H.
    pose proof (combine_name _ _ _ C) as Cn. pose proof (combine_novar _ _ _ C Hv Hv) as Cv.
    refine (conj _ (conj _ _)).
    + apply dict_set_inv; [exact Hi|congruence|exact Cv].
    + intros n (s & Hs & Ds). destruct (String.eqb_spec n name) as [->|Ne]; [congruence|].
      exists s. rewrite (dict_get_set_neq _ _ _ _ Ne). auto.
    + intros Ds. exists c. rewrite dict_get_set_eq. split; [reflexivity|].
      exact (proj1 (combine_declarable _ _ _ C Hv Hv (or_introl Ds))).
Qed.

(* ---------- one equation ---------- *)
Lemma go_series std code terms : forall symbols functions d,
  Forall (fun t => ttype t <> TVariable) terms -> dict_inv symbols ->
  equation_symbols_go std code terms symbols functions = Ret d ->
  dict_inv d /\ (forall n, has_series n symbols -> has_series n d) /\
  (forall t, In t terms -> declarable (ttype t) = true -> has_series (tname t) d).
Proof.
  induction terms as [|t rest IH]; intros symbols functions d Hv Hi H; cbn [equation_symbols_go] in H.
  - inversion H; subst. repeat split; auto. intros t [].
  - inversion Hv as [|? ? Ht Hrest]; subst.
    assert (Step : forall sym, sname sym = Some (tname t) -> stype sym = ttype t ->
              match dict_combine (tname t) sym symbols with
              | Ret d0 => equation_symbols_go std code rest d0 functions
              | Raise e => Raise e
              end = Ret d ->
              dict_inv d /\ (forall n, has_series n symbols -> has_series n d) /\
              (forall t0, In t0 (t :: rest) -> declarable (ttype t0) = true -> has_series (tname t0) d)).
    { intros sym Sn St Hc. destruct (dict_combine (tname t) sym symbols) as [d0|] eqn:C; [|discriminate].
      assert (Sv : stype sym <> TVariable) by (rewrite St; exact Ht).
      destruct (dict_combine_step _ _ _ _ Hi Sn Sv C) as (I0 & K0 & N0).
      destruct (IH _ _ _ Hrest I0 Hc) as (I1 & K1 & N1).
      refine (conj I1 (conj (fun n Hn => K1 n (K0 n Hn)) _)).
      intros t0 [<-|Hin] D; [apply K1, N0; rewrite St; exact D|exact (N1 t0 Hin D)]. }
    destruct (ttype t) eqn:T; try (exfalso; apply Ht; reflexivity); try (eapply Step; [| |exact H]; reflexivity).
    (* verbatim *)
    destruct (IH _ _ _ Hrest Hi H) as (I1 & K1 & N1). refine (conj I1 (conj K1 _)).
    intros t0 [<-|Hin] D; [rewrite T in D; discriminate|exact (N1 t0 Hin D)].
Qed.

Lemma replace_type_novar ty t : ty <> TVariable -> ttype (replace_type ty t) <> TVariable.
Proof. intros H. unfold replace_type. destruct (ttype t) eqn:E; cbn [ttype]; try (rewrite E; discriminate). exact H. Qed.

Lemma terms_novar eq terms : parse_equation_terms eq = Ret terms -> Forall (fun t => ttype t <> TVariable) terms.
Proof.
  unfold parse_equation_terms. destruct (find_any "=" eq) as [[l r]|]; [|discriminate].
  destruct (parse_terms l) as [l0|]; [|discriminate]. destruct (parse_terms r) as [r0|]; [|discriminate].
  destruct (_ || _); [discriminate|]. destruct (negb _); [discriminate|]. intros H; inversion H; subst.
  apply Forall_app. split; apply Forall_forall; intros t Hin; apply in_map_iff in Hin as (t0 & <- & _);
    apply replace_type_novar; discriminate.
Qed.

(* the symbols of one accepted statement: filed under their names (or nameless: a verbatim statement), no bare VARIABLE *)
Definition sym_inv (s : symbol) : Prop := stype s <> TVariable.

Lemma equation_series st L :
  parse_equation_M st = POk L ->
  Forall sym_inv L /\
  (is_blank st = false -> head_is "`" st && last_is "`" st = false ->
   forall terms t, parse_equation_terms st = Ret terms -> In t terms -> declarable (ttype t) = true ->
     exists s, In s L /\ sname s = Some (tname t) /\ declarable (stype s) = true).
Proof.
  intros H. unfold parse_equation_M in H.
  destruct (is_blank st) eqn:Hb; [inversion H; subst; split; [constructor|discriminate]|].
  destruct (split_M st) as [stmts [e|]]; [discriminate|].
  destruct (negb (length stmts =? 1)%nat); [discriminate|].
  destruct (head_is "`" st && last_is "`" st) eqn:Hv.
  { inversion H; subst. split; [constructor; [unfold sym_inv; cbn; discriminate|constructor]|discriminate]. }
  destruct (negb (count_char "{" st =? count_char "}" st)%nat); [discriminate|].
  destruct (parse_equation_terms st) as [terms0|e] eqn:Et; [|discriminate].
  destruct (all_some (map term_str terms0)) as [strs|]; [|destruct (all_some (map term_code terms0)); discriminate].
  destruct (all_some (map term_code terms0)) as [codes|]; [|discriminate].
  destruct (py_format (template st) strs) as [std| |]; try discriminate.
  destruct (py_format (template st) codes) as [code| |]; try discriminate.
  unfold equation_symbols in H.
  destruct (equation_symbols_go std code terms0 [] []) as [d|] eqn:G; cbn [of_outcome] in H; [|discriminate].
  inversion H; subst; clear H.
  destruct (go_series std code terms0 [] [] d (terms_novar _ _ Et) (Forall_nil _) G) as (I1 & _ & N1).
  split.
  - unfold dict_values. apply Forall_map. eapply Forall_impl; [|exact I1]. intros [k v] [_ Hv']. exact Hv'.
  - intros _ _ terms t Ht Hin D. inversion Ht; subst. destruct (N1 t Hin D) as (s & Hs & Ds).
    exists s. split; [exact (dict_get_values _ _ _ Hs)|]. split; [exact (proj1 (dict_get_inv _ _ _ I1 Hs))|exact Ds].
Qed.

(* ---------- the cross-equation merge ---------- *)
Lemma merge_series syms : forall symbols verbatim out,
  Forall sym_inv syms -> dict_inv symbols ->
  merge_go syms symbols verbatim = Ret out ->
  (forall n, has_series n symbols -> exists s, In s out /\ sname s = Some n /\ declarable (stype s) = true) /\
  (forall s0 n, In s0 syms -> sname s0 = Some n -> declarable (stype s0) = true ->
     exists s, In s out /\ sname s = Some n /\ declarable (stype s) = true).
Proof.
  induction syms as [|s rest IH]; intros symbols verbatim out Hv Hi H; cbn [merge_go] in H.
  - inversion H; subst. split; [|intros s0 n []].
    intros n (s & Hs & Ds). exists s. split; [apply in_or_app; left; exact (dict_get_values _ _ _ Hs)|].
    split; [exact (proj1 (dict_get_inv _ _ _ Hi Hs))|exact Ds].
  - inversion Hv as [|? ? Hs Hrest]; subst. destruct (sname s) as [name|] eqn:Sn.
    + destruct (dict_combine name s symbols) as [d|] eqn:C; [|discriminate].
      destruct (dict_combine_step _ _ _ _ Hi Sn Hs C) as (I0 & K0 & N0).
      destruct (IH _ _ _ Hrest I0 H) as (A1 & A2). split.
      * intros n Hn. apply A1, K0, Hn.
      * intros s0 n [<-|Hin] Hn D; [|exact (A2 s0 n Hin Hn D)].
        rewrite Sn in Hn. inversion Hn; subst. apply A1, N0, D.
    + destruct (IH _ _ _ Hrest Hi H) as (A1 & A2). split; [exact A1|].
      intros s0 n [<-|Hin] Hn D; [rewrite Sn in Hn; discriminate|exact (A2 s0 n Hin Hn D)].
Qed.

Lemma in_names_of syms s n : In s syms -> sname s = Some n -> declarable (stype s) = true -> In n (names_of syms).
Proof.
  intros Hin Hn D. unfold names_of.
  assert (G : forall ty, stype s = ty -> In n (names_of_type ty syms)).
  { intros ty E. unfold names_of_type. apply in_flat_map. exists s. split; [exact Hin|].
    rewrite E. assert (R : type_eqb ty ty = true) by (destruct ty; reflexivity). rewrite R, Hn. left. reflexivity. }
  destruct (stype s) eqn:E; try discriminate D; rewrite !in_app_iff; auto using G.
Qed.

Lemma parse_statements_all chk cs stmts : forall acc pb by_eq pb',
  parse_statements chk cs stmts acc pb = POk (by_eq, pb') ->
  (forall L, In L acc -> In L by_eq) /\ (forall st, In st stmts -> exists L, In L by_eq /\ parse_equation_M st = POk L).
Proof.
  induction stmts as [|st rest IH]; intros acc pb by_eq pb'; cbn [parse_statements].
  - intros H; inversion H; subst. split; [intros L HL; apply in_rev in HL; exact HL|intros st []].
  - destruct (parse_equation_M st) as [syms| |] eqn:Ep; [|discriminate|discriminate].
    assert (K : forall pb0, parse_statements chk cs rest (syms :: acc) pb0 = POk (by_eq, pb') ->
              (forall L, In L acc -> In L by_eq) /\
              (forall st0, In st0 (st :: rest) -> exists L, In L by_eq /\ parse_equation_M st0 = POk L)).
    { intros pb0 H. destruct (IH _ _ _ _ H) as [A B]. split.
      - intros L HL. apply A. right. exact HL.
      - intros st0 [<-|Hin]; [exists syms; split; [apply A; left; reflexivity|exact Ep]|exact (B st0 Hin)]. }
    destruct cs; [destruct (check_codes chk (codes_of syms)); [apply K|apply K|discriminate]|apply K].
Qed.

Lemma parse_statements_inv chk cs stmts : forall acc pb by_eq pb',
  Forall (Forall sym_inv) acc ->
  parse_statements chk cs stmts acc pb = POk (by_eq, pb') -> Forall (Forall sym_inv) by_eq.
Proof.
  induction stmts as [|st rest IH]; intros acc pb by_eq pb' Ha; cbn [parse_statements].
  - intros H; inversion H; subst. apply Forall_rev. exact Ha.
  - destruct (parse_equation_M st) as [syms| |] eqn:Ep; [|discriminate|discriminate].
    assert (Hs : Forall (Forall sym_inv) (syms :: acc)) by (constructor; [exact (proj1 (equation_series _ _ Ep))|exact Ha]).
    destruct cs; [destruct (check_codes chk (codes_of syms)); [apply IH, Hs|apply IH, Hs|discriminate]|apply IH, Hs].
Qed.

(* ---------- the whole model ---------- *)
Theorem every_series_term_declared chk cs script syms st terms t :
  parse_model_M chk cs script = POk syms ->
  In st (fst (split_M script)) -> is_blank st = false -> head_is "`" st && last_is "`" st = false ->
  parse_equation_terms st = Ret terms -> In t terms -> declarable (ttype t) = true ->
  In (tname t) (names_of syms).
Proof.
  unfold parse_model_M. destruct (split_M script) as [stmts serr]. cbn [fst].
  destruct (parse_statements chk cs stmts [] false) as [[by_eq pb]| |] eqn:Ep; try discriminate.
  destruct serr; [discriminate|]. destruct pb; [discriminate|].
  unfold merge_symbols. destruct (merge_go (concat by_eq) [] []) as [out|] eqn:Em; cbn [of_outcome]; [|discriminate].
  intros H Hst Hb Hv Ht Hin D. inversion H; subst.
  destruct (proj2 (parse_statements_all _ _ _ _ _ _ _ Ep) st Hst) as (L & HL & EL).
  destruct (proj2 (equation_series st L EL) Hb Hv terms t Ht Hin D) as (s0 & Hs0 & Sn & Ds).
  pose proof (parse_statements_inv _ _ _ _ _ _ _ (Forall_nil _) Ep) as Hinv.
  assert (Hall : Forall sym_inv (concat by_eq)).
  { apply Forall_forall. intros x Hx. apply in_concat in Hx as (L' & HL' & Hx). rewrite Forall_forall in Hinv.
    specialize (Hinv L' HL'). rewrite Forall_forall in Hinv. exact (Hinv x Hx). }
  destruct (proj2 (merge_series _ _ _ _ Hall (Forall_nil _) Em) s0 (tname t)) as (s & Hs & Sn' & Ds'); auto.
  { apply in_concat. exists L. split; assumption. }
  eapply in_names_of; eauto.
Qed.
