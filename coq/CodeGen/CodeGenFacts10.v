(* CodeGenFacts10.v — the fuel of the parser of conditions and conditional expressions only limits, never changes, its
   result, and test_fuel is always enough (property C01; companion of CodeGenFacts8 for the arithmetic parser). *)
From Coq Require Import String Ascii List Bool Arith ZArith Lia.
Import ListNotations.
Require Import Generated PyBase PyStr Lex Format Symbols Split Merge ParseEq ParseModel Eval CodeGen CodeGenFacts2 CodeGenFacts8.
Open Scope list_scope.

Section CondFuel.
  Variable row : string -> option nat.
  Notation arith := (fun ts => p_expr row (tree_fuel ts) ts).
  Notation len := (@length ctok).

  Lemma arith_progress ts e rest : arith ts = Some (e, rest) -> len rest < len ts.
  Proof. intros H. exact (proj1 (proj1 (tree_enough row (tree_fuel ts)) _ _ _ H)). Qed.

  (* ---------- monotone ---------- *)
  Definition monoC (p : nat -> list ctok -> option (scond * list ctok)) (f : nat) : Prop :=
    forall ts r, p f ts = Some r -> p (S f) ts = Some r.
  Definition monoCL (p : nat -> scond -> list ctok -> option (scond * list ctok)) (f : nat) : Prop :=
    forall acc ts r, p f acc ts = Some r -> p (S f) acc ts = Some r.

  Definition paren_alt (f : nat) (ts : list ctok) : option (scond * list ctok) :=
    match ts with
    | CLPar :: r => match p_or row f r with Some (c, CRPar :: rest) => Some (c, rest) | _ => None end
    | _ => None
    end.
  Lemma p_cmp_alt f ts : p_cmp row (S f) ts =
    match arith ts with
    | Some (l, CX (XCmp o) :: r) => match arith r with Some (r', rest) => Some (SCmp o l r', rest) | None => None end
    | _ => paren_alt f ts
    end.
  Proof. rewrite p_cmp_S. unfold paren_alt. reflexivity. Qed.

  Lemma paren_mono f ts r : monoC (p_or row) f -> paren_alt f ts = Some r -> paren_alt (S f) ts = Some r.
  Proof.
    intros IH H. unfold paren_alt in *. destruct ts as [|[x k|g|s| | | | | | | | | | |xt] r0]; try discriminate.
    destruct (p_or row f r0) as [[c r1]|] eqn:E; [|discriminate]. rewrite (IH _ _ E). exact H.
  Qed.

  Lemma cond_mono_step f :
    monoC (p_or row) f /\ monoCL (p_or_loop row) f /\ monoC (p_and row) f /\ monoCL (p_and_loop row) f /\
    monoC (p_not row) f /\ monoC (p_cmp row) f.
  Proof.
    induction f as [|f (IHo & IHol & IHa & IHal & IHn & IHc)].
    - refine (conj _ (conj _ (conj _ (conj _ (conj _ _))))); red; intros;
        match goal with H : _ = Some _ |- _ => cbn in H; discriminate H end.
    - refine (conj _ (conj _ (conj _ (conj _ (conj _ _))))).
      + intros ts r H. rewrite p_or_S in *.
        destruct (p_and row f ts) as [[a r1]|] eqn:E; [|discriminate]. rewrite (IHa _ _ E). apply IHol, H.
      + intros acc ts r H. rewrite p_or_loop_S in *.
        destruct ts as [|[x k|g|s| | | | | | | | | | |[o| | | | | ]] r0]; try exact H.
        destruct (p_and row f r0) as [[b r1]|] eqn:E; [|discriminate]. rewrite (IHa _ _ E). apply IHol, H.
      + intros ts r H. rewrite p_and_S in *.
        destruct (p_not row f ts) as [[a r1]|] eqn:E; [|discriminate]. rewrite (IHn _ _ E). apply IHal, H.
      + intros acc ts r H. rewrite p_and_loop_S in *.
        destruct ts as [|[x k|g|s| | | | | | | | | | |[o| | | | | ]] r0]; try exact H.
        destruct (p_not row f r0) as [[b r1]|] eqn:E; [|discriminate]. rewrite (IHn _ _ E). apply IHal, H.
      + intros ts r H. rewrite p_not_S in *.
        destruct ts as [|[x k|g|s| | | | | | | | | | |[o| | | | | ]] r0]; try (apply IHc, H).
        destruct (p_not row f r0) as [[c r1]|] eqn:E; [|discriminate]. rewrite (IHn _ _ E). exact H.
      + intros ts r H. rewrite p_cmp_alt in *.
        destruct (arith ts) as [[l r1]|]; [|apply (paren_mono _ _ _ IHo H)].
        destruct r1 as [|[x k|g|s| | | | | | | | | | |[o| | | | | ]] r1]; try (apply (paren_mono _ _ _ IHo H)). exact H.
  Qed.

  Lemma mono_or f f' ts r : f <= f' -> p_or row f ts = Some r -> p_or row f' ts = Some r.
  Proof. intros L H. induction L as [|f' _ IH]; [exact H|]. apply (proj1 (cond_mono_step f')), IH. Qed.
  Lemma mono_or_loop f f' acc ts r : f <= f' -> p_or_loop row f acc ts = Some r -> p_or_loop row f' acc ts = Some r.
  Proof. intros L H. induction L as [|f' _ IH]; [exact H|]. apply (proj1 (proj2 (cond_mono_step f'))), IH. Qed.
  Lemma mono_and f f' ts r : f <= f' -> p_and row f ts = Some r -> p_and row f' ts = Some r.
  Proof. intros L H. induction L as [|f' _ IH]; [exact H|]. apply (proj1 (proj2 (proj2 (cond_mono_step f')))), IH. Qed.
  Lemma mono_and_loop f f' acc ts r : f <= f' -> p_and_loop row f acc ts = Some r -> p_and_loop row f' acc ts = Some r.
  Proof. intros L H. induction L as [|f' _ IH]; [exact H|]. apply (proj1 (proj2 (proj2 (proj2 (cond_mono_step f'))))), IH. Qed.
  Lemma mono_not f f' ts r : f <= f' -> p_not row f ts = Some r -> p_not row f' ts = Some r.
  Proof. intros L H. induction L as [|f' _ IH]; [exact H|]. apply (proj1 (proj2 (proj2 (proj2 (proj2 (cond_mono_step f')))))), IH. Qed.
  Lemma mono_cmp f f' ts r : f <= f' -> p_cmp row f ts = Some r -> p_cmp row f' ts = Some r.
  Proof. intros L H. induction L as [|f' _ IH]; [exact H|]. apply (proj2 (proj2 (proj2 (proj2 (proj2 (cond_mono_step f')))))), IH. Qed.

  Lemma mono_or' f ts r f' : p_or row f ts = Some r -> f <= f' -> p_or row f' ts = Some r.
  Proof. intros H L. exact (mono_or f f' ts r L H). Qed.
  Lemma mono_and' f ts r f' : p_and row f ts = Some r -> f <= f' -> p_and row f' ts = Some r.
  Proof. intros H L. exact (mono_and f f' ts r L H). Qed.
  Lemma mono_not' f ts r f' : p_not row f ts = Some r -> f <= f' -> p_not row f' ts = Some r.
  Proof. intros H L. exact (mono_not f f' ts r L H). Qed.

  Lemma test_mono_step f : forall ts r, p_test row f ts = Some r -> p_test row (S f) ts = Some r.
  Proof.
    induction f as [|f IH]; intros ts r H; [cbn in H; discriminate|]. rewrite p_test_S in *.
    destruct (arith ts) as [[a r1]|]; [|discriminate].
    destruct r1 as [|[x k|g|s| | | | | | | | | | |[o| | | | | ]] r1]; try exact H.
    destruct (p_or row f r1) as [[c r2]|] eqn:Ec; [|discriminate].
    rewrite (proj1 (cond_mono_step f) _ _ Ec).
    destruct r2 as [|[x k|g|s| | | | | | | | | | |[o| | | | | ]] r2]; try exact H.
    destruct (p_test row f r2) as [[b rest]|] eqn:Eb; [|discriminate]. rewrite (IH _ _ Eb). exact H.
  Qed.
  Theorem test_fuel_monotone f f' ts r : f <= f' -> p_test row f ts = Some r -> p_test row f' ts = Some r.
  Proof. intros L H. induction L as [|f' _ IH]; [exact H|]. apply test_mono_step, IH. Qed.

  (* ---------- enough ---------- *)
  Definition enoughC (c : nat) (p : nat -> list ctok -> option (scond * list ctok)) (f : nat) : Prop :=
    forall ts cd rest, p f ts = Some (cd, rest) -> len rest < len ts /\ p (c + 8 * (len ts - len rest)) ts = Some (cd, rest).
  Definition enoughCL (c : nat) (p : nat -> scond -> list ctok -> option (scond * list ctok)) (f : nat) : Prop :=
    forall acc ts cd rest, p f acc ts = Some (cd, rest) -> len rest <= len ts /\ p (c + 8 * (len ts - len rest)) acc ts = Some (cd, rest).

  Lemma paren_enough f ts cd rest : enoughC 4 (p_or row) f -> paren_alt f ts = Some (cd, rest) ->
    len rest < len ts /\ paren_alt (8 * (len ts - len rest)) ts = Some (cd, rest).
  Proof.
    intros IH H. unfold paren_alt in *. destruct ts as [|[x k|g|s| | | | | | | | | | |xt] r0]; try discriminate.
    destruct (p_or row f r0) as [[c r1]|] eqn:E; [|discriminate].
    destruct r1 as [|[x k|g|s| | | | | | | | | | |xt] r1]; try discriminate. inversion H; subst.
    destruct (IH _ _ _ E) as [L1 E1]. cbn [length] in *. split; [lia|].
    assert (Le : 4 + 8 * (len r0 - S (len rest)) <= 8 * (S (len r0) - len rest)) by lia.
    rewrite (mono_or _ _ _ _ Le E1). reflexivity.
  Qed.

  Lemma cond_enough f :
    enoughC 4 (p_or row) f /\ enoughCL 1 (p_or_loop row) f /\ enoughC 3 (p_and row) f /\ enoughCL 1 (p_and_loop row) f /\
    enoughC 2 (p_not row) f /\ enoughC 1 (p_cmp row) f.
  Proof.
    induction f as [|f (IHo & IHol & IHa & IHal & IHn & IHc)].
    - refine (conj _ (conj _ (conj _ (conj _ (conj _ _))))); red; intros;
        match goal with H : _ = Some _ |- _ => cbn in H; discriminate H end.
    - refine (conj _ (conj _ (conj _ (conj _ (conj _ _))))).
      + intros ts cd rest H. rewrite p_or_S in H.
        destruct (p_and row f ts) as [[a r1]|] eqn:E; [|discriminate].
        destruct (IHa _ _ _ E) as [L1 E1]. destruct (IHol _ _ _ _ H) as [L2 E2]. split; [lia|].
        replace (4 + 8 * (len ts - len rest)) with (S (3 + 8 * (len ts - len rest))) by lia. rewrite p_or_S.
        rewrite (mono_and' _ _ _ (3 + 8 * (len ts - len rest)) E1 ltac:(lia)).
        apply (mono_or_loop (1 + 8 * (len r1 - len rest))); [lia|exact E2].
      + intros acc ts cd rest H. rewrite p_or_loop_S in H.
        destruct ts as [|[x k|g|s| | | | | | | | | | |[o| | | | | ]] r0];
          try (inversion H; subst; split; [lia|]; rewrite Nat.sub_diag; reflexivity).
        destruct (p_and row f r0) as [[b r1]|] eqn:E; [|discriminate].
        destruct (IHa _ _ _ E) as [L1 E1]. destruct (IHol _ _ _ _ H) as [L2 E2]. cbn [length]. split; [lia|].
        replace (1 + 8 * (S (len r0) - len rest)) with (S (8 * (S (len r0) - len rest))) by lia. rewrite p_or_loop_S.
        rewrite (mono_and' _ _ _ (8 * (S (len r0) - len rest)) E1 ltac:(lia)).
        apply (mono_or_loop (1 + 8 * (len r1 - len rest))); [lia|exact E2].
      + intros ts cd rest H. rewrite p_and_S in H.
        destruct (p_not row f ts) as [[a r1]|] eqn:E; [|discriminate].
        destruct (IHn _ _ _ E) as [L1 E1]. destruct (IHal _ _ _ _ H) as [L2 E2]. split; [lia|].
        replace (3 + 8 * (len ts - len rest)) with (S (2 + 8 * (len ts - len rest))) by lia. rewrite p_and_S.
        rewrite (mono_not' _ _ _ (2 + 8 * (len ts - len rest)) E1 ltac:(lia)).
        apply (mono_and_loop (1 + 8 * (len r1 - len rest))); [lia|exact E2].
      + intros acc ts cd rest H. rewrite p_and_loop_S in H.
        destruct ts as [|[x k|g|s| | | | | | | | | | |[o| | | | | ]] r0];
          try (inversion H; subst; split; [lia|]; rewrite Nat.sub_diag; reflexivity).
        destruct (p_not row f r0) as [[b r1]|] eqn:E; [|discriminate].
        destruct (IHn _ _ _ E) as [L1 E1]. destruct (IHal _ _ _ _ H) as [L2 E2]. cbn [length]. split; [lia|].
        replace (1 + 8 * (S (len r0) - len rest)) with (S (8 * (S (len r0) - len rest))) by lia. rewrite p_and_loop_S.
        rewrite (mono_not' _ _ _ (8 * (S (len r0) - len rest)) E1 ltac:(lia)).
        apply (mono_and_loop (1 + 8 * (len r1 - len rest))); [lia|exact E2].
      + intros ts cd rest H. rewrite p_not_S in H.
        assert (P : p_cmp row f ts = Some (cd, rest) ->
                    len rest < len ts /\ p_cmp row (1 + 8 * (len ts - len rest)) ts = Some (cd, rest)) by (apply IHc).
        destruct ts as [|[x k|g|s| | | | | | | | | | |[o| | | | | ]] r0];
          try (destruct (P H) as [L1 E1]; split; [exact L1|];
               match goal with |- p_not row (2 + 8 * ?n) ?t = _ =>
                 replace (2 + 8 * n) with (S (1 + 8 * n)) by lia; rewrite p_not_S; exact E1 end).
        destruct (p_not row f r0) as [[c r1]|] eqn:E; [|discriminate]. inversion H; subst.
        destruct (IHn _ _ _ E) as [L1 E1]. cbn [length]. split; [lia|].
        replace (2 + 8 * (S (len r0) - len rest)) with (S (1 + 8 * (S (len r0) - len rest))) by lia. rewrite p_not_S.
        rewrite (mono_not' _ _ _ (1 + 8 * (S (len r0) - len rest)) E1 ltac:(lia)). reflexivity.
      + intros ts cd rest H. rewrite p_cmp_alt in H.
        assert (Q : paren_alt f ts = Some (cd, rest) ->
                    len rest < len ts /\ paren_alt (8 * (len ts - len rest)) ts = Some (cd, rest)) by (apply paren_enough, IHo).
        replace (1 + 8 * (len ts - len rest)) with (S (8 * (len ts - len rest))) by lia. rewrite p_cmp_alt.
        destruct (arith ts) as [[l r1]|] eqn:E; [|exact (Q H)].
        destruct r1 as [|[x k|g|s| | | | | | | | | | |[o| | | | | ]] r1]; try (exact (Q H)).
        destruct (arith r1) as [[r' rest']|] eqn:E2; [|discriminate]. inversion H; subst.
        apply arith_progress in E. apply arith_progress in E2. cbn [length] in E. split; [lia|reflexivity].
  Qed.

  Lemma test_enough f : forall ts st rest, p_test row f ts = Some (st, rest) ->
    len rest < len ts /\ p_test row (1 + 8 * (len ts - len rest)) ts = Some (st, rest).
  Proof.
    induction f as [|f IH]; intros ts st rest H; [cbn in H; discriminate|]. rewrite p_test_S in H.
    replace (1 + 8 * (len ts - len rest)) with (S (8 * (len ts - len rest))) by lia. rewrite p_test_S.
    destruct (arith ts) as [[a r1]|] eqn:E; [|discriminate]. pose proof (arith_progress _ _ _ E) as L0.
    destruct r1 as [|[x k|g|s| | | | | | | | | | |[o| | | | | ]] r1]; try (inversion H; subst; split; [exact L0|reflexivity]).
    destruct (p_or row f r1) as [[c r2]|] eqn:Ec; [|discriminate].
    destruct (proj1 (cond_enough f) _ _ _ Ec) as [L1 E1].
    destruct r2 as [|[x k|g|s| | | | | | | | | | |[o| | | | | ]] r2]; try discriminate.
    destruct (p_test row f r2) as [[b rest']|] eqn:Eb; [|discriminate]. inversion H; subst.
    destruct (IH _ _ _ Eb) as [L2 E2]. cbn [length] in *. split; [lia|].
    rewrite (mono_or' _ _ _ (8 * (len ts - len rest)) E1 ltac:(lia)).
    assert (Le2 : 1 + 8 * (len r2 - len rest) <= 8 * (len ts - len rest)) by lia.
    rewrite (test_fuel_monotone _ _ _ _ Le2 E2). reflexivity.
  Qed.

  (* test_fuel is always enough: whatever some fuel can parse, test_fuel parses, with the same result *)
  Theorem test_fuel_suffices f ts st rest :
    p_test row f ts = Some (st, rest) -> p_test row (test_fuel ts) ts = Some (st, rest).
  Proof.
    intros H. destruct (test_enough f _ _ _ H) as [L E].
    apply (test_fuel_monotone (1 + 8 * (length ts - length rest))); [unfold test_fuel; lia|exact E].
  Qed.
End CondFuel.
