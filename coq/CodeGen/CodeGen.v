(* CodeGen.v — from the script to the generated statements and to what they compute (property C01).
   Definitions only; total; executable.  Built on the parser model (Lex.scan_items, ParseEq.parse_equation_M,
   ParseModel.parse_model_nocheck, owned by the parser properties) and on the evaluation model (Eval.v).

   Part 1 (text level).  `parse_equation` builds its two output strings by
        template = equation with every match of term_re replaced by "{}"      (right-to-left span replacement)
        template = three whitespace substitutions of template
        code     = template.format of the terms' .code             equation = template.format of the terms' str()
   Here the same strings are described WITHOUT str.format and without positions:
        code_text eq     = the scanned items of eq, whitespace-normalised as a list of items (a match is one opaque
                           non-blank item), every match rendered by Term.code, every other character verbatim
        equation_text eq = the same with Term.__str__
   CodeGenFacts.parse_equation_code_spec proves that parse_equation_M returns exactly these two strings.

   Part 2 (semantic level).  For the arithmetic subset ( + - * / ** unary minus, parentheses, decimal literals,
   exp log max min abs; at the top of a right-hand side also conditional expressions  a if c else b  with comparisons,
   and / or / not ) the scanned items are read as a token sequence and parsed (Python's precedences) into the
   expression language of Eval.v:  `Y[k0] = rhs`  becomes  SAssign (row Y) k0 (tree rhs),
   a variable / {parameter} / <error> term with integer index k becomes ERead (row name) k.  A script becomes the
   list of its statements in the order of the merged SYMBOL list (the order build_model_definition emits them),
   rows numbered as in NAMES = ENDOGENOUS + EXOGENOUS + PARAMETERS + ERRORS.
   Subtrees of integer literals only are folded on ints, as CPython computes them (fold_ints: -0 is 0).
   Everything outside the subset (keywords, verbatim code, string indexes, comparison operators, other functions,
   a series that is not declared, a series whose attribute name CPython mangles) yields None: fail-closed, never guessed. *)
From Coq Require Import String Ascii List Bool Arith ZArith DecimalString.
Import ListNotations.
Require Import Generated PyBase PyStr Lex Format Symbols Split Merge ParseEq ParseModel Eval.
Open Scope string_scope.
Open Scope nat_scope.

(* ====================================================================================================== *)
(* Part 1: the two output strings of parse_equation                                                       *)
(* ====================================================================================================== *)

Definition item_space (i : item) : bool := match i with Chr c => is_space c | Tok _ _ => false end.
Definition item_is (ch : ascii) (i : item) : bool := match i with Chr c => Ascii.eqb c ch | Tok _ _ => false end.
Definition head_item_is (ch : ascii) (l : list item) : bool := match l with i :: _ => item_is ch i | [] => false end.

(* re.sub(r'\s+', ' ', ·) on items *)
Fixpoint ws_items (in_ws : bool) (l : list item) : list item :=
  match l with
  | [] => []
  | i :: r => if item_space i then (if in_ws then ws_items true r else Chr " " :: ws_items true r)
              else i :: ws_items false r
  end.
(* re.sub(r'\(\s+', '(', ·) on items *)
Fixpoint open_items (after_open : bool) (l : list item) : list item :=
  match l with
  | [] => []
  | i :: r => if after_open && item_space i then open_items true r
              else i :: open_items (item_is "(" i) r
  end.
(* re.sub(r'\s+\)', ')', ·) on items *)
Fixpoint close_items (l : list item) : list item :=
  match l with
  | [] => []
  | i :: r => let r' := close_items r in
              if item_space i && head_item_is ")" r' then r' else i :: r'
  end.
Definition norm_items (l : list item) : list item := close_items (open_items false (ws_items false l)).

(* every character outside the matches is something else than a brace *)
Definition not_brace (i : item) : bool :=
  match i with Chr c => negb (Ascii.eqb c "{" || Ascii.eqb c "}") | Tok _ _ => true end.
Definition gaps_brace_free (l : list item) : bool := forallb not_brace l.

(* the items with the k-th match replaced by the k-th argument (None: the arguments ran out) *)
Fixpoint fill_items (l : list item) (args : list string) : option string :=
  match l with
  | [] => Some ""
  | Chr c :: r => match fill_items r args with Some s => Some (String c s) | None => None end
  | Tok _ _ :: r => match args with
                    | a :: args' => match fill_items r args' with Some s => Some (a ++ s) | None => None end
                    | [] => None
                    end
  end.

(* the items with every match rendered by f *)
Fixpoint render_items (f : tmatch -> option string) (l : list item) : option string :=
  match l with
  | [] => Some ""
  | Chr c :: r => match render_items f r with Some s => Some (String c s) | None => None end
  | Tok _ m :: r => match f m, render_items f r with
                    | Some a, Some s => Some (a ++ s)
                    | _, _ => None
                    end
  end.

(* Term.code / Term.__str__ of the term that process_term_match builds from a match (None: the index does not
   parse, which makes parse_terms raise ParserError) *)
Definition code_of_match (m : tmatch) : option string :=
  match mk_term m with Ret t => term_code t | Raise _ => None end.
Definition str_of_match (m : tmatch) : option string :=
  match mk_term m with Ret t => term_str t | Raise _ => None end.

Definition code_text (eq : string) : option string := render_items code_of_match (norm_items (scan_items eq)).
Definition equation_text (eq : string) : option string := render_items str_of_match (norm_items (scan_items eq)).

(* parse_equation_terms lexes the two sides of the first `=` SEPARATELY, the template comes from the WHOLE statement:
   the two agree when no match of the whole statement spans that `=` *)
Definition aligned (eq : string) : Prop :=
  match find_any "=" eq with
  | Some (l, r) => matches_of (scan_items eq) = (matches_of (scan_items l) ++ matches_of (scan_items r))%list
  | None => False
  end.

(* the same as a boolean (for the correspondence check and for examples) *)
Definition kind_eqb (a b : kind) : bool :=
  match a, b with
  | KVerbatim, KVerbatim | KInvalid, KInvalid | KKeyword, KKeyword | KFunction, KFunction
  | KParameter, KParameter | KError, KError | KVariable, KVariable => true
  | _, _ => false
  end.
Definition tmatch_eqb (a b : tmatch) : bool :=
  kind_eqb (mkind a) (mkind b) && String.eqb (mname a) (mname b) && opt_string_eqb (mindex a) (mindex b) &&
  Nat.eqb (mlen a) (mlen b).
Fixpoint matches_eqb (a b : list tmatch) : bool :=
  match a, b with
  | [], [] => true
  | x :: a', y :: b' => tmatch_eqb x y && matches_eqb a' b'
  | _, _ => false
  end.
Definition aligned_b (eq : string) : bool :=
  match find_any "=" eq with
  | Some (l, r) => matches_eqb (matches_of (scan_items eq)) (matches_of (scan_items l) ++ matches_of (scan_items r))%list
  | None => false
  end.
(* the guard of the text-level theorem, as one boolean *)
Definition text_guard (eq : string) : bool :=
  negb (head_is "`" eq && last_is "`" eq) && aligned_b eq && gaps_brace_free (scan_items eq).

(* ====================================================================================================== *)
(* Part 2: tokens, trees, statements, programs                                                            *)
(* ====================================================================================================== *)

Inductive xtok : Type := XCmp (o : cmpop) | XIf | XElse | XAnd | XOr | XNot.

Inductive ctok : Type :=
| CRead (name : string) (k : Z)       (* NAME, {NAME}, <NAME> with the integer index k (0 when none is written) *)
| CFun (name : string)                (* function name as it appears in the code (after replacement_function_names) *)
| CNum (s : string)                   (* maximal run of digits and dots *)
| CPlus | CMinus | CStar | CSlash | CPow | CLPar | CRPar | CComma | CAssign
| CBad                                (* anything else: outside the subset *)
| CX (x : xtok).                      (* comparison operators and the keywords if / else / and / or / not *)

Definition tok_of_match (m : tmatch) : ctok :=
  match mk_term m with
  | Ret t =>
    match ttype t with
    | TVariable | TParameter | TError =>
      match tindex t with Some (IInt k) => CRead (tname t) k | _ => CBad end
    | TFunction => match term_code t with Some c => CFun c | None => CBad end
    | TKeyword =>
      if String.eqb (tname t) "if" then CX XIf else if String.eqb (tname t) "else" then CX XElse
      else if String.eqb (tname t) "and" then CX XAnd else if String.eqb (tname t) "or" then CX XOr
      else if String.eqb (tname t) "not" then CX XNot else CBad
    | _ => CBad
    end
  | Raise _ => CBad
  end.

Definition tok_of_char (c : ascii) : ctok :=
  if Ascii.eqb c "+" then CPlus else if Ascii.eqb c "-" then CMinus else if Ascii.eqb c "/" then CSlash
  else if Ascii.eqb c "(" then CLPar else if Ascii.eqb c ")" then CRPar else if Ascii.eqb c "," then CComma
  else CBad.

(* `<` `>` `=` `!` wait for a following `=`: alone they are < > (assignment) and nothing; with it <= >= == != *)
Definition is_opc (c : ascii) : bool := Ascii.eqb c "<" || Ascii.eqb c ">" || Ascii.eqb c "=" || Ascii.eqb c "!".
Definition op1 (c : ascii) : ctok :=
  if Ascii.eqb c "<" then CX (XCmp CLt) else if Ascii.eqb c ">" then CX (XCmp CGt)
  else if Ascii.eqb c "=" then CAssign else CBad.
Definition op2 (c : ascii) : ctok :=
  if Ascii.eqb c "<" then CX (XCmp CLe) else if Ascii.eqb c ">" then CX (XCmp CGe)
  else if Ascii.eqb c "=" then CX (XCmp CEq) else CX (XCmp CNe).

(* LWord: the previous item was a keyword or a backticked fragment, whose text in the generated code ends with a word
   character.  A {parameter} / <error> term that follows WITHOUT a blank is rendered `self._NAME[…]`, which starts with a
   word character although the script text starts with `{` / `<`: in the code the two fuse (`not{X}` becomes
   `notself._X[t]`, genuine defect).  Such a statement is outside the subset: a CBad token is put before the term. *)
Inductive lstate : Type := LNone | LNum (acc : string) (* reversed *) | LStar | LOp (c : ascii) | LWord.
Definition flush (st : lstate) : list ctok :=
  match st with LNone | LWord => [] | LNum a => [CNum (rev_str a "")] | LStar => [CStar] | LOp c => [op1 c] end.
Definition fuses (st : lstate) (m : tmatch) : bool :=
  match st, mkind m with
  | (LWord | LNum _), (KParameter | KError) => true
  | _, _ => false
  end.
Definition after_match (m : tmatch) : lstate :=
  match mkind m with KKeyword | KVerbatim => LWord | _ => LNone end.

Fixpoint lex_items (st : lstate) (l : list item) : list ctok :=
  match l with
  | [] => flush st
  | Tok _ m :: r => (flush st ++ (if fuses st m then [CBad] else []) ++ tok_of_match m :: lex_items (after_match m) r)%list
  | Chr c :: r =>
    if is_digit c || Ascii.eqb c "." then
      match st with
      | LNum a => lex_items (LNum (String c a)) r
      | _ => (flush st ++ lex_items (LNum (String c "")) r)%list
      end
    else if Ascii.eqb c "*" then
      match st with
      | LStar => CPow :: lex_items LNone r
      | _ => (flush st ++ lex_items LStar r)%list
      end
    else if is_opc c then
      match st with
      | LOp p => if Ascii.eqb c "=" then op2 p :: lex_items LNone r else (flush st ++ lex_items (LOp c) r)%list
      | _ => (flush st ++ lex_items (LOp c) r)%list
      end
    else if is_space c then (flush st ++ lex_items LNone r)%list
    else (flush st ++ tok_of_char c :: lex_items LNone r)%list
  end.

(* a decimal literal Python accepts: digits with at most one dot and at least one digit; an integer literal with
   more than one digit must not start with 0 *)
Fixpoint lit_dots (s : string) : nat :=
  match s with "" => 0 | String c r => (if Ascii.eqb c "." then 1 else 0) + lit_dots r end.
Fixpoint lit_digits (s : string) : nat :=
  match s with "" => 0 | String c r => (if is_digit c then 1 else 0) + lit_digits r end.
Definition num_ok (s : string) : bool :=
  (lit_dots s <=? 1) && (1 <=? lit_digits s) && (String.length s =? lit_dots s + lit_digits s) &&
  negb ((lit_dots s =? 0) && (2 <=? String.length s) && head_is "0" s).

(* functions of the subset, by their name in the generated code *)
Inductive fkind : Type := FExp | FLog | FMax | FMin | FAbs.
Definition fun_kind (f : string) : option fkind :=
  if String.eqb f "np.exp" then Some FExp else if String.eqb f "np.log" then Some FLog
  else if String.eqb f "max" then Some FMax else if String.eqb f "min" then Some FMin
  else if String.eqb f "abs" then Some FAbs else None.

Definition sexpr := expr string.          (* literals kept as their text *)
Definition sstmt := stmt string.
Definition sprogram := program string.

Definition apply_fun (k : fkind) (args : list sexpr) : option sexpr :=
  match k, args with
  | FExp, [a] => Some (ECall1 0 a)
  | FLog, [a] => Some (ECall1 1 a)
  | FAbs, [a] => Some (EAbs a)
  | FMax, a :: b :: rest => Some (fold_left (fun x y => EMax x y) rest (EMax a b))      (* max(a, b, c) keeps the running maximum *)
  | FMin, a :: b :: rest => Some (fold_left (fun x y => EMin x y) rest (EMin a b))
  | _, _ => None
  end.

(* ---- integer literals ----
   CPython computes a subtree made of INTEGER literals only on ints, not on floats (`-0` is 0: an int zero has no sign;
   `0 * -3` is 0), and only then converts to float64 for the store.  fold_ints replaces such subtrees — unary minus,
   + - *, abs, max, min of integer literals, as long as the result stays within 2^53 — by the integer literal they
   denote (text: optional `-`, digits), bottom-up; everything else is float arithmetic. *)
Definition int_lit (s : string) : bool :=
  match s with
  | String c r => if Ascii.eqb c "-" then (1 <=? String.length r) && (lit_digits r =? String.length r)
                  else lit_digits s =? String.length s
  | "" => false
  end.
Fixpoint digits_Z (acc : Z) (s : string) : Z :=
  match s with
  | "" => acc
  | String c r => if is_digit c then digits_Z (acc * 10 + (Z.of_N (N_of_ascii c) - 48))%Z r else digits_Z acc r
  end.
Definition int_val (s : string) : Z :=
  match s with String c r => if Ascii.eqb c "-" then (- digits_Z 0 r)%Z else digits_Z 0 s | "" => 0%Z end.
Definition int_text (z : Z) : string := string_of_Z z.
Definition small_int (z : Z) : bool := (Z.abs z <=? 2 ^ 53)%Z.
Definition fold2 (f : Z -> Z -> Z) (a b : string) (dflt : sexpr) : sexpr :=
  if int_lit a && int_lit b && small_int (f (int_val a) (int_val b)) then ENum (int_text (f (int_val a) (int_val b))) else dflt.

Fixpoint fold_ints (e : sexpr) : sexpr :=
  match e with
  | ENum _ | ERead _ _ => e
  | ENeg a => match fold_ints a with
              | ENum s => if int_lit s then ENum (int_text (- int_val s)) else ENeg (ENum s)
              | a' => ENeg a'
              end
  | EAbs a => match fold_ints a with
              | ENum s => if int_lit s then ENum (int_text (Z.abs (int_val s))) else EAbs (ENum s)
              | a' => EAbs a'
              end
  | EBin o a b =>
    match o, fold_ints a, fold_ints b with
    | OAdd, ENum x, ENum y => fold2 Z.add x y (EBin o (ENum x) (ENum y))
    | OSub, ENum x, ENum y => fold2 Z.sub x y (EBin o (ENum x) (ENum y))
    | OMul, ENum x, ENum y => fold2 Z.mul x y (EBin o (ENum x) (ENum y))
    | _, a', b' => EBin o a' b'
    end
  | EMax a b => match fold_ints a, fold_ints b with
                | ENum x, ENum y => fold2 Z.max x y (EMax (ENum x) (ENum y))
                | a', b' => EMax a' b'
                end
  | EMin a b => match fold_ints a, fold_ints b with
                | ENum x, ENum y => fold2 Z.min x y (EMin (ENum x) (ENum y))
                | a', b' => EMin a' b'
                end
  | EIf o l r a b => EIf o (fold_ints l) (fold_ints r) (fold_ints a) (fold_ints b)
  | ECall1 g a => ECall1 g (fold_ints a)
  | ECall2 g a b => ECall2 g (fold_ints a) (fold_ints b)
  end.

(* ---- operations CPython performs on PYTHON numbers ----
   A series read (and np.exp / np.log) yields a NumPy float64; a literal is a Python number, and an operation both of whose
   operands are Python numbers is computed by CPython, not by NumPy: `1/0` raises ZeroDivisionError (NumPy: inf and a
   warning), `10.0 ** 400` raises OverflowError, `(-8) ** 0.5` is complex, `10 ** 400` is an int no float can hold.
   isnp e: e is CERTAINLY a NumPy scalar.  py_ok e: no division whose operands may both be Python numbers unless the
   divisor is a literal that is non-zero as a float, no power whose operands may both be Python numbers, no integer literal of
   more than 300 digits, no + - * and no comparison of two Python INT expressions that fold_ints left unfolded (beyond 2^53
   CPython computes them exactly, a float operation rounds).  A statement that is not py_ok is outside the subset
   (fail-closed); the remaining + - * abs max min and comparisons of Python numbers behave like the float operations. *)
Fixpoint isnp (e : sexpr) : bool :=
  match e with
  | ENum _ => false
  | ERead _ _ => true
  | ENeg a | EAbs a => isnp a
  | EBin _ a b => isnp a || isnp b
  | EMax a b | EMin a b => isnp a && isnp b
  | EIf _ _ _ a b => isnp a && isnp b
  | ECall1 _ _ | ECall2 _ _ _ => true
  end.
Fixpoint has_nonzero_digit (s : string) : bool :=
  match s with "" => false | String c r => (is_digit c && negb (Ascii.eqb c "0")) || has_nonzero_digit r end.
Fixpoint str_prefix (n : nat) (s : string) : string :=
  match n, s with S k, String c r => String c (str_prefix k r) | _, _ => "" end.
(* a literal that is certainly not zero AS A FLOAT: a non-zero digit among its first 300 characters (so at least 1e-300;
   `0.<400 zeros>1` underflows to 0.0 and 1 / it raises ZeroDivisionError) *)
Definition nonzero_lit (e : sexpr) : bool :=
  match e with
  | ENum s => has_nonzero_digit (str_prefix 300 s)
  | ENeg (ENum s) => has_nonzero_digit (str_prefix 300 s)
  | _ => false
  end.
(* an integer literal every float operation accepts: at most 300 digits (`X * 1<400 zeros>` raises OverflowError: int too
   large to convert to float) *)
Definition lit_ok (s : string) : bool := negb (lit_dots s =? 0) || (String.length s <=? 300).
(* an expression CPython computes on Python INTS (exactly, however large): what fold_ints leaves of it is outside 2^53 *)
Fixpoint isint (e : sexpr) : bool :=
  match e with
  | ENum s => int_lit s
  | ENeg a | EAbs a => isint a
  | EBin (OAdd | OSub | OMul) a b => isint a && isint b
  | EMax a b | EMin a b => isint a && isint b
  | _ => false
  end.
Definition small_lit (e : sexpr) : bool := match e with ENum s => int_lit s && small_int (int_val s) | _ => false end.
Fixpoint py_ok (e : sexpr) : bool :=
  match e with
  | ENum s => lit_ok s
  | ERead _ _ => true
  | ENeg a | EAbs a | ECall1 _ a => py_ok a
  | EBin o a b =>
    py_ok a && py_ok b &&
    match o with
    | ODiv => isnp a || isnp b || nonzero_lit b
    | OPow => isnp a || isnp b
    | _ => negb (isint a && isint b)      (* `9007199254740993 * 3`: exact on ints, rounded on floats *)
    end
  | EMax a b | EMin a b | ECall2 _ a b => py_ok a && py_ok b
  | EIf _ l r a b => py_ok l && py_ok r && py_ok a && py_ok b && (negb (isint l && isint r) || (small_lit l && small_lit r))
  end.

Section Tree.
  Variable row : string -> option nat.        (* position of a series in NAMES *)

  (* Python's expression grammar, restricted:
       expr   := term (('+'|'-') term)*          term  := factor (('*'|'/') factor)*
       factor := '-' factor | power              power := atom ['**' factor]
       atom   := NUMBER | series | '(' expr ')' | f '(' expr (',' expr)* ')'                      *)
  Fixpoint p_expr (fuel : nat) (ts : list ctok) {struct fuel} : option (sexpr * list ctok) :=
    match fuel with
    | O => None
    | S f => match p_term f ts with Some (a, r) => p_expr_loop f a r | None => None end
    end
  with p_expr_loop (fuel : nat) (acc : sexpr) (ts : list ctok) {struct fuel} : option (sexpr * list ctok) :=
    match fuel with
    | O => None
    | S f =>
      match ts with
      | CPlus :: r => match p_term f r with Some (b, r') => p_expr_loop f (EBin OAdd acc b) r' | None => None end
      | CMinus :: r => match p_term f r with Some (b, r') => p_expr_loop f (EBin OSub acc b) r' | None => None end
      | _ => Some (acc, ts)
      end
    end
  with p_term (fuel : nat) (ts : list ctok) {struct fuel} : option (sexpr * list ctok) :=
    match fuel with
    | O => None
    | S f => match p_factor f ts with Some (a, r) => p_term_loop f a r | None => None end
    end
  with p_term_loop (fuel : nat) (acc : sexpr) (ts : list ctok) {struct fuel} : option (sexpr * list ctok) :=
    match fuel with
    | O => None
    | S f =>
      match ts with
      | CStar :: r => match p_factor f r with Some (b, r') => p_term_loop f (EBin OMul acc b) r' | None => None end
      | CSlash :: r => match p_factor f r with Some (b, r') => p_term_loop f (EBin ODiv acc b) r' | None => None end
      | _ => Some (acc, ts)
      end
    end
  with p_factor (fuel : nat) (ts : list ctok) {struct fuel} : option (sexpr * list ctok) :=
    match fuel with
    | O => None
    | S f =>
      match ts with
      | CMinus :: r => match p_factor f r with Some (a, r') => Some (ENeg a, r') | None => None end
      | _ => p_power f ts
      end
    end
  with p_power (fuel : nat) (ts : list ctok) {struct fuel} : option (sexpr * list ctok) :=
    match fuel with
    | O => None
    | S f =>
      match p_atom f ts with
      | Some (a, CPow :: r) => match p_factor f r with Some (b, r') => Some (EBin OPow a b, r') | None => None end
      | x => x
      end
    end
  with p_atom (fuel : nat) (ts : list ctok) {struct fuel} : option (sexpr * list ctok) :=
    match fuel with
    | O => None
    | S f =>
      match ts with
      | CNum s :: r => if num_ok s then Some (ENum s, r) else None
      | CRead x k :: r => match row x with Some i => Some (ERead i k, r) | None => None end
      | CLPar :: r => match p_expr f r with Some (e, CRPar :: r') => Some (e, r') | _ => None end
      | CFun g :: CLPar :: r =>
        match fun_kind g, p_args f r with
        | Some k, Some (args, r') => match apply_fun k args with Some e => Some (e, r') | None => None end
        | _, _ => None
        end
      | _ => None
      end
    end
  with p_args (fuel : nat) (ts : list ctok) {struct fuel} : option (list sexpr * list ctok) :=
    match fuel with
    | O => None
    | S f =>
      match p_expr f ts with
      | Some (e, CRPar :: r) => Some ([e], r)
      | Some (e, CComma :: r) => match p_args f r with Some (es, r') => Some (e :: es, r') | None => None end
      | _ => None
      end
    end.

  Definition tree_fuel (ts : list ctok) : nat := 8 * length ts + 8.

End Tree.

(* ---- conditional expressions:  a if <condition> else b  at the top of a right-hand side ----
   condition := comparison of two arithmetic expressions | not c | c and c | c or c | ( c )      (Python's precedences)
   The source tree keeps the TEXTUAL shape (value, condition, alternative); `denote` turns it into the expression
   language of Eval.v, whose only conditional is  a if l <op> r else b : and / or / not become nested conditionals,
   which evaluate the same sub-expressions in the same order (Python short-circuits) and select the same branch. *)
Inductive scond : Type :=
| SCmp (o : cmpop) (l r : sexpr) | SAnd (a b : scond) | SOr (a b : scond) | SNot (a : scond).
Inductive stest : Type :=
| SVal (e : sexpr)                                  (* a plain arithmetic expression *)
| SIf (a : sexpr) (c : scond) (b : stest).          (* a if c else b   (b may be a conditional again) *)

Fixpoint mk_if (c : scond) (a b : sexpr) : sexpr :=
  match c with
  | SCmp o l r => EIf o l r a b
  | SAnd c1 c2 => mk_if c1 (mk_if c2 a b) b         (* c1 false: b without looking at c2 *)
  | SOr c1 c2 => mk_if c1 a (mk_if c2 a b)          (* c1 true: a without looking at c2 *)
  | SNot c1 => mk_if c1 b a
  end.
Fixpoint denote (s : stest) : sexpr :=
  match s with SVal e => e | SIf a c b => mk_if c a (denote b) end.

(* the series terms in the order they are WRITTEN *)
Fixpoint cond_reads (c : scond) : list (nat * Z) :=
  match c with
  | SCmp _ l r => (expr_reads string l ++ expr_reads string r)%list
  | SAnd a b | SOr a b => (cond_reads a ++ cond_reads b)%list
  | SNot a => cond_reads a
  end.
Fixpoint test_reads (s : stest) : list (nat * Z) :=
  match s with
  | SVal e => expr_reads string e
  | SIf a c b => (expr_reads string a ++ cond_reads c ++ test_reads b)%list
  end.

Section Test.
  Variable row : string -> option nat.
  Notation arith := (fun ts => p_expr row (tree_fuel ts) ts).

  Fixpoint p_or (fuel : nat) (ts : list ctok) {struct fuel} : option (scond * list ctok) :=
    match fuel with
    | O => None
    | S f => match p_and f ts with Some (c, r) => p_or_loop f c r | None => None end
    end
  with p_or_loop (fuel : nat) (acc : scond) (ts : list ctok) {struct fuel} : option (scond * list ctok) :=
    match fuel with
    | O => None
    | S f =>
      match ts with
      | CX XOr :: r => match p_and f r with Some (b, r') => p_or_loop f (SOr acc b) r' | None => None end
      | _ => Some (acc, ts)
      end
    end
  with p_and (fuel : nat) (ts : list ctok) {struct fuel} : option (scond * list ctok) :=
    match fuel with
    | O => None
    | S f => match p_not f ts with Some (c, r) => p_and_loop f c r | None => None end
    end
  with p_and_loop (fuel : nat) (acc : scond) (ts : list ctok) {struct fuel} : option (scond * list ctok) :=
    match fuel with
    | O => None
    | S f =>
      match ts with
      | CX XAnd :: r => match p_not f r with Some (b, r') => p_and_loop f (SAnd acc b) r' | None => None end
      | _ => Some (acc, ts)
      end
    end
  with p_not (fuel : nat) (ts : list ctok) {struct fuel} : option (scond * list ctok) :=
    match fuel with
    | O => None
    | S f =>
      match ts with
      | CX XNot :: r => match p_not f r with Some (c, r') => Some (SNot c, r') | None => None end
      | _ => p_cmp f ts
      end
    end
  with p_cmp (fuel : nat) (ts : list ctok) {struct fuel} : option (scond * list ctok) :=
    match fuel with
    | O => None
    | S f =>
      match arith ts with
      | Some (l, CX (XCmp o) :: r) =>
        match arith r with Some (r', rest) => Some (SCmp o l r', rest) | None => None end
      | _ =>
        match ts with
        | CLPar :: r => match p_or f r with Some (c, CRPar :: rest) => Some (c, rest) | _ => None end
        | _ => None
        end
      end
    end.

  Fixpoint p_test (fuel : nat) (ts : list ctok) {struct fuel} : option (stest * list ctok) :=
    match fuel with
    | O => None
    | S f =>
      match arith ts with
      | Some (a, CX XIf :: r) =>
        match p_or f r with
        | Some (c, CX XElse :: r2) => match p_test f r2 with Some (b, rest) => Some (SIf a c b, rest) | None => None end
        | _ => None
        end
      | Some (a, rest) => Some (SVal a, rest)
      | None => None
      end
    end.

  Definition test_fuel (ts : list ctok) : nat := 8 * length ts + 8.

  (* one statement  NAME[k0] = rhs  from its token sequence: (left-hand name, source tree of the right-hand side) *)
  Definition src_of_tokens (ts : list ctok) : option (string * nat * Z * stest) :=
    match ts with
    | CRead y k0 :: CAssign :: rhs =>
      match row y, p_test (test_fuel rhs) rhs with
      | Some i, Some (st, []) => Some (y, i, k0, st)
      | _, _ => None
      end
    | _ => None
    end.
  (* … and the statement it denotes *)
  Definition stmt_of_tokens (ts : list ctok) : option (string * sstmt) :=
    match src_of_tokens ts with
    | Some (y, i, k0, st) => let e := fold_ints (denote st) in if py_ok e then Some (y, SAssign i k0 e) else None
    | None => None
    end.

  Definition stmt_of_equation (eq : string) : option (string * sstmt) :=
    stmt_of_tokens (lex_items LNone (scan_items eq)).
End Test.

(* A series NAME is accessed as the attribute `_NAME` of `self` INSIDE A CLASS BODY: when `_NAME` begins with two
   underscores and does not end with two, CPython's private-name mangling rewrites `self.__x` to `self._Model__x`, an
   attribute that does not exist (genuine defect: `Y = _x + 1` raises AttributeError when evaluated).  Such a series
   has no row here: a statement that names it is outside the subset (fail-closed), see CodeGenExamples. *)
Fixpoint ends_with_2 (c : ascii) (s : string) : bool :=
  match s with
  | "" => false
  | String a "" => false
  | String a (String b "") => Ascii.eqb a c && Ascii.eqb b c
  | String _ r => ends_with_2 c r
  end.
Definition mangled (name : string) : bool := head_is "_" name && negb (ends_with_2 "_" (String "_" name)).

(* NAMES = ENDOGENOUS + EXOGENOUS + PARAMETERS + ERRORS, each in symbol order (build_model_definition) *)
Definition names_of_type (ty : ptype) (syms : list symbol) : list string :=
  flat_map (fun s => if type_eqb (stype s) ty then (match sname s with Some n => [n] | None => [] end) else []) syms.
Definition names_of (syms : list symbol) : list string :=
  (names_of_type TEndogenous syms ++ names_of_type TExogenous syms ++
   names_of_type TParameter syms ++ names_of_type TError syms)%list.
Fixpoint index_of (x : string) (l : list string) : option nat :=
  match l with
  | [] => None
  | y :: r => if String.eqb x y then Some 0 else match index_of x r with Some i => Some (S i) | None => None end
  end.

(* the row of a series: its position in NAMES, unless its attribute name is mangled *)
Definition row_of (names : list string) (x : string) : option nat := if mangled x then None else index_of x names.

Fixpoint assoc_stmt (n : string) (defs : list (string * sstmt)) : option sstmt :=
  match defs with
  | [] => None
  | (k, s) :: r => if String.eqb n k then Some s else assoc_stmt n r
  end.

(* ---- one-line verbatim statements: their text IS Python code and enters the class unchanged.  The code of the subset
   ( self._NAME[t] / [t+K] / [t-K], decimal literals, + - * / ** ( ) , np.exp np.log max min abs, comparisons, if / else /
   and / or / not ) is read into the same tokens as a script statement; anything else — other names, a newline (a fenced
   block), an index with blanks — is CBad: outside the subset, fail-closed. ---- *)
(* the text Term.__str__ appends for an integer index: [t] / [t+k] / [t-k] *)
Definition offset_text (z : Z) : string :=
  if (0 <? z)%Z then "[t+" ++ string_of_Z z ++ "]"
  else if (z =? 0)%Z then "[t]"
  else "[t" ++ string_of_Z z ++ "]".
(* the index of a series access in the code: exactly the canonical spelling [t] / [t+K] / [t-K] that Term.code writes
   (no blanks, no leading zeros, no +0): the text up to `]` is read as a decimal integer and must render back to itself *)
Definition code_index (s : string) : option (Z * string) :=
  match prefix_rest "[t" s with
  | Some r =>
    let '(body, r2) := span_while (fun c => negb (Ascii.eqb c "]")) r in
    match r2 with
    | String _ r3 =>
      match body with
      | "" => Some (0%Z, r3)
      | String b body' =>
        match NilZero.int_of_string (if Ascii.eqb b "+" then body' else body) with
        | Some d => let k := Z.of_int d in
                    if String.eqb (offset_text k) ("[t" ++ body ++ "]") then Some (k, r3) else None
        | None => None
        end
      end
    | "" => None
    end
  | None => None
  end.
Definition code_word (w : string) : ctok :=
  if String.eqb w "np.exp" || String.eqb w "np.log" || String.eqb w "max" || String.eqb w "min" || String.eqb w "abs" then CFun w
  else if String.eqb w "if" then CX XIf else if String.eqb w "else" then CX XElse
  else if String.eqb w "and" then CX XAnd else if String.eqb w "or" then CX XOr else if String.eqb w "not" then CX XNot
  else CBad.
(* a Python name with attribute parts: an identifier, then `.identifier` as long as a letter / underscore follows the dot
   (np.exp is one word; in `if.5` the word is `if` and `.5` is a number, as for CPython) *)
Fixpoint span_name (fuel : nat) (s : string) : string * string :=
  let '(w, r) := span_while is_idc s in
  match fuel with
  | S f =>
    match r with
    | String d (String a r') =>
      if Ascii.eqb d "." && is_alpha_ a then let '(w2, r2) := span_name f (String a r') in (w ++ String "." w2, r2) else (w, r)
    | _ => (w, r)
    end
  | O => (w, r)
  end.
Fixpoint lex_code (fuel : nat) (s : string) : list ctok :=
  match fuel with
  | O => [CBad]
  | S f =>
    match s with
    | "" => []
    | String c r =>
      if is_digit c || Ascii.eqb c "." then
        let '(num, rest) := span_while (fun d => is_digit d || Ascii.eqb d ".") s in
        match rest with
        | String d _ => if is_alpha_ d then [CBad] else CNum num :: lex_code f rest     (* `2self._X[t]`, `1e5`, `2j`: no *)
        | "" => [CNum num]
        end
      else if Ascii.eqb c "*" then
        match r with
        | String d r2 => if Ascii.eqb d "*" then CPow :: lex_code f r2 else CStar :: lex_code f r
        | "" => [CStar]
        end
      else if is_opc c then
        match r with
        | String d r2 => if Ascii.eqb d "=" then op2 c :: lex_code f r2 else op1 c :: lex_code f r
        | "" => [op1 c]
        end
      else if Ascii.eqb c nl then [CBad]
      else if is_space c then lex_code f r
      else if is_alpha_ c then
        match prefix_rest "self._" s with
        | Some r1 =>
          let '(name, r2) := span_while is_idc r1 in
          match code_index r2 with
          | Some (k, r3) => CRead name k :: lex_code f r3
          | None => [CBad]
          end
        | None => let '(w, r1) := span_name (String.length s) s in code_word w :: lex_code f r1
        end
      else tok_of_char c :: lex_code f r
    end
  end.
Definition stmt_of_code (row : string -> option nat) (code : string) : option (string * sstmt) :=
  stmt_of_tokens row (lex_code (S (String.length code)) code).

(* the statements the generated _evaluate runs, in its order: one per symbol that build_model_definition emits —
   an ENDOGENOUS symbol: the statement of the script that defines that name; a VERBATIM symbol: its own code *)
Definition program_of_symbols (syms : list symbol) (stmts : list string) : option (list string * sprogram) :=
  let names := names_of syms in
  match all_some (map (stmt_of_equation (row_of names))
                      (filter (fun st => negb (head_is "`" st && last_is "`" st)) stmts)) with
  | None => None
  | Some defs =>
    match all_some (map (fun s => match sname s with
                                  | Some n => assoc_stmt n defs
                                  | None => match scode s with
                                            | Some c => match stmt_of_code (row_of names) c with Some (_, st) => Some st | None => None end
                                            | None => None
                                            end
                                  end)
                        (filter emits syms)) with
    | Some prog => Some (names, prog)
    | None => None
    end
  end.

Definition program_of_script (script : string) : option (list string * sprogram) :=
  match parse_model_nocheck script, split_M script with
  | POk syms, (stmts, None) => program_of_symbols syms stmts
  | _, _ => None
  end.

(* ---- the tie between the generated CODE text and the statement the script denotes, decided statement by statement:
   reading the code text back (lex_code: the code's own spelling self._NAME[t+K], np.exp …) must give the very statement
   read from the script's tokens.  A script is accepted (program_of_script_checked) only when every one of its statements
   passes; so whatever the token-wise rendering does to a statement (two tokens fusing into one identifier, an index or a
   name changing meaning in the code's spelling, …) either leaves the statement unchanged or puts the script outside the
   subset — for every statement, not only for the defects already known (`fuses`, `mangled`). ---- *)
Definition binop_eqb (a b : binop) : bool :=
  match a, b with OAdd, OAdd | OSub, OSub | OMul, OMul | ODiv, ODiv | OPow, OPow => true | _, _ => false end.
Definition cmpop_eqb (a b : cmpop) : bool :=
  match a, b with CLt, CLt | CLe, CLe | CEq, CEq | CNe, CNe | CGt, CGt | CGe, CGe => true | _, _ => false end.
Fixpoint sexpr_eqb (a b : sexpr) : bool :=
  match a, b with
  | ENum x, ENum y => String.eqb x y
  | ERead x k, ERead y j => Nat.eqb x y && Z.eqb k j
  | ENeg a1, ENeg b1 => sexpr_eqb a1 b1
  | EAbs a1, EAbs b1 => sexpr_eqb a1 b1
  | EBin o a1 a2, EBin o' b1 b2 => binop_eqb o o' && sexpr_eqb a1 b1 && sexpr_eqb a2 b2
  | EMax a1 a2, EMax b1 b2 => sexpr_eqb a1 b1 && sexpr_eqb a2 b2
  | EMin a1 a2, EMin b1 b2 => sexpr_eqb a1 b1 && sexpr_eqb a2 b2
  | EIf o l r a1 a2, EIf o' l' r' b1 b2 =>
    cmpop_eqb o o' && sexpr_eqb l l' && sexpr_eqb r r' && sexpr_eqb a1 b1 && sexpr_eqb a2 b2
  | ECall1 g a1, ECall1 g' b1 => Nat.eqb g g' && sexpr_eqb a1 b1
  | ECall2 g a1 a2, ECall2 g' b1 b2 => Nat.eqb g g' && sexpr_eqb a1 b1 && sexpr_eqb a2 b2
  | _, _ => false
  end.
Definition named_stmt_eqb (a b : string * sstmt) : bool :=
  let '(y, SAssign i k e) := a in let '(y', SAssign i' k' e') := b in
  String.eqb y y' && Nat.eqb i i' && Z.eqb k k' && sexpr_eqb e e'.
(* an accepted statement must be read back from its code text *)
Definition code_agrees (row : string -> option nat) (eq : string) : bool :=
  match stmt_of_equation row eq with
  | None => true
  | Some s =>
    match code_text eq with
    | Some c => match stmt_of_code row c with Some s' => named_stmt_eqb s' s | None => false end
    | None => false
    end
  end.
Definition program_agrees (syms : list symbol) (stmts : list string) : bool :=
  forallb (code_agrees (row_of (names_of syms))) (filter (fun st => negb (head_is "`" st && last_is "`" st)) stmts).
Definition program_of_script_checked (script : string) : option (list string * sprogram) :=
  match parse_model_nocheck script, split_M script with
  | POk syms, (stmts, None) => if program_agrees syms stmts then program_of_symbols syms stmts else None
  | _, _ => None
  end.

(* ---- literals: text -> number ---- *)
Section Literals.
  Variables (A B : Type) (f : A -> B).
  Fixpoint expr_map (e : expr A) : expr B :=
    match e with
    | ENum x => ENum (f x)
    | ERead x k => ERead x k
    | ENeg a => ENeg (expr_map a)
    | EAbs a => EAbs (expr_map a)
    | EBin o a b => EBin o (expr_map a) (expr_map b)
    | EMax a b => EMax (expr_map a) (expr_map b)
    | EMin a b => EMin (expr_map a) (expr_map b)
    | EIf o l r a b => EIf o (expr_map l) (expr_map r) (expr_map a) (expr_map b)
    | ECall1 g a => ECall1 g (expr_map a)
    | ECall2 g a b => ECall2 g (expr_map a) (expr_map b)
    end.
  Definition stmt_map (s : stmt A) : stmt B := let 'SAssign y k e := s in SAssign y k (expr_map e).
  Definition program_map (p : program A) : program B := map stmt_map p.
End Literals.

(* ---- the series term a match denotes ---- *)
Definition is_series (k : kind) : bool := match k with KVariable | KParameter | KError => true | _ => false end.

(* (row of its name, the index written; 0 when none is written); nothing for functions, keywords, verbatim
   fragments and terms with a string (period-label) index *)
Definition match_read (row : string -> option nat) (m : tmatch) : list (option (nat * Z)) :=
  if is_series (mkind m) then
    match mk_index (mindex m) with
    | Ret (IInt k) => [match row (mname m) with Some i => Some (i, k) | None => None end]
    | _ => []
    end
  else [].


(* ---- what the script says, independently of trees: the series terms of a statement, in textual order ---- *)
Fixpoint tok_reads (row : string -> option nat) (ts : list ctok) : list (option (nat * Z)) :=
  match ts with
  | [] => []
  | CRead x k :: r => (match row x with Some i => Some (i, k) | None => None end) :: tok_reads row r
  | _ :: r => tok_reads row r
  end.

(* ---- when does the token-wise rendering preserve the token sequence?  `tight p l`: a decidable, LOCAL condition on the
   (normalised) items of a statement — p says how the code rendered so far ends (PDig: in a digit or dot; PWord: in a
   function name or keyword; PNone: anything else):
     - a character outside the matches is no letter / underscore and no newline, and directly after a function name or
       keyword it does not continue a word (no letter, digit, underscore, dot);
     - a match is a series term with an integer index whose code is self._NAME[t+K], or one of the functions / keywords of
       the subset whose code is that word, and does not directly follow a digit, a dot, a function name or a keyword
       (this is where `not{X}` -> `notself._X[t]` and `2{p}` -> `2self._p[t]` are excluded).
   CodeGenFacts15.lex_tie: for such item lists the code text is lexed (lex_code) into EXACTLY the tokens of the script. ---- *)
Inductive pclass : Type := PNone | PDig | PWord.
Definition digdot (c : ascii) : bool := is_digit c || Ascii.eqb c ".".
Fixpoint str_all (p : ascii -> bool) (s : string) : bool :=
  match s with "" => true | String c r => p c && str_all p r end.
Definition kw_text (x : xtok) : option string :=
  match x with XIf => Some "if" | XElse => Some "else" | XAnd => Some "and" | XOr => Some "or" | XNot => Some "not" | XCmp _ => None end.
Definition known_fun (w : string) : bool :=
  String.eqb w "np.exp" || String.eqb w "np.log" || String.eqb w "max" || String.eqb w "min" || String.eqb w "abs".
Definition tok_class (m : tmatch) : option pclass :=
  match tok_of_match m, code_of_match m with
  | CRead name k, Some c =>
    if is_series (mkind m) && str_all is_idc name && String.eqb c ("self._" ++ name ++ offset_text k) then Some PNone else None
  | CFun w, Some c => if known_fun w && String.eqb c w then Some PWord else None
  | CX x, Some c => match kw_text x with Some w => if String.eqb c w then Some PWord else None | None => None end
  | _, _ => None
  end.
Fixpoint tight (p : pclass) (l : list item) : bool :=
  match l with
  | [] => true
  | Chr c :: r =>
    negb (is_alpha_ c) && negb (Ascii.eqb c nl) && (match p with PWord => negb (is_fnc c) | _ => true end) &&
    tight (if digdot c then PDig else PNone) r
  | Tok _ m :: r => match p, tok_class m with PNone, Some q => tight q r | _, _ => false end
  end.
Definition tight_statement (eq : string) : bool := tight PNone (norm_items (scan_items eq)).
