(* CodeGenFacts8.v — the fuel of the tree parser only limits, never changes, its result (property C01):
   if a parse succeeds with some fuel it succeeds with every larger fuel, with the same tree and the same rest.
   So `tree_fuel` cannot make a statement mean something else; too little fuel can only yield None (fail-closed:
   the statement is then outside the modelled subset and K_pyast reports it). *)
From Coq Require Import String Ascii List Bool Arith ZArith Lia.
Import ListNotations.
Require Import Generated PyBase PyStr Lex Format Symbols Split Merge ParseEq ParseModel Eval CodeGen CodeGenFacts2.
Local Set Warnings "-deprecated".
Open Scope list_scope.

Section Mono.
  Variable row : string -> option nat.

  Definition mono1 (p : nat -> list ctok -> option (sexpr * list ctok)) (f : nat) : Prop :=
    forall ts r, p f ts = Some r -> p (S f) ts = Some r.
  Definition monoL (p : nat -> sexpr -> list ctok -> option (sexpr * list ctok)) (f : nat) : Prop :=
    forall acc ts r, p f acc ts = Some r -> p (S f) acc ts = Some r.
  Definition monoA (p : nat -> list ctok -> option (list sexpr * list ctok)) (f : nat) : Prop :=
    forall ts r, p f ts = Some r -> p (S f) ts = Some r.

  Lemma tree_mono_step f :
    mono1 (p_expr row) f /\ monoL (p_expr_loop row) f /\ mono1 (p_term row) f /\ monoL (p_term_loop row) f /\
    mono1 (p_factor row) f /\ mono1 (p_power row) f /\ mono1 (p_atom row) f /\ monoA (p_args row) f.
  Proof.
    induction f as [|f (IHe & IHel & IHt & IHtl & IHf & IHp & IHa & IHas)].
    - repeat split; red; intros; match goal with H : _ = Some _ |- _ => cbn in H; discriminate H end.
    - repeat split.
      + intros ts r H. rewrite p_expr_S in *.
        destruct (p_term row f ts) as [[a r1]|] eqn:E; [|discriminate]. rewrite (IHt _ _ E). apply IHel, H.
      + intros acc ts r H. rewrite p_expr_loop_S in *.
        destruct ts as [|[x k|g|s| | | | | | | | | | |xt] r0]; try exact H.
        * destruct (p_term row f r0) as [[b r1]|] eqn:E; [|discriminate]. rewrite (IHt _ _ E). apply IHel, H.
        * destruct (p_term row f r0) as [[b r1]|] eqn:E; [|discriminate]. rewrite (IHt _ _ E). apply IHel, H.
      + intros ts r H. rewrite p_term_S in *.
        destruct (p_factor row f ts) as [[a r1]|] eqn:E; [|discriminate]. rewrite (IHf _ _ E). apply IHtl, H.
      + intros acc ts r H. rewrite p_term_loop_S in *.
        destruct ts as [|[x k|g|s| | | | | | | | | | |xt] r0]; try exact H.
        * destruct (p_factor row f r0) as [[b r1]|] eqn:E; [|discriminate]. rewrite (IHf _ _ E). apply IHtl, H.
        * destruct (p_factor row f r0) as [[b r1]|] eqn:E; [|discriminate]. rewrite (IHf _ _ E). apply IHtl, H.
      + intros ts r H. rewrite p_factor_S in *.
        destruct ts as [|[x k|g|s| | | | | | | | | | |xt] r0]; try (apply IHp, H).
        destruct (p_factor row f r0) as [[a r1]|] eqn:E; [|discriminate]. rewrite (IHf _ _ E). exact H.
      + intros ts r H. rewrite p_power_S in *.
        destruct (p_atom row f ts) as [[a r1]|] eqn:E; [|discriminate]. rewrite (IHa _ _ E).
        destruct r1 as [|[x k|g|s| | | | | | | | | | |xt] r1]; try exact H.
        destruct (p_factor row f r1) as [[b r2]|] eqn:E2; [|discriminate]. rewrite (IHf _ _ E2). exact H.
      + intros ts r H. rewrite p_atom_S in *.
        destruct ts as [|[x k|g|s| | | | | | | | | | |xt] r0]; try exact H.
        * destruct r0 as [|[x k|g'|s| | | | | | | | | | |xt] r0]; try exact H.
          destruct (fun_kind g) as [k|]; [|discriminate].
          destruct (p_args row f r0) as [[args r1]|] eqn:E; [|discriminate]. rewrite (IHas _ _ E). exact H.
        * destruct (p_expr row f r0) as [[e r1]|] eqn:E; [|discriminate]. rewrite (IHe _ _ E). exact H.
      + intros ts r H. rewrite p_args_S in *.
        destruct (p_expr row f ts) as [[e r1]|] eqn:E; [|discriminate]. rewrite (IHe _ _ E).
        destruct r1 as [|[x k|g|s| | | | | | | | | | |xt] r1]; try exact H.
        destruct (p_args row f r1) as [[es r2]|] eqn:E2; [|discriminate]. rewrite (IHas _ _ E2). exact H.
  Qed.

  Theorem tree_fuel_monotone f f' ts r : f <= f' -> p_expr row f ts = Some r -> p_expr row f' ts = Some r.
  Proof.
    intros Hle H. induction Hle as [|f' _ IH]; [exact H|]. apply (proj1 (tree_mono_step f')). exact IH.
  Qed.
  Lemma mono_expr_loop f f' acc ts r : f <= f' -> p_expr_loop row f acc ts = Some r -> p_expr_loop row f' acc ts = Some r.
  Proof. intros Hle H. induction Hle as [|f' _ IH]; [exact H|]. apply (proj1 (proj2 (tree_mono_step f'))). exact IH. Qed.
  Lemma mono_term f f' ts r : f <= f' -> p_term row f ts = Some r -> p_term row f' ts = Some r.
  Proof. intros Hle H. induction Hle as [|f' _ IH]; [exact H|]. apply (proj1 (proj2 (proj2 (tree_mono_step f')))). exact IH. Qed.
  Lemma mono_term_loop f f' acc ts r : f <= f' -> p_term_loop row f acc ts = Some r -> p_term_loop row f' acc ts = Some r.
  Proof. intros Hle H. induction Hle as [|f' _ IH]; [exact H|]. apply (proj1 (proj2 (proj2 (proj2 (tree_mono_step f'))))). exact IH. Qed.
  Lemma mono_factor f f' ts r : f <= f' -> p_factor row f ts = Some r -> p_factor row f' ts = Some r.
  Proof. intros Hle H. induction Hle as [|f' _ IH]; [exact H|]. apply (proj1 (proj2 (proj2 (proj2 (proj2 (tree_mono_step f')))))). exact IH. Qed.
  Lemma mono_power f f' ts r : f <= f' -> p_power row f ts = Some r -> p_power row f' ts = Some r.
  Proof. intros Hle H. induction Hle as [|f' _ IH]; [exact H|]. apply (proj1 (proj2 (proj2 (proj2 (proj2 (proj2 (tree_mono_step f'))))))). exact IH. Qed.
  Lemma mono_atom f f' ts r : f <= f' -> p_atom row f ts = Some r -> p_atom row f' ts = Some r.
  Proof. intros Hle H. induction Hle as [|f' _ IH]; [exact H|]. apply (proj1 (proj2 (proj2 (proj2 (proj2 (proj2 (proj2 (tree_mono_step f')))))))). exact IH. Qed.
  Lemma mono_args f f' ts r : f <= f' -> p_args row f ts = Some r -> p_args row f' ts = Some r.
  Proof. intros Hle H. induction Hle as [|f' _ IH]; [exact H|]. apply (proj2 (proj2 (proj2 (proj2 (proj2 (proj2 (proj2 (tree_mono_step f')))))))). exact IH. Qed.

  Lemma mono_term' f ts r f' : p_term row f ts = Some r -> f <= f' -> p_term row f' ts = Some r.
  Proof. intros H L. exact (mono_term f f' ts r L H). Qed.
  Lemma mono_factor' f ts r f' : p_factor row f ts = Some r -> f <= f' -> p_factor row f' ts = Some r.
  Proof. intros H L. exact (mono_factor f f' ts r L H). Qed.
  Lemma mono_atom' f ts r f' : p_atom row f ts = Some r -> f <= f' -> p_atom row f' ts = Some r.
  Proof. intros H L. exact (mono_atom f f' ts r L H). Qed.
  Lemma mono_args' f ts r f' : p_args row f ts = Some r -> f <= f' -> p_args row f' ts = Some r.
  Proof. intros H L. exact (mono_args f f' ts r L H). Qed.
  Lemma mono_expr' f ts r f' : p_expr row f ts = Some r -> f <= f' -> p_expr row f' ts = Some r.
  Proof. intros H L. exact (tree_fuel_monotone f f' ts r L H). Qed.

  (* ---------- enough fuel: a parse that succeeds with ANY fuel succeeds with  c + 8 * (tokens consumed) ---------- *)
  Notation len := (@length ctok).
  Definition enough1 (c : nat) (p : nat -> list ctok -> option (sexpr * list ctok)) (f : nat) : Prop :=
    forall ts e rest, p f ts = Some (e, rest) ->
      len rest < len ts /\ p (c + 8 * (len ts - len rest)) ts = Some (e, rest).
  Definition enoughL (c : nat) (p : nat -> sexpr -> list ctok -> option (sexpr * list ctok)) (f : nat) : Prop :=
    forall acc ts e rest, p f acc ts = Some (e, rest) ->
      len rest <= len ts /\ p (c + 8 * (len ts - len rest)) acc ts = Some (e, rest).
  Definition enoughA (c : nat) (p : nat -> list ctok -> option (list sexpr * list ctok)) (f : nat) : Prop :=
    forall ts es rest, p f ts = Some (es, rest) ->
      len rest < len ts /\ p (c + 8 * (len ts - len rest)) ts = Some (es, rest).

  Lemma tree_enough f :
    enough1 5 (p_expr row) f /\ enoughL 1 (p_expr_loop row) f /\ enough1 4 (p_term row) f /\ enoughL 1 (p_term_loop row) f /\
    enough1 3 (p_factor row) f /\ enough1 2 (p_power row) f /\ enough1 1 (p_atom row) f /\ enoughA 1 (p_args row) f.
  Proof.
    induction f as [|f (IHe & IHel & IHt & IHtl & IHf & IHp & IHa & IHas)].
    - refine (conj _ (conj _ (conj _ (conj _ (conj _ (conj _ (conj _ _))))))); red; intros;
        match goal with H : _ = Some _ |- _ => cbn in H; discriminate H end.
    - refine (conj _ (conj _ (conj _ (conj _ (conj _ (conj _ (conj _ _))))))).
      + (* p_expr *) intros ts e rest H. rewrite p_expr_S in H.
        destruct (p_term row f ts) as [[a r1]|] eqn:E; [|discriminate].
        destruct (IHt _ _ _ E) as [L1 E1]. destruct (IHel _ _ _ _ H) as [L2 E2]. split; [lia|].
        replace (5 + 8 * (len ts - len rest)) with (S (4 + 8 * (len ts - len rest))) by lia. rewrite p_expr_S.
        rewrite (mono_term' _ _ _ (4 + 8 * (len ts - len rest)) E1 ltac:(lia)).
        apply (mono_expr_loop (1 + 8 * (len r1 - len rest))); [lia|exact E2].
      + (* p_expr_loop *) intros acc ts e rest H. rewrite p_expr_loop_S in H.
        destruct ts as [|[x k|g|s| | | | | | | | | | |xt] r0];
          try (inversion H; subst; split; [lia|]; rewrite Nat.sub_diag; reflexivity).
        * destruct (p_term row f r0) as [[b r1]|] eqn:E; [|discriminate].
          destruct (IHt _ _ _ E) as [L1 E1]. destruct (IHel _ _ _ _ H) as [L2 E2]. cbn [length]. split; [lia|].
          replace (1 + 8 * (S (len r0) - len rest)) with (S (8 * (S (len r0) - len rest))) by lia. rewrite p_expr_loop_S.
          rewrite (mono_term' _ _ _ (8 * (S (len r0) - len rest)) E1 ltac:(lia)).
          apply (mono_expr_loop (1 + 8 * (len r1 - len rest))); [lia|exact E2].
        * destruct (p_term row f r0) as [[b r1]|] eqn:E; [|discriminate].
          destruct (IHt _ _ _ E) as [L1 E1]. destruct (IHel _ _ _ _ H) as [L2 E2]. cbn [length]. split; [lia|].
          replace (1 + 8 * (S (len r0) - len rest)) with (S (8 * (S (len r0) - len rest))) by lia. rewrite p_expr_loop_S.
          rewrite (mono_term' _ _ _ (8 * (S (len r0) - len rest)) E1 ltac:(lia)).
          apply (mono_expr_loop (1 + 8 * (len r1 - len rest))); [lia|exact E2].
      + (* p_term *) intros ts e rest H. rewrite p_term_S in H.
        destruct (p_factor row f ts) as [[a r1]|] eqn:E; [|discriminate].
        destruct (IHf _ _ _ E) as [L1 E1]. destruct (IHtl _ _ _ _ H) as [L2 E2]. split; [lia|].
        replace (4 + 8 * (len ts - len rest)) with (S (3 + 8 * (len ts - len rest))) by lia. rewrite p_term_S.
        rewrite (mono_factor' _ _ _ (3 + 8 * (len ts - len rest)) E1 ltac:(lia)).
        apply (mono_term_loop (1 + 8 * (len r1 - len rest))); [lia|exact E2].
      + (* p_term_loop *) intros acc ts e rest H. rewrite p_term_loop_S in H.
        destruct ts as [|[x k|g|s| | | | | | | | | | |xt] r0];
          try (inversion H; subst; split; [lia|]; rewrite Nat.sub_diag; reflexivity).
        * destruct (p_factor row f r0) as [[b r1]|] eqn:E; [|discriminate].
          destruct (IHf _ _ _ E) as [L1 E1]. destruct (IHtl _ _ _ _ H) as [L2 E2]. cbn [length]. split; [lia|].
          replace (1 + 8 * (S (len r0) - len rest)) with (S (8 * (S (len r0) - len rest))) by lia. rewrite p_term_loop_S.
          rewrite (mono_factor' _ _ _ (8 * (S (len r0) - len rest)) E1 ltac:(lia)).
          apply (mono_term_loop (1 + 8 * (len r1 - len rest))); [lia|exact E2].
        * destruct (p_factor row f r0) as [[b r1]|] eqn:E; [|discriminate].
          destruct (IHf _ _ _ E) as [L1 E1]. destruct (IHtl _ _ _ _ H) as [L2 E2]. cbn [length]. split; [lia|].
          replace (1 + 8 * (S (len r0) - len rest)) with (S (8 * (S (len r0) - len rest))) by lia. rewrite p_term_loop_S.
          rewrite (mono_factor' _ _ _ (8 * (S (len r0) - len rest)) E1 ltac:(lia)).
          apply (mono_term_loop (1 + 8 * (len r1 - len rest))); [lia|exact E2].
      + (* p_factor *) intros ts e rest H. rewrite p_factor_S in H.
        assert (P : p_power row f ts = Some (e, rest) ->
                    len rest < len ts /\ p_power row (2 + 8 * (len ts - len rest)) ts = Some (e, rest)) by (apply IHp).
        destruct ts as [|[x k|g|s| | | | | | | | | | |xt] r0];
          try (destruct (P H) as [L1 E1]; split; [exact L1|];
               match goal with |- p_factor row (3 + 8 * ?n) ?t = _ =>
                 replace (3 + 8 * n) with (S (2 + 8 * n)) by lia; rewrite p_factor_S; exact E1 end).
        destruct (p_factor row f r0) as [[a r1]|] eqn:E; [|discriminate]. inversion H; subst.
        destruct (IHf _ _ _ E) as [L1 E1]. cbn [length]. split; [lia|].
        replace (3 + 8 * (S (len r0) - len rest)) with (S (2 + 8 * (S (len r0) - len rest))) by lia. rewrite p_factor_S.
        rewrite (mono_factor' _ _ _ (2 + 8 * (S (len r0) - len rest)) E1 ltac:(lia)). reflexivity.
      + (* p_power *) intros ts e rest H. rewrite p_power_S in H.
        destruct (p_atom row f ts) as [[a r1]|] eqn:E; [|discriminate]. destruct (IHa _ _ _ E) as [L1 E1].
        destruct r1 as [|[x k|g|s| | | | | | | | | | |xt] r1];
          try (inversion H; subst; split; [exact L1|];
               match goal with |- p_power row (2 + 8 * ?n) ?t = _ =>
                 replace (2 + 8 * n) with (S (1 + 8 * n)) by lia; rewrite p_power_S; rewrite E1; reflexivity end).
        destruct (p_factor row f r1) as [[b r2]|] eqn:E2; [|discriminate]. inversion H; subst.
        destruct (IHf _ _ _ E2) as [L2 E3]. cbn [length] in *. split; [lia|].
        replace (2 + 8 * (len ts - len rest)) with (S (1 + 8 * (len ts - len rest))) by lia. rewrite p_power_S.
        rewrite (mono_atom' _ _ _ (1 + 8 * (len ts - len rest)) E1 ltac:(lia)).
        rewrite (mono_factor' _ _ _ (1 + 8 * (len ts - len rest)) E3 ltac:(lia)). reflexivity.
      + (* p_atom *) intros ts e rest H. rewrite p_atom_S in H.
        destruct ts as [|[x k|g|s| | | | | | | | | | |xt] r0]; try discriminate.
        * destruct (row x) as [i|] eqn:Er; [|discriminate]. inversion H; subst. cbn [length]. split; [lia|].
          replace (1 + 8 * (S (len rest) - len rest)) with (S (8 * (S (len rest) - len rest))) by lia.
          rewrite p_atom_S, Er. reflexivity.
        * destruct r0 as [|[x k|g'|s| | | | | | | | | | |xt] r0]; try discriminate.
          destruct (fun_kind g) as [k|] eqn:Ek; [|discriminate].
          destruct (p_args row f r0) as [[args r1]|] eqn:E; [|discriminate].
          destruct (apply_fun k args) as [e'|] eqn:Ef; [|discriminate]. inversion H; subst.
          destruct (IHas _ _ _ E) as [L1 E1]. cbn [length]. split; [lia|].
          replace (1 + 8 * (S (S (len r0)) - len rest)) with (S (8 * (S (S (len r0)) - len rest))) by lia.
          rewrite p_atom_S, Ek. rewrite (mono_args' _ _ _ (8 * (S (S (len r0)) - len rest)) E1 ltac:(lia)), Ef. reflexivity.
        * destruct (num_ok s) eqn:En; [|discriminate]. inversion H; subst. cbn [length]. split; [lia|].
          replace (1 + 8 * (S (len rest) - len rest)) with (S (8 * (S (len rest) - len rest))) by lia.
          rewrite p_atom_S, En. reflexivity.
        * destruct (p_expr row f r0) as [[e' r1]|] eqn:E; [|discriminate].
          destruct r1 as [|[x k|g|s| | | | | | | | | | |xt] r1]; try discriminate. inversion H; subst.
          destruct (IHe _ _ _ E) as [L1 E1]. cbn [length] in *. split; [lia|].
          replace (1 + 8 * (S (len r0) - len rest)) with (S (8 * (S (len r0) - len rest))) by lia.
          rewrite p_atom_S. rewrite (mono_expr' _ _ _ (8 * (S (len r0) - len rest)) E1 ltac:(lia)). reflexivity.
      + (* p_args *) intros ts es rest H. rewrite p_args_S in H.
        destruct (p_expr row f ts) as [[e r1]|] eqn:E; [|discriminate]. destruct (IHe _ _ _ E) as [L1 E1].
        destruct r1 as [|[x k|g|s| | | | | | | | | | |xt] r1]; try discriminate.
        * inversion H; subst. cbn [length] in *. split; [lia|].
          replace (1 + 8 * (len ts - len rest)) with (S (8 * (len ts - len rest))) by lia. rewrite p_args_S.
          rewrite (mono_expr' _ _ _ (8 * (len ts - len rest)) E1 ltac:(lia)). reflexivity.
        * destruct (p_args row f r1) as [[es' r2]|] eqn:E2; [|discriminate]. inversion H; subst.
          destruct (IHas _ _ _ E2) as [L2 E3]. cbn [length] in *. split; [lia|].
          replace (1 + 8 * (len ts - len rest)) with (S (8 * (len ts - len rest))) by lia. rewrite p_args_S.
          rewrite (mono_expr' _ _ _ (8 * (len ts - len rest)) E1 ltac:(lia)).
          rewrite (mono_args' _ _ _ (8 * (len ts - len rest)) E3 ltac:(lia)). reflexivity.
  Qed.

  (* tree_fuel is always enough: whatever some fuel can parse, tree_fuel parses, with the same result *)
  Theorem tree_fuel_suffices f ts e rest :
    p_expr row f ts = Some (e, rest) -> p_expr row (tree_fuel ts) ts = Some (e, rest).
  Proof.
    intros H. destruct (proj1 (tree_enough f) _ _ _ H) as [L E].
    apply (tree_fuel_monotone (5 + 8 * (length ts - length rest))); [unfold tree_fuel; lia|exact E].
  Qed.
End Mono.
