(* CodeGenFacts7.v — the rendering of an index determines the index (property C01: "reading every variable at exactly
   the lag or lead written"): two different integers never render to the same [t…] text, so the code text pins down
   the offset of every series access. *)
From Coq Require Import String Ascii List Bool Arith ZArith Lia Decimal DecimalString DecimalPos DecimalZ.
Import ListNotations.
Require Import Generated PyBase PyStr Lex LexFacts Format Symbols Split Merge ParseEq ParseModel Eval CodeGen.
Open Scope string_scope.

Lemma to_int_proper z : Z.to_int z <> Pos Nil /\ Z.to_int z <> Neg Nil.
Proof.
  destruct z as [|p|p]; cbn [Z.to_int]; split; try discriminate.
  - intros H. inversion H as [E]. revert E. apply DecimalPos.Unsigned.to_uint_nonnil.
  - intros H. inversion H as [E]. revert E. apply DecimalPos.Unsigned.to_uint_nonnil.
Qed.

Theorem string_of_Z_injective a b : string_of_Z a = string_of_Z b -> a = b.
Proof.
  unfold string_of_Z. intros H.
  destruct (to_int_proper a) as [A1 A2]. destruct (to_int_proper b) as [B1 B2].
  pose proof (NilZero.isi _ A1 A2) as Ha. pose proof (NilZero.isi _ B1 B2) as Hb.
  rewrite H in Ha. rewrite Ha in Hb. inversion Hb as [E].
  rewrite <- (DecimalZ.of_to a), <- (DecimalZ.of_to b), E. reflexivity.
Qed.

Lemma app_inv_tail_s (a b t : string) : a ++ t = b ++ t -> a = b.
Proof.
  revert b. induction a as [|c a IH]; intros [|d b] H; cbn [append] in H.
  - reflexivity.
  - exfalso. assert (L : String.length t = String.length (String d (b ++ t))) by (rewrite <- H; reflexivity).
    cbn [String.length] in L. rewrite length_app_s in L. lia.
  - exfalso. assert (L : String.length (String c (a ++ t)) = String.length t) by (rewrite H; reflexivity).
    cbn [String.length] in L. rewrite length_app_s in L. lia.
  - inversion H; subst. f_equal. apply IH. assumption.
Qed.

Lemma neg_starts_minus p : exists s, string_of_Z (Zneg p) = String "-" s.
Proof. unfold string_of_Z. cbn [Z.to_int NilZero.string_of_int]. eexists. reflexivity. Qed.

Theorem offset_text_injective a b : offset_text a = offset_text b -> a = b.
Proof.
  unfold offset_text.
  destruct a as [|p|p], b as [|q|q]; cbn [Z.ltb Z.eqb Z.compare]; intros H; try reflexivity.
  - (* 0 / lead *) discriminate H.
  - (* 0 / lag *) destruct (neg_starts_minus q) as [s E]. rewrite E in H. discriminate H.
  - (* lead / 0 *) discriminate H.
  - (* lead / lead *) cbn [append] in H.
    apply (f_equal (fun s => match s with String _ (String _ (String _ r)) => r | _ => "" end)) in H. cbv beta iota in H.
    apply app_inv_tail_s in H. exact (string_of_Z_injective _ _ H).
  - (* lead / lag *) destruct (neg_starts_minus q) as [s E]. rewrite E in H. discriminate H.
  - (* lag / 0 *) destruct (neg_starts_minus p) as [s E]. rewrite E in H. discriminate H.
  - (* lag / lead *) destruct (neg_starts_minus p) as [s E]. rewrite E in H. discriminate H.
  - (* lag / lag *) cbn [append] in H.
    apply (f_equal (fun s => match s with String _ (String _ r) => r | _ => "" end)) in H. cbv beta iota in H.
    apply app_inv_tail_s in H. exact (string_of_Z_injective _ _ H).
Qed.
