(* CodeGenFacts.v — proofs about CodeGen.v, text level (property C01, first half).

   parse_equation_code_spec : for EVERY statement text that parse_equation accepts, that is not a backticked
     verbatim line, in which no match of term_re spans the first `=` and no brace occurs outside a match, the two
     strings the parser attaches to the left-hand symbols are
         code     = code_text eq      = the whitespace-normalised items, every match rendered by Term.code
         equation = equation_text eq  = the same items, every match rendered by Term.__str__
     i.e. the generated code is the statement text with each term replaced by its rendering and everything else
     (numerals, operators, parentheses, commas …) verbatim, whatever str.format, the span arithmetic of the
     right-to-left replacement and the three regex substitutions do.
   The renderings themselves: code_of_match_series / _function / _keyword / _verbatim below (Term.code case by case). *)
From Coq Require Import String Ascii List Bool Arith ZArith Lia.
Import ListNotations.
Require Import Generated PyBase PyStr Lex Format Symbols Split Merge ParseEq ParseModel Eval CodeGen.
Open Scope string_scope.
Open Scope nat_scope.

(* ---------- characters ---------- *)
Lemma space_lbrace : is_space "{" = false. Proof. reflexivity. Qed.
Lemma space_rbrace : is_space "}" = false. Proof. reflexivity. Qed.
Lemma lbrace_not_lpar : Ascii.eqb "{" "(" = false. Proof. reflexivity. Qed.
Lemma rbrace_not_lpar : Ascii.eqb "}" "(" = false. Proof. reflexivity. Qed.
Lemma lbrace_not_rpar : Ascii.eqb "{" ")" = false. Proof. reflexivity. Qed.

Lemma template_tok p m r : template_of (Tok p m :: r) = String "{" (String "}" (template_of r)).
Proof. reflexivity. Qed.

(* ---------- the three substitutions act on items ---------- *)
Lemma sub_ws_items l : forall b, sub_ws b (template_of l) = template_of (ws_items b l).
Proof.
  induction l as [|[c|p m] r IH]; intros b.
  - reflexivity.
  - cbn [template_of ws_items item_space sub_ws].
    destruct (is_space c); [destruct b|]; cbn [template_of]; rewrite IH; reflexivity.
  - rewrite template_tok. cbn [sub_ws]. rewrite space_lbrace, space_rbrace.
    cbn [ws_items item_space]. rewrite template_tok, IH. reflexivity.
Qed.

Lemma sub_open_items l : forall b, sub_open b (template_of l) = template_of (open_items b l).
Proof.
  induction l as [|[c|p m] r IH]; intros b.
  - reflexivity.
  - cbn [template_of open_items item_space item_is sub_open].
    destruct (b && is_space c); [apply IH|]. cbn [template_of]. rewrite IH. reflexivity.
  - rewrite template_tok. cbn [sub_open]. rewrite space_lbrace, andb_false_r, lbrace_not_lpar.
    cbn [andb]. rewrite rbrace_not_lpar.
    cbn [open_items item_space item_is]. rewrite andb_false_r, template_tok, IH. reflexivity.
Qed.

Lemma head_template l : head_is ")" (template_of l) = head_item_is ")" l.
Proof. destruct l as [|[c|p m] r]; reflexivity. Qed.

Lemma sub_close_items l : sub_close (template_of l) = template_of (close_items l).
Proof.
  induction l as [|[c|p m] r IH].
  - reflexivity.
  - cbn [template_of close_items item_space sub_close]. rewrite IH, head_template.
    destruct (is_space c && head_item_is ")" (close_items r)); reflexivity.
  - rewrite template_tok. cbn [sub_close]. rewrite space_lbrace, space_rbrace. cbn [andb].
    cbn [close_items item_space]. cbn [andb]. rewrite template_tok, IH. reflexivity.
Qed.

Theorem template_is_norm_items eq : template eq = template_of (norm_items (scan_items eq)).
Proof.
  unfold template, normalise_template, norm_items.
  rewrite sub_ws_items, sub_open_items, sub_close_items. reflexivity.
Qed.

(* ---------- the substitutions keep the matches, in order, and add no brace ---------- *)
Lemma matches_ws l : forall b, matches_of (ws_items b l) = matches_of l.
Proof.
  induction l as [|[c|p m] r IH]; intros b; cbn [ws_items item_space matches_of].
  - reflexivity.
  - destruct (is_space c); [destruct b|]; cbn [matches_of]; apply IH.
  - rewrite IH. reflexivity.
Qed.
Lemma matches_open l : forall b, matches_of (open_items b l) = matches_of l.
Proof.
  induction l as [|[c|p m] r IH]; intros b; cbn [open_items item_space item_is matches_of].
  - reflexivity.
  - destruct (b && is_space c); cbn [matches_of]; apply IH.
  - rewrite andb_false_r. cbn [matches_of]. rewrite IH. reflexivity.
Qed.
Lemma matches_close l : matches_of (close_items l) = matches_of l.
Proof.
  induction l as [|[c|p m] r IH]; cbn [close_items item_space matches_of].
  - reflexivity.
  - destruct (is_space c && head_item_is ")" (close_items r)); cbn [matches_of]; exact IH.
  - cbn [andb matches_of]. rewrite IH. reflexivity.
Qed.
Lemma matches_norm l : matches_of (norm_items l) = matches_of l.
Proof. unfold norm_items. rewrite matches_close, matches_open, matches_ws. reflexivity. Qed.

Lemma brace_free_ws l : forall b, gaps_brace_free l = true -> gaps_brace_free (ws_items b l) = true.
Proof.
  unfold gaps_brace_free.
  induction l as [|i r IH]; intros b H; cbn [ws_items forallb] in *; [reflexivity|].
  apply andb_true_iff in H as [H1 H2].
  destruct (item_space i); [destruct b|]; cbn [forallb].
  - apply IH, H2.
  - change (not_brace (Chr " ")) with true. cbn [andb]. apply IH, H2.
  - rewrite H1. cbn [andb]. apply IH, H2.
Qed.
Lemma brace_free_open l : forall b, gaps_brace_free l = true -> gaps_brace_free (open_items b l) = true.
Proof.
  unfold gaps_brace_free.
  induction l as [|i r IH]; intros b H; cbn [open_items forallb] in *; [reflexivity|].
  apply andb_true_iff in H as [H1 H2].
  destruct (b && item_space i); cbn [forallb]; [apply IH, H2|].
  rewrite H1. cbn [andb]. apply IH, H2.
Qed.
Lemma brace_free_close l : gaps_brace_free l = true -> gaps_brace_free (close_items l) = true.
Proof.
  unfold gaps_brace_free.
  induction l as [|i r IH]; intros H; cbn [close_items forallb] in *; [reflexivity|].
  apply andb_true_iff in H as [H1 H2].
  destruct (item_space i && head_item_is ")" (close_items r)); cbn [forallb]; [apply IH, H2|].
  rewrite H1. cbn [andb]. apply IH, H2.
Qed.
Lemma brace_free_norm l : gaps_brace_free l = true -> gaps_brace_free (norm_items l) = true.
Proof. intros H. unfold norm_items. apply brace_free_close, brace_free_open, brace_free_ws, H. Qed.

(* ---------- str.format on such a template = positional filling ---------- *)
Definition ftok_of_item (i : item) : ftok := match i with Chr c => FLit c | Tok _ _ => FAuto end.

Lemma ftokens_template l : gaps_brace_free l = true -> ftokens MText (template_of l) = map ftok_of_item l.
Proof.
  unfold gaps_brace_free.
  induction l as [|[c|p m] r IH]; intros H; cbn [forallb not_brace] in H.
  - reflexivity.
  - apply andb_true_iff in H as [H1 H2]. apply negb_true_iff, orb_false_iff in H1 as [Ha Hb].
    cbn [template_of ftokens map ftok_of_item]. rewrite Ha, Hb, (IH H2). reflexivity.
  - rewrite template_tok. cbn [ftokens map ftok_of_item]. cbn [andb] in H.
    change (Ascii.eqb "{" "{") with true. change (Ascii.eqb "}" "{") with false. change (Ascii.eqb "}" "}") with true.
    cbv iota. rewrite (IH H). reflexivity.
Qed.

Lemma skipn_nth_some {A} (l : list A) : forall k a, nth_error l k = Some a -> skipn k l = a :: skipn (S k) l.
Proof. induction l as [|x l IH]; intros [|k] a H; cbn in *; try discriminate; [inversion H; reflexivity|apply IH, H]. Qed.
Lemma skipn_nth_none {A} (l : list A) : forall k, nth_error l k = None -> skipn k l = [].
Proof. induction l as [|x l IH]; intros [|k] H; cbn in *; try discriminate; auto. Qed.

Lemma ffill_items args l : forall k num, num <> NManual ->
  ffill args k num (map ftok_of_item l) =
  match fill_items l (skipn k args) with Some s => FOk s | None => FFail end.
Proof.
  induction l as [|[c|p m] r IH]; intros k num Hn; cbn [map ftok_of_item ffill fill_items].
  - reflexivity.
  - rewrite (IH k num Hn). destruct (fill_items r (skipn k args)); reflexivity.
  - destruct (nth_error args k) as [a|] eqn:E.
    + rewrite (skipn_nth_some _ _ _ E). rewrite (IH (S k) NAuto) by discriminate.
      destruct num; try congruence; destruct (fill_items r (skipn (S k) args)); reflexivity.
    + rewrite (skipn_nth_none _ _ E). destruct num; try congruence; reflexivity.
Qed.

Theorem py_format_fill l args : gaps_brace_free l = true ->
  py_format (template_of l) args = match fill_items l args with Some s => FOk s | None => FFail end.
Proof.
  intros H. unfold py_format. rewrite (ftokens_template l H). rewrite ffill_items by discriminate. reflexivity.
Qed.

(* ---------- filling with the renderings of the matches = rendering the items ---------- *)
Lemma fill_render f l : forall args, all_some (map f (matches_of l)) = Some args -> fill_items l args = render_items f l.
Proof.
  induction l as [|[c|p m] r IH]; intros args H; cbn [matches_of map all_some fill_items render_items] in *.
  - reflexivity.
  - rewrite (IH args H). reflexivity.
  - destruct (f m) as [a|]; [|discriminate].
    destruct (all_some (map f (matches_of r))) as [as'|] eqn:E; [|discriminate].
    inversion H; subst. rewrite (IH as' eq_refl). reflexivity.
Qed.
Lemma render_some f l args : all_some (map f (matches_of l)) = Some args -> exists s, render_items f l = Some s.
Proof.
  revert args. induction l as [|[c|p m] r IH]; intros args H; cbn [matches_of map all_some render_items] in *.
  - eexists; reflexivity.
  - destruct (IH args H) as [s ->]. eexists; reflexivity.
  - destruct (f m) as [a|]; [|discriminate].
    destruct (all_some (map f (matches_of r))) as [as'|] eqn:E; [|discriminate].
    destruct (IH as' eq_refl) as [s ->]. eexists; reflexivity.
Qed.

(* ---------- the terms of parse_equation_terms and the matches of the whole statement ---------- *)
Lemma term_str_replace ty t : ty = TEndogenous \/ ty = TExogenous -> term_str (replace_type ty t) = term_str t.
Proof. intros [-> | ->]; destruct t as [n [] i]; reflexivity. Qed.
Lemma term_code_replace ty t : ty = TEndogenous \/ ty = TExogenous -> term_code (replace_type ty t) = term_code t.
Proof. intros [-> | ->]; destruct t as [n [] i]; reflexivity. Qed.

Lemma map_o_render (g : term -> option string) ms : forall ts,
  map_o mk_term ms = Ret ts ->
  map g ts = map (fun m => match mk_term m with Ret t => g t | Raise _ => None end) ms.
Proof.
  induction ms as [|m r IH]; intros ts H; cbn [map_o] in H.
  - inversion H; reflexivity.
  - destruct (mk_term m) as [t|e] eqn:E; [|discriminate].
    destruct (map_o mk_term r) as [ts'|e]; [|discriminate]. inversion H; subst.
    cbn [map]. rewrite E, (IH ts' eq_refl). reflexivity.
Qed.

Lemma terms_render (g : term -> option string) eq terms :
  (forall ty t, ty = TEndogenous \/ ty = TExogenous -> g (replace_type ty t) = g t) ->
  aligned eq -> parse_equation_terms eq = Ret terms ->
  map g terms = map (fun m => match mk_term m with Ret t => g t | Raise _ => None end) (matches_of (scan_items eq)).
Proof.
  intros Hg Hal H. unfold aligned in Hal. unfold parse_equation_terms in H.
  destruct (find_any "=" eq) as [[l r]|]; [|contradiction].
  unfold parse_terms in H.
  destruct (map_o mk_term (matches_of (scan_items l))) as [l0|e] eqn:El; [|discriminate].
  destruct (map_o mk_term (matches_of (scan_items r))) as [r0|e] eqn:Er; [|discriminate].
  destruct (has_type TKeyword (map (replace_type TEndogenous) l0) || has_type TInvalid (map (replace_type TExogenous) r0)); [discriminate|].
  destruct (negb (has_type TEndogenous (map (replace_type TEndogenous) l0))); [discriminate|].
  inversion H; subst. rewrite Hal, !map_app, !map_map.
  rewrite <- (map_o_render g _ _ El), <- (map_o_render g _ _ Er).
  f_equal; apply map_ext; intros t; apply Hg; auto.
Qed.

(* ---------- the main text-level theorem ---------- *)
Theorem parse_equation_code_spec eq syms :
  parse_equation_M eq = POk syms ->
  is_blank eq = false -> head_is "`" eq && last_is "`" eq = false ->
  aligned eq -> gaps_brace_free (scan_items eq) = true ->
  exists terms std code,
    parse_equation_terms eq = Ret terms /\
    equation_text eq = Some std /\ code_text eq = Some code /\
    equation_symbols std code terms = Ret syms.
Proof.
  intros H Hb Hv Hal Hbf. unfold parse_equation_M in H. rewrite Hb, Hv in H.
  destruct (split_M eq) as [stmts [e|]]; [discriminate|].
  destruct (negb (length stmts =? 1)); [discriminate|].
  destruct (negb (count_char "{" eq =? count_char "}" eq)); [discriminate|].
  destruct (parse_equation_terms eq) as [terms|e] eqn:Et; [|discriminate].
  pose proof (terms_render term_str eq terms term_str_replace Hal Et) as Hs.
  pose proof (terms_render term_code eq terms term_code_replace Hal Et) as Hc.
  fold str_of_match in Hs. fold code_of_match in Hc.
  change (fun m => match mk_term m with Ret t => term_str t | Raise _ => None end) with str_of_match in Hs.
  change (fun m => match mk_term m with Ret t => term_code t | Raise _ => None end) with code_of_match in Hc.
  rewrite Hs, Hc in H. rewrite template_is_norm_items in H.
  rewrite <- (matches_norm (scan_items eq)) in H.
  pose proof (brace_free_norm _ Hbf) as Hbf'.
  destruct (all_some (map str_of_match (matches_of (norm_items (scan_items eq))))) as [strs|] eqn:Es;
    [|destruct (all_some (map code_of_match (matches_of (norm_items (scan_items eq))))); discriminate].
  destruct (all_some (map code_of_match (matches_of (norm_items (scan_items eq))))) as [codes|] eqn:Ec; [|discriminate].
  rewrite !(py_format_fill _ _ Hbf') in H.
  rewrite (fill_render _ _ _ Es), (fill_render _ _ _ Ec) in H.
  destruct (render_some _ _ _ Es) as [std Hstd]. destruct (render_some _ _ _ Ec) as [code Hcode].
  rewrite Hstd, Hcode in H.
  exists terms, std, code. repeat split; auto.
  destruct (equation_symbols std code terms) as [x|e]; cbn [of_outcome] in H; inversion H; reflexivity.
Qed.

(* ====================================================================================================== *)
(* Term.code / Term.__str__ case by case                                                                  *)
(* ====================================================================================================== *)

(* VARIABLE, {PARAMETER}, <ERROR> with an integer index k: all three are rendered as the same kind of series access *)
Theorem render_series m k :
  is_series (mkind m) = true -> mk_index (mindex m) = Ret (IInt k) ->
  code_of_match m = Some ("self._" ++ mname m ++ offset_text k) /\
  str_of_match m = Some (mname m ++ offset_text k).
Proof.
  intros Hk Hi. unfold code_of_match, str_of_match, mk_term.
  destruct (mkind m); try discriminate Hk; rewrite Hi; split; reflexivity.
Qed.

(* no index written = the current period *)
Lemma no_index_is_current : mk_index None = Ret (IInt 0%Z).
Proof. reflexivity. Qed.
Lemma offset_zero : offset_text 0%Z = "[t]".
Proof. reflexivity. Qed.
(* an index text that is not a quoted / backticked period label and that int() accepts *)
Lemma int_index i z :
  quoted_by "'" i || quoted_by """" i = false -> quoted_by "`" i = false -> py_int i = Some z ->
  mk_index (Some i) = Ret (IInt z).
Proof. intros H1 H2 H3. unfold mk_index. rewrite H1, H2, H3. reflexivity. Qed.

Corollary render_series_no_index m :
  is_series (mkind m) = true -> mindex m = None ->
  code_of_match m = Some ("self._" ++ mname m ++ "[t]") /\ str_of_match m = Some (mname m ++ "[t]").
Proof. intros Hk Hi. apply (render_series m 0%Z Hk). rewrite Hi. reflexivity. Qed.

Lemma offset_lead z : (0 < z)%Z -> offset_text z = "[t+" ++ string_of_Z z ++ "]".
Proof. intros H. unfold offset_text. replace (0 <? z)%Z with true by (symmetry; apply Z.ltb_lt; lia). reflexivity. Qed.
Lemma offset_lag z : (z < 0)%Z -> offset_text z = "[t" ++ string_of_Z z ++ "]".
Proof.
  intros H. unfold offset_text.
  replace (0 <? z)%Z with false by (symmetry; apply Z.ltb_ge; lia).
  replace (z =? 0)%Z with false by (symmetry; apply Z.eqb_neq; lia). reflexivity.
Qed.

(* functions: the replacement table, nothing else *)
Theorem render_function m :
  mkind m = KFunction ->
  code_of_match m = Some (match assoc_s (mname m) replacement_function_names with Some v => v | None => mname m end) /\
  str_of_match m = Some (mname m).
Proof. intros Hk. unfold code_of_match, str_of_match, mk_term. rewrite Hk. split; reflexivity. Qed.

(* the table is what the property says (regenerated from the source on every check) *)
Lemma replacement_table_is :
  replacement_function_names = [("exp", "np.exp"); ("log", "np.log"); ("max", "max"); ("min", "min")].
Proof. reflexivity. Qed.

(* a namespaced function (a dot in its name) is never replaced *)
Lemma namespaced_untouched f : has_char "." f = true -> assoc_s f replacement_function_names = None.
Proof.
  intros H. rewrite replacement_table_is. cbn [assoc_s].
  repeat match goal with
         | |- context [String.eqb f ?k] =>
           destruct (String.eqb_spec f k) as [->|_]; [discriminate H|]
         end.
  reflexivity.
Qed.

(* keywords stay as they are: none of them is a key of the table *)
Lemma keywords_not_replaced : forallb (fun k => match assoc_s k replacement_function_names with None => true | Some _ => false end) KW = true.
Proof. vm_compute. reflexivity. Qed.
Theorem render_keyword m :
  mkind m = KKeyword -> In (mname m) KW ->
  code_of_match m = Some (mname m) /\ str_of_match m = Some (mname m).
Proof.
  intros Hk Hin. unfold code_of_match, str_of_match, mk_term. rewrite Hk. cbn [term_code term_str ttype tname kind_type].
  pose proof (proj1 (forallb_forall _ _) keywords_not_replaced _ Hin) as H.
  cbn beta in H. destruct (assoc_s (mname m) replacement_function_names); [discriminate H|]. split; reflexivity.
Qed.

(* a backticked fragment: the text without its backticks, in the code; unchanged in the normalised equation *)
Theorem render_verbatim m :
  mkind m = KVerbatim -> mindex m = None ->
  code_of_match m = Some (strip_by (fun c => Ascii.eqb c "`") (mname m)) /\ str_of_match m = Some (mname m).
Proof. intros Hk Hi. unfold code_of_match, str_of_match, mk_term. rewrite Hk, Hi. split; reflexivity. Qed.

(* the boolean guard implies the alignment premise *)
Lemma kind_eqb_eq a b : kind_eqb a b = true -> a = b.
Proof. destruct a, b; cbn; intros H; try discriminate; reflexivity. Qed.
Lemma opt_string_eqb_eq a b : opt_string_eqb a b = true -> a = b.
Proof. destruct a, b; cbn; intros H; try discriminate; [apply String.eqb_eq in H; subst|]; reflexivity. Qed.
Lemma tmatch_eqb_eq a b : tmatch_eqb a b = true -> a = b.
Proof.
  unfold tmatch_eqb. intros H. apply andb_true_iff in H as [H H4]. apply andb_true_iff in H as [H H3].
  apply andb_true_iff in H as [H1 H2]. destruct a, b; simpl in *.
  apply kind_eqb_eq in H1. apply String.eqb_eq in H2. apply opt_string_eqb_eq in H3. apply Nat.eqb_eq in H4.
  subst. reflexivity.
Qed.
Lemma matches_eqb_eq a : forall b, matches_eqb a b = true -> a = b.
Proof.
  induction a as [|x a IH]; intros [|y b] H; cbn [matches_eqb] in H; try discriminate; [reflexivity|].
  apply andb_true_iff in H as [H1 H2]. apply tmatch_eqb_eq in H1. apply IH in H2. subst. reflexivity.
Qed.
Lemma aligned_b_sound eq : aligned_b eq = true -> aligned eq.
Proof.
  unfold aligned_b, aligned. destruct (find_any "=" eq) as [[l r]|]; [|discriminate]. apply matches_eqb_eq.
Qed.

(* parse_equation_code_spec with its guard as one boolean *)
Corollary parse_equation_code_spec_b eq syms :
  parse_equation_M eq = POk syms ->
  is_blank eq = false -> head_is "`" eq && last_is "`" eq = false -> text_guard eq = true ->
  exists terms std code,
    parse_equation_terms eq = Ret terms /\
    equation_text eq = Some std /\ code_text eq = Some code /\
    equation_symbols std code terms = Ret syms.
Proof.
  intros H Hb Hv Hg. unfold text_guard in Hg. apply andb_true_iff in Hg as [Ha Hf]. apply andb_true_iff in Ha as [_ Ha].
  apply (parse_equation_code_spec eq syms H Hb Hv (aligned_b_sound _ Ha) Hf).
Qed.
