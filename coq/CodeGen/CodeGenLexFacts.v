(* CodeGenLexFacts.v — how term_re lexes the terms of the documented syntax, for ALL names (property C01: identifiers,
   keyword-prefixed names such as is_open / Pin / not_X, names that collide with function names, signed and
   several-digit indexes, { p } and < e > with inner blanks, function names followed by blanks).

   An identifier that is not a Python keyword, in a context that does not continue it, is lexed as
       NAME rest               -> VARIABLE NAME, no index            (match_here_variable)
       NAME[ body ] rest       -> VARIABLE NAME, index = body stripped (match_here_variable_indexed)
       { NAME } [ body ]? rest -> PARAMETER NAME (+ index)            (match_here_parameter)
       < NAME > [ body ]? rest -> ERROR NAME (+ index)                (match_here_error)
       NAME blanks ( …         -> FUNCTION NAME                      (match_here_function)
   whatever the keyword list regenerated in Generated.v is (the only facts used about it: its entries are identifiers).
   Built on the helpers of Parser/LexFacts.v (owned by the parser properties). *)
From Coq Require Import String Ascii List Bool Arith Lia.
Import ListNotations.
Require Import Generated PyStr Lex LexFacts.
Open Scope string_scope.
Open Scope nat_scope.

(* an identifier: [_A-Za-z][_A-Za-z0-9]* *)
Definition ident (s : string) : bool :=
  match s with String c r => is_alpha_ c && all_chars is_idc r | "" => false end.

Lemma ident_idc s : ident s = true -> all_chars is_idc s = true.
Proof.
  destruct s as [|c r]; cbn [ident all_chars]; [discriminate|]. intros H. apply andb_true_iff in H as [H1 H2].
  rewrite (alpha_idc c H1), H2. reflexivity.
Qed.

(* try_invalid fails on an identifier that is no keyword, whatever follows (LexFacts.try_invalid_none asks for more) *)
Lemma try_invalid_ident kws name rest :
  forallb (all_chars is_idc) kws = true -> ~ In name kws ->
  all_chars is_idc name = true -> head_ok (fun c => negb (is_idc c)) rest = true ->
  try_invalid kws (name ++ rest) = None.
Proof.
  intros Hk Hnin Hn Hr. induction kws as [|k kws IH]; cbn [try_invalid]; [reflexivity|].
  cbn [forallb] in Hk. apply andb_true_iff in Hk as [Hk1 Hk].
  assert (IH' : try_invalid kws (name ++ rest) = None) by (apply IH; [exact Hk | intros HI; apply Hnin; right; exact HI]).
  destruct (prefix_rest k (name ++ rest)) as [r|] eqn:E; [|exact IH'].
  apply prefix_rest_some in E. symmetry in E.
  destruct (split_ident k name rest r Hk1 Hn Hr E) as (m & Hm & ->).
  destruct m as [|c m].
  - exfalso. apply Hnin. left. rewrite Hm. symmetry. apply app_nil_r_s.
  - subst name. assert (Hc : is_idc c = true).
    { clear - Hn. induction k as [|a k IHk]; cbn in *; apply andb_true_iff in Hn as [H1 H2]; [exact H1|apply IHk, H2]. }
    destruct (idc_facts c Hc) as (_ & _ & Hs & _ & _ & _ & Hb & _).
    cbn [append span_while]. rewrite Hs, Hb. exact IH'.
Qed.

(* the first three alternatives of term_re (verbatim, invalid, keyword) fail on such a name *)
Lemma head_alternatives_fail (pw : bool) name rest :
  ident name = true -> ~ In name KW -> head_ok (fun c => negb (is_idc c)) rest = true ->
  try_verbatim (name ++ rest) = None /\ try_invalid KW (name ++ rest) = None /\
  (if pw then None else try_keyword KW (name ++ rest)) = @None tmatch.
Proof.
  intros Hi Hk Hr. pose proof (ident_idc _ Hi) as Hn. repeat split.
  - destruct name as [|c n]; [discriminate|]. cbn [ident] in Hi. apply andb_true_iff in Hi as [Ha _].
    destruct (idc_facts c (alpha_idc c Ha)) as (_ & _ & _ & Hb & _).
    cbn [append]. unfold try_verbatim. destruct (n ++ rest); [reflexivity|]. rewrite Hb. reflexivity.
  - exact (try_invalid_ident KW name rest kw_ident Hk Hn Hr).
  - destruct pw; [reflexivity|]. exact (try_keyword_none KW name rest kw_ident Hk Hn Hr).
Qed.

(* what may follow a plain variable: nothing that continues the name, opens an index or makes it a function *)
Definition var_follow (rest : string) : bool :=
  head_ok (fun c => negb (is_fnc c) && negb (Ascii.eqb c "[")) rest &&
  head_ok (fun c => negb (Ascii.eqb c "(")) (skip_ws rest).

Lemma var_follow_inv rest : var_follow rest = true ->
  head_ok (fun c => negb (is_fnc c)) rest = true /\ head_ok (fun c => negb (is_idc c)) rest = true /\
  head_ok (fun c => negb (Ascii.eqb c "[")) rest = true /\ head_ok (fun c => negb (Ascii.eqb c "(")) (skip_ws rest) = true.
Proof.
  unfold var_follow. intros H. apply andb_true_iff in H as [H1 H2].
  destruct rest as [|c r]; cbn [head_ok] in *; [auto|].
  apply andb_true_iff in H1 as [Ha Hb]. repeat split; auto.
  apply negb_true_iff in Ha. rewrite (not_fnc_not_idc c Ha). reflexivity.
Qed.

Lemma try_function_none name rest :
  ident name = true -> var_follow rest = true -> try_function (name ++ rest) = None.
Proof.
  intros Hi Hf. destruct (var_follow_inv rest Hf) as (H1 & _ & _ & H4).
  pose proof (all_idc_fnc _ (ident_idc _ Hi)) as Hn.
  unfold try_function. destruct name as [|c n]; [discriminate|]. cbn [append].
  cbn [ident] in Hi. apply andb_true_iff in Hi as [Ha _]. rewrite Ha.
  change (String c (n ++ rest)) with (String c n ++ rest). rewrite (span_while_app is_fnc _ _ Hn H1).
  unfold skip_ws in H4. destruct (span_while is_space rest) as [ws r2]. cbn [snd] in H4.
  destruct r2 as [|d r3]; [reflexivity|]. cbn [head_ok] in H4. apply negb_true_iff in H4. rewrite H4. reflexivity.
Qed.

Lemma try_bracketed_none op cl k name rest :
  ident name = true -> (op = "{" \/ op = "<")%char -> try_bracketed op cl k (name ++ rest) = None.
Proof.
  intros Hi Ho. destruct name as [|c n]; [discriminate|]. cbn [append ident] in *.
  apply andb_true_iff in Hi as [Ha _]. destruct (idc_facts c (alpha_idc c Ha)) as (_ & _ & _ & _ & Hb & Hl & _).
  unfold try_bracketed. destruct Ho as [-> | ->]; [rewrite Hb|rewrite Hl]; reflexivity.
Qed.

Lemma index_group_none rest : head_ok (fun c => negb (Ascii.eqb c "[")) rest = true -> index_group rest = None.
Proof. destruct rest as [|c r]; cbn [head_ok index_group]; [reflexivity|]. intros H. apply negb_true_iff in H. rewrite H. reflexivity. Qed.

(* ---------- NAME rest ---------- *)
Theorem match_here_variable pw name rest :
  ident name = true -> ~ In name KW -> var_follow rest = true ->
  match_here pw (name ++ rest) = Some (mkMatch KVariable name None (String.length name)).
Proof.
  intros Hi Hk Hf. destruct (var_follow_inv rest Hf) as (H1 & H2 & H3 & H4).
  destruct (head_alternatives_fail pw name rest Hi Hk H2) as (V & I & K).
  unfold match_here, or_else. rewrite V, I, K, (try_function_none name rest Hi Hf).
  rewrite (try_bracketed_none "{" "}" KParameter name rest Hi (or_introl eq_refl)).
  rewrite (try_bracketed_none "<" ">" KError name rest Hi (or_intror eq_refl)).
  unfold try_variable. pose proof (ident_idc _ Hi) as Hn.
  destruct name as [|c n]; [discriminate|]. cbn [append]. cbn [ident] in Hi. apply andb_true_iff in Hi as [Ha _]. rewrite Ha.
  change (String c (n ++ rest)) with (String c n ++ rest). rewrite (span_while_app is_idc _ _ Hn H2).
  unfold with_index. rewrite (index_group_none rest H3). reflexivity.
Qed.

(* ---------- helpers on strings ---------- *)
Lemma head_ok_app p a b : head_ok p a = true -> head_ok p b = true -> head_ok p (a ++ b) = true.
Proof. destruct a as [|c a]; cbn [append head_ok]; auto. Qed.
Lemma head_ok_all p a b : all_chars p a = true -> head_ok p b = true -> head_ok p (a ++ b) = true.
Proof. destruct a as [|c a]; cbn [append head_ok all_chars]; auto. intros H _. apply andb_true_iff in H as [H _]. exact H. Qed.

Lemma find_any_app ch body rest : has_char ch body = false -> find_any ch (body ++ String ch rest) = Some (body, rest).
Proof.
  induction body as [|c b IH]; cbn [append find_any has_char]; intros H.
  - rewrite Ascii.eqb_refl. reflexivity.
  - apply orb_false_iff in H as [H1 H2]. rewrite H1, (IH H2). reflexivity.
Qed.

Lemma space_facts c : is_space c = true ->
  is_idc c = false /\ is_fnc c = false /\ Ascii.eqb c "(" = false /\ Ascii.eqb c "[" = false /\ Ascii.eqb c "}" = false /\ Ascii.eqb c ">" = false.
Proof.
  pose proof (ascii_sweep (fun c => implb (is_space c)
     (negb (is_idc c) && negb (is_fnc c) && negb (Ascii.eqb c "(") && negb (Ascii.eqb c "[") && negb (Ascii.eqb c "}") && negb (Ascii.eqb c ">")))
     eq_refl c) as H.
  intros Hc. cbv beta in H. rewrite Hc in H. cbn [implb] in H.
  repeat (apply andb_true_iff in H as [H ?]). repeat split; apply negb_true_iff; assumption.
Qed.

(* ---------- NAME[ body ] rest ---------- *)
Lemma try_function_none' name rest :
  ident name = true -> head_ok (fun c => negb (is_fnc c)) rest = true ->
  head_ok (fun c => negb (Ascii.eqb c "(")) (skip_ws rest) = true -> try_function (name ++ rest) = None.
Proof.
  intros Hi H1 H4. pose proof (all_idc_fnc _ (ident_idc _ Hi)) as Hn.
  unfold try_function. destruct name as [|c n]; [discriminate|]. cbn [append].
  cbn [ident] in Hi. apply andb_true_iff in Hi as [Ha _]. rewrite Ha.
  change (String c (n ++ rest)) with (String c n ++ rest). rewrite (span_while_app is_fnc _ _ Hn H1).
  unfold skip_ws in H4. destruct (span_while is_space rest) as [ws r2]. cbn [snd] in H4.
  destruct r2 as [|d r3]; [reflexivity|]. cbn [head_ok] in H4. apply negb_true_iff in H4. rewrite H4. reflexivity.
Qed.

Lemma index_group_some body rest :
  has_char "]" body = false -> has_nl (re_strip body) = false ->
  index_group (String "[" (body ++ String "]" rest)) = Some (re_strip body, 2 + String.length body).
Proof.
  intros Hb Hn. cbn [index_group]. change (Ascii.eqb "[" "[") with true. cbv iota.
  rewrite (find_any_app "]" body rest Hb), Hn. reflexivity.
Qed.

Theorem match_here_variable_indexed pw name body rest :
  ident name = true -> ~ In name KW ->
  has_char "]" body = false -> has_nl (re_strip body) = false ->
  match_here pw (name ++ String "[" (body ++ String "]" rest))
  = Some (mkMatch KVariable name (Some (re_strip body)) (String.length name + (2 + String.length body))).
Proof.
  intros Hi Hk Hb Hnl.
  assert (H2 : head_ok (fun c => negb (is_idc c)) (String "[" (body ++ String "]" rest)) = true) by reflexivity.
  destruct (head_alternatives_fail pw name _ Hi Hk H2) as (V & I & K).
  unfold match_here, or_else. rewrite V, I, K.
  rewrite (try_function_none' name (String "[" (body ++ String "]" rest)) Hi eq_refl eq_refl).
  rewrite (try_bracketed_none "{" "}" KParameter name _ Hi (or_introl eq_refl)).
  rewrite (try_bracketed_none "<" ">" KError name _ Hi (or_intror eq_refl)).
  unfold try_variable. pose proof (ident_idc _ Hi) as Hn.
  destruct name as [|c n]; [discriminate|]. cbn [append]. cbn [ident] in Hi. apply andb_true_iff in Hi as [Ha _]. rewrite Ha.
  change (String c (n ++ String "[" (body ++ String "]" rest))) with (String c n ++ String "[" (body ++ String "]" rest)).
  rewrite (span_while_app is_idc _ _ Hn H2).
  unfold with_index. rewrite (index_group_some body rest Hb Hnl). reflexivity.
Qed.

(* ---------- { NAME } after   and   < NAME > after ---------- *)
Lemma bracket_inert c : (c = "{" \/ c = "<")%char -> is_alpha_ c = false /\ Ascii.eqb c "`" = false.
Proof. intros [-> | ->]; split; reflexivity. Qed.

Lemma try_bracketed_some op cl k w1 name w2 after :
  ident name = true -> all_chars is_space w1 = true -> all_chars is_space w2 = true ->
  is_space cl = false -> is_idc cl = false ->
  try_bracketed op cl k (String op (w1 ++ name ++ w2 ++ String cl after))
  = Some (with_index k name (2 + String.length w1 + String.length name + String.length w2) after).
Proof.
  intros Hi H1 H2 Hcs Hci. pose proof (ident_idc _ Hi) as Hn.
  unfold try_bracketed. rewrite Ascii.eqb_refl.
  assert (Hh : head_ok (fun c => negb (is_space c)) (name ++ w2 ++ String cl after) = true).
  { destruct name as [|c n]; [discriminate|]. cbn [append head_ok]. cbn [ident] in Hi. apply andb_true_iff in Hi as [Ha _].
    destruct (idc_facts c (alpha_idc c Ha)) as (_ & _ & Hs & _). rewrite Hs. reflexivity. }
  rewrite (span_while_app is_space w1 _ H1 Hh).
  destruct name as [|c n] eqn:En; [discriminate|]. rewrite <- En in *. 
  assert (Hc : exists c' r', name ++ w2 ++ String cl after = String c' r' /\ is_alpha_ c' = true).
  { subst name. cbn [append]. cbn [ident] in Hi. apply andb_true_iff in Hi as [Ha _]. eauto. }
  destruct Hc as (c' & r' & Er & Ha). rewrite Er, Ha. rewrite <- Er.
  assert (Hh2 : head_ok (fun c => negb (is_idc c)) (w2 ++ String cl after) = true).
  { destruct w2 as [|d w2']; cbn [append head_ok].
    - rewrite Hci. reflexivity.
    - cbn [all_chars] in H2. apply andb_true_iff in H2 as [Hd _]. destruct (space_facts d Hd) as (-> & _). reflexivity. }
  rewrite (span_while_app is_idc name _ Hn Hh2).
  assert (Hh3 : head_ok (fun c => negb (is_space c)) (String cl after) = true) by (cbn [head_ok]; rewrite Hcs; reflexivity).
  rewrite (span_while_app is_space w2 _ H2 Hh3). rewrite Ascii.eqb_refl. reflexivity.
Qed.

Theorem match_here_parameter pw w1 name w2 after :
  ident name = true -> all_chars is_space w1 = true -> all_chars is_space w2 = true ->
  match_here pw (String "{" (w1 ++ name ++ w2 ++ String "}" after))
  = Some (with_index KParameter name (2 + String.length w1 + String.length name + String.length w2) after).
Proof.
  intros Hi H1 H2. unfold match_here, or_else.
  assert (V : try_verbatim (String "{" (w1 ++ name ++ w2 ++ String "}" after)) = None).
  { unfold try_verbatim. destruct (w1 ++ name ++ w2 ++ String "}" after); reflexivity. }
  rewrite V, (try_invalid_inert KW "{" _ kw_nonempty_alpha eq_refl).
  assert (K : (if pw then None else try_keyword KW (String "{" (w1 ++ name ++ w2 ++ String "}" after))) = None).
  { destruct pw; [reflexivity|]. apply (try_keyword_inert KW "{" _ kw_nonempty_alpha eq_refl). }
  rewrite K. cbn [try_function]. change (is_alpha_ "{") with false. cbv iota.
  rewrite (try_bracketed_some "{" "}" KParameter w1 name w2 after Hi H1 H2 eq_refl eq_refl). reflexivity.
Qed.

Theorem match_here_error pw w1 name w2 after :
  ident name = true -> all_chars is_space w1 = true -> all_chars is_space w2 = true ->
  match_here pw (String "<" (w1 ++ name ++ w2 ++ String ">" after))
  = Some (with_index KError name (2 + String.length w1 + String.length name + String.length w2) after).
Proof.
  intros Hi H1 H2. unfold match_here, or_else.
  assert (V : try_verbatim (String "<" (w1 ++ name ++ w2 ++ String ">" after)) = None).
  { unfold try_verbatim. destruct (w1 ++ name ++ w2 ++ String ">" after); reflexivity. }
  rewrite V, (try_invalid_inert KW "<" _ kw_nonempty_alpha eq_refl).
  assert (K : (if pw then None else try_keyword KW (String "<" (w1 ++ name ++ w2 ++ String ">" after))) = None).
  { destruct pw; [reflexivity|]. apply (try_keyword_inert KW "<" _ kw_nonempty_alpha eq_refl). }
  rewrite K. cbn [try_function]. change (is_alpha_ "<") with false. cbv iota.
  assert (B : try_bracketed "{" "}" KParameter (String "<" (w1 ++ name ++ w2 ++ String ">" after)) = None) by reflexivity.
  rewrite B.
  rewrite (try_bracketed_some "<" ">" KError w1 name w2 after Hi H1 H2 eq_refl eq_refl). reflexivity.
Qed.

(* `<` where the < NAME > alternative does not match: no term starts there *)
Theorem match_here_lt pw r : try_bracketed "<" ">" KError (String "<" r) = None -> match_here pw (String "<" r) = None.
Proof.
  intros B. unfold match_here, or_else.
  assert (V : try_verbatim (String "<" r) = None) by (unfold try_verbatim; destruct r; reflexivity).
  rewrite V, (try_invalid_inert KW "<" _ kw_nonempty_alpha eq_refl).
  assert (K : (if pw then None else try_keyword KW (String "<" r)) = None).
  { destruct pw; [reflexivity|]. apply (try_keyword_inert KW "<" _ kw_nonempty_alpha eq_refl). }
  rewrite K. cbn [try_function]. change (is_alpha_ "<") with false. cbv iota.
  assert (B0 : try_bracketed "{" "}" KParameter (String "<" r) = None) by reflexivity.
  rewrite B0, B. reflexivity.
Qed.

(* a bracketed term that matches keeps matching when text is appended (the span scans stop inside the match) *)
Lemma span_while_stop p a b : forall n d r, span_while p a = (n, String d r) -> span_while p (a ++ b) = (n, String d (r ++ b)).
Proof.
  induction a as [|c a IH]; cbn [span_while append]; intros n d r H; [discriminate|].
  destruct (p c).
  - destruct (span_while p a) as [n' r'] eqn:E. inversion H; subst. rewrite (IH _ _ _ eq_refl). reflexivity.
  - inversion H; subst. reflexivity.
Qed.
Lemma try_bracketed_extend op cl k a b m :
  try_bracketed op cl k (String op a) = Some m -> exists m', try_bracketed op cl k (String op (a ++ b)) = Some m'.
Proof.
  unfold try_bracketed. rewrite Ascii.eqb_refl.
  destruct (span_while is_space a) as [w1 r1] eqn:E1. destruct r1 as [|a0 r1']; [discriminate|].
  rewrite (span_while_stop _ _ b _ _ _ E1).
  destruct (is_alpha_ a0); [|discriminate].
  destruct (span_while is_idc (String a0 r1')) as [name r2] eqn:E2.
  destruct (span_while is_space r2) as [w2 r3] eqn:E3. destruct r3 as [|d r4]; [discriminate|].
  assert (E2' : exists r2', span_while is_idc (String a0 (r1' ++ b)) = (name, r2') /\
                            exists w2' , span_while is_space r2' = (w2', String d (r4 ++ b))).
  { destruct r2 as [|e r2''].
    - cbn [span_while] in E3. discriminate.
    - change (String a0 (r1' ++ b)) with (String a0 r1' ++ b). rewrite (span_while_stop _ _ b _ _ _ E2).
      eexists. split; [reflexivity|]. change (String e (r2'' ++ b)) with (String e r2'' ++ b).
      rewrite (span_while_stop _ _ b _ _ _ E3). eauto. }
  destruct E2' as (r2' & -> & w2' & ->).
  destruct (Ascii.eqb d cl); [|discriminate]. intros _. eauto.
Qed.

(* the optional index group behind a parameter / error *)
Lemma with_index_none k name base after :
  head_ok (fun c => negb (Ascii.eqb c "[")) after = true -> with_index k name base after = mkMatch k name None base.
Proof. intros H. unfold with_index. rewrite (index_group_none after H). reflexivity. Qed.
Lemma with_index_some k name base body rest :
  has_char "]" body = false -> has_nl (re_strip body) = false ->
  with_index k name base (String "[" (body ++ String "]" rest))
  = mkMatch k name (Some (re_strip body)) (base + (2 + String.length body)).
Proof. intros Hb Hn. unfold with_index. rewrite (index_group_some body rest Hb Hn). reflexivity. Qed.

(* ---------- NAME blanks ( … ---------- *)
Theorem match_here_function pw name ws rest :
  ident name = true -> ~ In name KW -> all_chars is_space ws = true ->
  match_here pw (name ++ ws ++ String "(" rest)
  = Some (mkMatch KFunction name None (String.length name + String.length ws)).
Proof.
  intros Hi Hk Hw.
  assert (H2 : head_ok (fun c => negb (is_idc c)) (ws ++ String "(" rest) = true).
  { destruct ws as [|d w]; cbn [append head_ok]; [reflexivity|].
    cbn [all_chars] in Hw. apply andb_true_iff in Hw as [Hd _]. destruct (space_facts d Hd) as (-> & _). reflexivity. }
  assert (H1 : head_ok (fun c => negb (is_fnc c)) (ws ++ String "(" rest) = true).
  { destruct ws as [|d w]; cbn [append head_ok]; [reflexivity|].
    cbn [all_chars] in Hw. apply andb_true_iff in Hw as [Hd _]. destruct (space_facts d Hd) as (_ & -> & _). reflexivity. }
  destruct (head_alternatives_fail pw name _ Hi Hk H2) as (V & I & K).
  unfold match_here, or_else. rewrite V, I, K.
  pose proof (all_idc_fnc _ (ident_idc _ Hi)) as Hn.
  unfold try_function. destruct name as [|c n] eqn:En; [discriminate|]. rewrite <- En in *.
  assert (Hc : exists c' r', name ++ ws ++ String "(" rest = String c' r' /\ is_alpha_ c' = true).
  { subst name. cbn [append]. cbn [ident] in Hi. apply andb_true_iff in Hi as [Ha _]. eauto. }
  destruct Hc as (c' & r' & Er & Ha). rewrite Er, Ha. rewrite <- Er.
  rewrite (span_while_app is_fnc name _ Hn H1).
  assert (H3 : head_ok (fun c => negb (is_space c)) (String "(" rest) = true) by reflexivity.
  rewrite (span_while_app is_space ws _ Hw H3). reflexivity.
Qed.

(* ---------- the same, as steps of the scanner (finditer) ---------- *)
Lemma scan_tok pos pw s rest m :
  s <> "" -> match_here pw (s ++ rest) = Some m -> mlen m = String.length s ->
  scan pos 0 pw (s ++ rest) = Tok pos m :: scan (pos + String.length s) 0 (last_word pw s) rest.
Proof.
  intros Hs Hm Hl. destruct s as [|c a]; [contradiction|].
  apply (scan_match pos pw c a rest m Hm). rewrite Hl. reflexivity.
Qed.

Theorem scan_variable pos pw name rest :
  ident name = true -> ~ In name KW -> var_follow rest = true ->
  scan pos 0 pw (name ++ rest)
  = Tok pos (mkMatch KVariable name None (String.length name)) :: scan (pos + String.length name) 0 (last_word pw name) rest.
Proof.
  intros Hi Hk Hf. apply scan_tok; [destruct name; [discriminate|discriminate]| |reflexivity].
  apply match_here_variable; assumption.
Qed.

(* ---------- a keyword between non-word characters ---------- *)
Lemma word_of_idc c : is_idc c = true -> is_word c = true.
Proof. intros H. destruct (idc_facts c H) as (_ & Hw & _). exact Hw. Qed.
Lemma nonword_nonidc rest : head_ok (fun c => negb (is_word c)) rest = true -> head_ok (fun c => negb (is_idc c)) rest = true.
Proof.
  destruct rest as [|c r]; cbn [head_ok]; [auto|]. intros H. apply negb_true_iff in H.
  destruct (is_idc c) eqn:E; [rewrite (word_of_idc c E) in H; discriminate|reflexivity].
Qed.
Lemma app_head_idc k c m : all_chars is_idc (k ++ String c m) = true -> is_idc c = true.
Proof. induction k as [|a k IH]; cbn [append all_chars]; intros H; apply andb_true_iff in H as [H1 H2]; [exact H1|exact (IH H2)]. Qed.
Lemma app_cons_neq (k : string) c m : k ++ String c m <> k.
Proof.
  intros E. assert (L : String.length (k ++ String c m) = String.length k) by (rewrite E; reflexivity).
  rewrite length_app_s in L. cbn [String.length] in L. lia.
Qed.

Lemma try_invalid_keyword kws k rest :
  forallb (all_chars is_idc) kws = true -> all_chars is_idc k = true ->
  head_ok (fun c => negb (is_idc c)) rest = true -> head_ok (fun c => negb (Ascii.eqb c "[")) (skip_ws rest) = true ->
  try_invalid kws (k ++ rest) = None.
Proof.
  intros Hk Hn Hr Hb. induction kws as [|k' kws IH]; cbn [try_invalid]; [reflexivity|].
  cbn [forallb] in Hk. apply andb_true_iff in Hk as [Hk1 Hk]. specialize (IH Hk).
  destruct (prefix_rest k' (k ++ rest)) as [r|] eqn:E; [|exact IH].
  apply prefix_rest_some in E. symmetry in E.
  destruct (split_ident k' k rest r Hk1 Hn Hr E) as (m & Hm & ->).
  destruct m as [|c m].
  - cbn [append]. unfold skip_ws in Hb. destruct (span_while is_space rest) as [ws r2]. cbn [snd] in Hb.
    destruct r2 as [|d r3]; [exact IH|]. cbn [head_ok] in Hb. apply negb_true_iff in Hb. rewrite Hb. exact IH.
  - subst k. pose proof (app_head_idc _ _ _ Hn) as Hc.
    destruct (idc_facts c Hc) as (_ & _ & Hs & _ & _ & _ & Hbr & _).
    cbn [append span_while]. rewrite Hs, Hbr. exact IH.
Qed.

Lemma try_keyword_found kws k rest :
  forallb (all_chars is_idc) kws = true -> In k kws -> all_chars is_idc k = true ->
  head_ok (fun c => negb (is_word c)) rest = true ->
  try_keyword kws (k ++ rest) = Some (mkMatch KKeyword k None (String.length k)).
Proof.
  intros Hk Hin Hn Hr. pose proof (nonword_nonidc rest Hr) as Hr'.
  induction kws as [|k' kws IH]; [contradiction|]. cbn [try_keyword].
  cbn [forallb] in Hk. apply andb_true_iff in Hk as [Hk1 Hk]. specialize (IH Hk).
  destruct (prefix_rest k' (k ++ rest)) as [r|] eqn:E.
  - apply prefix_rest_some in E. symmetry in E.
    destruct (split_ident k' k rest r Hk1 Hn Hr' E) as (m & Hm & ->).
    destruct m as [|c m].
    + rewrite app_nil_r_s in Hm. subst k'. cbn [append].
      destruct rest as [|d rest']; [reflexivity|]. cbn [head_ok] in Hr. apply negb_true_iff in Hr. rewrite Hr. reflexivity.
    + subst k. pose proof (app_head_idc _ _ _ Hn) as Hc. cbn [append]. rewrite (word_of_idc c Hc).
      apply IH. destruct Hin as [Hin|Hin]; [|exact Hin]. exfalso. symmetry in Hin. exact (app_cons_neq _ _ _ Hin).
  - apply IH. destruct Hin as [Hin|Hin]; [|exact Hin]. subst k'. rewrite prefix_rest_app in E. discriminate.
Qed.

Lemma kw_in_idc k : In k KW -> all_chars is_idc k = true.
Proof. intros H. exact (proj1 (forallb_forall _ _) kw_ident k H). Qed.
Lemma kw_in_alpha k : In k KW -> exists c r, k = String c r /\ is_alpha_ c = true.
Proof.
  intros H. pose proof (proj1 (forallb_forall _ _) kw_nonempty_alpha k H) as Ha. cbn beta in Ha.
  destruct k as [|c r]; [discriminate|]. eauto.
Qed.

Theorem match_here_keyword k rest :
  In k KW -> head_ok (fun c => negb (is_word c)) rest = true ->
  head_ok (fun c => negb (Ascii.eqb c "[")) (skip_ws rest) = true ->
  match_here false (k ++ rest) = Some (mkMatch KKeyword k None (String.length k)).
Proof.
  intros Hin Hr Hb. pose proof (kw_in_idc k Hin) as Hn. destruct (kw_in_alpha k Hin) as (c & r & -> & Ha).
  unfold match_here, or_else.
  assert (V : try_verbatim (String c r ++ rest) = None).
  { destruct (idc_facts c (alpha_idc c Ha)) as (_ & _ & _ & Hq & _). cbn [append]. unfold try_verbatim.
    destruct (r ++ rest); [reflexivity|]. rewrite Hq. reflexivity. }
  rewrite V, (try_invalid_keyword KW _ rest kw_ident Hn (nonword_nonidc rest Hr) Hb).
  rewrite (try_keyword_found KW _ rest kw_ident Hin Hn Hr). reflexivity.
Qed.

(* ---------- a backticked fragment ---------- *)
Lemma find_on_line_app ch body rest :
  has_char ch body = false -> has_nl body = false -> find_on_line ch (body ++ String ch rest) = Some (body, rest).
Proof.
  unfold has_nl. induction body as [|c b IH]; cbn [append find_on_line has_char]; intros H1 H2.
  - rewrite Ascii.eqb_refl. reflexivity.
  - apply orb_false_iff in H1 as [Ha Hb]. apply orb_false_iff in H2 as [Hc Hd]. rewrite Ha, Hc, (IH Hb Hd). reflexivity.
Qed.

Theorem match_here_verbatim pw c b rest :
  Ascii.eqb c nl = false -> has_char "`" (String c b) = false -> has_nl (String c b) = false ->
  match_here pw (String "`" (String c b ++ String "`" rest))
  = Some (mkMatch KVerbatim (String "`" (String c b ++ "`")) None (2 + String.length (String c b))).
Proof.
  intros Hc Hq Hn. unfold match_here, or_else. cbn [append]. unfold try_verbatim.
  change (Ascii.eqb "`" "`") with true. cbv iota. rewrite Hc.
  cbn [has_char] in Hq. apply orb_false_iff in Hq as [_ Hq].
  unfold has_nl in Hn. cbn [has_char] in Hn. apply orb_false_iff in Hn as [_ Hn].
  rewrite (find_on_line_app "`" b rest Hq Hn). reflexivity.
Qed.

(* ---------- a namespaced function name: IDENT(.fnc-chars)* blanks ( … ---------- *)
(* first segment an identifier that is no keyword, then any run of [_A-Za-z0-9.] (np.sqrt, a.b.c, f) *)
Definition fname (n : string) : bool :=
  let '(seg, more) := span_while is_idc n in
  ident seg && negb (existsb (String.eqb seg) KW) && all_chars is_fnc more.

Lemma span_while_split p s : forall a b, span_while p s = (a, b) -> s = a ++ b /\ all_chars p a = true /\ head_ok (fun c => negb (p c)) b = true.
Proof.
  induction s as [|c s IH]; intros a b H; cbn [span_while] in H.
  - inversion H; subst. repeat split.
  - destruct (p c) eqn:E.
    + destruct (span_while p s) as [a' b'] eqn:Es. inversion H; subst. destruct (IH a' b eq_refl) as (-> & Ha & Hb).
      repeat split; auto. cbn [all_chars]. rewrite E, Ha. reflexivity.
    + inversion H; subst. repeat split. cbn [head_ok]. rewrite E. reflexivity.
Qed.

Lemma existsb_eqb_false n l : existsb (String.eqb n) l = false -> ~ In n l.
Proof.
  induction l as [|k r IH]; cbn [existsb In]; [tauto|]. intros H. apply orb_false_iff in H as [H1 H2].
  intros [E|E]; [subst; rewrite String.eqb_refl in H1; discriminate|exact (IH H2 E)].
Qed.

Theorem match_here_function_dotted pw name ws rest :
  fname name = true -> all_chars is_space ws = true ->
  match_here pw (name ++ ws ++ String "(" rest)
  = Some (mkMatch KFunction name None (String.length name + String.length ws)).
Proof.
  unfold fname. destruct (span_while is_idc name) as [seg more] eqn:Es. intros H Hw.
  apply andb_true_iff in H as [H Hm]. apply andb_true_iff in H as [Hi Hk].
  apply negb_true_iff, existsb_eqb_false in Hk.
  destruct (span_while_split _ _ _ _ Es) as (-> & Hseg & Hmore).
  (* the text after the first segment: more ++ ws ++ "(" … starts with a non-identifier character *)
  assert (H2 : head_ok (fun c => negb (is_idc c)) (more ++ ws ++ String "(" rest) = true).
  { destruct more as [|d m]; [|exact Hmore]. cbn [append].
    destruct ws as [|d w]; cbn [append head_ok]; [reflexivity|].
    cbn [all_chars] in Hw. apply andb_true_iff in Hw as [Hd _]. destruct (space_facts d Hd) as (-> & _). reflexivity. }
  rewrite app_assoc_s.
  destruct (head_alternatives_fail pw seg _ Hi Hk H2) as (V & I & K).
  unfold match_here, or_else. rewrite V, I, K.
  assert (Hn : all_chars is_fnc (seg ++ more) = true).
  { clear - Hseg Hm. induction seg as [|c s IH]; cbn [append all_chars] in *; [exact Hm|].
    apply andb_true_iff in Hseg as [Hc Hs]. destruct (idc_facts c Hc) as (-> & _). cbn [andb]. exact (IH Hs). }
  assert (H1 : head_ok (fun c => negb (is_fnc c)) (ws ++ String "(" rest) = true).
  { destruct ws as [|d w]; cbn [append head_ok]; [reflexivity|].
    cbn [all_chars] in Hw. apply andb_true_iff in Hw as [Hd _]. destruct (space_facts d Hd) as (_ & -> & _). reflexivity. }
  unfold try_function.
  assert (Hc : exists c' r', seg ++ more ++ ws ++ String "(" rest = String c' r' /\ is_alpha_ c' = true).
  { destruct seg as [|c s]; [discriminate|]. cbn [append]. cbn [ident] in Hi. apply andb_true_iff in Hi as [Ha _]. eauto. }
  destruct Hc as (c' & r' & Er & Ha). rewrite Er, Ha. rewrite <- Er.
  rewrite <- (app_assoc_s seg more). rewrite (span_while_app is_fnc (seg ++ more) _ Hn H1).
  assert (H3 : head_ok (fun c => negb (is_space c)) (String "(" rest) = true) by reflexivity.
  rewrite (span_while_app is_space ws _ Hw H3). reflexivity.
Qed.

Lemma ident_fname n : ident n = true -> ~ In n KW -> fname n = true.
Proof.
  intros Hi Hk. unfold fname. pose proof (ident_idc _ Hi) as Hn.
  pose proof (span_while_app is_idc n "" Hn eq_refl) as E. rewrite app_nil_r_s in E. rewrite E, Hi. cbn [all_chars andb].
  rewrite andb_true_r. apply negb_true_iff. destruct (existsb (String.eqb n) KW) eqn:X; [|reflexivity].
  exfalso. apply existsb_exists in X as (k & Hin & Heq). apply String.eqb_eq in Heq. subst. exact (Hk Hin).
Qed.
