(* CodeGenSrcFacts.v — scan_render: on the text of EVERY well-formed flat token sequence (any length, any nesting, any
   layout expressible by the gaps and inner blanks) term_re.finditer yields exactly the tokens' matches, at their
   positions, and copies every gap character (property C01; the lexing half of "the code is the statement with each
   term rendered").  Consequences: the matches, the template, the two output strings and the token sequence of the
   statement are those computed from the token list alone. *)
From Coq Require Import String Ascii List Bool Arith Lia.
Import ListNotations.
Require Import Generated PyBase PyStr Lex LexFacts Format Symbols Split Merge ParseEq ParseModel Eval.
Require Import CodeGen CodeGenLexFacts CodeGenSrc.
Open Scope string_scope.
Open Scope nat_scope.

Lemma in_kw_false n l : in_kw n l = false -> ~ In n l.
Proof.
  induction l as [|k r IH]; cbn [in_kw In]; [tauto|]. intros H. apply orb_false_iff in H as [H1 H2].
  intros [E|E]; [subst; rewrite String.eqb_refl in H1; discriminate|exact (IH H2 E)].
Qed.

Lemma ident_nonempty n : ident n = true -> n <> "".
Proof. destruct n; [discriminate|discriminate]. Qed.

Lemma idx_ok_inv b : idx_ok (Some b) = true -> has_char "]" b = false /\ has_nl (re_strip b) = false.
Proof. cbn [idx_ok]. intros H. apply andb_true_iff in H as [H1 H2]. split; apply negb_true_iff; assumption. Qed.

(* one token, then the rest *)
Lemma in_kw_true n l : in_kw n l = true -> In n l.
Proof.
  induction l as [|k r IH]; cbn [in_kw In]; [discriminate|]. intros H. apply orb_true_iff in H as [H|H].
  - left. apply String.eqb_eq in H. auto.
  - right. exact (IH H).
Qed.

Lemma scan_stok t rest pos pw :
  stok_ok pw t rest = true ->
  scan pos 0 pw (stok_text t ++ rest) =
  ((match stok_match t with
    | Some m => [Tok pos m]
    | None => map Chr (list_ascii_of_string (stok_text t))
    end) ++ scan (pos + String.length (stok_text t)) 0 (last_word pw (stok_text t)) rest)%list.
Proof.
  destruct t as [g|n [b|]|par w1 n w2 [b|]|n ws|k|vb|tail]; cbn [stok_ok stok_text stok_match idx_text idx_group idx_len]; intros H.
  - (* gap *) apply scan_inert, H.
  - (* NAME[body] *)
    apply andb_true_iff in H as [H Hx]. apply andb_true_iff in H as [Hi Hk].
    apply negb_true_iff, in_kw_false in Hk. destruct (idx_ok_inv b Hx) as [Hb Hn].
    cbn [app]. apply scan_tok.
    + intros E. destruct n; [discriminate Hi|discriminate E].
    + rewrite app_assoc_s. cbn [append]. rewrite app_assoc_s. cbn [append].
      apply match_here_variable_indexed; assumption.
    + cbn [mlen]. rewrite length_app_s. cbn [String.length]. rewrite length_app_s. cbn [String.length]. lia.
  - (* NAME *)
    apply andb_true_iff in H as [H Hf]. apply andb_true_iff in H as [Hi Hk].
    apply negb_true_iff, in_kw_false in Hk. rewrite app_nil_r_s. cbn [app]. rewrite Nat.add_0_r.
    apply scan_variable; assumption.
  - (* { NAME }[body] / < NAME >[body] *)
    apply andb_true_iff in H as [H Hx]. apply andb_true_iff in H as [H H2]. apply andb_true_iff in H as [Hi H1].
    destruct (idx_ok_inv b Hx) as [Hb Hn]. cbn [app].
    destruct par; apply scan_tok; try discriminate.
    + cbn [append]. rewrite !app_assoc_s. cbn [append]. rewrite app_assoc_s. cbn [append].
      rewrite (match_here_parameter pw w1 n w2 _ Hi H1 H2), (with_index_some _ _ _ b rest Hb Hn). reflexivity.
    + cbn [mlen String.length]. rewrite !length_app_s. cbn [String.length]. rewrite length_app_s. cbn [String.length]. lia.
    + cbn [append]. rewrite !app_assoc_s. cbn [append]. rewrite app_assoc_s. cbn [append].
      rewrite (match_here_error pw w1 n w2 _ Hi H1 H2), (with_index_some _ _ _ b rest Hb Hn). reflexivity.
    + cbn [mlen String.length]. rewrite !length_app_s. cbn [String.length]. rewrite length_app_s. cbn [String.length]. lia.
  - (* { NAME } / < NAME > *)
    apply andb_true_iff in H as [H Hr]. apply andb_true_iff in H as [H H2]. apply andb_true_iff in H as [Hi H1].
    cbn [app].
    destruct par; apply scan_tok; try discriminate.
    + cbn [append]. rewrite !app_assoc_s. cbn [append].
      rewrite (match_here_parameter pw w1 n w2 _ Hi H1 H2), (with_index_none _ _ _ rest Hr). rewrite Nat.add_0_r. reflexivity.
    + cbn [mlen String.length]. rewrite !length_app_s. cbn [String.length]. lia.
    + cbn [append]. rewrite !app_assoc_s. cbn [append].
      rewrite (match_here_error pw w1 n w2 _ Hi H1 H2), (with_index_none _ _ _ rest Hr). rewrite Nat.add_0_r. reflexivity.
    + cbn [mlen String.length]. rewrite !length_app_s. cbn [String.length]. lia.
  - (* NAME blanks ( *)
    apply andb_true_iff in H as [H Hp]. apply andb_true_iff in H as [Hi Hw]. cbn [app].
    destruct rest as [|c rest']; [discriminate Hp|]. cbn [head_is] in Hp. apply Ascii.eqb_eq in Hp. subst c.
    apply scan_tok.
    + intros E. destruct n; [discriminate Hi|discriminate E].
    + rewrite app_assoc_s. apply match_here_function_dotted; assumption.
    + cbn [mlen]. rewrite length_app_s. reflexivity.
  - (* keyword *)
    apply andb_true_iff in H as [H Hb]. apply andb_true_iff in H as [H Hr]. apply andb_true_iff in H as [Hp Hk].
    apply negb_true_iff in Hp. subst pw. apply in_kw_true in Hk. cbn [app].
    apply scan_tok.
    + destruct (kw_in_alpha k Hk) as (c & r & -> & _). discriminate.
    + apply match_here_keyword; assumption.
    + reflexivity.
  - (* verbatim *)
    destruct vb as [|c b]; [discriminate H|].
    apply andb_true_iff in H as [H Hn]. apply andb_true_iff in H as [Hc Hq].
    apply negb_true_iff in Hc, Hq, Hn. cbn [app].
    apply scan_tok; [discriminate| |].
    + cbn [append]. rewrite app_assoc_s. cbn [append]. apply (match_here_verbatim pw c b rest Hc Hq Hn).
    + cbn [mlen String.length]. rewrite length_app_s. cbn [String.length]. lia.
  - (* < / <= *)
    apply andb_true_iff in H as [Ht Hf]. cbn [append].
    assert (Hm : match_here pw (String "<" (tail ++ rest)) = None).
    { apply match_here_lt. unfold lt_free in Hf. destruct (try_bracketed "<" ">" KError (String "<" (tail ++ rest))); [discriminate|reflexivity]. }
    rewrite (scan_chr pos pw "<" (tail ++ rest) Hm).
    apply orb_true_iff in Ht as [E|E]; apply String.eqb_eq in E; subst tail.
    + cbn [append list_ascii_of_string map app String.length last_word]. replace (pos + 1) with (S pos) by lia. reflexivity.
    + rewrite (scan_inert "=" (S pos) (is_word "<") rest eq_refl).
      cbn [append list_ascii_of_string map app String.length last_word]. replace (S pos + 1) with (pos + 2) by lia. reflexivity.
Qed.

(* ---------- scan_render ---------- *)
Theorem scan_render_at ts : forall pos pw, wf_at pw ts = true -> scan pos 0 pw (render ts) = items_of pos ts.
Proof.
  induction ts as [|t r IH]; intros pos pw H; cbn [wf_at render items_of] in *.
  - reflexivity.
  - apply andb_true_iff in H as [Ht Hr]. rewrite (scan_stok t (render r) pos pw Ht). f_equal. apply IH, Hr.
Qed.

Theorem scan_render ts : wf ts = true -> scan_items (render ts) = items_of 0 ts.
Proof. apply scan_render_at. Qed.

(* ---------- consequences: everything parse_equation derives from the scan is determined by the token list ---------- *)
Fixpoint src_matches (ts : list stok) : list tmatch :=
  match ts with
  | [] => []
  | t :: r => match stok_match t with Some m => m :: src_matches r | None => src_matches r end
  end.

Lemma matches_of_app a b : matches_of (a ++ b) = (matches_of a ++ matches_of b)%list.
Proof. induction a as [|[c|p m] a IH]; cbn [app matches_of]; [reflexivity|exact IH|rewrite IH; reflexivity]. Qed.
Lemma matches_of_chrs l : matches_of (map Chr l) = [].
Proof. induction l; [reflexivity|exact IHl]. Qed.

Lemma matches_items_of ts : forall pos, matches_of (items_of pos ts) = src_matches ts.
Proof.
  induction ts as [|t r IH]; intros pos; cbn [items_of src_matches]; [reflexivity|].
  rewrite matches_of_app, IH. destruct (stok_match t); [reflexivity|]. rewrite matches_of_chrs. reflexivity.
Qed.

(* the matches of a well-formed statement: one per term token, in order, with the name and the index written *)
Theorem matches_render ts : wf ts = true -> matches_of (scan_items (render ts)) = src_matches ts.
Proof. intros H. rewrite (scan_render ts H). apply matches_items_of. Qed.

(* the generated code and the normalised equation of a well-formed statement, from the token list alone *)
Theorem code_text_render ts : wf ts = true ->
  code_text (render ts) = render_items code_of_match (norm_items (items_of 0 ts)) /\
  equation_text (render ts) = render_items str_of_match (norm_items (items_of 0 ts)).
Proof. intros H. unfold code_text, equation_text. rewrite (scan_render ts H). split; reflexivity. Qed.

(* the statement it denotes, from the token list alone *)
Theorem stmt_render row ts : wf ts = true ->
  stmt_of_equation row (render ts) = stmt_of_tokens row (lex_items LNone (items_of 0 ts)).
Proof. intros H. unfold stmt_of_equation. rewrite (scan_render ts H). reflexivity. Qed.
