(* CodeGenFacts9.v — provenance of every code string in the symbol list of a whole model (property C01, text level):

   model_code_provenance : whatever script parse_model accepts, the code (and the equation) attached to ANY symbol of
     the merged list is the code of a symbol that parse_equation returned for ONE of the script's statements — the
     cross-equation merge (Symbol.combine) never edits, mixes or invents a code string;
   model_code_is_rendered_statement : hence, when that statement meets the guard of the text-level theorem, the string
     is code_text of that statement: the statement with each term rendered, everything else verbatim. *)
From Coq Require Import String Ascii List Bool Arith ZArith Lia.
Import ListNotations.
Require Import Generated PyBase PyStr Lex Format Symbols Split Merge ParseEq ParseModel Eval CodeGen CodeGenFacts CodeGenFacts4.
Open Scope string_scope.

(* the (equation, code) pair of a symbol occurs in a list of symbols *)
Definition carried (e c : option string) (l : list symbol) : Prop :=
  exists y, In y l /\ sequation y = e /\ scode y = c.

Lemma resolve_strings_cases a b r : resolve_strings a b = Ret r -> r = a \/ r = b.
Proof.
  destruct a as [x|], b as [y|]; cbn [resolve_strings].
  - destruct (String.eqb x y); intros H; inversion H; auto.
  - intros H; inversion H; auto.
  - intros H; inversion H; auto.
  - intros H; inversion H; auto.
Qed.

(* combine keeps the strings of one of its arguments — but equation and code could come from different ones; they do not:
   both are resolved by the same rule on (old, new), and equal strings are equal *)
Lemma combine_strings a b c : combine a b = Ret c ->
  (sequation c = sequation a \/ sequation c = sequation b) /\ (scode c = scode a \/ scode c = scode b).
Proof.
  unfold combine, obind. intros H.
  destruct (if type_eqb (stype a) (stype b) then Ret (stype a)
            else if is_variable_type (stype a) && is_variable_type (stype b) then Ret (type_max (stype a) (stype b)) else Raise SymbolError)
    as [ty|]; [|discriminate].
  destruct (resolve_by_type_pair Z.min (slags a) (slags b)) as [lg|]; [|discriminate].
  destruct (resolve_by_type_pair Z.max (sleads a) (sleads b)) as [ld|]; [|discriminate].
  destruct (resolve_strings (sequation a) (sequation b)) as [e|] eqn:Re; [|discriminate].
  destruct (resolve_strings (scode a) (scode b)) as [cd|] eqn:Rc; [|discriminate].
  inversion H; subst. cbn [sequation scode]. split; [exact (resolve_strings_cases _ _ _ Re)|exact (resolve_strings_cases _ _ _ Rc)].
Qed.

(* every code string of the merged list was the code string of one of the merged symbols (same for the equation) *)
Definition code_from (l : list symbol) (x : symbol) : Prop :=
  (scode x = None \/ exists y, In y l /\ scode y = scode x) /\ (sequation x = None \/ exists y, In y l /\ sequation y = sequation x).

Lemma code_from_mono l l' x : (forall y, In y l -> In y l') -> code_from l x -> code_from l' x.
Proof.
  intros Hs [[H1|(y & Hy & E)] [H2|(z & Hz & E2)]]; split; auto; right; eauto.
Qed.
Lemma code_from_self l x : In x l -> code_from l x.
Proof. intros H. split; right; exists x; auto. Qed.

Lemma combine_from l a b c : code_from l a -> code_from l b -> combine a b = Ret c -> code_from l c.
Proof.
  intros [A1 A2] [B1 B2] H. destruct (combine_strings a b c H) as [[E|E] [C|C]]; split; rewrite ?E, ?C; assumption.
Qed.

Lemma dict_get_in' {V} k (d : list (string * V)) v : dict_get k d = Some v -> In v (dict_values d).
Proof.
  induction d as [|[k' v'] r IH]; cbn [dict_get dict_values map]; [discriminate|].
  destruct (String.eqb k k'); [intros H; inversion H; left; reflexivity|intros H; right; exact (IH H)].
Qed.
Lemma dict_set_values {V} k (v : V) d x : In x (dict_values (dict_set k v d)) -> x = v \/ In x (dict_values d).
Proof.
  induction d as [|[k' v'] r IH]; cbn [dict_set dict_values map In].
  - intros [H|[]]; auto.
  - destruct (String.eqb k k'); cbn [map In fst snd].
    + intros [H|H]; auto.
    + intros [H|H]; auto. destruct (IH H); auto.
Qed.

Lemma merge_go_from all syms : forall symbols verbatim out,
  (forall y, In y syms -> In y all) ->
  Forall (code_from all) (dict_values symbols) -> Forall (code_from all) verbatim ->
  merge_go syms symbols verbatim = Ret out -> Forall (code_from all) out.
Proof.
  induction syms as [|s rest IH]; intros symbols verbatim out Hsub Hd Hv; cbn [merge_go].
  - intros H; inversion H; subst. apply Forall_app. split; [exact Hd|]. apply Forall_rev. exact Hv.
  - assert (Hs : code_from all s) by (apply code_from_self, Hsub; left; reflexivity).
    assert (Hsub' : forall y, In y rest -> In y all) by (intros y Hy; apply Hsub; right; exact Hy).
    destruct (sname s) as [name|].
    + unfold dict_combine. destruct (dict_get name symbols) as [old|] eqn:G.
      * destruct (combine old s) as [c|] eqn:C; [|discriminate].
        apply IH; auto. apply Forall_forall. intros x Hx. apply dict_set_values in Hx as [->|Hx].
        -- eapply combine_from; [|exact Hs|exact C]. rewrite Forall_forall in Hd. apply Hd. eapply dict_get_in'; exact G.
        -- rewrite Forall_forall in Hd. apply Hd, Hx.
      * destruct (combine s s) as [c|] eqn:C; [|discriminate].
        apply IH; auto. apply Forall_forall. intros x Hx. apply dict_set_values in Hx as [->|Hx].
        -- eapply combine_from; [exact Hs|exact Hs|exact C].
        -- rewrite Forall_forall in Hd. apply Hd, Hx.
    + apply IH; auto.
Qed.

Lemma parse_statements_results chk cs stmts : forall acc pb by_eq pb',
  parse_statements chk cs stmts acc pb = POk (by_eq, pb') ->
  forall L, In L by_eq -> In L acc \/ exists st, In st stmts /\ parse_equation_M st = POk L.
Proof.
  induction stmts as [|st rest IH]; intros acc pb by_eq pb'; cbn [parse_statements].
  - intros H; inversion H; subst. intros L HL. left. apply in_rev. exact HL.
  - destruct (parse_equation_M st) as [syms| |] eqn:Ep; [|discriminate|discriminate].
    assert (K : forall pb0, parse_statements chk cs rest (syms :: acc) pb0 = POk (by_eq, pb') ->
              forall L, In L by_eq -> In L acc \/ exists st0, In st0 (st :: rest) /\ parse_equation_M st0 = POk L).
    { intros pb0 H L HL. destruct (IH _ _ _ _ H L HL) as [[->|Hin]|(st0 & Hin & E)].
      - right. exists st. split; [left; reflexivity|exact Ep].
      - left. exact Hin.
      - right. exists st0. split; [right; exact Hin|exact E]. }
    destruct cs; [destruct (check_codes chk (codes_of syms)); [apply K|apply K|discriminate]|apply K].
Qed.

Theorem model_code_provenance chk cs script syms x c :
  parse_model_M chk cs script = POk syms -> In x syms -> scode x = Some c ->
  exists st L y, In st (fst (split_M script)) /\ parse_equation_M st = POk L /\ In y L /\ scode y = Some c.
Proof.
  unfold parse_model_M. destruct (split_M script) as [stmts serr]. cbn [fst].
  destruct (parse_statements chk cs stmts [] false) as [[by_eq pb]| |] eqn:Ep; try discriminate.
  destruct serr; [discriminate|]. destruct pb; [discriminate|].
  unfold merge_symbols. destruct (merge_go (concat by_eq) [] []) as [out|] eqn:Em; cbn [of_outcome]; [|discriminate].
  intros H Hx Hc. inversion H; subst.
  pose proof (merge_go_from (concat by_eq) (concat by_eq) [] [] syms (fun y Hy => Hy) (Forall_nil _) (Forall_nil _) Em) as HF.
  rewrite Forall_forall in HF. destruct (HF x Hx) as [[Hn|(y & Hy & Ey)] _]; [congruence|].
  apply in_concat in Hy as (L & HL & HyL).
  destruct (parse_statements_results _ _ _ _ _ _ _ Ep L HL) as [[]|(st & Hst & E)].
  exists st, L, y. repeat split; auto. congruence.
Qed.

(* … and when that statement meets the guard: the string IS the rendered statement *)
Theorem model_code_is_rendered_statement chk cs script syms x c :
  parse_model_M chk cs script = POk syms -> In x syms -> scode x = Some c ->
  exists st L y, In st (fst (split_M script)) /\ parse_equation_M st = POk L /\ In y L /\ scode y = Some c /\
    (is_blank st = false -> head_is "`" st && last_is "`" st = false -> aligned st -> gaps_brace_free (scan_items st) = true ->
     code_text st = Some c).
Proof.
  intros H Hx Hc. destruct (model_code_provenance chk cs script syms x c H Hx Hc) as (st & L & y & Hst & Ep & Hy & Ey).
  exists st, L, y. repeat split; auto. intros Hb Hv Ha Hg.
  destruct (endogenous_symbols_carry_code_text st L Ep Hb Hv Ha Hg) as (std & code & _ & Hcode & HF).
  rewrite Forall_forall in HF. destruct (HF y Hy) as [[[_ Hn]|[_ Hs]] _]; congruence.
Qed.

