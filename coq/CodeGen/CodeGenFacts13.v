(* CodeGenFacts13.v — the SHAPE of the tree the arithmetic parser builds (property C01: the value assigned is the value of
   the right-hand side AS PYTHON READS IT: precedences and associativities).

   `pr lvl e` prints a tree with the minimal parentheses Python's grammar needs (+ - left-associative at level 0, * / left-
   associative at level 1, unary minus at level 2 — below **, above * / —, ** at level 3 with an atom as base and a unary-minus
   level exponent, i.e. right-associative, atoms / calls / parenthesised expressions at level 4).
   print_parse : for EVERY printable tree e, the parser reads the printed tokens back as exactly e.
   So `a - b - c` (the print of (a-b)-c) is read as (a-b)-c and never as a-(b-c) (whose print is `a - (b - c)`), `-a ** b` as
   -(a**b), `a ** b ** c` as a**(b**c), `a / b * c` as (a/b)*c, … for all operands (the pr_* equations below spell these out).
   Not covered: conditional expressions (the separate p_test layer), calls with more than two arguments. *)
From Coq Require Import String Ascii List Bool Arith ZArith Lia.
Import ListNotations.
Require Import Generated PyBase PyStr Lex Format Symbols Split Merge ParseEq ParseModel Eval CodeGen CodeGenFacts2 CodeGenFacts8.
Open Scope list_scope.

Definition level (e : sexpr) : nat :=
  match e with
  | EBin OAdd _ _ | EBin OSub _ _ => 0
  | EBin OMul _ _ | EBin ODiv _ _ => 1
  | ENeg _ => 2
  | EBin OPow _ _ => 3
  | _ => 4
  end.

Section Print.
  Variable row : string -> option nat.
  Variable nm : nat -> string.                (* a name for every row that is read *)

  Fixpoint pr (lvl : nat) (e : sexpr) : list ctok :=
    let body :=
      match e with
      | ENum s => [CNum s]
      | ERead i k => [CRead (nm i) k]
      | ENeg a => CMinus :: pr 2 a
      | EAbs a => CFun "abs" :: CLPar :: pr 0 a ++ [CRPar]
      | EBin OAdd a b => pr 0 a ++ CPlus :: pr 1 b
      | EBin OSub a b => pr 0 a ++ CMinus :: pr 1 b
      | EBin OMul a b => pr 1 a ++ CStar :: pr 2 b
      | EBin ODiv a b => pr 1 a ++ CSlash :: pr 2 b
      | EBin OPow a b => pr 4 a ++ CPow :: pr 2 b
      | EMax a b => CFun "max" :: CLPar :: pr 0 a ++ CComma :: pr 0 b ++ [CRPar]
      | EMin a b => CFun "min" :: CLPar :: pr 0 a ++ CComma :: pr 0 b ++ [CRPar]
      | ECall1 g a => CFun (if Nat.eqb g 0 then "np.exp" else "np.log") :: CLPar :: pr 0 a ++ [CRPar]
      | EIf _ _ _ _ _ | ECall2 _ _ _ => [CBad]
      end in
    if level e <? lvl then CLPar :: body ++ [CRPar] else body.

  Fixpoint printable (e : sexpr) : Prop :=
    match e with
    | ENum s => num_ok s = true
    | ERead i k => row (nm i) = Some i
    | ENeg a | EAbs a => printable a
    | EBin _ a b | EMax a b | EMin a b => printable a /\ printable b
    | ECall1 g a => (g = 0 \/ g = 1) /\ printable a
    | EIf _ _ _ _ _ | ECall2 _ _ _ => False
    end.

  (* what may follow: nothing that would make the parser go on at that level *)
  Definition hd_is (t : ctok) (ts : list ctok) : bool :=
    match ts, t with
    | CPlus :: _, CPlus | CMinus :: _, CMinus | CStar :: _, CStar | CSlash :: _, CSlash | CPow :: _, CPow => true
    | _, _ => false
    end.
  Definition followP (rest : list ctok) : Prop := hd_is CPow rest = false.
  Definition follow1 (rest : list ctok) : Prop := followP rest /\ hd_is CStar rest = false /\ hd_is CSlash rest = false.
  Definition follow0 (rest : list ctok) : Prop := follow1 rest /\ hd_is CPlus rest = false /\ hd_is CMinus rest = false.

  (* the statements proved together, by induction on the tree *)
  Definition F4 (e : sexpr) : Prop := forall rest, exists f, p_atom row f (pr 4 e ++ rest) = Some (e, rest).
  Definition F2 (e : sexpr) : Prop := forall rest, followP rest -> exists f, p_factor row f (pr 2 e ++ rest) = Some (e, rest).
  Definition L1 (e : sexpr) : Prop := forall rest r, followP rest ->
    (exists f, p_term_loop row f e rest = Some r) -> exists f, p_term row f (pr 1 e ++ rest) = Some r.
  Definition L0 (e : sexpr) : Prop := forall rest r, follow1 rest ->
    (exists f, p_expr_loop row f e rest = Some r) -> exists f, p_expr row f (pr 0 e ++ rest) = Some r.

  Lemma loop0_stop rest e : hd_is CPlus rest = false -> hd_is CMinus rest = false -> p_expr_loop row 1 e rest = Some (e, rest).
  Proof. intros H1 H2. rewrite p_expr_loop_S. destruct rest as [|[] r]; try reflexivity; discriminate. Qed.
  Lemma loop1_stop rest e : hd_is CStar rest = false -> hd_is CSlash rest = false -> p_term_loop row 1 e rest = Some (e, rest).
  Proof. intros H1 H2. rewrite p_term_loop_S. destruct rest as [|[] r]; try reflexivity; discriminate. Qed.

  (* full parses at the term and at the expression level follow from the loop forms *)
  Lemma F1_of_L1 e rest : L1 e -> follow1 rest -> exists f, p_term row f (pr 1 e ++ rest) = Some (e, rest).
  Proof. intros H (Hp & H1 & H2). apply (H rest (e, rest) Hp). exists 1. apply loop1_stop; assumption. Qed.
  Lemma F0_of_L0 e rest : L0 e -> follow0 rest -> exists f, p_expr row f (pr 0 e ++ rest) = Some (e, rest).
  Proof. intros H (H1 & Ha & Hb). apply (H rest (e, rest) H1). exists 1. apply loop0_stop; assumption. Qed.

  Lemma pr_unfold lvl e : pr lvl e = if level e <? lvl then CLPar :: pr 0 e ++ [CRPar] else pr 0 e.
  Proof. destruct e as [| | | |[]| | | | |]; reflexivity. Qed.
  Lemma pr_same l1 l2 e : (level e <? l1) = (level e <? l2) -> pr l1 e = pr l2 e.
  Proof. intros H. rewrite (pr_unfold l1), (pr_unfold l2), H. reflexivity. Qed.
  Lemma hd_atom e rest : hd_is CMinus (pr 4 e ++ rest) = false.
  Proof. destruct e as [| | | |[]| | | | |]; reflexivity. Qed.

  Lemma follow0_rpar rest : follow0 (CRPar :: rest).
  Proof. repeat split. Qed.
  Lemma follow0_comma rest : follow0 (CComma :: rest).
  Proof. repeat split. Qed.

  (* ---- generic steps between the levels ---- *)
  Lemma L1_of_F2 e : pr 1 e = pr 2 e -> F2 e -> L1 e.
  Proof.
    intros Hp H rest r Hf (f & Hl). destruct (H rest Hf) as (f2 & H2). rewrite Hp.
    exists (S (Nat.max f f2)). rewrite p_term_S.
    rewrite (mono_factor row f2 (Nat.max f f2) _ _ (Nat.le_max_r _ _) H2).
    exact (mono_term_loop row f (Nat.max f f2) _ _ _ (Nat.le_max_l _ _) Hl).
  Qed.
  Lemma L0_of_L1 e : pr 0 e = pr 1 e -> L1 e -> L0 e.
  Proof.
    intros Hp H rest r Hf (f & Hl). destruct (F1_of_L1 e rest H Hf) as (f2 & H2). rewrite Hp.
    exists (S (Nat.max f f2)). rewrite p_expr_S.
    rewrite (mono_term row f2 (Nat.max f f2) _ _ (Nat.le_max_r _ _) H2).
    exact (mono_expr_loop row f (Nat.max f f2) _ _ _ (Nat.le_max_l _ _) Hl).
  Qed.
  Lemma F4_of_L0 e : level e <? 4 = true -> L0 e -> F4 e.
  Proof.
    intros Hl H rest. destruct (F0_of_L0 e (CRPar :: rest) H (follow0_rpar rest)) as (f & Hf).
    rewrite (pr_unfold 4), Hl. exists (S f). cbn [app]. rewrite <- app_assoc. cbn [app]. rewrite p_atom_S, Hf. reflexivity.
  Qed.
  Lemma F2_of_F4 e : pr 2 e = pr 4 e -> F4 e -> F2 e.
  Proof.
    intros Hp H rest Hf. destruct (H rest) as (f & Ha). rewrite Hp. exists (S (S f)).
    pose proof (hd_atom e rest) as Hh. rewrite p_factor_S.
    assert (E : match pr 4 e ++ rest with
                | CMinus :: r => match p_factor row (S f) r with Some (a, r') => Some (ENeg a, r') | None => None end
                | _ => p_power row (S f) (pr 4 e ++ rest)
                end = p_power row (S f) (pr 4 e ++ rest)).
    { destruct (pr 4 e ++ rest) as [|[] ?]; try reflexivity. discriminate Hh. }
    rewrite E, p_power_S, Ha. unfold followP in Hf. destruct rest as [|[] ?]; try reflexivity. discriminate Hf.
  Qed.

  Lemma follow1_plus x : follow1 (CPlus :: x).    Proof. repeat split. Qed.
  Lemma follow1_minus x : follow1 (CMinus :: x).  Proof. repeat split. Qed.
  Lemma followP_star x : followP (CStar :: x).    Proof. reflexivity. Qed.
  Lemma followP_slash x : followP (CSlash :: x).  Proof. reflexivity. Qed.

  (* ---- the binary operators ---- *)
  Lemma L0_bin (o : binop) tok a b :
    (o = OAdd /\ tok = CPlus) \/ (o = OSub /\ tok = CMinus) ->
    L0 a -> L1 b -> L0 (EBin o a b).
  Proof.
    intros Ho Ha Hb rest r Hf (f & Hl).
    assert (Epr : pr 0 (EBin o a b) ++ rest = pr 0 a ++ tok :: pr 1 b ++ rest).
    { destruct Ho as [[-> ->]|[-> ->]]; cbn [pr level Nat.ltb Nat.leb]; rewrite <- app_assoc; reflexivity. }
    rewrite Epr. destruct (F1_of_L1 b rest Hb Hf) as (fb & Hfb).
    apply (Ha (tok :: pr 1 b ++ rest) r).
    - destruct Ho as [[_ ->]|[_ ->]]; [apply follow1_plus|apply follow1_minus].
    - exists (S (Nat.max f fb)). rewrite p_expr_loop_S.
      destruct Ho as [[-> ->]|[-> ->]];
        rewrite (mono_term row fb (Nat.max f fb) _ _ (Nat.le_max_r _ _) Hfb);
        exact (mono_expr_loop row f (Nat.max f fb) _ _ _ (Nat.le_max_l _ _) Hl).
  Qed.
  Lemma L1_bin (o : binop) tok a b :
    (o = OMul /\ tok = CStar) \/ (o = ODiv /\ tok = CSlash) ->
    L1 a -> F2 b -> L1 (EBin o a b).
  Proof.
    intros Ho Ha Hb rest r Hf (f & Hl).
    assert (Epr : pr 1 (EBin o a b) ++ rest = pr 1 a ++ tok :: pr 2 b ++ rest).
    { destruct Ho as [[-> ->]|[-> ->]]; cbn [pr level Nat.ltb Nat.leb]; rewrite <- app_assoc; reflexivity. }
    rewrite Epr. destruct (Hb rest Hf) as (fb & Hfb).
    apply (Ha (tok :: pr 2 b ++ rest) r).
    - destruct Ho as [[_ ->]|[_ ->]]; [apply followP_star|apply followP_slash].
    - exists (S (Nat.max f fb)). rewrite p_term_loop_S.
      destruct Ho as [[-> ->]|[-> ->]];
        rewrite (mono_factor row fb (Nat.max f fb) _ _ (Nat.le_max_r _ _) Hfb);
        exact (mono_term_loop row f (Nat.max f fb) _ _ _ (Nat.le_max_l _ _) Hl).
  Qed.
  Lemma F2_neg a : F2 a -> F2 (ENeg a).
  Proof.
    intros Ha rest Hf. destruct (Ha rest Hf) as (f & H). exists (S f).
    cbn [pr level Nat.ltb Nat.leb app]. rewrite p_factor_S, H. reflexivity.
  Qed.
  Lemma F2_pow a b : F4 a -> F2 b -> F2 (EBin OPow a b).
  Proof.
    intros Ha Hb rest Hf. destruct (Hb rest Hf) as (fb & Hfb).
    destruct (Ha (CPow :: pr 2 b ++ rest)) as (fa & Hfa).
    assert (Epr : pr 2 (EBin OPow a b) ++ rest = pr 4 a ++ CPow :: pr 2 b ++ rest).
    { cbn [pr level Nat.ltb Nat.leb]. rewrite <- app_assoc. reflexivity. }
    rewrite Epr. set (m := Nat.max fa fb). exists (S (S m)).
    pose proof (hd_atom a (CPow :: pr 2 b ++ rest)) as Hh. rewrite p_factor_S.
    assert (E : match pr 4 a ++ CPow :: pr 2 b ++ rest with
                | CMinus :: r => match p_factor row (S m) r with Some (a0, r') => Some (ENeg a0, r') | None => None end
                | _ => p_power row (S m) (pr 4 a ++ CPow :: pr 2 b ++ rest)
                end = p_power row (S m) (pr 4 a ++ CPow :: pr 2 b ++ rest)).
    { destruct (pr 4 a ++ CPow :: pr 2 b ++ rest) as [|[] ?]; try reflexivity. discriminate Hh. }
    rewrite E, p_power_S.
    rewrite (mono_atom row fa m _ _ (Nat.le_max_l _ _) Hfa).
    rewrite (mono_factor row fb m _ _ (Nat.le_max_r _ _) Hfb). reflexivity.
  Qed.

  (* ---- atoms: literals, series, calls ---- *)
  Lemma F4_call1 g (k : fkind) a (e : sexpr) :
    fun_kind g = Some k -> apply_fun k [a] = Some e -> pr 4 e = CFun g :: CLPar :: pr 0 a ++ [CRPar] -> L0 a -> F4 e.
  Proof.
    intros Hk Hap Hpr Ha rest. destruct (F0_of_L0 a (CRPar :: rest) Ha (follow0_rpar rest)) as (f & Hf).
    rewrite Hpr. exists (S (S f)). cbn [app]. rewrite <- app_assoc. cbn [app].
    rewrite p_atom_S, Hk, p_args_S, Hf, Hap. reflexivity.
  Qed.
  Lemma F4_call2 g (k : fkind) a b (e : sexpr) :
    fun_kind g = Some k -> apply_fun k [a; b] = Some e ->
    pr 4 e = CFun g :: CLPar :: pr 0 a ++ CComma :: pr 0 b ++ [CRPar] -> L0 a -> L0 b -> F4 e.
  Proof.
    intros Hk Hap Hpr Ha Hb rest.
    destruct (F0_of_L0 b (CRPar :: rest) Hb (follow0_rpar rest)) as (fb & Hfb).
    destruct (F0_of_L0 a (CComma :: pr 0 b ++ CRPar :: rest) Ha (follow0_comma _)) as (fa & Hfa).
    rewrite Hpr. set (m := Nat.max fa fb). exists (S (S (S m))).
    assert (E : (CFun g :: CLPar :: pr 0 a ++ CComma :: pr 0 b ++ [CRPar]) ++ rest
                = CFun g :: CLPar :: pr 0 a ++ CComma :: pr 0 b ++ CRPar :: rest).
    { cbn [app]. rewrite <- app_assoc. cbn [app]. rewrite <- app_assoc. reflexivity. }
    rewrite E, p_atom_S, Hk, p_args_S.
    rewrite (tree_fuel_monotone row fa (S m) _ _ ltac:(unfold m; lia) Hfa), p_args_S.
    rewrite (tree_fuel_monotone row fb m _ _ (Nat.le_max_r _ _) Hfb), Hap. reflexivity.
  Qed.

  Theorem print_parse_levels e : printable e -> F4 e /\ F2 e /\ L1 e /\ L0 e.
  Proof.
    induction e as [s|i k|a IHa|a IHa|o a IHa b IHb|a IHa b IHb|a IHa b IHb|o l IHl r IHr a IHa b IHb|g a IHa|g a IHa b IHb];
      cbn [printable]; intros Hp.
    - (* literal *)
      assert (A : F4 (ENum s)) by (intros rest; exists 1; cbn [pr level Nat.ltb Nat.leb app]; rewrite p_atom_S, Hp; reflexivity).
      assert (B : F2 (ENum s)) by (apply F2_of_F4; [reflexivity|exact A]).
      assert (C : L1 (ENum s)) by (apply L1_of_F2; [reflexivity|exact B]).
      repeat split; auto. apply L0_of_L1; [reflexivity|exact C].
    - (* series *)
      assert (A : F4 (ERead i k)) by (intros rest; exists 1; cbn [pr level Nat.ltb Nat.leb app]; rewrite p_atom_S, Hp; reflexivity).
      assert (B : F2 (ERead i k)) by (apply F2_of_F4; [reflexivity|exact A]).
      assert (C : L1 (ERead i k)) by (apply L1_of_F2; [reflexivity|exact B]).
      repeat split; auto. apply L0_of_L1; [reflexivity|exact C].
    - (* unary minus *)
      destruct (IHa Hp) as (_ & Fa & _ & _).
      assert (B : F2 (ENeg a)) by (apply F2_neg, Fa).
      assert (C : L1 (ENeg a)) by (apply L1_of_F2; [reflexivity|exact B]).
      assert (D : L0 (ENeg a)) by (apply L0_of_L1; [reflexivity|exact C]).
      repeat split; auto. apply F4_of_L0; [reflexivity|exact D].
    - (* abs *)
      destruct (IHa Hp) as (_ & _ & _ & La).
      assert (A : F4 (EAbs a)) by (apply (F4_call1 "abs" FAbs a); [reflexivity|reflexivity|reflexivity|exact La]).
      assert (B : F2 (EAbs a)) by (apply F2_of_F4; [reflexivity|exact A]).
      assert (C : L1 (EAbs a)) by (apply L1_of_F2; [reflexivity|exact B]).
      repeat split; auto. apply L0_of_L1; [reflexivity|exact C].
    - (* binary operators *)
      destruct Hp as [Hpa Hpb]. destruct (IHa Hpa) as (A4 & A2 & A1 & A0). destruct (IHb Hpb) as (B4 & B2 & B1 & B0).
      destruct o.
      + assert (D : L0 (EBin OAdd a b)) by (apply (L0_bin OAdd CPlus); auto).
        assert (A : F4 (EBin OAdd a b)) by (apply F4_of_L0; [reflexivity|exact D]).
        assert (B : F2 (EBin OAdd a b)) by (apply F2_of_F4; [reflexivity|exact A]).
        repeat split; auto. apply L1_of_F2; [reflexivity|exact B].
      + assert (D : L0 (EBin OSub a b)) by (apply (L0_bin OSub CMinus); auto).
        assert (A : F4 (EBin OSub a b)) by (apply F4_of_L0; [reflexivity|exact D]).
        assert (B : F2 (EBin OSub a b)) by (apply F2_of_F4; [reflexivity|exact A]).
        repeat split; auto. apply L1_of_F2; [reflexivity|exact B].
      + assert (C : L1 (EBin OMul a b)) by (apply (L1_bin OMul CStar); auto).
        assert (D : L0 (EBin OMul a b)) by (apply L0_of_L1; [reflexivity|exact C]).
        assert (A : F4 (EBin OMul a b)) by (apply F4_of_L0; [reflexivity|exact D]).
        repeat split; auto. apply F2_of_F4; [reflexivity|exact A].
      + assert (C : L1 (EBin ODiv a b)) by (apply (L1_bin ODiv CSlash); auto).
        assert (D : L0 (EBin ODiv a b)) by (apply L0_of_L1; [reflexivity|exact C]).
        assert (A : F4 (EBin ODiv a b)) by (apply F4_of_L0; [reflexivity|exact D]).
        repeat split; auto. apply F2_of_F4; [reflexivity|exact A].
      + assert (B : F2 (EBin OPow a b)) by (apply F2_pow; auto).
        assert (C : L1 (EBin OPow a b)) by (apply L1_of_F2; [reflexivity|exact B]).
        assert (D : L0 (EBin OPow a b)) by (apply L0_of_L1; [reflexivity|exact C]).
        repeat split; auto. apply F4_of_L0; [reflexivity|exact D].
    - (* max *)
      destruct Hp as [Hpa Hpb]. destruct (IHa Hpa) as (_ & _ & _ & A0). destruct (IHb Hpb) as (_ & _ & _ & B0).
      assert (A : F4 (EMax a b)) by (apply (F4_call2 "max" FMax a b); [reflexivity|reflexivity|reflexivity|exact A0|exact B0]).
      assert (B : F2 (EMax a b)) by (apply F2_of_F4; [reflexivity|exact A]).
      assert (C : L1 (EMax a b)) by (apply L1_of_F2; [reflexivity|exact B]).
      repeat split; auto. apply L0_of_L1; [reflexivity|exact C].
    - (* min *)
      destruct Hp as [Hpa Hpb]. destruct (IHa Hpa) as (_ & _ & _ & A0). destruct (IHb Hpb) as (_ & _ & _ & B0).
      assert (A : F4 (EMin a b)) by (apply (F4_call2 "min" FMin a b); [reflexivity|reflexivity|reflexivity|exact A0|exact B0]).
      assert (B : F2 (EMin a b)) by (apply F2_of_F4; [reflexivity|exact A]).
      assert (C : L1 (EMin a b)) by (apply L1_of_F2; [reflexivity|exact B]).
      repeat split; auto. apply L0_of_L1; [reflexivity|exact C].
    - contradiction.
    - (* np.exp / np.log *)
      destruct Hp as [Hg Hpa]. destruct (IHa Hpa) as (_ & _ & _ & A0).
      assert (A : F4 (ECall1 g a)).
      { destruct Hg as [-> | ->].
        - apply (F4_call1 "np.exp" FExp a); [reflexivity|reflexivity|reflexivity|exact A0].
        - apply (F4_call1 "np.log" FLog a); [reflexivity|reflexivity|reflexivity|exact A0]. }
      assert (B : F2 (ECall1 g a)) by (apply F2_of_F4; [reflexivity|exact A]).
      assert (C : L1 (ECall1 g a)) by (apply L1_of_F2; [reflexivity|exact B]).
      repeat split; auto. apply L0_of_L1; [reflexivity|exact C].
    - contradiction.
  Qed.

  (* print_parse: the printed tokens of every printable tree are read back as exactly that tree (and tree_fuel is enough fuel) *)
  Theorem print_parse e rest :
    printable e -> follow0 rest -> p_expr row (tree_fuel (pr 0 e ++ rest)) (pr 0 e ++ rest) = Some (e, rest).
  Proof.
    intros Hp Hf. destruct (print_parse_levels e Hp) as (_ & _ & _ & H0).
    destruct (F0_of_L0 e rest H0 Hf) as (f & H). exact (tree_fuel_suffices row f _ _ _ H).
  Qed.

  (* at statement level: NAME[k0] = <printed e> is the assignment of (the integer-folded) e *)
  Theorem print_parse_statement y i k0 e :
    row y = Some i -> printable e ->
    src_of_tokens row (CRead y k0 :: CAssign :: pr 0 e) = Some (y, i, k0, SVal e)
    /\ stmt_of_tokens row (CRead y k0 :: CAssign :: pr 0 e)
       = (if py_ok (fold_ints e) then Some (y, SAssign i k0 (fold_ints e)) else None).
  Proof.
    intros Hy Hp.
    assert (A : src_of_tokens row (CRead y k0 :: CAssign :: pr 0 e) = Some (y, i, k0, SVal e)).
    { unfold src_of_tokens. rewrite Hy. unfold test_fuel. replace (8 * length (pr 0 e) + 8) with (S (8 * length (pr 0 e) + 7)) by lia.
      cbn [p_test].
      assert (Hf : follow0 []) by (repeat split).
      pose proof (print_parse e [] Hp Hf) as H. rewrite app_nil_r in H. rewrite H. reflexivity. }
    split; [exact A|]. unfold stmt_of_tokens. rewrite A. reflexivity.
  Qed.

  (* the shapes, spelled out (all by computation of pr): which token sequence is which tree *)
  Lemma pr_sub_sub a b c : pr 0 (EBin OSub (EBin OSub a b) c) = (pr 0 a ++ CMinus :: pr 1 b) ++ CMinus :: pr 1 c.
  Proof. reflexivity. Qed.
  Lemma pr_sub_right a b c :
    pr 0 (EBin OSub a (EBin OSub b c)) = pr 0 a ++ CMinus :: CLPar :: (pr 0 b ++ CMinus :: pr 1 c) ++ [CRPar].
  Proof. reflexivity. Qed.
  Lemma pr_div_mul a b c : pr 0 (EBin OMul (EBin ODiv a b) c) = (pr 1 a ++ CSlash :: pr 2 b) ++ CStar :: pr 2 c.
  Proof. reflexivity. Qed.
  Lemma pr_div_right a b c :
    pr 0 (EBin ODiv a (EBin OMul b c)) = pr 1 a ++ CSlash :: CLPar :: (pr 1 b ++ CStar :: pr 2 c) ++ [CRPar].
  Proof. reflexivity. Qed.
  Lemma pr_add_mul a b c : pr 0 (EBin OAdd a (EBin OMul b c)) = pr 0 a ++ CPlus :: pr 1 b ++ CStar :: pr 2 c.
  Proof. reflexivity. Qed.
  Lemma pr_neg_pow a b : pr 0 (ENeg (EBin OPow a b)) = CMinus :: pr 4 a ++ CPow :: pr 2 b.
  Proof. reflexivity. Qed.
  Lemma pr_pow_neg_base a b : pr 0 (EBin OPow (ENeg a) b) = (CLPar :: (CMinus :: pr 2 a) ++ [CRPar]) ++ CPow :: pr 2 b.
  Proof. reflexivity. Qed.
  Lemma pr_pow_neg_exponent a b : pr 0 (EBin OPow a (ENeg b)) = pr 4 a ++ CPow :: CMinus :: pr 2 b.
  Proof. reflexivity. Qed.
  Lemma pr_pow_pow a b c : pr 0 (EBin OPow a (EBin OPow b c)) = pr 4 a ++ CPow :: pr 4 b ++ CPow :: pr 2 c.
  Proof. reflexivity. Qed.
  Lemma pr_pow_left a b c :
    pr 0 (EBin OPow (EBin OPow a b) c) = (CLPar :: (pr 4 a ++ CPow :: pr 2 b) ++ [CRPar]) ++ CPow :: pr 2 c.
  Proof. reflexivity. Qed.
  Lemma pr_neg_mul a b : pr 0 (EBin OMul (ENeg a) b) = (CMinus :: pr 2 a) ++ CStar :: pr 2 b.
  Proof. reflexivity. Qed.
  Lemma pr_mul_neg a b : pr 0 (EBin OMul a (ENeg b)) = pr 1 a ++ CStar :: CMinus :: pr 2 b.
  Proof. reflexivity. Qed.

  (* printing is injective on printable trees: two different trees never print to the same tokens *)
  Corollary pr_injective e1 e2 : printable e1 -> printable e2 -> pr 0 e1 = pr 0 e2 -> e1 = e2.
  Proof.
    intros H1 H2 E. assert (Hf : follow0 []) by (repeat split).
    pose proof (print_parse e1 [] H1 Hf) as A. pose proof (print_parse e2 [] H2 Hf) as B.
    rewrite E in A. rewrite A in B. congruence.
  Qed.
End Print.
