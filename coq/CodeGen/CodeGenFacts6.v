(* CodeGenFacts6.v — the whitespace normalisation of parse_equation never changes the token sequence
   (property C01: "the normalised equation text … denotes the same expression", and the three regex substitutions
   can neither merge two tokens nor split one).

   lex_norm : lex_items LNone (norm_items l) = lex_items LNone l   for EVERY item list,
   hence the statement read off the normalised items is the statement read off the script as written. *)
From Coq Require Import String Ascii List Bool Arith ZArith Lia.
Import ListNotations.
Require Import Generated PyBase PyStr Lex Format Symbols Split Merge ParseEq ParseModel Eval CodeGen.
Open Scope string_scope.
Open Scope list_scope.

(* a \s character is neither a digit, nor a dot, nor a star (256-character sweep) *)
Lemma space_not_special c : is_space c = true ->
  (is_digit c || Ascii.eqb c ".") = false /\ Ascii.eqb c "*" = false /\ is_opc c = false.
Proof.
  destruct c as [[] [] [] [] [] [] [] []]; vm_compute; intros H; try discriminate H; repeat split; reflexivity.
Qed.

(* one step of the lexer: tokens emitted, next state *)
Definition lex_step (st : lstate) (i : item) : list ctok * lstate :=
  match i with
  | Tok _ m => (flush st ++ (if fuses st m then [CBad] else []) ++ [tok_of_match m], after_match m)
  | Chr c =>
    if is_digit c || Ascii.eqb c "." then
      match st with LNum a => ([], LNum (String c a)) | _ => (flush st, LNum (String c "")) end
    else if Ascii.eqb c "*" then
      match st with LStar => ([CPow], LNone) | _ => (flush st, LStar) end
    else if is_opc c then
      match st with
      | LOp p => if Ascii.eqb c "=" then ([op2 p], LNone) else (flush st, LOp c)
      | _ => (flush st, LOp c)
      end
    else if is_space c then (flush st, LNone)
    else (flush st ++ [tok_of_char c], LNone)
  end.

Lemma lex_cons st i r : lex_items st (i :: r) = fst (lex_step st i) ++ lex_items (snd (lex_step st i)) r.
Proof.
  destruct i as [c|p m]; cbn [lex_items lex_step].
  - destruct (is_digit c || Ascii.eqb c "."); [destruct st; reflexivity|].
    destruct (Ascii.eqb c "*"); [destruct st; reflexivity|].
    destruct (is_opc c); [destruct st; try reflexivity; destruct (Ascii.eqb c "="); reflexivity|].
    destruct (is_space c); cbn [fst snd]; [reflexivity|]. rewrite <- app_assoc. reflexivity.
  - cbn [fst snd]. rewrite <- !app_assoc. reflexivity.
Qed.

Lemma lex_space st c r : is_space c = true -> lex_items st (Chr c :: r) = flush st ++ lex_items LNone r.
Proof.
  intros H. destruct (space_not_special c H) as (H1 & H2 & H3). cbn [lex_items]. rewrite H1, H2, H3, H. reflexivity.
Qed.
Lemma lex_space_none c r : is_space c = true -> lex_items LNone (Chr c :: r) = lex_items LNone r.
Proof. intros H. rewrite (lex_space _ _ _ H). reflexivity. Qed.

Lemma item_space_chr i : item_space i = true -> exists c, i = Chr c /\ is_space c = true.
Proof. destruct i as [c|p m]; cbn; intros H; [exists c; auto|discriminate]. Qed.

(* re.sub(r'\s+', ' ', ·) *)
Lemma lex_ws l : forall b st, (b = true -> st = LNone) -> lex_items st (ws_items b l) = lex_items st l.
Proof.
  induction l as [|i r IH]; intros b st Hb; cbn [ws_items]; [reflexivity|].
  destruct (item_space i) eqn:Ei.
  - destruct (item_space_chr i Ei) as (c & -> & Hc). destruct b.
    + rewrite (Hb eq_refl), (lex_space_none c r Hc). apply IH. auto.
    + rewrite (lex_space st " " _ eq_refl), (lex_space st c r Hc). f_equal. apply IH. auto.
  - rewrite !lex_cons. f_equal. apply IH. discriminate.
Qed.

(* re.sub(r'\(\s+', '(', ·) *)
Lemma step_after_open st i : item_is "(" i = true -> snd (lex_step st i) = LNone.
Proof.
  destruct i as [c|p m]; cbn [item_is]; [|discriminate]. intros H. apply Ascii.eqb_eq in H. subst c. reflexivity.
Qed.
Lemma lex_open l : forall b st, (b = true -> st = LNone) -> lex_items st (open_items b l) = lex_items st l.
Proof.
  induction l as [|i r IH]; intros b st Hb; cbn [open_items]; [reflexivity|].
  destruct (b && item_space i) eqn:E.
  - apply andb_true_iff in E as [-> Ei]. destruct (item_space_chr i Ei) as (c & -> & Hc).
    rewrite (Hb eq_refl), (lex_space_none c r Hc). apply IH. auto.
  - rewrite !lex_cons. f_equal. apply IH. intros H. apply step_after_open, H.
Qed.

(* re.sub(r'\s+\)', ')', ·) *)
Lemma lex_before_close st l : head_item_is ")" l = true -> lex_items st l = flush st ++ lex_items LNone l.
Proof.
  destruct l as [|[c|p m] r]; cbn [head_item_is item_is]; try discriminate. intros H.
  apply Ascii.eqb_eq in H. subst c. reflexivity.
Qed.
Lemma lex_close l : forall st, lex_items st (close_items l) = lex_items st l.
Proof.
  induction l as [|i r IH]; intros st; cbn [close_items]; [reflexivity|].
  destruct (item_space i && head_item_is ")" (close_items r)) eqn:E.
  - apply andb_true_iff in E as [Ei Eh]. destruct (item_space_chr i Ei) as (c & -> & Hc).
    rewrite (lex_space st c r Hc), (lex_before_close st _ Eh), IH. reflexivity.
  - rewrite !lex_cons. f_equal. apply IH.
Qed.

Theorem lex_norm l : lex_items LNone (norm_items l) = lex_items LNone l.
Proof.
  unfold norm_items. rewrite lex_close, lex_open by discriminate. apply lex_ws. discriminate.
Qed.

(* the statement denoted by the normalised items (what equation_text / code_text render) is the statement denoted
   by the script as written *)
Corollary normalised_statement_same row eq :
  stmt_of_tokens row (lex_items LNone (norm_items (scan_items eq))) = stmt_of_equation row eq.
Proof. unfold stmt_of_equation. rewrite lex_norm. reflexivity. Qed.
