(* CodeGenFacts2.v — proofs about CodeGen.v, semantic level (property C01, second half).

   tree_reads            : the tree parser neither drops, nor duplicates, nor reorders a series term: the reads of the
                           parsed expression are exactly the CRead tokens consumed, in textual order
   lex_reads             : the tokens of a statement contain exactly one CRead per VARIABLE / PARAMETER / ERROR match
                           with an integer index, in textual order, carrying that index (0 when none is written)
   statement_terms_exact : hence for a statement `NAME[k0] = rhs` of the subset: (row NAME, k0) followed by the reads of
                           the tree = the series matches of the statement text, in order, each at the written lag / lead
   program_order         : the statements of a script's program are those of the symbols build_model_definition emits,
                           in SYMBOL order, each writing the row of its own name *)
From Coq Require Import String Ascii List Bool Arith ZArith Lia.
Import ListNotations.
Require Import Generated PyBase PyStr Lex Format Symbols Split Merge ParseEq ParseModel Eval CodeGen.
Open Scope string_scope.
Open Scope nat_scope.

Notation reads := (expr_reads string).

(* folding integer-literal subtrees changes no read *)
Lemma fold2_reads f a b d : expr_reads string d = [] -> expr_reads string (fold2 f a b d) = [].
Proof. intros H. unfold fold2. destruct (int_lit a && int_lit b && small_int (f (int_val a) (int_val b))); [reflexivity|exact H]. Qed.
Lemma fold_ints_reads (e : sexpr) : expr_reads string (fold_ints e) = expr_reads string e.
Proof.
  induction e as [x|x k|a IHa|a IHa|o a IHa b IHb|a IHa b IHb|a IHa b IHb|o l IHl r IHr a IHa b IHb|g a IHa|g a IHa b IHb];
    cbn [fold_ints expr_reads]; try reflexivity.
  - rewrite <- IHa. destruct (fold_ints a); try reflexivity. destruct (int_lit x); reflexivity.
  - rewrite <- IHa. destruct (fold_ints a); try reflexivity. destruct (int_lit x); reflexivity.
  - rewrite <- IHa, <- IHb.
    destruct o, (fold_ints a), (fold_ints b); try reflexivity; cbn [expr_reads app]; apply fold2_reads; reflexivity.
  - rewrite <- IHa, <- IHb. destruct (fold_ints a), (fold_ints b); try reflexivity; cbn [expr_reads app]; apply fold2_reads; reflexivity.
  - rewrite <- IHa, <- IHb. destruct (fold_ints a), (fold_ints b); try reflexivity; cbn [expr_reads app]; apply fold2_reads; reflexivity.
  - rewrite IHl, IHr, IHa, IHb. reflexivity.
  - rewrite IHa. reflexivity.
  - rewrite IHa, IHb. reflexivity.
Qed.

Section TreeFacts.
  Variable row : string -> option nat.
  Notation toks_reads := (tok_reads row).

  Definition somes (l : list (nat * Z)) : list (option (nat * Z)) := map Some l.
  Lemma somes_app a b : somes (a ++ b) = (somes a ++ somes b)%list.
  Proof. apply map_app. Qed.

  Lemma reads_fold_max rest : forall acc,
    reads (fold_left (fun x y => EMax x y) rest acc) = (reads acc ++ flat_map reads rest)%list.
  Proof.
    induction rest as [|e r IH]; intros acc; cbn [fold_left flat_map]; [rewrite app_nil_r; reflexivity|].
    rewrite IH. cbn [expr_reads]. rewrite app_assoc. reflexivity.
  Qed.
  Lemma reads_fold_min rest : forall acc,
    reads (fold_left (fun x y => EMin x y) rest acc) = (reads acc ++ flat_map reads rest)%list.
  Proof.
    induction rest as [|e r IH]; intros acc; cbn [fold_left flat_map]; [rewrite app_nil_r; reflexivity|].
    rewrite IH. cbn [expr_reads]. rewrite app_assoc. reflexivity.
  Qed.
  Lemma apply_fun_reads k args e : apply_fun k args = Some e -> reads e = flat_map reads args.
  Proof.
    destruct k; destruct args as [|a [|b rest]]; cbn [apply_fun]; intros H; inversion H; subst; clear H;
      cbn [expr_reads flat_map]; rewrite ?app_nil_r; try reflexivity.
    - rewrite reads_fold_max. cbn [expr_reads]. rewrite app_assoc. reflexivity.
    - rewrite reads_fold_min. cbn [expr_reads]. rewrite app_assoc. reflexivity.
  Qed.

  (* one-step unfoldings of the mutually recursive parser *)
  Lemma p_expr_S f ts : p_expr row (S f) ts =
    match p_term row f ts with Some (a, r) => p_expr_loop row f a r | None => None end.
  Proof. reflexivity. Qed.
  Lemma p_expr_loop_S f acc ts : p_expr_loop row (S f) acc ts =
    match ts with
    | CPlus :: r => match p_term row f r with Some (b, r') => p_expr_loop row f (EBin OAdd acc b) r' | None => None end
    | CMinus :: r => match p_term row f r with Some (b, r') => p_expr_loop row f (EBin OSub acc b) r' | None => None end
    | _ => Some (acc, ts)
    end.
  Proof. reflexivity. Qed.
  Lemma p_term_S f ts : p_term row (S f) ts =
    match p_factor row f ts with Some (a, r) => p_term_loop row f a r | None => None end.
  Proof. reflexivity. Qed.
  Lemma p_term_loop_S f acc ts : p_term_loop row (S f) acc ts =
    match ts with
    | CStar :: r => match p_factor row f r with Some (b, r') => p_term_loop row f (EBin OMul acc b) r' | None => None end
    | CSlash :: r => match p_factor row f r with Some (b, r') => p_term_loop row f (EBin ODiv acc b) r' | None => None end
    | _ => Some (acc, ts)
    end.
  Proof. reflexivity. Qed.
  Lemma p_factor_S f ts : p_factor row (S f) ts =
    match ts with
    | CMinus :: r => match p_factor row f r with Some (a, r') => Some (ENeg a, r') | None => None end
    | _ => p_power row f ts
    end.
  Proof. reflexivity. Qed.
  Lemma p_power_S f ts : p_power row (S f) ts =
    match p_atom row f ts with
    | Some (a, CPow :: r) => match p_factor row f r with Some (b, r') => Some (EBin OPow a b, r') | None => None end
    | x => x
    end.
  Proof. reflexivity. Qed.
  Lemma p_atom_S f ts : p_atom row (S f) ts =
    match ts with
    | CNum s :: r => if num_ok s then Some (ENum s, r) else None
    | CRead x k :: r => match row x with Some i => Some (ERead i k, r) | None => None end
    | CLPar :: r => match p_expr row f r with Some (e, CRPar :: r') => Some (e, r') | _ => None end
    | CFun g :: CLPar :: r =>
      match fun_kind g, p_args row f r with
      | Some k, Some (args, r') => match apply_fun k args with Some e => Some (e, r') | None => None end
      | _, _ => None
      end
    | _ => None
    end.
  Proof. reflexivity. Qed.
  Lemma p_args_S f ts : p_args row (S f) ts =
    match p_expr row f ts with
    | Some (e, CRPar :: r) => Some ([e], r)
    | Some (e, CComma :: r) => match p_args row f r with Some (es, r') => Some (e :: es, r') | None => None end
    | _ => None
    end.
  Proof. reflexivity. Qed.

  (* what each parsing function guarantees, at a given fuel *)
  Definition ok1 (p : list ctok -> option (sexpr * list ctok)) : Prop :=
    forall ts e rest, p ts = Some (e, rest) -> toks_reads ts = (somes (reads e) ++ toks_reads rest)%list.
  Definition okL (p : sexpr -> list ctok -> option (sexpr * list ctok)) : Prop :=
    forall acc ts e rest, p acc ts = Some (e, rest) ->
      exists extra, reads e = (reads acc ++ extra)%list /\ toks_reads ts = (somes extra ++ toks_reads rest)%list.
  Definition okA (p : list ctok -> option (list sexpr * list ctok)) : Prop :=
    forall ts es rest, p ts = Some (es, rest) -> toks_reads ts = (somes (flat_map reads es) ++ toks_reads rest)%list.

  Lemma tree_ok fuel :
    ok1 (p_expr row fuel) /\ okL (p_expr_loop row fuel) /\ ok1 (p_term row fuel) /\ okL (p_term_loop row fuel) /\
    ok1 (p_factor row fuel) /\ ok1 (p_power row fuel) /\ ok1 (p_atom row fuel) /\ okA (p_args row fuel).
  Proof.
    induction fuel as [|f (IHe & IHel & IHt & IHtl & IHf & IHp & IHa & IHas)].
    - repeat split; red; intros; match goal with H : _ = Some _ |- _ => cbn in H; discriminate H end.
    - repeat split.
      + (* p_expr *) intros ts e rest H. rewrite p_expr_S in H.
        destruct (p_term row f ts) as [[a r]|] eqn:E; [|discriminate].
        apply IHt in E. apply IHel in H as (extra & H1 & H2).
        rewrite E, H2, H1, somes_app, app_assoc. reflexivity.
      + (* p_expr_loop *) intros acc ts e rest H. rewrite p_expr_loop_S in H.
        destruct ts as [|[x k|g|s| | | | | | | | | | |xt] r];
          try (inversion H; subst; exists []; rewrite app_nil_r; split; reflexivity).
        * destruct (p_term row f r) as [[b r']|] eqn:E; [|discriminate].
          apply IHt in E. apply IHel in H as (extra & H1 & H2). cbn [expr_reads] in H1.
          exists (reads b ++ extra)%list. split; [rewrite H1, app_assoc; reflexivity|].
          cbn [tok_reads]. rewrite E, H2, somes_app, app_assoc. reflexivity.
        * destruct (p_term row f r) as [[b r']|] eqn:E; [|discriminate].
          apply IHt in E. apply IHel in H as (extra & H1 & H2). cbn [expr_reads] in H1.
          exists (reads b ++ extra)%list. split; [rewrite H1, app_assoc; reflexivity|].
          cbn [tok_reads]. rewrite E, H2, somes_app, app_assoc. reflexivity.
      + (* p_term *) intros ts e rest H. rewrite p_term_S in H.
        destruct (p_factor row f ts) as [[a r]|] eqn:E; [|discriminate].
        apply IHf in E. apply IHtl in H as (extra & H1 & H2).
        rewrite E, H2, H1, somes_app, app_assoc. reflexivity.
      + (* p_term_loop *) intros acc ts e rest H. rewrite p_term_loop_S in H.
        destruct ts as [|[x k|g|s| | | | | | | | | | |xt] r];
          try (inversion H; subst; exists []; rewrite app_nil_r; split; reflexivity).
        * destruct (p_factor row f r) as [[b r']|] eqn:E; [|discriminate].
          apply IHf in E. apply IHtl in H as (extra & H1 & H2). cbn [expr_reads] in H1.
          exists (reads b ++ extra)%list. split; [rewrite H1, app_assoc; reflexivity|].
          cbn [tok_reads]. rewrite E, H2, somes_app, app_assoc. reflexivity.
        * destruct (p_factor row f r) as [[b r']|] eqn:E; [|discriminate].
          apply IHf in E. apply IHtl in H as (extra & H1 & H2). cbn [expr_reads] in H1.
          exists (reads b ++ extra)%list. split; [rewrite H1, app_assoc; reflexivity|].
          cbn [tok_reads]. rewrite E, H2, somes_app, app_assoc. reflexivity.
      + (* p_factor *) intros ts e rest H. rewrite p_factor_S in H.
        destruct ts as [|[x k|g|s| | | | | | | | | | |xt] r]; try (apply IHp in H; exact H).
        destruct (p_factor row f r) as [[a r']|] eqn:E; [|discriminate]. inversion H; subst.
        apply IHf in E. cbn [tok_reads expr_reads]. exact E.
      + (* p_power *) intros ts e rest H. rewrite p_power_S in H.
        destruct (p_atom row f ts) as [[a r]|] eqn:E; [|discriminate]. apply IHa in E.
        destruct r as [|[x k|g|s| | | | | | | | | | |xt] r]; try (inversion H; subst; exact E).
        destruct (p_factor row f r) as [[b r']|] eqn:E2; [|discriminate]. inversion H; subst.
        apply IHf in E2. cbn [tok_reads] in E. cbn [expr_reads]. rewrite E, E2, somes_app, app_assoc. reflexivity.
      + (* p_atom *) intros ts e rest H. rewrite p_atom_S in H.
        destruct ts as [|[x k|g|s| | | | | | | | | | |xt] r]; try discriminate.
        * destruct (row x) as [i|] eqn:Er; [|discriminate]. inversion H; subst.
          cbn [tok_reads expr_reads somes map app]. rewrite Er. reflexivity.
        * destruct r as [|[x k|g'|s| | | | | | | | | | |xt] r]; try discriminate.
          destruct (fun_kind g) as [k|]; [|discriminate].
          destruct (p_args row f r) as [[args r']|] eqn:E; [|discriminate].
          destruct (apply_fun k args) as [e'|] eqn:Ef; [|discriminate]. inversion H; subst.
          apply IHas in E. cbn [tok_reads]. rewrite E, (apply_fun_reads _ _ _ Ef). reflexivity.
        * destruct (num_ok s); [|discriminate]. inversion H; subst. reflexivity.
        * destruct (p_expr row f r) as [[e' r']|] eqn:E; [|discriminate].
          destruct r' as [|[x k|g|s| | | | | | | | | | |xt] r']; try discriminate. inversion H; subst.
          apply IHe in E. cbn [tok_reads] in *. exact E.
      + (* p_args *) intros ts es rest H. rewrite p_args_S in H.
        destruct (p_expr row f ts) as [[e r]|] eqn:E; [|discriminate]. apply IHe in E.
        destruct r as [|[x k|g|s| | | | | | | | | | |xt] r]; try discriminate.
        * inversion H; subst. cbn [flat_map]. rewrite app_nil_r. cbn [tok_reads] in E. exact E.
        * destruct (p_args row f r) as [[es' r']|] eqn:E2; [|discriminate]. inversion H; subst.
          apply IHas in E2. cbn [flat_map tok_reads] in *. rewrite E, E2, somes_app, app_assoc. reflexivity.
  Qed.

  Theorem tree_reads fuel ts e rest :
    p_expr row fuel ts = Some (e, rest) -> toks_reads ts = (somes (reads e) ++ toks_reads rest)%list.
  Proof. apply (proj1 (tree_ok fuel)). Qed.

End TreeFacts.

(* ---------- conditional expressions ---------- *)
Section TestFacts.
  Variable row : string -> option nat.
  Notation toks_reads := (tok_reads row).
  Notation arith := (fun ts => p_expr row (tree_fuel ts) ts).

  Lemma p_or_S f ts : p_or row (S f) ts = match p_and row f ts with Some (c, r) => p_or_loop row f c r | None => None end.
  Proof. reflexivity. Qed.
  Lemma p_or_loop_S f acc ts : p_or_loop row (S f) acc ts =
    match ts with
    | CX XOr :: r => match p_and row f r with Some (b, r') => p_or_loop row f (SOr acc b) r' | None => None end
    | _ => Some (acc, ts)
    end.
  Proof. reflexivity. Qed.
  Lemma p_and_S f ts : p_and row (S f) ts = match p_not row f ts with Some (c, r) => p_and_loop row f c r | None => None end.
  Proof. reflexivity. Qed.
  Lemma p_and_loop_S f acc ts : p_and_loop row (S f) acc ts =
    match ts with
    | CX XAnd :: r => match p_not row f r with Some (b, r') => p_and_loop row f (SAnd acc b) r' | None => None end
    | _ => Some (acc, ts)
    end.
  Proof. reflexivity. Qed.
  Lemma p_not_S f ts : p_not row (S f) ts =
    match ts with
    | CX XNot :: r => match p_not row f r with Some (c, r') => Some (SNot c, r') | None => None end
    | _ => p_cmp row f ts
    end.
  Proof. reflexivity. Qed.
  Lemma p_cmp_S f ts : p_cmp row (S f) ts =
    match arith ts with
    | Some (l, CX (XCmp o) :: r) => match arith r with Some (r', rest) => Some (SCmp o l r', rest) | None => None end
    | _ => match ts with
           | CLPar :: r => match p_or row f r with Some (c, CRPar :: rest) => Some (c, rest) | _ => None end
           | _ => None
           end
    end.
  Proof. reflexivity. Qed.
  Lemma p_test_S f ts : p_test row (S f) ts =
    match arith ts with
    | Some (a, CX XIf :: r) =>
      match p_or row f r with
      | Some (c, CX XElse :: r2) => match p_test row f r2 with Some (b, rest) => Some (SIf a c b, rest) | None => None end
      | _ => None
      end
    | Some (a, rest) => Some (SVal a, rest)
    | None => None
    end.
  Proof. reflexivity. Qed.

  Definition okC (p : list ctok -> option (scond * list ctok)) : Prop :=
    forall ts c rest, p ts = Some (c, rest) -> toks_reads ts = (somes (cond_reads c) ++ toks_reads rest)%list.
  Definition okCL (p : scond -> list ctok -> option (scond * list ctok)) : Prop :=
    forall acc ts c rest, p acc ts = Some (c, rest) ->
      exists extra, cond_reads c = (cond_reads acc ++ extra)%list /\ toks_reads ts = (somes extra ++ toks_reads rest)%list.

  (* the alternative of p_cmp that starts with a parenthesis *)
  Lemma paren_cond_ok f ts c rest : okC (p_or row f) ->
    match ts with
    | CLPar :: r => match p_or row f r with Some (c, CRPar :: rest) => Some (c, rest) | _ => None end
    | _ => None
    end = Some (c, rest) -> toks_reads ts = (somes (cond_reads c) ++ toks_reads rest)%list.
  Proof.
    intros IH H. destruct ts as [|[x k|g|s| | | | | | | | | | |xt] r]; try discriminate.
    destruct (p_or row f r) as [[c' r1]|] eqn:E; [|discriminate].
    destruct r1 as [|[x k|g|s| | | | | | | | | | |xt] r1]; try discriminate. inversion H; subst.
    apply IH in E. cbn [tok_reads] in *. exact E.
  Qed.

  Lemma cond_ok fuel :
    okC (p_or row fuel) /\ okCL (p_or_loop row fuel) /\ okC (p_and row fuel) /\ okCL (p_and_loop row fuel) /\
    okC (p_not row fuel) /\ okC (p_cmp row fuel).
  Proof.
    induction fuel as [|f (IHo & IHol & IHa & IHal & IHn & IHc)].
    - repeat split; red; intros; match goal with H : _ = Some _ |- _ => cbn in H; discriminate H end.
    - refine (conj _ (conj _ (conj _ (conj _ (conj _ _))))).
      + intros ts c rest H. rewrite p_or_S in H.
        destruct (p_and row f ts) as [[a r]|] eqn:E; [|discriminate].
        apply IHa in E. apply IHol in H as (extra & H1 & H2). rewrite E, H2, H1, somes_app, app_assoc. reflexivity.
      + intros acc ts c rest H. rewrite p_or_loop_S in H.
        destruct ts as [|[x k|g|s| | | | | | | | | | |[o| | | | | ]] r];
          try (inversion H; subst; exists []; rewrite app_nil_r; split; reflexivity).
        destruct (p_and row f r) as [[b r']|] eqn:E; [|discriminate].
        apply IHa in E. apply IHol in H as (extra & H1 & H2). cbn [cond_reads] in H1.
        exists (cond_reads b ++ extra)%list. split; [rewrite H1, app_assoc; reflexivity|].
        cbn [tok_reads]. rewrite E, H2, somes_app, app_assoc. reflexivity.
      + intros ts c rest H. rewrite p_and_S in H.
        destruct (p_not row f ts) as [[a r]|] eqn:E; [|discriminate].
        apply IHn in E. apply IHal in H as (extra & H1 & H2). rewrite E, H2, H1, somes_app, app_assoc. reflexivity.
      + intros acc ts c rest H. rewrite p_and_loop_S in H.
        destruct ts as [|[x k|g|s| | | | | | | | | | |[o| | | | | ]] r];
          try (inversion H; subst; exists []; rewrite app_nil_r; split; reflexivity).
        destruct (p_not row f r) as [[b r']|] eqn:E; [|discriminate].
        apply IHn in E. apply IHal in H as (extra & H1 & H2). cbn [cond_reads] in H1.
        exists (cond_reads b ++ extra)%list. split; [rewrite H1, app_assoc; reflexivity|].
        cbn [tok_reads]. rewrite E, H2, somes_app, app_assoc. reflexivity.
      + intros ts c rest H. rewrite p_not_S in H.
        destruct ts as [|[x k|g|s| | | | | | | | | | |[o| | | | | ]] r]; try (apply IHc in H; exact H).
        destruct (p_not row f r) as [[c' r']|] eqn:E; [|discriminate]. inversion H; subst.
        apply IHn in E. cbn [tok_reads cond_reads]. exact E.
      + intros ts c rest H. rewrite p_cmp_S in H.
        destruct (arith ts) as [[l r1]|] eqn:E; [|apply (paren_cond_ok f ts c rest IHo H)].
        destruct r1 as [|[x k|g|s| | | | | | | | | | |[o| | | | | ]] r1]; try (apply (paren_cond_ok f ts c rest IHo H)).
        destruct (arith r1) as [[r' rest']|] eqn:E2; [|discriminate]. inversion H; subst.
        apply tree_reads in E. apply tree_reads in E2. cbn [tok_reads] in E. cbn [cond_reads].
        rewrite E, E2, somes_app, app_assoc. reflexivity.
  Qed.

  Lemma test_ok fuel : forall ts st rest,
    p_test row fuel ts = Some (st, rest) -> toks_reads ts = (somes (test_reads st) ++ toks_reads rest)%list.
  Proof.
    induction fuel as [|f IH]; intros ts st rest H; [cbn in H; discriminate|]. rewrite p_test_S in H.
    destruct (arith ts) as [[a r1]|] eqn:E; [|discriminate]. apply tree_reads in E.
    assert (Plain : Some (SVal a, r1) = Some (st, rest) -> toks_reads ts = (somes (test_reads st) ++ toks_reads rest)%list).
    { intros P; inversion P; subst. exact E. }
    destruct r1 as [|[x k|g|s| | | | | | | | | | |[o| | | | | ]] r1]; try (exact (Plain H)).
    destruct (p_or row f r1) as [[c r2]|] eqn:Ec; [|discriminate].
    apply (proj1 (cond_ok f)) in Ec.
    destruct r2 as [|[x k|g|s| | | | | | | | | | |[o| | | | | ]] r2]; try discriminate.
    destruct (p_test row f r2) as [[b rest']|] eqn:Eb; [|discriminate]. inversion H; subst.
    apply IH in Eb. cbn [tok_reads] in *. cbn [test_reads]. rewrite E, Ec, Eb, !somes_app, !app_assoc. reflexivity.
  Qed.

  (* the nested conditionals read exactly what the condition, the value and the alternative name — as a set
     (a branch shared by `and` / `or` occurs twice in the nesting, once in the text) *)
  Lemma mk_if_reads c : forall a b xk,
    In xk (reads (mk_if c a b)) <-> In xk (cond_reads c) \/ In xk (reads a) \/ In xk (reads b).
  Proof.
    induction c as [o l r|c1 IH1 c2 IH2|c1 IH1 c2 IH2|c1 IH1]; intros a b xk; cbn [mk_if cond_reads expr_reads].
    - rewrite !in_app_iff. tauto.
    - rewrite IH1, IH2, !in_app_iff. tauto.
    - rewrite IH1, IH2, !in_app_iff. tauto.
    - rewrite IH1. tauto.
  Qed.
  Lemma denote_reads st : forall xk, In xk (reads (denote st)) <-> In xk (test_reads st).
  Proof.
    induction st as [e|a c b IH]; intros xk; cbn [denote test_reads]; [tauto|].
    rewrite mk_if_reads, IH, !in_app_iff. tauto.
  Qed.
  (* without a conditional nothing changes *)
  Lemma denote_plain e : denote (SVal e) = e /\ test_reads (SVal e) = reads e.
  Proof. split; reflexivity. Qed.

  Theorem src_of_tokens_reads ts y i k0 st :
    src_of_tokens row ts = Some (y, i, k0, st) ->
    row y = Some i /\ toks_reads ts = somes ((i, k0) :: test_reads st).
  Proof.
    unfold src_of_tokens. destruct ts as [|[x k|g|s| | | | | | | | | | |xt] r]; try discriminate.
    destruct r as [|[x' k'|g|s| | | | | | | | | | |xt] r]; try discriminate.
    destruct (row x) as [j|] eqn:Er; [|discriminate].
    destruct (p_test row (test_fuel r) r) as [[st' [|? ?]]|] eqn:E; try discriminate.
    intros H; inversion H; subst. split; [exact Er|].
    apply test_ok in E. cbn [tok_reads]. rewrite Er, E. cbn [tok_reads somes map]. rewrite app_nil_r. reflexivity.
  Qed.

  (* a statement of the subset: the left-hand cell, then the series terms of the right-hand side in the order written =
     the CRead tokens, in order; the expression it denotes reads exactly these terms (as a set) *)
  Theorem stmt_of_tokens_reads ts y i k0 e :
    stmt_of_tokens row ts = Some (y, SAssign i k0 e) ->
    row y = Some i /\
    exists st, src_of_tokens row ts = Some (y, i, k0, st) /\ e = fold_ints (denote st) /\
               toks_reads ts = somes ((i, k0) :: test_reads st) /\
               (forall xk, In xk (reads e) <-> In xk (test_reads st)).
  Proof.
    unfold stmt_of_tokens. destruct (src_of_tokens row ts) as [[[[y' i'] k'] st]|] eqn:E; [|discriminate].
    cbv zeta. destruct (py_ok (fold_ints (denote st))); [|discriminate].
    intros H; inversion H; subst. destruct (src_of_tokens_reads _ _ _ _ _ E) as [Hr Ht].
    split; [exact Hr|]. exists st. repeat split; auto.
    - rewrite fold_ints_reads. apply denote_reads.
    - rewrite fold_ints_reads. apply denote_reads.
  Qed.
  (* every accepted statement is free of operations CPython would perform on Python numbers with another outcome than the
     float operation (division by a literal zero, powers of literals): those are outside the subset, not misread *)
  Theorem stmt_of_tokens_py_ok ts y i k0 e : stmt_of_tokens row ts = Some (y, SAssign i k0 e) -> py_ok e = true.
  Proof.
    unfold stmt_of_tokens. destruct (src_of_tokens row ts) as [[[[y' i'] k'] st]|]; [|discriminate].
    cbv zeta. destruct (py_ok (fold_ints (denote st))) eqn:E; [|discriminate]. intros H; inversion H; subst. exact E.
  Qed.
End TestFacts.


(* ---------- the tokens of a statement and its matches ---------- *)
Lemma tok_of_match_series m : is_series (mkind m) = true ->
  tok_of_match m = match mk_index (mindex m) with Ret (IInt k) => CRead (mname m) k | _ => CBad end.
Proof.
  unfold tok_of_match, mk_term. intros H.
  destruct (mkind m); try discriminate H; destruct (mk_index (mindex m)) as [[k|s]|e]; reflexivity.
Qed.
Lemma tok_of_match_other m : is_series (mkind m) = false -> forall x k, tok_of_match m <> CRead x k.
Proof.
  unfold tok_of_match, mk_term. intros H x k.
  destruct (mkind m); try discriminate H; cbn [kind_type ttype tindex tname];
    try (destruct (mk_index (mindex m)) as [[z|s]|e]; cbn [ttype]; discriminate).
  all: try (destruct (term_code _); discriminate); try discriminate.
  all: repeat match goal with |- context [if ?b then _ else _] => destruct b end; discriminate.
Qed.

Lemma tok_reads_app row a b : tok_reads row (a ++ b) = (tok_reads row a ++ tok_reads row b)%list.
Proof.
  induction a as [|t a IH]; [reflexivity|].
  destruct t; cbn [app tok_reads]; rewrite IH; reflexivity.
Qed.
Lemma op1_reads row c r : tok_reads row (op1 c :: r) = tok_reads row r.
Proof. unfold op1. repeat match goal with |- context [if ?b then _ else _] => destruct b end; reflexivity. Qed.
Lemma op2_reads row c r : tok_reads row (op2 c :: r) = tok_reads row r.
Proof. unfold op2. repeat match goal with |- context [if ?b then _ else _] => destruct b end; reflexivity. Qed.
Lemma flush_reads row st : tok_reads row (flush st) = [].
Proof. destruct st; try reflexivity. cbn [flush]. apply op1_reads. Qed.
Lemma tok_of_char_reads row c r : tok_reads row (tok_of_char c :: r) = tok_reads row r.
Proof.
  unfold tok_of_char.
  repeat match goal with |- context [if ?b then _ else _] => destruct b end; reflexivity.
Qed.
Lemma tok_of_match_reads row m r : tok_reads row (tok_of_match m :: r) = (match_read row m ++ tok_reads row r)%list.
Proof.
  unfold match_read. destruct (is_series (mkind m)) eqn:E.
  - rewrite (tok_of_match_series m E). destruct (mk_index (mindex m)) as [[k|s]|e]; reflexivity.
  - pose proof (tok_of_match_other m E) as H. destruct (tok_of_match m); try reflexivity. exfalso; eapply H; reflexivity.
Qed.

Theorem lex_reads row l : forall st, tok_reads row (lex_items st l) = flat_map (match_read row) (matches_of l).
Proof.
  induction l as [|[c|p m] r IH]; intros st; cbn [lex_items matches_of flat_map].
  - apply flush_reads.
  - destruct (is_digit c || Ascii.eqb c ".").
    { destruct st; rewrite ?tok_reads_app, ?flush_reads; apply IH. }
    destruct (Ascii.eqb c "*").
    { destruct st; cbn [tok_reads]; rewrite ?tok_reads_app, ?flush_reads; apply IH. }
    destruct (is_opc c).
    { destruct st; rewrite ?tok_reads_app, ?flush_reads; cbn [app]; try apply IH.
      destruct (Ascii.eqb c "="); [rewrite op2_reads; apply IH|].
      rewrite tok_reads_app, flush_reads. apply IH. }
    destruct (is_space c); rewrite tok_reads_app, flush_reads; cbn [app]; [apply IH|].
    rewrite tok_of_char_reads. apply IH.
  - rewrite !tok_reads_app, flush_reads. cbn [app].
    assert (B : tok_reads row (if fuses st m then [CBad] else []) = []) by (destruct (fuses st m); reflexivity).
    rewrite B. cbn [app]. rewrite tok_of_match_reads, IH. reflexivity.
Qed.

(* every series term of an accepted statement of the subset is named at exactly the index written — nothing else is
   read, no term is lost, and the first one is the cell assigned.  st is the right-hand side as written (value, condition,
   alternative); e, the expression evaluated, reads exactly the terms of st (for a conditional: as a set) *)
Theorem statement_terms_exact row eq y i k0 e :
  stmt_of_equation row eq = Some (y, SAssign i k0 e) ->
  row y = Some i /\
  exists st, e = fold_ints (denote st) /\
    flat_map (match_read row) (matches_of (scan_items eq)) = somes ((i, k0) :: test_reads st) /\
    (forall xk, In xk (reads e) <-> In xk (test_reads st)).
Proof.
  unfold stmt_of_equation. intros H. apply stmt_of_tokens_reads in H as (H1 & st & _ & He & H2 & H3).
  split; [exact H1|]. exists st. repeat split; auto; try (apply H3). rewrite <- H2. symmetry. apply lex_reads.
Qed.

(* … and without a conditional expression the order is exact too: the reads of the tree ARE the matches, in order *)
Corollary statement_terms_exact_plain row eq y i k0 e e0 :
  stmt_of_equation row eq = Some (y, SAssign i k0 e) ->
  src_of_tokens row (lex_items LNone (scan_items eq)) = Some (y, i, k0, SVal e0) ->
  e = fold_ints e0 /\ flat_map (match_read row) (matches_of (scan_items eq)) = somes ((i, k0) :: reads e).
Proof.
  unfold stmt_of_equation, stmt_of_tokens. intros H Hs. rewrite Hs in H. cbv zeta in H.
  destruct (py_ok (fold_ints (denote (SVal e0)))); [|discriminate]. inversion H; subst. cbn [denote].
  split; [reflexivity|]. destruct (src_of_tokens_reads _ _ _ _ _ _ Hs) as [_ Ht].
  rewrite fold_ints_reads. cbn [test_reads] in Ht. rewrite <- Ht. symmetry. apply lex_reads.
Qed.

(* ---------- the program of a script: symbol order ---------- *)
Lemma all_some_forall2 {A B} (g : A -> option B) l : forall out,
  all_some (map g l) = Some out -> Forall2 (fun a b => g a = Some b) l out.
Proof.
  induction l as [|a l IH]; intros out H; cbn [map all_some] in H.
  - inversion H. constructor.
  - destruct (g a) as [b|] eqn:E; [|discriminate].
    destruct (all_some (map g l)) as [o|]; [|discriminate]. inversion H; subst.
    constructor; [exact E|apply IH; reflexivity].
Qed.
Lemma forall2_in_r {A B} (R : A -> B -> Prop) l out b : Forall2 R l out -> In b out -> exists a, In a l /\ R a b.
Proof.
  induction 1 as [|a b' l out HR _ IH]; intros Hin; [contradiction|].
  destruct Hin as [->|Hin]; [exists a; split; [left; reflexivity|exact HR]|].
  destruct (IH Hin) as (a' & Ha & HR'). exists a'. split; [right; exact Ha|exact HR'].
Qed.
Lemma forall2_impl {A B} (R R' : A -> B -> Prop) l out :
  (forall a b, R a b -> R' a b) -> Forall2 R l out -> Forall2 R' l out.
Proof. intros H; induction 1; constructor; auto. Qed.
Lemma assoc_stmt_in n defs s : assoc_stmt n defs = Some s -> In (n, s) defs.
Proof.
  induction defs as [|[k s'] r IH]; cbn [assoc_stmt]; [discriminate|].
  destruct (String.eqb n k) eqn:E; intros H.
  - inversion H; subst. apply String.eqb_eq in E; subst. left; reflexivity.
  - right. apply IH, H.
Qed.

(* program_order: statement j of the program belongs to the j-th symbol that build_model_definition emits; it was
   obtained from a statement of the script whose left-hand name is that symbol's name, and writes that name's row *)
Theorem program_order syms stmts names prog :
  program_of_symbols syms stmts = Some (names, prog) ->
  names = names_of syms /\
  Forall2 (fun s st => exists i k0 e, st = SAssign i k0 e /\
             ((exists n eq, sname s = Some n /\ In eq stmts /\
                            stmt_of_equation (row_of names) eq = Some (n, st) /\ row_of names n = Some i) \/
              (sname s = None /\ exists c y, scode s = Some c /\
                            stmt_of_code (row_of names) c = Some (y, st) /\ row_of names y = Some i)))
          (filter emits syms) prog.
Proof.
  unfold program_of_symbols.
  destruct (all_some (map (stmt_of_equation (row_of (names_of syms)))
                          (filter (fun st => negb (head_is "`" st && last_is "`" st)) stmts))) as [defs|] eqn:Ed; [|discriminate].
  match goal with |- match all_some (map ?g _) with _ => _ end = _ -> _ =>
    destruct (all_some (map g (filter emits syms))) as [p|] eqn:Ep; [|discriminate] end.
  intros H; inversion H; subst. split; [reflexivity|].
  apply all_some_forall2 in Ep. apply all_some_forall2 in Ed.
  eapply forall2_impl; [|exact Ep]. intros s st Hs. cbn beta in Hs. destruct st as [i k0 e]. exists i, k0, e. split; [reflexivity|].
  destruct (sname s) as [n|].
  - left. apply assoc_stmt_in in Hs. destruct (forall2_in_r _ _ _ _ Ed Hs) as (eq & Hin & Heq).
    destruct (statement_terms_exact _ _ _ _ _ _ Heq) as [Hrow _].
    exists n, eq. repeat split; auto. apply filter_In in Hin. exact (proj1 Hin).
  - right. split; [reflexivity|]. destruct (scode s) as [c|]; [|discriminate].
    destruct (stmt_of_code (row_of (names_of syms)) c) as [[y st']|] eqn:Ec; [|discriminate]. inversion Hs; subst.
    exists c, y. repeat split; auto. unfold stmt_of_code in Ec. exact (proj1 (stmt_of_tokens_reads _ _ _ _ _ _ Ec)).
Qed.
