(* CodeGenBlockFacts.v — what default_converter + textwrap.indent make of a one-line statement (every ENDOGENOUS
   symbol: its normalised equation and its code contain no line separator), property C01 / Model.CODE:

       "        # " ++ equation ++ newline ++ "        " ++ code

   i.e. the generated statement enters the class text unchanged, on its own line, after its equation as a comment. *)
From Coq Require Import String Ascii List Bool Arith Lia.
Import ListNotations.
Require Import Generated PyBase PyStr LexFacts Symbols ParseModel CodeGenBlock.
Open Scope string_scope.

Definition no_sep (s : string) : bool := all_chars (fun c => negb (is_linesep c)) s.

Lemma rev_str_acc s : forall acc, rev_str s acc = rev_str s "" ++ acc.
Proof.
  induction s as [|c s IH]; intros acc; cbn [rev_str]; [reflexivity|].
  rewrite (IH (String c acc)), (IH (String c "")), app_assoc_s. reflexivity.
Qed.

Lemma splitlines_one s : forall cur, no_sep s = true ->
  splitlines_aux cur s = match rev_str cur "" ++ s with "" => [] | x => [x] end.
Proof.
  unfold no_sep. induction s as [|c s IH]; intros cur H; cbn [splitlines_aux all_chars] in *.
  - rewrite app_nil_r_s. destruct cur as [|d cur]; [reflexivity|].
    destruct (rev_str (String d cur) "") eqn:E; [|reflexivity].
    exfalso. cbn [rev_str] in E. rewrite rev_str_acc in E. destruct (rev_str cur ""); discriminate.
  - apply andb_true_iff in H as [Hc Hs]. apply negb_true_iff in Hc. rewrite Hc, (IH _ Hs).
    cbn [rev_str]. rewrite (rev_str_acc cur (String c "")), app_assoc_s. reflexivity.
Qed.

Lemma nl_is_sep : is_linesep nl = true /\ Ascii.eqb nl cr = false.
Proof. split; reflexivity. Qed.

Lemma splitlines_keep_line a b : forall cur, no_sep a = true ->
  splitlines_keep cur (a ++ String nl b) = (rev_str cur "" ++ a ++ nl_s) :: splitlines_keep "" b.
Proof.
  unfold no_sep. induction a as [|c a IH]; intros cur H; cbn [append splitlines_keep all_chars] in *.
  - destruct nl_is_sep as [-> ->]. cbn [rev_str]. rewrite (rev_str_acc cur (String nl "")). reflexivity.
  - apply andb_true_iff in H as [Hc Hs]. apply negb_true_iff in Hc. rewrite Hc, (IH _ Hs).
    cbn [rev_str]. rewrite (rev_str_acc cur (String c "")), !app_assoc_s. reflexivity.
Qed.
Lemma splitlines_keep_last s : forall cur, no_sep s = true ->
  splitlines_keep cur s = match rev_str cur "" ++ s with "" => [] | x => [x] end.
Proof.
  unfold no_sep. induction s as [|c s IH]; intros cur H; cbn [splitlines_keep all_chars] in *.
  - rewrite app_nil_r_s. destruct cur as [|d cur]; [reflexivity|].
    destruct (rev_str (String d cur) "") eqn:E; [|reflexivity].
    exfalso. cbn [rev_str] in E. rewrite rev_str_acc in E. destruct (rev_str cur ""); discriminate.
  - apply andb_true_iff in H as [Hc Hs]. apply negb_true_iff in Hc. rewrite Hc, (IH _ Hs).
    cbn [rev_str]. rewrite (rev_str_acc cur (String c "")), app_assoc_s. reflexivity.
Qed.

Theorem one_line_statement_in_class_text equation code :
  equation <> "" -> no_sep equation = true -> no_sep code = true -> is_blank code = false ->
  indent8 (default_converter equation code) = prefix8 ++ "# " ++ equation ++ nl_s ++ prefix8 ++ code.
Proof.
  intros He Hse Hsc Hb. unfold default_converter, indent8.
  rewrite (splitlines_one equation "" Hse). cbn [rev_str append].
  destruct equation as [|e0 er] eqn:Ee; [contradiction|]. rewrite <- Ee in *. cbn [map join_nl].
  unfold nl_s. cbn [append].
  assert (Hs : no_sep ("# " ++ equation) = true).
  { unfold no_sep in *. cbn [append all_chars]. rewrite Hse. reflexivity. }
  change (String "#" (String " " (equation ++ String nl code))) with (("# " ++ equation) ++ String nl code).
  rewrite (splitlines_keep_line _ code "" Hs), (splitlines_keep_last code "" Hsc). cbn [rev_str append].
  destruct code as [|c0 cr'] eqn:Ec; [discriminate Hb|]. rewrite <- Ec in *.
  cbn [map concat_s]. rewrite Hb.
  assert (Hc : is_blank (String "#" (String " " (equation ++ nl_s))) = false) by reflexivity.
  rewrite Hc. cbn [append]. rewrite app_nil_r_s, (app_assoc_s prefix8). f_equal. cbn [append]. f_equal. f_equal.
  unfold nl_s. rewrite app_assoc_s. reflexivity.
Qed.

Example one_line_instance :
  indent8 (default_converter "Y[t] = X[t-1]" "self._Y[t] = self._X[t-1]")
  = "        # Y[t] = X[t-1]" ++ nl_s ++ "        self._Y[t] = self._X[t-1]".
Proof. vm_compute. reflexivity. Qed.

(* no equation at all: the template gets `pass` *)
Example empty_block : equations_block [] = "        pass".
Proof. reflexivity. Qed.

(* ====================================================================================================== *)
(* multi-line statements and verbatim blocks                                                              *)
(* ====================================================================================================== *)
(* textwrap.indent on a text given by its lines: every line that is not all whitespace gets the eight blanks, the others
   are kept as they are; no line is dropped, added, reordered or edited *)
Definition line8 (l : string) : string := if is_blank l then l else prefix8 ++ l.

Lemma lstrip_app_nl l : lstrip_by is_pyspace (l ++ nl_s) = "" <-> lstrip_by is_pyspace l = "".
Proof.
  unfold lstrip_by. induction l as [|c l IH]; cbn [append span_while].
  - assert (E : is_pyspace nl = true) by reflexivity. unfold nl_s. cbn [span_while]. rewrite E. cbn. tauto.
  - destruct (is_pyspace c).
    + destruct (span_while is_pyspace (l ++ nl_s)) as [a b]. destruct (span_while is_pyspace l) as [a' b']. cbn [snd] in *. exact IH.
    + cbn [snd]. split; discriminate.
Qed.
Lemma is_blank_app_nl l : is_blank (l ++ nl_s) = is_blank l.
Proof.
  unfold is_blank. pose proof (lstrip_app_nl l) as [H1 H2].
  destruct (lstrip_by is_pyspace (l ++ nl_s)) eqn:E1, (lstrip_by is_pyspace l) eqn:E2; try reflexivity.
  - specialize (H1 eq_refl). discriminate.
  - specialize (H2 eq_refl). discriminate.
Qed.

Lemma concat_s_cons x l : concat_s (x :: l) = x ++ concat_s l.
Proof. reflexivity. Qed.

Lemma indent8_last l : no_sep l = true -> indent8 l = match l with "" => "" | _ => line8 l end.
Proof.
  intros H. unfold indent8. rewrite (splitlines_keep_last l "" H). cbn [rev_str append].
  destruct l; [reflexivity|]. cbn [map concat_s]. rewrite app_nil_r_s. reflexivity.
Qed.

Theorem indent8_lines lines :
  forallb no_sep lines = true -> lines <> [] ->
  indent8 (join_nl lines) = join_nl (map line8 lines).
Proof.
  induction lines as [|l rest IH]; intros H Hne; [contradiction|]. cbn [forallb] in H. apply andb_true_iff in H as [Hl Hr].
  destruct rest as [|l2 rest'].
  - cbn [join_nl map]. rewrite (indent8_last l Hl). destruct l; reflexivity.
  - change (join_nl (l :: l2 :: rest')) with (l ++ nl_s ++ join_nl (l2 :: rest')).
    change (join_nl (map line8 (l :: l2 :: rest'))) with (line8 l ++ nl_s ++ join_nl (map line8 (l2 :: rest'))).
    rewrite <- (IH Hr ltac:(discriminate)). unfold indent8 at 1. unfold nl_s at 1. cbn [append].
    rewrite (splitlines_keep_line l _ "" Hl). cbn [rev_str append map]. rewrite concat_s_cons.
    fold (indent8 (join_nl (l2 :: rest'))). rewrite is_blank_app_nl. unfold line8.
    destruct (is_blank l); rewrite ?app_assoc_s; reflexivity.
Qed.

(* str.splitlines on a text given by its lines (the last one not empty) gives the lines back *)
Lemma splitlines_line a b : forall cur, no_sep a = true ->
  splitlines_aux cur (a ++ String nl b) = (rev_str cur "" ++ a) :: splitlines_aux "" b.
Proof.
  unfold no_sep. induction a as [|c a IH]; intros cur H; cbn [append splitlines_aux all_chars] in *.
  - destruct nl_is_sep as [-> ->]. rewrite app_nil_r_s. reflexivity.
  - apply andb_true_iff in H as [Hc Hs]. apply negb_true_iff in Hc. rewrite Hc, (IH _ Hs).
    cbn [rev_str]. rewrite (rev_str_acc cur (String c "")), !app_assoc_s. reflexivity.
Qed.
Lemma splitlines_lines lines :
  forallb no_sep lines = true -> last lines "x" <> "" -> splitlines_aux "" (join_nl lines) = lines.
Proof.
  induction lines as [|l rest IH]; intros H Hlast; [reflexivity|]. cbn [forallb] in H. apply andb_true_iff in H as [Hl Hr].
  destruct rest as [|l2 rest'].
  - cbn [join_nl last] in *. rewrite (splitlines_one l "" Hl). cbn [rev_str append]. destruct l; [contradiction|reflexivity].
  - change (join_nl (l :: l2 :: rest')) with (l ++ nl_s ++ join_nl (l2 :: rest')). unfold nl_s. cbn [append].
    rewrite (splitlines_line l _ "" Hl). cbn [rev_str append]. f_equal. apply IH; [exact Hr|exact Hlast].
Qed.

(* a statement whose normalised equation has the lines elines and whose code has the lines clines — a multi-line
   verbatim block, or a one-line equation — enters the class text as: every equation line as a comment, then every code
   line, each indented by eight blanks (all-whitespace code lines kept as they are), in order, nothing else *)
Theorem statement_lines_in_class_text elines clines :
  forallb no_sep elines = true -> elines <> [] -> last elines "x" <> "" -> forallb no_sep clines = true -> clines <> [] ->
  indent8 (default_converter (join_nl elines) (join_nl clines))
  = join_nl (map line8 (map (fun x => "# " ++ x) elines ++ clines)).
Proof.
  intros He Hen Hlast Hc Hne. unfold default_converter. rewrite (splitlines_lines elines He Hlast).
  assert (E : join_nl (map (fun x => "# " ++ x) elines) ++ nl_s ++ join_nl clines
              = join_nl (map (fun x => "# " ++ x) elines ++ clines)).
  { destruct elines as [|e0 er]; [contradiction|]. clear - Hne.
    revert e0. induction er as [|e1 er IH]; intros e0.
    - cbn [map app join_nl]. destruct clines; [contradiction|reflexivity].
    - change (map (fun x => "# " ++ x) (e0 :: e1 :: er)) with (("# " ++ e0) :: map (fun x => "# " ++ x) (e1 :: er)).
      change (join_nl (("# " ++ e0) :: map (fun x => "# " ++ x) (e1 :: er)))
        with (("# " ++ e0) ++ nl_s ++ join_nl (map (fun x => "# " ++ x) (e1 :: er))).
      rewrite !app_assoc_s, (IH e1). reflexivity. }
  rewrite E. apply indent8_lines.
  - rewrite forallb_app, Hc, andb_true_r. clear - He. induction elines as [|e er IH]; [reflexivity|].
    cbn [forallb map] in *. apply andb_true_iff in He as [H1 H2]. rewrite (IH H2), andb_true_r.
    unfold no_sep in *. cbn [append all_chars]. rewrite H1. reflexivity.
  - destruct elines; [contradiction|discriminate].
Qed.

Example verbatim_block_instance :
  indent8 (default_converter (join_nl ["```"; "x = 1"; ""; "if x:"; "    y = 2"; "```"]) (join_nl ["x = 1"; ""; "if x:"; "    y = 2"]))
  = join_nl ["        # ```"; "        # x = 1"; "        # "; "        # if x:"; "        #     y = 2"; "        # ```";
             "        x = 1"; ""; "        if x:"; "            y = 2"].
Proof. vm_compute. reflexivity. Qed.

(* a verbatim statement written BEFORE the equations: parse_model puts verbatim symbols after the named ones, and the class
   text follows the symbol list — the equations in symbol order, then the verbatim statement *)
Example verbatim_statement_order :
  block_of_script ("`self._W[t] = self._Y[t] * 2.0`" ++ nl_s ++ "Y = X + 1" ++ nl_s ++ "Z = Y * W")
  = Some (join_nl ["        # Y[t] = X[t] + 1"; "        self._Y[t] = self._X[t] + 1"; "";
                   "        # Z[t] = Y[t] * W[t]"; "        self._Z[t] = self._Y[t] * self._W[t]"; "";
                   "        # `self._W[t] = self._Y[t] * 2.0`"; "        self._W[t] = self._Y[t] * 2.0"]).
Proof. vm_compute. reflexivity. Qed.
