(* CodeGenBlockFacts.v — what default_converter + textwrap.indent make of a one-line statement (every ENDOGENOUS
   symbol: its normalised equation and its code contain no line separator), property C01 / Model.CODE:

       "        # " ++ equation ++ newline ++ "        " ++ code

   i.e. the generated statement enters the class text unchanged, on its own line, after its equation as a comment. *)
From Coq Require Import String Ascii List Bool Arith Lia.
Import ListNotations.
Require Import Generated PyBase PyStr LexFacts Symbols ParseModel CodeGenBlock.
Open Scope string_scope.

Definition no_sep (s : string) : bool := all_chars (fun c => negb (is_linesep c)) s.

Lemma rev_str_acc s : forall acc, rev_str s acc = rev_str s "" ++ acc.
Proof.
  induction s as [|c s IH]; intros acc; cbn [rev_str]; [reflexivity|].
  rewrite (IH (String c acc)), (IH (String c "")), app_assoc_s. reflexivity.
Qed.

Lemma splitlines_one s : forall cur, no_sep s = true ->
  splitlines_aux cur s = match rev_str cur "" ++ s with "" => [] | x => [x] end.
Proof.
  unfold no_sep. induction s as [|c s IH]; intros cur H; cbn [splitlines_aux all_chars] in *.
  - rewrite app_nil_r_s. destruct cur as [|d cur]; [reflexivity|].
    destruct (rev_str (String d cur) "") eqn:E; [|reflexivity].
    exfalso. cbn [rev_str] in E. rewrite rev_str_acc in E. destruct (rev_str cur ""); discriminate.
  - apply andb_true_iff in H as [Hc Hs]. apply negb_true_iff in Hc. rewrite Hc, (IH _ Hs).
    cbn [rev_str]. rewrite (rev_str_acc cur (String c "")), app_assoc_s. reflexivity.
Qed.

Lemma nl_is_sep : is_linesep nl = true /\ Ascii.eqb nl cr = false.
Proof. split; reflexivity. Qed.

Lemma splitlines_keep_line a b : forall cur, no_sep a = true ->
  splitlines_keep cur (a ++ String nl b) = (rev_str cur "" ++ a ++ nl_s) :: splitlines_keep "" b.
Proof.
  unfold no_sep. induction a as [|c a IH]; intros cur H; cbn [append splitlines_keep all_chars] in *.
  - destruct nl_is_sep as [-> ->]. cbn [rev_str]. rewrite (rev_str_acc cur (String nl "")). reflexivity.
  - apply andb_true_iff in H as [Hc Hs]. apply negb_true_iff in Hc. rewrite Hc, (IH _ Hs).
    cbn [rev_str]. rewrite (rev_str_acc cur (String c "")), !app_assoc_s. reflexivity.
Qed.
Lemma splitlines_keep_last s : forall cur, no_sep s = true ->
  splitlines_keep cur s = match rev_str cur "" ++ s with "" => [] | x => [x] end.
Proof.
  unfold no_sep. induction s as [|c s IH]; intros cur H; cbn [splitlines_keep all_chars] in *.
  - rewrite app_nil_r_s. destruct cur as [|d cur]; [reflexivity|].
    destruct (rev_str (String d cur) "") eqn:E; [|reflexivity].
    exfalso. cbn [rev_str] in E. rewrite rev_str_acc in E. destruct (rev_str cur ""); discriminate.
  - apply andb_true_iff in H as [Hc Hs]. apply negb_true_iff in Hc. rewrite Hc, (IH _ Hs).
    cbn [rev_str]. rewrite (rev_str_acc cur (String c "")), app_assoc_s. reflexivity.
Qed.

Theorem one_line_statement_in_class_text equation code :
  equation <> "" -> no_sep equation = true -> no_sep code = true -> is_blank code = false ->
  indent8 (default_converter equation code) = prefix8 ++ "# " ++ equation ++ nl_s ++ prefix8 ++ code.
Proof.
  intros He Hse Hsc Hb. unfold default_converter, indent8.
  rewrite (splitlines_one equation "" Hse). cbn [rev_str append].
  destruct equation as [|e0 er] eqn:Ee; [contradiction|]. rewrite <- Ee in *. cbn [map join_nl].
  unfold nl_s. cbn [append].
  assert (Hs : no_sep ("# " ++ equation) = true).
  { unfold no_sep in *. cbn [append all_chars]. rewrite Hse. reflexivity. }
  change (String "#" (String " " (equation ++ String nl code))) with (("# " ++ equation) ++ String nl code).
  rewrite (splitlines_keep_line _ code "" Hs), (splitlines_keep_last code "" Hsc). cbn [rev_str append].
  destruct code as [|c0 cr'] eqn:Ec; [discriminate Hb|]. rewrite <- Ec in *.
  cbn [map concat_s]. rewrite Hb.
  assert (Hc : is_blank (String "#" (String " " (equation ++ nl_s))) = false) by reflexivity.
  rewrite Hc. cbn [append]. rewrite app_nil_r_s, (app_assoc_s prefix8). f_equal. cbn [append]. f_equal. f_equal.
  unfold nl_s. rewrite app_assoc_s. reflexivity.
Qed.

Example one_line_instance :
  indent8 (default_converter "Y[t] = X[t-1]" "self._Y[t] = self._X[t-1]")
  = "        # Y[t] = X[t-1]" ++ nl_s ++ "        self._Y[t] = self._X[t-1]".
Proof. vm_compute. reflexivity. Qed.

(* no equation at all: the template gets `pass` *)
Example empty_block : equations_block [] = "        pass".
Proof. reflexivity. Qed.
