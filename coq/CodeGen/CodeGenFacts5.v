(* CodeGenFacts5.v — a pass of the program of a script at a FEASIBLE period (property C01, semantic level).

   program_rows_declared  : every row a statement of the program names is a declared series (a position in NAMES)
   script_pass_feasible   : at a period with room for the deepest lag and the furthest lead of the program, on a store
                            with one row of n cells per declared series, every access is served inside the span at
                            exactly p + k (no wrap-around, no IndexError): the value read for a term X[k] is the
                            value of X at the period k away from the one being solved *)
From Coq Require Import String Ascii List Bool Arith ZArith Lia.
Import ListNotations.
Require Import Generated PyBase PyStr Lex Format Symbols Split Merge ParseEq ParseModel Solver Eval EvalFacts.
Require Import CodeGen CodeGenFacts2 CodeGenFacts3.
Open Scope list_scope.

Lemma index_of_lt x l : forall i, index_of x l = Some i -> (i < length l)%nat.
Proof.
  induction l as [|y r IH]; cbn [index_of]; [discriminate|]. intros i.
  destruct (String.eqb x y); [intros H; inversion H; cbn; lia|].
  destruct (index_of x r) as [j|]; [|discriminate]. intros H; inversion H; subst. cbn. specialize (IH j eq_refl). lia.
Qed.

Lemma tok_reads_rows row ts i k : In (Some (i, k)) (tok_reads row ts) -> exists x, row x = Some i.
Proof.
  induction ts as [|tk r IH]; [contradiction|].
  destruct tk; cbn [tok_reads]; try exact IH.
  intros [H|H]; [|exact (IH H)].
  destruct (row name) as [j|] eqn:E; [|discriminate]. inversion H; subst. exists name. exact E.
Qed.

Lemma row_of_lt names x i : row_of names x = Some i -> (i < length names)%nat.
Proof. unfold row_of. destruct (mangled x); [discriminate|]. apply index_of_lt. Qed.

(* token level: whatever the tokens come from (a script statement or the code of a verbatim statement) *)
Lemma tokens_rows_declared names ts y i k0 (e : sexpr) :
  stmt_of_tokens (row_of names) ts = Some (y, SAssign i k0 e) ->
  (i < length names)%nat /\ forall x k, In (x, k) (expr_reads string e) -> (x < length names)%nat.
Proof.
  intros H. destruct (stmt_of_tokens_reads _ _ _ _ _ _ H) as (Hy & st & _ & _ & Hr & Hset).
  split; [eapply row_of_lt; exact Hy|]. intros x k Hin.
  assert (Hs : In (Some (x, k)) (tok_reads (row_of names) ts)).
  { rewrite Hr. unfold somes. right. apply in_map. apply Hset. exact Hin. }
  destruct (tok_reads_rows _ _ _ _ Hs) as [nm Hn]. eapply row_of_lt; exact Hn.
Qed.
Lemma stmt_rows_declared names eq y i k0 (e : sexpr) :
  stmt_of_equation (row_of names) eq = Some (y, SAssign i k0 e) ->
  (i < length names)%nat /\ forall x k, In (x, k) (expr_reads string e) -> (x < length names)%nat.
Proof. unfold stmt_of_equation. apply tokens_rows_declared. Qed.

Lemma forall2_in_r' {A B} (R : A -> B -> Prop) l out b : Forall2 R l out -> In b out -> exists a, R a b.
Proof.
  induction 1 as [|a b' l out HR _ IH]; intros Hin; [contradiction|].
  destruct Hin as [->|Hin]; [exists a; exact HR|exact (IH Hin)].
Qed.

Theorem program_rows_declared script names (p : sprogram) :
  program_of_script script = Some (names, p) ->
  forall x k, In (x, k) (prog_terms string p) -> (x < length names)%nat.
Proof.
  unfold program_of_script.
  destruct (parse_model_nocheck script) as [syms| |]; try discriminate.
  destruct (split_M script) as [stmts [e|]]; [discriminate|]. intros H.
  destruct (program_order _ _ _ _ H) as [_ HF].
  assert (G : forall st, In st p -> exists ts n i k0 e,
              stmt_of_tokens (row_of names) ts = Some (n, st) /\ st = SAssign i k0 e).
  { intros st Hin. destruct (forall2_in_r' _ _ _ _ HF Hin) as (s & i & k0 & e & -> & [(n & eq & _ & _ & H1 & _)|(_ & c & y & _ & H1 & _)]).
    - exists (lex_items LNone (scan_items eq)), n, i, k0, e. split; [exact H1|reflexivity].
    - exists (lex_code (S (String.length c)) c), y, i, k0, e. split; [exact H1|reflexivity]. }
  intros x k Hin. unfold prog_terms in Hin. apply in_app_or in Hin as [Hin|Hin].
  - unfold prog_lhs in Hin. apply in_map_iff in Hin as (st & E & Hst).
    destruct (G st Hst) as (ts & n & i & k0 & e & H1 & ->). cbn [stmt_lhs] in E. inversion E; subst.
    apply (tokens_rows_declared _ _ _ _ _ _ H1).
  - unfold prog_reads in Hin. apply in_flat_map in Hin as (st & Hst & E).
    destruct (G st Hst) as (ts & n & i & k0 & e & H1 & ->). cbn [stmt_reads] in E.
    apply (proj2 (tokens_rows_declared _ _ _ _ _ _ H1) x k E).
Qed.

Section Feasible.
  Variable num : Type.
  Variables (add sub mul div pow : num -> num -> num) (neg absf : num -> num).
  Variables (ltb leb eqb : num -> num -> bool).
  Variable zero : num.
  Variable fun1 : nat -> num -> num.
  Variable fun2 : nat -> num -> num -> num.
  Variable flagged : list num -> num -> bool.
  Variable lit : string -> num.
  Notation eval_pass := (eval_pass num add sub mul div pow neg absf ltb leb eqb zero fun1 fun2 flagged).
  Notation nprog := (program_map string num lit).

  Lemma prog_terms_map (p : sprogram) : prog_terms num (nprog p) = prog_terms string p.
  Proof. unfold prog_terms. rewrite prog_lhs_map, prog_reads_map. reflexivity. Qed.

  Theorem script_pass_feasible script names (p : sprogram) catch n t pos (v : vals num) :
    program_of_script script = Some (names, p) ->
    length v = length names -> wf_vals n v ->
    py_pos n t = Some pos ->
    (terms_lags (prog_terms string p) <= pos)%nat -> (pos + terms_leads (prog_terms string p) < n)%nat ->
    Forall (fun a => exists x k, In (x, k) (prog_terms string p) /\
                       acc_var a = x /\ acc_req a = (t + k)%Z /\
                       acc_srv a = Some (Z.to_nat (Z.of_nat pos + k)) /\ (0 <= Z.of_nat pos + k < Z.of_nat n)%Z)
           (snd (eval_pass catch (nprog p) t v)) /\
    (forall v' c lg, eval_pass catch (nprog p) t v = ((v', Some c), lg) -> c = tag_warning).
  Proof.
    intros Hp Hlen Hwf Hpos Hlag Hlead.
    assert (Hvars : vars_ok num (nprog p) (length v)).
    { intros x k Hin. rewrite prog_terms_map in Hin. rewrite Hlen. eapply program_rows_declared; eauto. }
    split.
    - pose proof (eval_pass_accesses_in_span num add sub mul div pow neg absf ltb leb eqb zero fun1 fun2 flagged
                    catch (nprog p) n t pos v Hwf Hvars Hpos) as H.
      unfold prog_lags, prog_leads in H. rewrite prog_terms_map in H. exact (H Hlag Hlead).
    - intros v' c lg E.
      pose proof (eval_pass_no_index_error num add sub mul div pow neg absf ltb leb eqb zero fun1 fun2 flagged
                    catch (nprog p) n t pos v v' c lg Hwf Hvars Hpos) as H.
      unfold prog_lags, prog_leads in H. rewrite prog_terms_map in H. exact (H Hlag Hlead E).
  Qed.
End Feasible.
