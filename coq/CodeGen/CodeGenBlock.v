(* CodeGenBlock.v — the `{equations}` block of the class text: build_model_definition's selection of symbols,
   default_converter, textwrap.indent and the "\n\n" join (fsic/parser.py:1030-1091).  Definitions only.

   Model.CODE = MODEL_TEMPLATE.format(…, equations = equations_block symbols): the class text ENDS with this block
   (the template ends with `{equations}`), which is what K_code of harness/props/C01.py compares. *)
From Coq Require Import String Ascii List Bool Arith.
Import ListNotations.
Require Import Generated PyBase PyStr Symbols ParseModel.
Open Scope string_scope.

(* str.splitlines(keepends=True) *)
Fixpoint splitlines_keep (cur : string) (s : string) : list string :=     (* cur = current line, reversed *)
  match s with
  | "" => match cur with "" => [] | _ => [rev_str cur ""] end
  | String c r =>
    if is_linesep c then
      if Ascii.eqb c cr then
        match r with
        | String c2 r2 => if Ascii.eqb c2 nl then rev_str (String c2 (String c cur)) "" :: splitlines_keep "" r2
                          else rev_str (String c cur) "" :: splitlines_keep "" r
        | "" => rev_str (String c cur) "" :: splitlines_keep "" r
        end
      else rev_str (String c cur) "" :: splitlines_keep "" r
    else splitlines_keep (String c cur) r
  end.

Fixpoint concat_s (l : list string) : string := match l with [] => "" | x :: r => x ++ concat_s r end.
Fixpoint join_s (sep : string) (l : list string) : string :=
  match l with [] => "" | [x] => x | x :: r => x ++ sep ++ join_s sep r end.

Definition prefix8 : string := "        ".
(* textwrap.indent(text, prefix8): the prefix goes before every line that is not all whitespace *)
Definition indent8 (text : string) : string :=
  concat_s (map (fun line => if is_blank line then line else prefix8 ++ line) (splitlines_keep "" text)).

(* default_converter: the normalised equation as comment line(s), then the code *)
Definition default_converter (equation code : string) : string :=
  join_nl (map (fun x => "# " ++ x) (splitlines_aux "" equation)) ++ nl_s ++ code.

Definition converted (s : symbol) : option string :=
  match sequation s, scode s with Some e, Some c => Some (default_converter e c) | _, _ => None end.
Fixpoint somes_of {A} (l : list (option A)) : list A :=
  match l with [] => [] | Some a :: r => a :: somes_of r | None :: r => somes_of r end.

Definition equations_block (syms : list symbol) : string :=
  match somes_of (map converted (filter emits syms)) with
  | [] => "        pass"
  | exprs => join_s (nl_s ++ nl_s) (map indent8 exprs)
  end.

Definition block_of_script (script : string) : option string :=
  match parse_model_nocheck script with POk syms => Some (equations_block syms) | _ => None end.
