(* CodeGenSrcFacts2.v — the guards of the text-level theorem hold for every well-formed statement
   `left tokens … = … right tokens` whose first `=` lies in a gap (property C01).

   statement_guards       : aligned (render ts) and gaps_brace_free (scan_items (render ts))
   rendered_statement_spec: so for EVERY such statement that parse_equation accepts, Symbol.code of its endogenous
                            symbols is the token list's rendering (CodeGenFacts.parse_equation_code_spec without
                            its two side conditions). *)
From Coq Require Import String Ascii List Bool Arith Lia.
Import ListNotations.
Require Import Generated PyBase PyStr Lex LexFacts Format Symbols Split Merge ParseEq ParseModel Eval.
Require Import CodeGen CodeGenFacts CodeGenFacts4 CodeGenLexFacts CodeGenSrc CodeGenSrcFacts.
Open Scope string_scope.
Open Scope nat_scope.

(* no gap contains a closing brace (an opening brace cannot occur in a gap: it is not inert) *)
Definition no_rbrace (ts : list stok) : bool :=
  forallb (fun t => match t with SGap g => negb (has_char "}" g) | _ => true end) ts.

Lemma all_chars_app p a b : all_chars p (a ++ b) = all_chars p a && all_chars p b.
Proof. induction a as [|c a IH]; cbn [append all_chars]; [reflexivity|]. rewrite IH, andb_assoc. reflexivity. Qed.
Lemma has_char_app ch a b : has_char ch (a ++ b) = has_char ch a || has_char ch b.
Proof. induction a as [|c a IH]; cbn [append has_char]; [reflexivity|]. rewrite IH, orb_assoc. reflexivity. Qed.
Lemma render_app a b : render (a ++ b) = render a ++ render b.
Proof. induction a as [|t a IH]; cbn [app render append]; [reflexivity|]. rewrite IH, app_assoc_s. reflexivity. Qed.
Lemma src_matches_app a b : src_matches (a ++ b) = (src_matches a ++ src_matches b)%list.
Proof. induction a as [|t a IH]; cbn [app src_matches]; [reflexivity|]. destruct (stok_match t); rewrite IH; reflexivity. Qed.

(* ---------- brace-free gaps ---------- *)
Lemma chars_brace_free g : all_chars inert g = true -> has_char "}" g = false ->
  forallb not_brace (map Chr (list_ascii_of_string g)) = true.
Proof.
  induction g as [|c g IH]; cbn [all_chars has_char list_ascii_of_string map forallb not_brace]; [reflexivity|].
  intros H1 H2. apply andb_true_iff in H1 as [Hc Hg]. apply orb_false_iff in H2 as [Hb Hr].
  rewrite (IH Hg Hr), andb_true_r. unfold inert in Hc. repeat (apply andb_true_iff in Hc as [Hc ?]).
  apply negb_true_iff. apply orb_false_iff. split; [apply negb_true_iff; assumption|exact Hb].
Qed.
Lemma items_brace_free ts : forall pos pw, wf_at pw ts = true -> no_rbrace ts = true -> gaps_brace_free (items_of pos ts) = true.
Proof.
  unfold gaps_brace_free.
  induction ts as [|t r IH]; intros pos pw Hw Hn; cbn [items_of wf_at no_rbrace forallb] in *; [reflexivity|].
  apply andb_true_iff in Hw as [Ht Hw]. apply andb_true_iff in Hn as [Hb Hn].
  rewrite forallb_app, (IH _ _ Hw Hn), andb_true_r.
  destruct t as [g|n idx|par w1 n w2 idx|n ws|k|vb|tail]; cbn [stok_match]; try reflexivity.
  - cbn [stok_text]. apply chars_brace_free; [exact Ht|apply negb_true_iff, Hb].
  - cbn [stok_ok] in Ht. apply andb_true_iff in Ht as [Ht _].
    apply orb_true_iff in Ht as [E|E]; apply String.eqb_eq in E; subst tail; reflexivity.
Qed.

(* ---------- cutting a well-formed sequence at an `=` inside a gap ---------- *)
Lemma head_ok_prefix p x y : head_ok p (x ++ y) = true -> head_ok p x = true.
Proof. destruct x; cbn [append head_ok]; auto. Qed.
Lemma skip_ws_cons c r : skip_ws (String c r) = if is_space c then skip_ws r else String c r.
Proof. unfold skip_ws. cbn [span_while]. destruct (is_space c); [destruct (span_while is_space r)|]; reflexivity. Qed.
Lemma skip_ws_prefix p x y : head_ok p (skip_ws (x ++ y)) = true -> head_ok p (skip_ws x) = true.
Proof.
  induction x as [|c x IH]; cbn [append]; [intros _; reflexivity|].
  rewrite !skip_ws_cons. destruct (is_space c); [exact IH|]. cbn [head_ok]. auto.
Qed.
Lemma stok_ok_prefix pw t x z : stok_ok pw t (x ++ String "=" z) = true -> stok_ok pw t x = true.
Proof.
  destruct t as [g|n [b|]|par w1 n w2 [b|]|n ws|k|vb|tail]; cbn [stok_ok]; auto.
  - intros H. apply andb_true_iff in H as [H Hf]. rewrite H. cbn [andb].
    unfold var_follow in *. apply andb_true_iff in Hf as [H1 H2].
    rewrite (head_ok_prefix _ _ _ H1), (skip_ws_prefix _ _ _ H2). reflexivity.
  - intros H. apply andb_true_iff in H as [H Hf]. rewrite H, (head_ok_prefix _ _ _ Hf). reflexivity.
  - intros H. apply andb_true_iff in H as [H Hf]. rewrite H. cbn [andb].
    destruct x as [|c x]; cbn [append head_is] in *; [discriminate Hf|exact Hf].
  - intros H. apply andb_true_iff in H as [H Hb]. apply andb_true_iff in H as [H Hr]. rewrite H. cbn [andb].
    rewrite (head_ok_prefix _ _ _ Hr), (skip_ws_prefix _ _ _ Hb). reflexivity.
  - intros H. apply andb_true_iff in H as [H Hf]. rewrite H. cbn [andb]. unfold lt_free in *.
    destruct (try_bracketed "<" ">" KError (String "<" (tail ++ x))) eqn:E; [|reflexivity].
    destruct (try_bracketed_extend "<" ">" KError (tail ++ x) (String "=" z) _ E) as (m' & Hm).
    rewrite app_assoc_s in Hm. rewrite Hm in Hf. discriminate Hf.
Qed.

Lemma last_word_app pw a c b : last_word pw (a ++ String c b) = last_word (is_word c) b.
Proof. revert pw. induction a as [|d a IH]; intros pw; cbn [append last_word]; [reflexivity|apply IH]. Qed.

Lemma wf_prefix ts1 g1 g2 ts2 : forall pw,
  wf_at pw (ts1 ++ SGap (g1 ++ String "=" g2) :: ts2) = true -> wf_at pw (ts1 ++ [SGap g1]) = true.
Proof.
  induction ts1 as [|t r IH]; cbn [app wf_at]; intros pw H.
  - apply andb_true_iff in H as [H _]. cbn [stok_ok] in *. rewrite all_chars_app in H.
    apply andb_true_iff in H as [H _]. rewrite H. reflexivity.
  - apply andb_true_iff in H as [Ht Hr]. rewrite (IH _ Hr), andb_true_r.
    apply (stok_ok_prefix pw t _ (g2 ++ render ts2)).
    assert (E : render (r ++ SGap (g1 ++ String "=" g2) :: ts2) = render (r ++ [SGap g1]) ++ String "=" (g2 ++ render ts2)).
    { rewrite !render_app. cbn [render stok_text]. rewrite app_nil_r_s. rewrite !app_assoc_s. cbn [append]. reflexivity. }
    rewrite <- E. exact Ht.
Qed.
Lemma wf_suffix ts1 g1 g2 ts2 : forall pw,
  wf_at pw (ts1 ++ SGap (g1 ++ String "=" g2) :: ts2) = true -> wf_at false (SGap g2 :: ts2) = true.
Proof.
  induction ts1 as [|t r IH]; cbn [app wf_at]; intros pw H.
  - apply andb_true_iff in H as [H Hr]. cbn [stok_ok stok_text] in *. rewrite all_chars_app in H.
    apply andb_true_iff in H as [_ H]. cbn [all_chars] in H. apply andb_true_iff in H as [_ H]. rewrite H. cbn [andb].
    rewrite last_word_app in Hr. change (is_word "=") with false in Hr. exact Hr.
  - apply andb_true_iff in H as [_ Hr]. exact (IH _ Hr).
Qed.

Lemma find_any_first ch a b : has_char ch a = false -> find_any ch (a ++ String ch b) = Some (a, b).
Proof. apply find_any_app. Qed.

Theorem statement_guards ts1 g1 g2 ts2 :
  let ts := (ts1 ++ SGap (g1 ++ String "=" g2) :: ts2)%list in
  wf ts = true -> no_rbrace ts = true -> has_char "=" (render ts1 ++ g1) = false ->
  aligned (render ts) /\ gaps_brace_free (scan_items (render ts)) = true.
Proof.
  intros ts Hw Hn He. split.
  - unfold aligned.
    assert (Er : render ts = (render ts1 ++ g1) ++ String "=" (g2 ++ render ts2)).
    { unfold ts. rewrite render_app. cbn [render stok_text]. rewrite !app_assoc_s. cbn [append]. reflexivity. }
    replace (find_any "=" (render ts)) with (Some (render ts1 ++ g1, g2 ++ render ts2))
      by (rewrite Er; symmetry; apply find_any_first; exact He).
    assert (El : render ts1 ++ g1 = render (ts1 ++ [SGap g1])).
    { rewrite render_app. cbn [render stok_text]. rewrite app_nil_r_s. reflexivity. }
    assert (Eg : g2 ++ render ts2 = render (SGap g2 :: ts2)) by reflexivity.
    rewrite El, Eg.
    rewrite (matches_render ts Hw), (matches_render _ (wf_prefix ts1 g1 g2 ts2 false Hw)), (matches_render _ (wf_suffix ts1 g1 g2 ts2 false Hw)).
    unfold ts. rewrite !src_matches_app. cbn [src_matches stok_match]. rewrite app_nil_r. reflexivity.
  - rewrite (scan_render ts Hw). apply (items_brace_free ts 0 false); assumption.
Qed.

(* ---------- not blank, not a backticked line ---------- *)
Lemma lstrip_nonblank p s : (exists c, has_char c s = true /\ p c = false) -> lstrip_by p s <> "".
Proof.
  unfold lstrip_by. induction s as [|d s IH]; intros (c & Hc & Hp); cbn [has_char] in Hc; [discriminate|].
  cbn [span_while]. destruct (p d) eqn:Ed.
  - destruct (span_while p s) as [a b] eqn:Es. cbn [snd]. apply orb_true_iff in Hc as [Hc|Hc].
    + apply Ascii.eqb_eq in Hc. subst. congruence.
    + cbn [snd] in IH. apply IH. exists c. auto.
  - cbn [snd]. discriminate.
Qed.
Lemma has_eq_not_blank s : has_char "=" s = true -> is_blank s = false.
Proof.
  intros H. unfold is_blank.
  pose proof (lstrip_nonblank is_pyspace s (ex_intro _ "="%char (conj H eq_refl))) as Hn.
  destruct (lstrip_by is_pyspace s); [contradiction|reflexivity].
Qed.
(* ---------- the text-level theorem for rendered statements, without side conditions on the text ---------- *)
Theorem rendered_statement_spec ts1 g1 g2 ts2 syms :
  let ts := (ts1 ++ SGap (g1 ++ String "=" g2) :: ts2)%list in
  wf ts = true -> no_rbrace ts = true -> has_char "=" (render ts1 ++ g1) = false ->
  head_is "`" (render ts) = false ->
  parse_equation_M (render ts) = POk syms ->
  exists std code,
    render_items str_of_match (norm_items (items_of 0 ts)) = Some std /\
    render_items code_of_match (norm_items (items_of 0 ts)) = Some code /\
    Forall (fun s => ((sequation s = None /\ scode s = None) \/ (sequation s = Some std /\ scode s = Some code)) /\
                     (stype s = TEndogenous -> sequation s = Some std /\ scode s = Some code)) syms.
Proof.
  intros ts Hw Hn He Hq Hp.
  destruct (statement_guards ts1 g1 g2 ts2 Hw Hn He) as [Ha Hg]. fold ts in Ha, Hg.
  assert (Hb : is_blank (render ts) = false).
  { apply has_eq_not_blank. unfold ts. rewrite render_app, has_char_app. cbn [render stok_text].
    apply orb_true_iff. right. rewrite has_char_app. apply orb_true_iff. left.
    rewrite has_char_app. apply orb_true_iff. right. cbn [has_char]. rewrite Ascii.eqb_refl. reflexivity. }
  assert (Hv : head_is "`" (render ts) && last_is "`" (render ts) = false) by (rewrite Hq; reflexivity).
  destruct (endogenous_symbols_carry_code_text _ _ Hp Hb Hv Ha Hg) as (std & code & Hs & Hc & HF).
  destruct (code_text_render ts Hw) as [Ec Es]. rewrite Ec in Hc. rewrite Es in Hs.
  exists std, code. repeat split; assumption.
Qed.
