(* CodeGenFacts15.v — lex_tie: the token-wise rendering of a statement preserves its token sequence (property C01, review
   item 1).  For EVERY item list that is `tight` (a decidable, local condition: CodeGen.tight) the code text — every match
   rendered by Term.code, every other character copied — is lexed by lex_code into EXACTLY the tokens lex_items reads from
   the script; hence  code_text eq = Some c -> tight_statement eq = true -> stmt_of_code row c = stmt_of_equation row eq
   for every statement text eq, every row map.  The two known fusion defects are exactly the non-tight statements whose
   tokens change. *)
From Coq Require Import String Ascii List Bool Arith ZArith Lia Decimal DecimalString DecimalPos DecimalZ.
Import ListNotations.
Require Import Generated PyBase PyStr Lex LexFacts Format Symbols Split Merge ParseEq ParseModel Eval CodeGen CodeGenFacts6 CodeGenFacts7.
Open Scope string_scope.

(* ---------- strings ---------- *)
Lemma str_all_app p a b : str_all p (a ++ b) = str_all p a && str_all p b.
Proof. induction a as [|c a IH]; cbn [append str_all]; [reflexivity|]. rewrite IH, andb_assoc. reflexivity. Qed.

Definition head_not (p : ascii -> bool) (s : string) : bool := match s with "" => true | String c _ => negb (p c) end.

Lemma span_all p a rest : str_all p a = true -> head_not p rest = true -> span_while p (a ++ rest) = (a, rest).
Proof.
  induction a as [|c a IH]; cbn [append str_all]; intros Ha Hr.
  - destruct rest as [|d r]; cbn [span_while]; [reflexivity|]. cbn [head_not] in Hr. apply negb_true_iff in Hr. rewrite Hr. reflexivity.
  - apply andb_true_iff in Ha as [Hc Ha]. cbn [span_while]. rewrite Hc, (IH Ha Hr). reflexivity.
Qed.

Lemma rev_str_acc a : forall acc, rev_str a acc = rev_str a "" ++ acc.
Proof.
  induction a as [|c a IH]; intros acc; cbn [rev_str]; [reflexivity|].
  rewrite (IH (String c acc)), (IH (String c "")), app_assoc_s. reflexivity.
Qed.

(* ---------- the index text is read back ---------- *)
Definition not_rbr (c : ascii) : bool := negb (Ascii.eqb c "]").
Lemma uint_no_rbr u : str_all not_rbr (NilEmpty.string_of_uint u) = true.
Proof. induction u; cbn [NilEmpty.string_of_uint str_all]; try reflexivity; rewrite IHu; reflexivity. Qed.
Lemma Z_no_rbr z : str_all not_rbr (string_of_Z z) = true.
Proof.
  unfold string_of_Z. destruct (Z.to_int z) as [u|u]; cbn [NilZero.string_of_int].
  - unfold NilZero.string_of_uint. destruct u; try reflexivity; apply uint_no_rbr.
  - cbn [str_all]. unfold NilZero.string_of_uint. destruct u; try reflexivity; apply uint_no_rbr.
Qed.
Lemma int_of_string_of_Z z : NilZero.int_of_string (string_of_Z z) = Some (Z.to_int z).
Proof. unfold string_of_Z. destruct (to_int_proper z) as [A B]. apply NilZero.isi; assumption. Qed.

Lemma offset_text_head k : exists s, offset_text k = String "[" s.
Proof. unfold offset_text. destruct (0 <? k)%Z; [|destruct (k =? 0)%Z]; eexists; reflexivity. Qed.

Theorem code_index_offset k rest : code_index (offset_text k ++ rest) = Some (k, rest).
Proof.
  destruct k as [|p|p].
  - reflexivity.
  - assert (E : offset_text (Zpos p) ++ rest = String "[" (String "t" (String "+" (string_of_Z (Zpos p)) ++ String "]" rest))).
    { unfold offset_text. cbn [Z.ltb Z.compare]. cbn [append]. rewrite app_assoc_s. reflexivity. }
    rewrite E. unfold code_index. cbn [prefix_rest]. rewrite !Ascii.eqb_refl.
    change (fun c : ascii => negb (Ascii.eqb c "]")) with not_rbr.
    change (String "+" (string_of_Z (Zpos p) ++ String "]" rest)) with (String "+" (string_of_Z (Zpos p)) ++ String "]" rest).
    rewrite (span_all not_rbr (String "+" (string_of_Z (Zpos p))) (String "]" rest)); [|cbn [str_all]; rewrite Z_no_rbr; reflexivity|reflexivity].
    rewrite Ascii.eqb_refl, int_of_string_of_Z, DecimalZ.of_to.
    unfold offset_text. cbn [Z.ltb Z.compare]. cbn [append]. rewrite String.eqb_refl. reflexivity.
  - destruct (neg_starts_minus p) as [u Eu].
    assert (E : offset_text (Zneg p) ++ rest = String "[" (String "t" (string_of_Z (Zneg p) ++ String "]" rest))).
    { unfold offset_text. cbn [Z.ltb Z.eqb Z.compare]. cbn [append]. rewrite app_assoc_s. reflexivity. }
    rewrite E. unfold code_index. cbn [prefix_rest]. rewrite !Ascii.eqb_refl.
    change (fun c : ascii => negb (Ascii.eqb c "]")) with not_rbr.
    rewrite (span_all not_rbr (string_of_Z (Zneg p)) (String "]" rest) (Z_no_rbr _) eq_refl).
    pose proof (int_of_string_of_Z (Zneg p)) as Hi. rewrite Eu in *.
    change (Ascii.eqb "-" "+") with false. cbv iota. rewrite Hi, DecimalZ.of_to.
    unfold offset_text. cbn [Z.ltb Z.eqb Z.compare]. rewrite Eu. cbn [append]. rewrite String.eqb_refl. reflexivity.
Qed.

(* ---------- one step of lex_code, case by case ---------- *)
Lemma lex_code_cons f c r :
  lex_code (S f) (String c r) =
  if digdot c then
    let '(num, rest) := span_while digdot (String c r) in
    match rest with
    | String d _ => if is_alpha_ d then [CBad] else CNum num :: lex_code f rest
    | "" => [CNum num]
    end
  else if Ascii.eqb c "*" then
    match r with
    | String d r2 => if Ascii.eqb d "*" then CPow :: lex_code f r2 else CStar :: lex_code f r
    | "" => [CStar]
    end
  else if is_opc c then
    match r with
    | String d r2 => if Ascii.eqb d "=" then op2 c :: lex_code f r2 else op1 c :: lex_code f r
    | "" => [op1 c]
    end
  else if Ascii.eqb c nl then [CBad]
  else if is_space c then lex_code f r
  else if is_alpha_ c then
    match prefix_rest "self._" (String c r) with
    | Some r1 =>
      let '(name, r2) := span_while is_idc r1 in
      match code_index r2 with
      | Some (k, r3) => CRead name k :: lex_code f r3
      | None => [CBad]
      end
    | None => let '(w, r1) := span_name (String.length (String c r)) (String c r) in code_word w :: lex_code f r1
    end
  else tok_of_char c :: lex_code f r.
Proof. reflexivity. Qed.

Lemma lex_code_nil f : lex_code (S f) "" = [].
Proof. reflexivity. Qed.

(* a letter / underscore is none of the special characters (256-character sweep) *)
Lemma alpha_not_special c : is_alpha_ c = true ->
  digdot c = false /\ Ascii.eqb c "*" = false /\ is_opc c = false /\ Ascii.eqb c nl = false /\ is_space c = false.
Proof.
  destruct c as [[] [] [] [] [] [] [] []]; vm_compute; intros H; try discriminate H; repeat split; reflexivity.
Qed.
Lemma opc_cases p : is_opc p = true -> digdot p = false /\ Ascii.eqb p "*" = false.
Proof.
  destruct p as [[] [] [] [] [] [] [] []]; vm_compute; intros H; try discriminate H; split; reflexivity.
Qed.

Lemma lex_num A c f :
  A <> "" -> str_all digdot A = true -> head_not digdot c = true -> head_not is_alpha_ c = true -> String.length c < f ->
  lex_code (S f) (A ++ c) = CNum A :: lex_code f c.
Proof.
  intros Hn Ha Hd Hal Hf. destruct A as [|h t]; [contradiction|].
  change (String h t ++ c) with (String h (t ++ c)). rewrite lex_code_cons.
  pose proof Ha as Ha'. cbn [str_all] in Ha'. apply andb_true_iff in Ha' as [Hh _]. rewrite Hh.
  change (String h (t ++ c)) with (String h t ++ c). rewrite (span_all digdot _ c Ha Hd).
  destruct c as [|d c'].
  - destruct f; [cbn in Hf; lia|]. reflexivity.
  - cbn [head_not] in Hal. apply negb_true_iff in Hal. rewrite Hal. reflexivity.
Qed.
Lemma lex_star c f : head_not (fun d => Ascii.eqb d "*") c = true -> String.length c < f ->
  lex_code (S f) (String "*" c) = CStar :: lex_code f c.
Proof.
  intros Hh Hf. rewrite lex_code_cons. change (digdot "*") with false. change (Ascii.eqb "*" "*") with true. cbv iota.
  destruct c as [|d c'].
  - destruct f; [cbn in Hf; lia|]. reflexivity.
  - cbn [head_not] in Hh. apply negb_true_iff in Hh. rewrite Hh. reflexivity.
Qed.
Lemma lex_pow c f : lex_code (S f) (String "*" (String "*" c)) = CPow :: lex_code f c.
Proof. reflexivity. Qed.
Lemma lex_op p c f : is_opc p = true -> head_not (fun d => Ascii.eqb d "=") c = true -> String.length c < f ->
  lex_code (S f) (String p c) = op1 p :: lex_code f c.
Proof.
  intros Hp Hh Hf. rewrite lex_code_cons. destruct (opc_cases p Hp) as [H1 H2]. rewrite H1, H2, Hp.
  destruct c as [|d c'].
  - destruct f; [cbn in Hf; lia|]. reflexivity.
  - cbn [head_not] in Hh. apply negb_true_iff in Hh. rewrite Hh. reflexivity.
Qed.
Lemma lex_op2 p c f : is_opc p = true -> lex_code (S f) (String p (String "=" c)) = op2 p :: lex_code f c.
Proof.
  intros Hp. rewrite lex_code_cons. destruct (opc_cases p Hp) as [H1 H2]. rewrite H1, H2, Hp. reflexivity.
Qed.
Lemma lex_plain x c f :
  digdot x = false -> Ascii.eqb x "*" = false -> is_opc x = false -> Ascii.eqb x nl = false -> is_alpha_ x = false ->
  lex_code (S f) (String x c) = if is_space x then lex_code f c else tok_of_char x :: lex_code f c.
Proof. intros H1 H2 H3 H4 H5. rewrite lex_code_cons, H1, H2, H3, H4, H5. reflexivity. Qed.
Lemma fnc_not_idc c : is_fnc c = false -> is_idc c = false /\ Ascii.eqb c "." = false.
Proof. unfold is_fnc. intros H. apply orb_false_iff in H. exact H. Qed.
Lemma span_name_plain w c : forall fuel, str_all is_idc w = true -> head_not is_fnc c = true -> span_name fuel (w ++ c) = (w, c).
Proof.
  intros fuel Hw Hc.
  assert (Hi : head_not is_idc c = true).
  { destruct c as [|d c1]; [reflexivity|]. cbn [head_not] in *. apply negb_true_iff in Hc. rewrite (proj1 (fnc_not_idc d Hc)). reflexivity. }
  destruct fuel as [|f]; cbn [span_name]; rewrite (span_all is_idc w c Hw Hi); [reflexivity|].
  destruct c as [|d [|a c2]]; try reflexivity.
  cbn [head_not] in Hc. apply negb_true_iff in Hc. rewrite (proj2 (fnc_not_idc d Hc)). reflexivity.
Qed.
Lemma span_name_S f s :
  span_name (S f) s =
  let '(w, r) := span_while is_idc s in
  match r with
  | String d (String a r') =>
    if Ascii.eqb d "." && is_alpha_ a then let '(w2, r2) := span_name f (String a r') in (w ++ String "." w2, r2) else (w, r)
  | _ => (w, r)
  end.
Proof. reflexivity. Qed.
Lemma span_name_np w2 c : str_all is_idc w2 = true -> head_not (fun h => negb (is_alpha_ h)) w2 = true -> w2 <> "" ->
  head_not is_fnc c = true ->
  span_name (String.length (("np." ++ w2) ++ c)) (("np." ++ w2) ++ c) = ("np." ++ w2, c).
Proof.
  intros Hw Hh Hn Hc. destruct w2 as [|a t]; [contradiction|]. cbn [head_not] in Hh. apply negb_true_iff, negb_false_iff in Hh.
  cbn [append String.length]. rewrite span_name_S.
  change (span_while is_idc (String "n" (String "p" (String "." (String a (t ++ c))))))
    with (span_while is_idc ("np" ++ String "." (String a (t ++ c)))).
  rewrite (span_all is_idc "np" (String "." (String a (t ++ c))) eq_refl eq_refl).
  change (Ascii.eqb "." ".") with true. rewrite Hh. cbn [andb].
  change (String a (t ++ c)) with (String a t ++ c). rewrite (span_name_plain (String a t) c _ Hw Hc). reflexivity.
Qed.
Lemma span_np_exp c : head_not is_fnc c = true -> span_name (String.length ("np.exp" ++ c)) ("np.exp" ++ c) = ("np.exp", c).
Proof. intros Hc. change "np.exp" with ("np." ++ "exp"). apply (span_name_np "exp" c); [reflexivity|reflexivity|discriminate|exact Hc]. Qed.
Lemma span_np_log c : head_not is_fnc c = true -> span_name (String.length ("np.log" ++ c)) ("np.log" ++ c) = ("np.log", c).
Proof. intros Hc. change "np.log" with ("np." ++ "log"). apply (span_name_np "log" c); [reflexivity|reflexivity|discriminate|exact Hc]. Qed.
Lemma lex_word w c f :
  head_not (fun h => negb (is_alpha_ h)) w = true -> w <> "" -> prefix_rest "self._" (w ++ c) = None ->
  span_name (String.length (w ++ c)) (w ++ c) = (w, c) ->
  lex_code (S f) (w ++ c) = code_word w :: lex_code f c.
Proof.
  intros Hh Hn Hp Hw. destruct w as [|h t]; [contradiction|]. cbn [head_not] in Hh. apply negb_true_iff, negb_false_iff in Hh.
  destruct (alpha_not_special h Hh) as (H1 & H2 & H3 & H4 & H5).
  change (String h t ++ c) with (String h (t ++ c)) in *. rewrite lex_code_cons, H1, H2, H3, H4, H5, Hh, Hp, Hw. reflexivity.
Qed.
Lemma lex_series name k c f : str_all is_idc name = true ->
  lex_code (S f) (("self._" ++ name ++ offset_text k) ++ c) = CRead name k :: lex_code f c.
Proof.
  intros Hn.
  assert (E : ("self._" ++ name ++ offset_text k) ++ c = String "s" ("elf._" ++ name ++ offset_text k ++ c)).
  { cbn [append]. rewrite app_assoc_s. reflexivity. }
  rewrite E, lex_code_cons.
  change (digdot "s") with false. change (Ascii.eqb "s" "*") with false. change (is_opc "s") with false.
  change (Ascii.eqb "s" nl) with false. change (is_space "s") with false. change (is_alpha_ "s") with true. cbv iota.
  assert (P : prefix_rest "self._" (String "s" ("elf._" ++ name ++ offset_text k ++ c)) = Some (name ++ offset_text k ++ c)) by reflexivity.
  rewrite P. destruct (offset_text_head k) as [o Eo].
  rewrite (span_all is_idc name (offset_text k ++ c) Hn) by (rewrite Eo; reflexivity).
  rewrite code_index_offset. reflexivity.
Qed.

(* ---------- lex_items: a pending token is flushed by whatever does not continue it ---------- *)
Open Scope list_scope.
Lemma items_num_flush a x r : digdot x = false ->
  lex_items (LNum a) (Chr x :: r) = CNum (rev_str a "") :: lex_items LNone (Chr x :: r).
Proof.
  intros H. unfold digdot in H. cbn [lex_items]. rewrite H.
  destruct (Ascii.eqb x "*"); [reflexivity|]. destruct (is_opc x); [reflexivity|]. destruct (is_space x); reflexivity.
Qed.
Lemma items_star_flush i r : (forall x, i = Chr x -> Ascii.eqb x "*" = false) ->
  lex_items LStar (i :: r) = CStar :: lex_items LNone (i :: r).
Proof.
  intros H. destruct i as [x|p m]; [|reflexivity]. specialize (H x eq_refl). cbn [lex_items]. rewrite H.
  destruct (is_digit x || Ascii.eqb x "."); [reflexivity|]. destruct (is_opc x); [reflexivity|]. destruct (is_space x); reflexivity.
Qed.
Lemma items_op_flush p i r : (forall x, i = Chr x -> Ascii.eqb x "=" = false) ->
  lex_items (LOp p) (i :: r) = op1 p :: lex_items LNone (i :: r).
Proof.
  intros H. destruct i as [x|q m]; [|reflexivity]. specialize (H x eq_refl). cbn [lex_items]. rewrite H.
  destruct (is_digit x || Ascii.eqb x "."); [reflexivity|]. destruct (Ascii.eqb x "*"); [reflexivity|].
  destruct (is_opc x); [reflexivity|]. destruct (is_space x); reflexivity.
Qed.
Lemma items_word_none i r : (forall p m, i = Tok p m -> fuses LWord m = false) ->
  lex_items LWord (i :: r) = lex_items LNone (i :: r).
Proof.
  intros H. destruct i as [x|p m].
  - cbn [lex_items]. destruct (is_digit x || Ascii.eqb x "."); [reflexivity|]. destruct (Ascii.eqb x "*"); [reflexivity|].
    destruct (is_opc x); [reflexivity|]. destruct (is_space x); reflexivity.
  - cbn [lex_items]. rewrite (H p m eq_refl). reflexivity.
Qed.

(* ---------- rendering, one item at a time ---------- *)
Lemma render_chr f x r c : render_items f (Chr x :: r) = Some c -> exists c', render_items f r = Some c' /\ c = String x c'.
Proof. cbn [render_items]. destruct (render_items f r) as [c'|]; [|discriminate]. intros H; inversion H. eauto. Qed.
Lemma render_tok f p m r c : render_items f (Tok p m :: r) = Some c ->
  exists a c', f m = Some a /\ render_items f r = Some c' /\ c = (a ++ c')%string.
Proof.
  cbn [render_items]. destruct (f m) as [a|]; [|discriminate]. destruct (render_items f r) as [c'|]; [|discriminate].
  intros H; inversion H. eauto.
Qed.

Lemma tight_weaken p l : tight p l = true -> tight PNone l = true.
Proof.
  destruct l as [|[x|q m] r]; cbn [tight]; [reflexivity| |].
  - intros H. apply andb_true_iff in H as [H Hr]. apply andb_true_iff in H as [H _]. rewrite H, Hr. reflexivity.
  - destruct p; try discriminate. auto.
Qed.
Lemma tight_word_head f r c : tight PWord r = true -> render_items f r = Some c -> head_not is_fnc c = true.
Proof.
  destruct r as [|[x|q m] r']; cbn [tight]; [|intros H|discriminate].
  - intros _ H. inversion H. reflexivity.
  - intros Hr. destruct (render_chr _ _ _ _ Hr) as (c' & _ & ->). cbn [head_not].
    apply andb_true_iff in H as [H _]. apply andb_true_iff in H as [_ H]. exact H.
Qed.

(* ---------- the states ---------- *)
Definition pend (st : lstate) : string :=
  match st with LNum a => rev_str a "" | LStar => "*" | LOp p => String p "" | _ => "" end.
Definition st_class (st : lstate) : pclass := match st with LNum _ => PDig | LWord => PWord | _ => PNone end.
Definition st_ok (st : lstate) : Prop :=
  match st with
  | LNum a => str_all digdot (rev_str a "") = true /\ rev_str a "" <> ""
  | LOp p => is_opc p = true
  | _ => True
  end.

Lemma tok_class_inv m q : tok_class m = Some q ->
  exists code, code_of_match m = Some code /\
  ((exists name k, tok_of_match m = CRead name k /\ q = PNone /\ after_match m = LNone /\
                   str_all is_idc name = true /\ code = ("self._" ++ name ++ offset_text k)%string) \/
   (q = PWord /\ tok_of_match m = code_word code /\ (after_match m = LNone \/ after_match m = LWord) /\
    head_not (fun h => negb (is_alpha_ h)) code = true /\ code <> ""%string /\
    (forall c, prefix_rest "self._" (code ++ c) = None) /\
    (forall c, head_not is_fnc c = true -> span_name (String.length (code ++ c)) (code ++ c) = (code, c)))).
Proof.
  unfold tok_class. destruct (code_of_match m) as [code|]; [|destruct (tok_of_match m); discriminate].
  destruct (tok_of_match m) as [name k|w|s0| | | | | | | | | | |x] eqn:Et; try discriminate.
  - destruct (is_series (mkind m) && str_all is_idc name && String.eqb code ("self._" ++ name ++ offset_text k)) eqn:E; [|discriminate].
    intros H; inversion H; subst q. apply andb_true_iff in E as [E E3]. apply andb_true_iff in E as [E1 E2].
    apply String.eqb_eq in E3. exists code. split; [reflexivity|]. left. exists name, k. repeat split; auto.
    unfold after_match. destruct (mkind m); try discriminate E1; reflexivity.
  - destruct (known_fun w && String.eqb code w) eqn:E; [|discriminate].
    intros H; inversion H; subst q. apply andb_true_iff in E as [E1 E2]. apply String.eqb_eq in E2. subst code.
    exists w. split; [reflexivity|]. right.
    assert (A : after_match m = LNone \/ after_match m = LWord) by (unfold after_match; destruct (mkind m); auto).
    unfold known_fun in E1. repeat (apply orb_true_iff in E1 as [E1|E1]); apply String.eqb_eq in E1; subst w;
      (split; [reflexivity|]); (split; [reflexivity|]); (split; [exact A|]); (split; [reflexivity|]); (split; [discriminate|]);
      (split; [intros; reflexivity|]); intros c Hc;
      first [ exact (span_np_exp c Hc) | exact (span_np_log c Hc) | (apply span_name_plain; [reflexivity|exact Hc]) ].
  - destruct (kw_text x) as [w|] eqn:Ek; [|discriminate].
    destruct (String.eqb code w) eqn:E; [|discriminate]. apply String.eqb_eq in E. subst code.
    intros H; inversion H; subst q. exists w. split; [reflexivity|]. right.
    assert (A : after_match m = LNone \/ after_match m = LWord) by (unfold after_match; destruct (mkind m); auto).
    destruct x; cbn [kw_text] in Ek; try discriminate Ek; inversion Ek; subst w;
      (split; [reflexivity|]); (split; [reflexivity|]); (split; [exact A|]); (split; [reflexivity|]); (split; [discriminate|]);
      (split; [intros; reflexivity|]); intros c Hc; (apply span_name_plain; [reflexivity|exact Hc]).
Qed.

Lemma tok_code_head m q code : tok_class m = Some q -> code_of_match m = Some code ->
  exists h t, code = String h t /\ is_alpha_ h = true.
Proof.
  intros H Hc. destruct (tok_class_inv m q H) as (code' & Hc' & [ (name & k & _ & _ & _ & _ & E) | (_ & _ & _ & Hh & Hn & _) ]);
    rewrite Hc in Hc'; inversion Hc'; subst code'.
  - subst code. exists "s"%char. eexists. split; reflexivity.
  - destruct code as [|h t]; [contradiction|]. exists h, t. split; [reflexivity|].
    cbn [head_not] in Hh. apply negb_true_iff, negb_false_iff in Hh. exact Hh.
Qed.

Definition Pst (NL : list item) : Prop :=
  forall st c f, st_ok st -> tight (st_class st) NL = true -> render_items code_of_match NL = Some c ->
    String.length (pend st ++ c)%string < f -> lex_code f (pend st ++ c)%string = lex_items st NL.

Lemma Pst_nil : Pst [].
Proof.
  intros st c f Hok _ Hr Hf. cbn [render_items] in Hr. inversion Hr; subst c. cbn [lex_items].
  destruct f as [|f']; [lia|].
  destruct st as [|a| |p|]; cbn [pend flush st_ok] in *.
  - reflexivity.
  - destruct Hok as [Ha Hn]. rewrite length_app_s in Hf. cbn [String.length] in Hf.
    assert (1 <= String.length (rev_str a "")) by (destruct (rev_str a ""); [contradiction|cbn; lia]).
    rewrite (lex_num _ "" f' Hn Ha eq_refl eq_refl) by (cbn; lia). destruct f'; [lia|]. reflexivity.
  - cbn in Hf. cbn [append]. rewrite (lex_star "" f' eq_refl) by (cbn; lia). destruct f'; [lia|]. reflexivity.
  - cbn in Hf. cbn [append]. rewrite (lex_op p "" f' Hok eq_refl) by (cbn; lia). destruct f'; [lia|]. reflexivity.
  - reflexivity.
Qed.

(* from the empty state *)
Lemma step_none i r : Pst r ->
  forall c f, tight PNone (i :: r) = true -> render_items code_of_match (i :: r) = Some c -> String.length c < f ->
  lex_code f c = lex_items LNone (i :: r).
Proof.
  intros IH c f Ht Hr Hf. destruct i as [x|p m].
  - destruct (render_chr _ _ _ _ Hr) as (c' & Hr' & ->).
    cbn [tight] in Ht. apply andb_true_iff in Ht as [Ht Htr]. apply andb_true_iff in Ht as [Ht _].
    apply andb_true_iff in Ht as [Hal Hnl]. apply negb_true_iff in Hal, Hnl.
    destruct (digdot x) eqn:Ed.
    + assert (E : lex_items LNone (Chr x :: r) = lex_items (LNum (String x "")) r).
      { cbn [lex_items]. unfold digdot in Ed. rewrite Ed. reflexivity. }
      rewrite E. apply (IH (LNum (String x "")) c' f); auto.
      cbn [st_ok rev_str str_all]. rewrite Ed. split; [reflexivity|discriminate].
    + destruct (Ascii.eqb x "*") eqn:Es.
      * apply Ascii.eqb_eq in Es. subst x. apply (IH LStar c' f); auto. exact I.
      * destruct (is_opc x) eqn:Eo.
        -- assert (E : lex_items LNone (Chr x :: r) = lex_items (LOp x) r).
           { cbn [lex_items]. unfold digdot in Ed. rewrite Ed, Es, Eo. reflexivity. }
           rewrite E. apply (IH (LOp x) c' f); auto.
        -- destruct f as [|f']; [lia|]. rewrite (lex_plain x c' f' Ed Es Eo Hnl Hal).
           cbn [String.length] in Hf.
           assert (R : lex_code f' c' = lex_items LNone r) by (apply (IH LNone c' f'); auto; [exact I|cbn [pend append]; lia]).
           cbn [lex_items]. unfold digdot in Ed. rewrite Ed, Es, Eo. destruct (is_space x); cbn [flush app]; rewrite R; reflexivity.
  - destruct (render_tok _ _ _ _ _ Hr) as (code & c' & Hcode & Hr' & ->).
    cbn [tight] in Ht. destruct (tok_class m) as [q|] eqn:Eq; [|discriminate].
    destruct f as [|f']; [lia|].
    destruct (tok_class_inv m q Eq) as (code' & Hc' & Hcase). rewrite Hcode in Hc'. inversion Hc'; subst code'. clear Hc'.
    rewrite length_app_s in Hf.
    destruct Hcase as [ (name & k & Etok & -> & Eaft & Hname & ->) | (-> & Etok & Eaft & Hh & Hn & Hp & Hw) ].
    + rewrite (lex_series name k c' f' Hname).
      assert (E : lex_items LNone (Tok p m :: r) = CRead name k :: lex_items LNone r).
      { cbn [lex_items flush fuses app]. rewrite Etok, Eaft. reflexivity. }
      rewrite E. f_equal. apply (IH LNone c' f'); auto; [exact I|]. cbn [pend append].
      rewrite length_app_s in Hf. cbn [String.length] in Hf. lia.
    + rewrite (lex_word code c' f' Hh Hn (Hp c') (Hw c' (tight_word_head _ _ _ Ht Hr'))).
      assert (L : 1 <= String.length code) by (destruct code; [contradiction|cbn; lia]).
      assert (E : lex_items LNone (Tok p m :: r) = code_word code :: lex_items (after_match m) r).
      { cbn [lex_items flush fuses app]. rewrite Etok. reflexivity. }
      rewrite E. f_equal. destruct Eaft as [-> | ->].
      * apply (IH LNone c' f'); auto; [exact I|apply (tight_weaken _ _ Ht)|cbn [pend append]; lia].
      * apply (IH LWord c' f'); auto; [exact I|cbn [pend append]; lia].
Qed.

Theorem lex_tie_states NL : Pst NL.
Proof.
  induction NL as [|i r IH]; [exact Pst_nil|].
  pose proof (step_none i r IH) as H0.
  intros st c f Hok Ht Hr Hf.
  destruct st as [|a| |p|]; cbn [pend st_class st_ok] in *.
  - (* nothing pending *) apply H0; auto.
  - (* a numeral pending *)
    destruct Hok as [Ha Hn]. destruct i as [x|q m]; [|discriminate Ht].
    destruct (render_chr _ _ _ _ Hr) as (c' & Hr' & ->).
    destruct (digdot x) eqn:Ed.
    + assert (E : lex_items (LNum a) (Chr x :: r) = lex_items (LNum (String x a)) r).
      { cbn [lex_items]. unfold digdot in Ed. rewrite Ed. reflexivity. }
      rewrite E.
      assert (Ep : (rev_str a "" ++ String x c')%string = (pend (LNum (String x a)) ++ c')%string).
      { cbn [pend rev_str]. rewrite (rev_str_acc a (String x "")), app_assoc_s. reflexivity. }
      rewrite Ep. apply (IH (LNum (String x a)) c' f).
      * cbn [st_ok rev_str]. rewrite (rev_str_acc a (String x "")), str_all_app, Ha. cbn [str_all]. rewrite Ed. split; [reflexivity|].
        destruct (rev_str a ""); discriminate.
      * cbn [tight] in Ht. apply andb_true_iff in Ht as [_ Ht]. rewrite Ed in Ht. exact Ht.
      * exact Hr'.
      * rewrite <- Ep. exact Hf.
    + rewrite (items_num_flush a x r Ed).
      destruct f as [|f']; [lia|].
      pose proof Ht as Ht'. cbn [tight] in Ht'. apply andb_true_iff in Ht' as [Ht' _]. apply andb_true_iff in Ht' as [Ht' _].
      apply andb_true_iff in Ht' as [Hal _].
      rewrite length_app_s in Hf. assert (1 <= String.length (rev_str a "")) by (destruct (rev_str a ""); [contradiction|cbn; lia]).
      rewrite (lex_num _ (String x c') f' Hn Ha) by (cbn [head_not]; try rewrite Ed; try exact Hal; try reflexivity; lia).
      f_equal. apply H0; [apply (tight_weaken _ _ Ht)|exact Hr|lia].
  - (* a star pending *)
    destruct f as [|f']; [lia|]. cbn [append] in *. cbn [String.length] in Hf.
    destruct i as [x|q m].
    + destruct (render_chr _ _ _ _ Hr) as (c' & Hr' & ->).
      destruct (Ascii.eqb x "*") eqn:Es.
      * apply Ascii.eqb_eq in Es. subst x. rewrite lex_pow.
        assert (E : lex_items LStar (Chr "*" :: r) = CPow :: lex_items LNone r) by reflexivity.
        rewrite E. f_equal. cbn [tight] in Ht. apply andb_true_iff in Ht as [_ Ht].
        apply (IH LNone c' f'); [exact I|exact Ht|exact Hr'|cbn [pend append String.length] in *; lia].
      * rewrite (items_star_flush (Chr x) r) by (intros y Ey; inversion Ey; subst; exact Es).
        rewrite (lex_star (String x c') f') by (cbn [head_not]; try rewrite Es; try reflexivity; lia).
        f_equal. apply H0; auto; try lia.
    + rewrite (items_star_flush (Tok q m) r) by (intros y Ey; discriminate Ey).
      destruct (render_tok _ _ _ _ _ Hr) as (code & c' & Hcode & Hr' & ->).
      pose proof Ht as Ht'. cbn [tight] in Ht'. destruct (tok_class m) as [q'|] eqn:Eq; [|discriminate].
      destruct (tok_code_head m q' code Eq Hcode) as (h & t & -> & Hh).
      destruct (alpha_not_special h Hh) as (_ & Hs & _).
      assert (Hl : String.length (String h t ++ c')%string < f') by lia.
      assert (Hhd : head_not (fun d => Ascii.eqb d "*") (String h t ++ c')%string = true) by (cbn [append head_not]; rewrite Hs; reflexivity).
      rewrite (lex_star (String h t ++ c')%string f' Hhd Hl).
      f_equal. apply H0; auto; try lia.
  - (* a comparison character pending *)
    destruct f as [|f']; [lia|]. cbn [append] in *. cbn [String.length] in Hf.
    destruct i as [x|q m].
    + destruct (render_chr _ _ _ _ Hr) as (c' & Hr' & ->).
      destruct (Ascii.eqb x "=") eqn:Es.
      * apply Ascii.eqb_eq in Es. subst x. rewrite (lex_op2 p c' f' Hok).
        assert (E : lex_items (LOp p) (Chr "=" :: r) = op2 p :: lex_items LNone r) by reflexivity.
        rewrite E. f_equal. cbn [tight] in Ht. apply andb_true_iff in Ht as [_ Ht].
        apply (IH LNone c' f'); [exact I|exact Ht|exact Hr'|cbn [pend append String.length] in *; lia].
      * rewrite (items_op_flush p (Chr x) r) by (intros y Ey; inversion Ey; subst; exact Es).
        rewrite (lex_op p (String x c') f' Hok) by (cbn [head_not]; try rewrite Es; try reflexivity; lia).
        f_equal. apply H0; auto; try lia.
    + rewrite (items_op_flush p (Tok q m) r) by (intros y Ey; discriminate Ey).
      destruct (render_tok _ _ _ _ _ Hr) as (code & c' & Hcode & Hr' & ->).
      pose proof Ht as Ht'. cbn [tight] in Ht'. destruct (tok_class m) as [q'|] eqn:Eq; [|discriminate].
      destruct (tok_code_head m q' code Eq Hcode) as (h & t & -> & Hh).
      assert (He : Ascii.eqb h "=" = false) by (destruct (Ascii.eqb_spec h "="); [subst h; discriminate Hh|reflexivity]).
      assert (Hl : String.length (String h t ++ c')%string < f') by lia.
      assert (Hhd : head_not (fun d => Ascii.eqb d "=") (String h t ++ c')%string = true) by (cbn [append head_not]; rewrite He; reflexivity).
      rewrite (lex_op p (String h t ++ c')%string f' Hok Hhd Hl).
      f_equal. apply H0; auto; try lia.
  - (* after a keyword *)
    destruct i as [x|q m]; [|discriminate Ht].
    rewrite (items_word_none (Chr x) r) by (intros q m Ey; discriminate Ey).
    apply H0; auto. apply (tight_weaken _ _ Ht).
Qed.

(* ---------- the theorems ---------- *)
Theorem lex_tie NL c :
  tight PNone NL = true -> render_items code_of_match NL = Some c ->
  lex_code (S (String.length c)) c = lex_items LNone NL.
Proof. intros Ht Hr. apply (lex_tie_states NL LNone c (S (String.length c)) I Ht Hr). cbn [pend append]. lia. Qed.

Lemma tight_renders l : forall p, tight p l = true -> exists c, render_items code_of_match l = Some c.
Proof.
  induction l as [|[x|q m] r IH]; intros p H; cbn [tight render_items] in *.
  - eauto.
  - apply andb_true_iff in H as [_ H]. destruct (IH _ H) as [c ->]. eauto.
  - destruct p; try discriminate. destruct (tok_class m) as [q'|] eqn:Eq; [|discriminate].
    destruct (tok_class_inv m q' Eq) as (code & -> & _). destruct (IH _ H) as [c ->]. eauto.
Qed.

(* for EVERY statement text: if its normalised items are tight, its code text is lexed into exactly the script's tokens,
   and reading the code gives the very statement the script denotes — whatever the row map *)
Theorem code_tokens_tie eq c :
  code_text eq = Some c -> tight_statement eq = true ->
  lex_code (S (String.length c)) c = lex_items LNone (scan_items eq).
Proof. unfold code_text, tight_statement. intros Hc Ht. rewrite (lex_tie _ c Ht Hc). apply lex_norm. Qed.
Theorem code_statement_tie row eq c :
  code_text eq = Some c -> tight_statement eq = true -> stmt_of_code row c = stmt_of_equation row eq.
Proof. intros Hc Ht. unfold stmt_of_code, stmt_of_equation. rewrite (code_tokens_tie eq c Hc Ht). reflexivity. Qed.
Theorem tight_has_code eq : tight_statement eq = true -> exists c, code_text eq = Some c.
Proof. unfold tight_statement, code_text. apply tight_renders. Qed.
