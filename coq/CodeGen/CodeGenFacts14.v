(* CodeGenFacts14.v — the tie between the generated CODE text and the statement (property C01): the per-statement decision
   code_agrees is sound, and a script accepted by program_of_script_checked has, for EVERY statement, the property the
   review asked for:   code_text eq = Some c   and   stmt_of_code row c = stmt_of_equation row eq.
   So all theorems about the statements of an accepted script are theorems about what lex_code + the tree parser read in
   the code text that K_text ties to Symbol.code; CPython reading that text in the same way stays with K_pyast / K_eval. *)
From Coq Require Import String Ascii List Bool Arith ZArith Lia.
Import ListNotations.
Require Import Generated PyBase PyStr Lex Format Symbols Split Merge ParseEq ParseModel Eval CodeGen.
Open Scope string_scope.

Lemma binop_eqb_eq a b : binop_eqb a b = true -> a = b.
Proof. destruct a, b; cbn; congruence. Qed.
Lemma cmpop_eqb_eq a b : cmpop_eqb a b = true -> a = b.
Proof. destruct a, b; cbn; congruence. Qed.

Lemma sexpr_eqb_eq a : forall b, sexpr_eqb a b = true -> a = b.
Proof.
  induction a as [s|i k|a IHa|a IHa|o a IHa b IHb|a IHa b IHb|a IHa b IHb|o l IHl r IHr a IHa b IHb|g a IHa|g a IHa b IHb];
    intros [s'|i' k'|a'|a'|o' a' b'|a' b'|a' b'|o' l' r' a' b'|g' a'|g' a' b']; cbn [sexpr_eqb]; try discriminate; intros H;
    repeat (apply andb_true_iff in H as [H ?]).
  - apply String.eqb_eq in H. congruence.
  - apply Nat.eqb_eq in H. apply Z.eqb_eq in H0. congruence.
  - f_equal; auto.
  - f_equal; auto.
  - apply binop_eqb_eq in H. f_equal; auto.
  - f_equal; auto.
  - f_equal; auto.
  - apply cmpop_eqb_eq in H. f_equal; auto.
  - apply Nat.eqb_eq in H. f_equal; auto.
  - apply Nat.eqb_eq in H. f_equal; auto.
Qed.

Lemma sexpr_eqb_refl a : sexpr_eqb a a = true.
Proof.
  induction a as [s|i k|a IHa|a IHa|o a IHa b IHb|a IHa b IHb|a IHa b IHb|o l IHl r IHr a IHa b IHb|g a IHa|g a IHa b IHb];
    cbn [sexpr_eqb]; rewrite ?String.eqb_refl, ?Nat.eqb_refl, ?Z.eqb_refl, ?IHa, ?IHb, ?IHl, ?IHr; try reflexivity;
    destruct o; reflexivity.
Qed.

Lemma named_stmt_eqb_eq a b : named_stmt_eqb a b = true -> a = b.
Proof.
  destruct a as [y [i k e]], b as [y' [i' k' e']]. cbn [named_stmt_eqb]. intros H.
  repeat (apply andb_true_iff in H as [H ?]).
  apply String.eqb_eq in H. apply Nat.eqb_eq in H2. apply Z.eqb_eq in H1. apply sexpr_eqb_eq in H0. congruence.
Qed.

(* the decision is exact: it holds iff an accepted statement is read back, identically, from its code text *)
Theorem code_agrees_sound row eq s :
  code_agrees row eq = true -> stmt_of_equation row eq = Some s ->
  exists c, code_text eq = Some c /\ stmt_of_code row c = stmt_of_equation row eq.
Proof.
  unfold code_agrees. intros H E. rewrite E in *.
  destruct (code_text eq) as [c|]; [|discriminate]. exists c. split; [reflexivity|].
  destruct (stmt_of_code row c) as [s'|]; [|discriminate]. apply named_stmt_eqb_eq in H. congruence.
Qed.
Theorem code_agrees_complete row eq c :
  code_text eq = Some c -> stmt_of_code row c = stmt_of_equation row eq -> code_agrees row eq = true.
Proof.
  unfold code_agrees. intros Hc E. rewrite Hc, E. destruct (stmt_of_equation row eq) as [[y [i k e]]|]; [|reflexivity].
  cbn [named_stmt_eqb]. rewrite String.eqb_refl, Nat.eqb_refl, Z.eqb_refl, sexpr_eqb_refl. reflexivity.
Qed.

(* a script the checked model accepts: the same program as before, and every statement of the script that the model gives a
   meaning to is read back from its code text *)
Theorem checked_program_tied script names prog :
  program_of_script_checked script = Some (names, prog) ->
  program_of_script script = Some (names, prog) /\
  exists syms stmts,
    parse_model_nocheck script = POk syms /\ split_M script = (stmts, None) /\ names = names_of syms /\
    forall eq s, In eq stmts -> head_is "`" eq && last_is "`" eq = false ->
      stmt_of_equation (row_of names) eq = Some s ->
      exists c, code_text eq = Some c /\ stmt_of_code (row_of names) c = stmt_of_equation (row_of names) eq.
Proof.
  unfold program_of_script_checked, program_of_script.
  destruct (parse_model_nocheck script) as [syms|e|] eqn:Ep; try discriminate.
  destruct (split_M script) as [stmts [e|]] eqn:Es; try discriminate.
  destruct (program_agrees syms stmts) eqn:Ea; [|discriminate]. intros H. split; [exact H|].
  exists syms, stmts. repeat split; auto.
  - unfold program_of_symbols in H.
    destruct (all_some (map (stmt_of_equation (row_of (names_of syms))) _)); [|discriminate].
    destruct (all_some (map _ (filter emits syms))); [|discriminate]. congruence.
  - intros eq s Hin Hb Hs.
    assert (En : names = names_of syms).
    { unfold program_of_symbols in H.
      destruct (all_some (map (stmt_of_equation (row_of (names_of syms))) _)); [|discriminate].
      destruct (all_some (map _ (filter emits syms))); [|discriminate]. congruence. }
    subst names. unfold program_agrees in Ea. rewrite forallb_forall in Ea.
    apply (code_agrees_sound _ eq s); [|exact Hs]. apply Ea. apply filter_In. split; [exact Hin|]. rewrite Hb. reflexivity.
Qed.
