(* CodeGenF.v — the script-to-program translation of CodeGen.v run on the kernel's binary64 floats, and the
   in-Coq comparison used by the correspondence K_eval of property C01.  Definitions only.

   A decimal literal  d…d.d…d  with all digits m <= 2^53 and at most 15 digits after the dot is converted as
   m / 10^k : both operands are exactly representable, so the IEEE division is the correctly rounded value of the
   literal, which is what CPython's float() / the compiler computes (Clinger's fast path).  Anything else is NaN
   (fail-closed: such a case shows up as a disagreement, never as an agreement; the harness does not send them). *)
From Coq Require Import String Ascii List Bool Arith ZArith PrimFloat Uint63 FloatOps.
Import ListNotations.
Require Import PyBase PyStr Solver SolverF Eval EvalF CodeGen.
Open Scope string_scope.

Definition digit_Z (c : ascii) : Z := (Z.of_N (N_of_ascii c) - 48)%Z.
Fixpoint digits_val (acc : Z) (s : string) : Z :=
  match s with
  | "" => acc
  | String c r => if is_digit c then digits_val (acc * 10 + digit_Z c)%Z r else digits_val acc r
  end.
Fixpoint frac_digits (after_dot : bool) (s : string) : nat :=
  match s with
  | "" => 0%nat
  | String c r => if Ascii.eqb c "." then frac_digits true r
                  else ((if after_dot then 1 else 0) + frac_digits after_dot r)%nat
  end.
Definition float_of_Z (z : Z) : float := PrimFloat.of_uint63 (Uint63.of_Z z).
(* text of a folded integer (optional `-`, digits): 0 - m is exact and has the sign an int has (no negative zero) *)
Definition lit_float_pos (s : string) : float :=
  let m := digits_val 0 s in
  let k := frac_digits false s in
  if (m <=? 2 ^ 53)%Z && (k <=? 15)%nat then PrimFloat.div (float_of_Z m) (float_of_Z (10 ^ Z.of_nat k)) else nan.
Definition lit_float (s : string) : float :=
  match s with
  | String c r => if Ascii.eqb c "-" then PrimFloat.sub (float_of_Z 0) (lit_float_pos r) else lit_float_pos s
  | "" => nan
  end.
Definition fprogram_of_script (script : string) : option (list string * fprogram) :=
  match program_of_script_checked script with
  | Some (names, p) => Some (names, program_map string float lit_float p)
  | None => None
  end.

(* one recorded call of the real _evaluate(t) of the class built from c_script: NAMES, store before, what it left,
   what it raised, what it accessed; c_tab = the exp / log / ** values observed (oracle table of EvalF) *)
Record ccase := mkC {
  c_script : string; c_tab : otable; c_catch : bool; c_t : Z; c_v : vals float;
  cx_names : list string; cx_v : vals float; cx_exc : option Z; cx_log : list access }.

Definition check_ccase (c : ccase) : bool :=
  match fprogram_of_script (c_script c) with
  | Some (names, p) =>
    list_eqb String.eqb names (cx_names c) &&
    (let '((v', r), lg) := f_eval_pass (c_tab c) (c_catch c) p (c_t c) (c_v c) in
     vals_eqb v' (cx_v c) && optZ_eqb r (cx_exc c) && list_eqb access_eqb lg (cx_log c))
  | None => false
  end.
