(* CodeGenSrc.v — statements of the documented syntax as FLAT TOKEN SEQUENCES with an explicit layout (property C01).
   Definitions only.

   Because the parser is token-oriented and copies everything that is not a term, a statement is described as a list
   of source tokens; every expression shape of the grammar (nesting, precedence, multi-line parenthesised statements,
   any operator) is such a list:
       SGap g                 any run of characters at which no term can start: blanks, tabs, newlines, digits, dots,
                              + - * / = , ( ) [ ] > … (everything except letters, underscore, backtick, { and <)
       SVar NAME idx          NAME   or   NAME[body]         (body: any text without `]`, e.g. " -12 ", "+1")
       SBra k w1 NAME w2 idx  { NAME } / < NAME > with inner blanks w1, w2, and an optional [body]
       SFun NAME ws           a function name — possibly namespaced: np.sqrt — followed by blanks; the next token starts with "("
       SKw k                  a Python keyword (if else and or not in is …) between non-word characters
       SVerb body             a backticked fragment `body` (no backtick or newline inside)
       SLt tail               the comparison `<` (tail "") or `<=` (tail "=") — `<` is not inert: it opens an <error> term;
                              the side condition is that term_re's < NAME > alternative does not match here (lt_free: decided
                              by the regex model itself; true e.g. before a digit, `(`, `-`, `=`, and before NAME not followed
                              by blanks and `>`)
   `render` is the statement text, `items_of` what term_re.finditer is claimed to return on it (CodeGenSrcFacts.scan_render
   proves the claim for every well-formed list), `wf` the side conditions: names are identifiers and no keywords, a
   plain name is not followed by a character that continues it, by `[`, or (after blanks) by `(`, etc. *)
From Coq Require Import String Ascii List Bool Arith.
Import ListNotations.
Require Import Generated PyStr Lex LexFacts CodeGenLexFacts.
Open Scope string_scope.
Open Scope nat_scope.

Inductive stok : Type :=
| SGap (g : string)
| SVar (name : string) (idx : option string)
| SBra (par : bool) (w1 name w2 : string) (idx : option string)      (* par = true: { }, false: < > *)
| SFun (name ws : string)
| SKw (k : string)
| SVerb (body : string)
| SLt (tail : string).

Definition idx_text (idx : option string) : string :=
  match idx with None => "" | Some b => String "[" (b ++ "]") end.
Definition stok_text (t : stok) : string :=
  match t with
  | SGap g => g
  | SVar n idx => n ++ idx_text idx
  | SBra true w1 n w2 idx => String "{" (w1 ++ n ++ w2 ++ String "}" (idx_text idx))
  | SBra false w1 n w2 idx => String "<" (w1 ++ n ++ w2 ++ String ">" (idx_text idx))
  | SFun n ws => n ++ ws
  | SKw k => k
  | SVerb b => String "`" (b ++ "`")
  | SLt tail => String "<" tail
  end.
Fixpoint render (ts : list stok) : string :=
  match ts with [] => "" | t :: r => stok_text t ++ render r end.

Definition idx_len (idx : option string) : nat := match idx with None => 0 | Some b => 2 + String.length b end.
Definition idx_group (idx : option string) : option string := match idx with None => None | Some b => Some (re_strip b) end.

(* the match term_re is claimed to produce for a term token *)
Definition stok_match (t : stok) : option tmatch :=
  match t with
  | SGap _ => None
  | SVar n idx => Some (mkMatch KVariable n (idx_group idx) (String.length n + idx_len idx))
  | SBra par w1 n w2 idx =>
    Some (mkMatch (if par then KParameter else KError) n (idx_group idx)
                  (2 + String.length w1 + String.length n + String.length w2 + idx_len idx))
  | SFun n ws => Some (mkMatch KFunction n None (String.length n + String.length ws))
  | SKw k => Some (mkMatch KKeyword k None (String.length k))
  | SVerb b => Some (mkMatch KVerbatim (String "`" (b ++ "`")) None (2 + String.length b))
  | SLt _ => None
  end.

Fixpoint items_of (pos : nat) (ts : list stok) : list item :=
  match ts with
  | [] => []
  | t :: r =>
    ((match stok_match t with
      | Some m => [Tok pos m]
      | None => map Chr (list_ascii_of_string (stok_text t))
      end) ++ items_of (pos + String.length (stok_text t)) r)%list
  end.

Definition idx_ok (idx : option string) : bool :=
  match idx with None => true | Some b => negb (has_char "]" b) && negb (has_nl (re_strip b)) end.
Fixpoint in_kw (name : string) (kws : list string) : bool :=
  match kws with [] => false | k :: r => String.eqb name k || in_kw name r end.

(* `<` followed by s does not open an <error> term *)
Definition lt_free (s : string) : bool :=
  match try_bracketed "<" ">" KError (String "<" s) with None => true | Some _ => false end.

(* the \b state after a text (LexFacts.last_word) is threaded through the sequence: a keyword needs a non-word
   character (or the beginning of the text) before it *)
(* side conditions of one token, given whether the character before it is a word character and the text that follows it *)
Definition stok_ok (pw : bool) (t : stok) (rest : string) : bool :=
  match t with
  | SGap g => all_chars inert g
  | SVar n None => ident n && negb (in_kw n KW) && var_follow rest
  | SVar n (Some b) => ident n && negb (in_kw n KW) && idx_ok (Some b)
  | SBra _ w1 n w2 None =>
    ident n && all_chars is_space w1 && all_chars is_space w2 && head_ok (fun c => negb (Ascii.eqb c "[")) rest
  | SBra _ w1 n w2 (Some b) => ident n && all_chars is_space w1 && all_chars is_space w2 && idx_ok (Some b)
  | SFun n ws => fname n && all_chars is_space ws && head_is "(" rest        (* exp, f, np.sqrt, a.b.c … *)
  | SKw k => negb pw && in_kw k KW && head_ok (fun c => negb (is_word c)) rest &&
             head_ok (fun c => negb (Ascii.eqb c "[")) (skip_ws rest)
  | SVerb b => match b with
               | String c _ => negb (Ascii.eqb c nl) && negb (has_char "`" b) && negb (has_nl b)
               | "" => false
               end
  | SLt tail => (String.eqb tail "" || String.eqb tail "=") && lt_free (tail ++ rest)
  end.
Fixpoint wf_at (pw : bool) (ts : list stok) : bool :=
  match ts with [] => true | t :: r => stok_ok pw t (render r) && wf_at (last_word pw (stok_text t)) r end.
Definition wf (ts : list stok) : bool := wf_at false ts.
